(* C06 — random forests.  Property theorems only: each is closed by assembling lemmas of
   C06/Proofs*.v; its assumptions are printed by the check.  Statements are about the executable
   model SC.C06.Model (generic in `Ops T`; `ROps` = exact real arithmetic, `FOps` = binary64) built on
   C05's tree model; the correspondence check ties it to src/ensemble/random_forest_{classifier,
   regressor}.rs by replaying recorded generator draws.

   The random generator is not modelled: `oracle t` = (the values `gen_range` returned while the
   bootstrap sample of tree t was drawn, the features tried at each node of tree t).  Every theorem
   quantifies over ALL oracles, hence over all seeds.  Seed reproducibility itself is trivial in a
   functional model and is deliberately not a theorem (DESIGN 3.3): it is checked at run time by
   fitting twice and comparing bytes.

   Vocabulary
   - `class_rows yi l`            rows whose class index is l;  `class_total yi s l` the number of
                                  draws of the sample s that hit those rows;
   - `member_preds O trees row p` p lists the member trees' own predictions for `row` in tree order
                                  (`member_vals` for the regressor);
   - `oob_members trees masks i`  the trees whose stored mask is `false` at row i, in tree order;
   - `node_vars p mtry draws`     the features find_best_cutoff tries at a node: 0..p-1, shuffled by
                                  rand 0.8's Fisher-Yates loop `shuffle_model` (driven by `draws`, the
                                  values gen_index returned) iff mtry < p, then the first mtry entries;
                                  `fy_draws_ok k draws`: iteration i = k..1 receives a value <= i. *)
From Coq Require Import List Arith ZArith Bool Reals Lra Lia Floats Permutation.
From SC Require Import Base.FloatUtil Base.FloatError.
From SC Require Import Base.Num C05.Model C05.ProofsGrow C05.ProofsReg C05.ProofsCls C06.Model
     C06.ProofsBoot C06.ProofsAgg C06.ProofsFit C06.ProofsRange C06.ProofsTie C06.ProofsTotal C06.ProofsInst C06.ProofsOob C06.ProofsE2E
     C06.ProofsMtry C06.ProofsMtryCorr C06.ProofsFloat.
From SC Require C06.Corr.
From SC Require C05.Corr C05.ProofsFloatFit C06.ProofsFloatFit.
Import ListNotations.
Local Open Scope nat_scope.

(* bootstrap_stratified (sampler level): for EVERY draw sequence on which the classifier's
   sample_with_replacement returns, the sample has one count per row, every class l < k receives
   exactly as many draws as it has rows, every non-empty class keeps at least one row, and rows whose
   class index is out of range receive nothing.  Axiom-free. *)
Theorem C06_bootstrap_stratified : forall yi k draws samples,
  cls_sample_with_replacement yi k draws = Some samples ->
  length samples = length yi /\
  (forall l, l < k -> class_total yi samples l = length (class_rows yi l)) /\
  (forall l, l < k -> class_rows yi l <> [] -> exists i, In i (class_rows yi l) /\ 0 < nth i samples 0) /\
  (forall i, k <= nth i yi 0 -> nth i samples 0 = 0) /\
  ((forall i, i < length yi -> nth i yi 0 < k) -> sum_nat samples = length yi).
Proof.
  intros yi k draws samples H. destruct (cls_sample_stratified yi k draws samples H) as (A & B & C & D).
  repeat split; auto. intros Hk. exact (cls_sample_total yi k draws samples Hk H).
Qed.

(* the regressor's plain bootstrap: n counts that sum to n, for every draw sequence *)
Theorem C06_bootstrap_plain : forall nrows draws samples,
  reg_sample_with_replacement nrows draws = Some samples ->
  length samples = nrows /\ sum_nat samples = nrows.
Proof. exact reg_sample_total. Qed.

(* the samplers return on EVERY sequence of values `gen_range` can produce (class by class, |class l|
   values below |class l|; resp. n values below n): the two theorems above are not vacuous for any seed *)
Theorem C06_bootstrap_total : forall yi k nrows draws,
  (draws_ok (map (fun l => length (class_rows yi l)) (seq 0 k)) draws ->
   exists samples, cls_sample_with_replacement yi k draws = Some samples) /\
  (nrows <= length draws -> Forall (fun xi => xi < nrows) draws ->
   exists samples, reg_sample_with_replacement nrows draws = Some samples).
Proof.
  intros yi k nrows draws. split; [apply cls_sample_total_fn|apply reg_sample_total_fn].
Qed.

(* n_trees_members (classifier): a fitted forest holds exactly n_trees member trees; with
   keep_samples it stores one mask of n entries per tree, without it none.  Any number type. *)
Theorem C06_n_trees_members_classifier : forall T (O : Ops T) lg2 crit x y n_trees oracle md msl mss keep f,
  fit_cforest O lg2 crit x y n_trees oracle md msl mss keep = Some f ->
  length (cf_trees f) = n_trees /\
  (keep = false -> cf_samples f = None) /\
  (keep = true -> exists masks, cf_samples f = Some masks /\ length masks = n_trees /\
                                Forall (fun m => length m = length y) masks).
Proof. exact @cforest_members. Qed.

(* n_trees_members (regressor), together with what each member is: tree t was grown by
   fit_weak_learner on a bootstrap sample s of n draws, and the stored mask t is the support of s *)
Theorem C06_n_trees_members_regressor : forall T (O : Ops T) x y n_trees oracle md msl mss keep f,
  fit_rforest O x y n_trees oracle md msl mss keep = Some f ->
  length (rf_trees f) = n_trees /\
  (keep = false -> rf_samples f = None) /\
  (keep = true -> exists masks, rf_samples f = Some masks /\ length masks = n_trees /\
                                Forall (fun m => length m = length x) masks) /\
  forall t, t < n_trees -> exists s tr,
    fit_regressor_weak O x y s (snd (oracle t)) md msl mss = Some tr /\
    nth_error (rf_trees f) t = Some tr /\ length s = length x /\ sum_nat s = length x /\
    (keep = true -> exists masks, rf_samples f = Some masks /\ nth_error masks t = Some (mask_of s)).
Proof. exact @rforest_members. Qed.

(* bootstrap_stratified (forest level, in terms of the ORIGINAL labels, exact arithmetic): in a
   fitted classifier forest every member tree t was grown on a sample s of n draws in which every
   label v of the training set has exactly as many draws as it has rows, and at least one row of
   label v is in the sample — and in the stored mask. *)
Theorem C06_bootstrap_contains_every_class : forall lg2 crit x y n_trees oracle md msl mss keep f,
  fit_cforest ROps lg2 crit x y n_trees oracle md msl mss keep = Some f ->
  forall t, t < n_trees ->
  exists s tr,
    fit_classifier_weak ROps lg2 crit x y s (snd (oracle t)) md msl mss = Some tr /\
    nth_error (cf_trees f) t = Some tr /\ length s = length y /\ sum_nat s = length y /\
    (keep = true -> exists masks, cf_samples f = Some masks /\ nth_error masks t = Some (mask_of s)) /\
    forall v, In v y ->
      nsum (fun i => nth i s 0) (filter (fun i => Reqb (nth i y 0%R) v) (seq 0 (length y))) =
      length (filter (fun i => Reqb (nth i y 0%R) v) (seq 0 (length y))) /\
      exists i, i < length y /\ nth i y 0%R = v /\ 0 < nth i s 0 /\ nth i (mask_of s) false = true.
Proof.
  intros lg2 crit x y n oracle md msl mss keep f H t Ht.
  refine (cforest_bootstrap_stratified ROps lg2 _ _ crit x y n oracle md msl mss keep f 0%R H t Ht).
  - intros a b E. apply Reqb_true. exact E.
  - intros a. apply Reqb_true. reflexivity.
Qed.

(* forest_vote: the class index the forest predicts for a row is a plurality class of the member
   trees' own predictions for that row.  Any number type, any list of member trees. *)
Theorem C06_forest_vote : forall T (O : Ops T) (f : cforest T) row c,
  0 < length (cf_classes f) ->
  cf_predict_for_row O f row = Some c ->
  exists preds, member_preds O (cf_trees f) row preds /\
                Forall (fun c' => c' < length (cf_classes f)) preds /\
                c < length (cf_classes f) /\
                forall c', count_occ Nat.eq_dec preds c' <= count_occ Nat.eq_dec preds c.
Proof. exact @cf_predict_for_row_plurality. Qed.

(* ... and ties are broken towards the smallest class index (which_max keeps the first maximum):
   every class with a smaller index has strictly fewer votes *)
Theorem C06_forest_vote_tie_break : forall T (O : Ops T) (f : cforest T) row c preds,
  cf_predict_for_row O f row = Some c -> member_preds O (cf_trees f) row preds ->
  forall c', c' < c -> count_occ Nat.eq_dec preds c' < count_occ Nat.eq_dec preds c.
Proof. exact @cf_predict_for_row_first_max. Qed.

(* forest_mean: the regressor's prediction is the sum of the member trees' predictions (added in tree
   order starting from 0) divided by the number of trees — for every number type, so over binary64 it
   is the rounded mean in exactly this order ... *)
Theorem C06_forest_mean : forall T (O : Ops T) (f : rforest T) row v,
  rf_predict_for_row O f row = Some v ->
  exists preds, member_vals O (rf_trees f) row preds /\
                v = O.(odiv) (fold_left O.(oadd) preds O.(o0)) (ofn O (length preds)).
Proof. exact @rf_predict_for_row_mean. Qed.
(* ... and over the reals the arithmetic mean *)
Theorem C06_forest_mean_exact : forall (f : rforest R) row v,
  rf_predict_for_row ROps f row = Some v ->
  exists preds, member_vals ROps (rf_trees f) row preds /\ (v = Rsum preds / IZN (length preds))%R.
Proof. exact rf_mean_R. Qed.

(* oob_uses_exactly_unsampled_trees.  (1) A tree takes part in the out-of-bag aggregation of row i
   iff its stored mask is `false` at i;  (2) for a fitted forest that mask entry is `false` iff the
   bootstrap sample the tree was grown on does not contain row i (C06_n_trees_members_regressor /
   C06_bootstrap_contains_every_class give `mask t = mask_of s`);  (3) entry i of predict_oob is the
   ordinary forest prediction (vote resp. mean) of exactly that sub-forest on training row i. *)
Theorem C06_oob_members_are_the_unsampled_trees : forall Tr (trees : list Tr) masks i tr,
  In tr (oob_members trees masks i) <->
  exists t m, nth_error trees t = Some tr /\ nth_error masks t = Some m /\ nth i m true = false.
Proof. exact @oob_members_In. Qed.

Theorem C06_mask_false_iff_not_sampled : forall s i, i < length s ->
  (nth i (mask_of s) true = false <-> nth i s 0 = 0).
Proof. exact mask_of_false. Qed.

Theorem C06_oob_classifier : forall T (O : Ops T) (f : cforest T) x out,
  cf_predict_oob O f x = Some out ->
  exists masks, cf_samples f = Some masks /\ length out = length x /\
    forall i, i < length x ->
      exists c, cf_predict_for_row O (mkCF (oob_members (cf_trees f) masks i) (cf_classes f) None) (nth i x []) = Some c /\
                nth_error (cf_classes f) c = nth_error out i /\ c < length (cf_classes f).
Proof. exact @cf_predict_oob_spec. Qed.

Theorem C06_oob_regressor : forall T (O : Ops T) (f : rforest T) x out,
  rf_predict_oob O f x = Some out ->
  exists masks, rf_samples f = Some masks /\ length out = length x /\
    forall i, i < length x ->
      exists v, rf_predict_for_row O (mkRF (oob_members (rf_trees f) masks i) None) (nth i x []) = Some v /\
                nth_error out i = Some v.
Proof. exact @rf_predict_oob_spec. Qed.

(* oob_uses_exactly_unsampled_trees, assembled for FITTED forests: the bootstrap samples `ss` the
   member trees were grown on exist as one list (tree t = fit_weak_learner on sample t), the stored masks
   are their supports, and entry i of predict_oob is the forest prediction (mean resp. vote) of exactly
   the trees, selected by position, whose sample has count 0 at training row i.  Any number type. *)
Theorem C06_oob_uses_exactly_unsampled_trees_regressor : forall T (O : Ops T) x y n_trees oracle md msl mss f out,
  fit_rforest O x y n_trees oracle md msl mss true = Some f ->
  rf_predict_oob O f x = Some out ->
  exists ss : list (list nat),
    length ss = n_trees /\ Forall (fun s => length s = length x /\ sum_nat s = length x) ss /\
    rf_samples f = Some (map mask_of ss) /\
    (forall t, t < n_trees ->
       fit_regressor_weak O x y (nth t ss []) (snd (oracle t)) md msl mss = nth_error (rf_trees f) t) /\
    forall i, i < length x ->
      nth_error out i =
      rf_predict_for_row O (mkRF (map fst (filter (fun ts => nth i (snd ts) 0 =? 0) (combine (rf_trees f) ss))) None)
                         (nth i x []).
Proof. exact @rforest_oob_exact. Qed.

Theorem C06_oob_uses_exactly_unsampled_trees_classifier : forall T (O : Ops T) lg2 crit x y n_trees oracle md msl mss f out,
  length y = length x ->
  fit_cforest O lg2 crit x y n_trees oracle md msl mss true = Some f ->
  cf_predict_oob O f x = Some out ->
  exists ss : list (list nat),
    length ss = n_trees /\ Forall (fun s => length s = length x) ss /\
    cf_samples f = Some (map mask_of ss) /\
    (forall t, t < n_trees ->
       fit_classifier_weak O lg2 crit x y (nth t ss []) (snd (oracle t)) md msl mss = nth_error (cf_trees f) t) /\
    forall i, i < length x ->
      exists c,
        cf_predict_for_row O (mkCF (map fst (filter (fun ts => nth i (snd ts) 0 =? 0) (combine (cf_trees f) ss)))
                                   (cf_classes f) None) (nth i x []) = Some c /\
        nth_error (cf_classes f) c = nth_error out i /\ c < length (cf_classes f).
Proof. exact @cforest_oob_exact. Qed.

(* labels_are_originals: every value returned by predict (for any rows) and by predict_oob of a
   fitted classifier forest is one of the training labels.  Any number type. *)
Theorem C06_labels_are_originals : forall T (O : Ops T) lg2 crit x y n_trees oracle md msl mss keep f,
  fit_cforest O lg2 crit x y n_trees oracle md msl mss keep = Some f ->
  (forall rows out, cf_predict O f rows = Some out -> Forall (fun v => In v y) out) /\
  (forall out, cf_predict_oob O f x = Some out -> Forall (fun v => In v y) out).
Proof. exact @cforest_labels_original. Qed.

(* regressor_within_target_range (exact arithmetic): every prediction of a fitted regressor forest —
   for ANY row, seen or unseen — and every out-of-bag prediction of a training row that has at least
   one out-of-bag tree lies between the smallest and the largest training target.  Weighted means of
   weighted means.  No hypothesis on the feature orders or on the oracle: composed with C05's
   end-to-end leaf-value theorem (quick_argsort proved to return a sorting permutation over R); tried
   entries that are not column indices are shown to be no-ops (C06/ProofsE2E.v). *)
Theorem C06_regressor_within_target_range : forall x y n_trees oracle md msl mss keep f lo hi,
  x <> [] -> length y = length x -> 1 <= msl -> 0 < n_trees ->
  (forall i, i < length y -> (lo <= nth i y 0 <= hi)%R) ->
  fit_rforest ROps x y n_trees oracle md msl mss keep = Some f ->
  (forall row v, rf_predict_for_row ROps f row = Some v -> (lo <= v <= hi)%R) /\
  (forall out masks, rf_predict_oob ROps f x = Some out -> rf_samples f = Some masks ->
     forall i v, i < length x -> nth_error out i = Some v ->
       oob_members (rf_trees f) masks i <> [] -> (lo <= v <= hi)%R).
Proof.
  intros x y n oracle md msl mss keep f lo hi NE Hy Hmsl Hn Hb H.
  pose proof (rforest_in_range_e2e x y n oracle md msl mss keep f lo hi NE Hy Hmsl Hb H) as F.
  destruct (rforest_members ROps x y n oracle md msl mss keep f H) as (L & _).
  split.
  - intros row v P. destruct f as [trees smp]. cbn [rf_trees] in *.
    apply (forest_in_range lo hi trees smp row v F); [|exact P]. intros ->. cbn in L. lia.
  - intros out masks P S i v Hi Hv NEm.
    destruct (rf_predict_oob_spec ROps f x out P) as (masks' & S' & _ & Q). rewrite S in S'. injection S' as <-.
    destruct (Q i Hi) as (v' & P' & Hv'). rewrite Hv in Hv'. injection Hv' as <-.
    apply (forest_in_range lo hi _ None (nth i x []) v (oob_members_sub _ masks i _ F) NEm P').
Qed.

(* member trees of a fitted classifier forest (exact arithmetic for the feature comparisons): tree t
   was grown on a bootstrap sample s of n draws (whose support is the stored mask), and the output of
   EVERY node k of it is a class index with maximal bootstrap-weighted count among the training rows
   routed to k — a majority class; `G k` is the weight vector of node k (row i has weight s[i] if it
   is routed to k and 0 otherwise), `cvec` the per-class totals, `yi` the class index of each row.
   C05_leaf_value_classification_weak composed with the fit structure; no hypothesis on the oracle. *)
Theorem C06_member_trees_majority : forall lg2 crit x y n_trees oracle md msl mss keep f,
  length y = length x ->
  fit_cforest ROps lg2 crit x y n_trees oracle md msl mss keep = Some f ->
  forall t, t < n_trees ->
  exists s classes nodes d,
    nth_error (cf_trees f) t = Some (classes, nodes, d) /\
    length s = length x /\ sum_nat s = length x /\
    (keep = true -> exists masks, cf_samples f = Some masks /\ nth_error masks t = Some (mask_of s)) /\
    exists yi, length yi = length x /\
      (forall i, i < length x -> nth i yi 0 < length classes /\ nth (nth i yi 0) classes 0%R = nth i y 0%R) /\
      exists G D, tree_consistent ROps 0 x msl (cls_out_ok x yi (length classes)) s nodes G D /\
        (forall i k, i < length x -> k < length nodes ->
          (route ROps nodes (nth i x []) k -> nth i (G k) 0 = nth i s 0) /\
          (~ route ROps nodes (nth i x []) k -> nth i (G k) 0 = 0)) /\
        forall k, k < length nodes ->
          output (nth k nodes (dnode 0)) < length classes /\
          forall c, nth c (cvec x yi (length classes) (G k)) 0 <=
                    nth (output (nth k nodes (dnode 0))) (cvec x yi (length classes) (G k)) 0.
Proof. exact cforest_member_majority. Qed.

(* ------------------------------------------------------------------------------------------ *)
(* mtry and the features tried at a node (C06/ProofsMtry.v, C06/ProofsMtryCorr.v)              *)
(* ------------------------------------------------------------------------------------------ *)
(* mtry_default: both forests use `parameters.m.unwrap_or(floor(sqrt(num_attributes)))`.  A user value
   is passed through unchanged (also 0 and values above p: no clamp in the code); the default is THE
   integer r with r^2 <= p < (r+1)^2, lies in 1..p for every p >= 1 and is < p as soon as p >= 2 (so the
   default shuffles at every node unless there is a single feature).  Axiom-free.  (That the code's
   floating-point `sqrt().floor()` equals this integer is validated per run, not proved.) *)
Theorem C06_mtry_default : forall p,
  (forall m, mtry_of (Some m) p = m) /\
  (mtry_of None p * mtry_of None p <= p < S (mtry_of None p) * S (mtry_of None p)) /\
  (forall r, r * r <= p < S r * S r -> mtry_of None p = r) /\
  (1 <= p -> 1 <= mtry_of None p <= p) /\
  (2 <= p -> mtry_of None p < p).
Proof. exact mtry_of_spec. Qed.

(* the boolean validators the correspondence evaluates on every recorded feature list are EXACT:
   nodupb decides NoDup; vars_okb p mtry vs holds iff vs consists of min(mtry,p) distinct column
   indices, iff vs is the mtry-prefix of some permutation of 0..p-1 *)
Theorem C06_vars_okb_exact : forall p mtry,
  (forall l, nodupb l = true <-> NoDup l) /\
  (forall vs, vars_okb p mtry vs = true <->
              length vs = Nat.min mtry p /\ (forall j, In j vs -> j < p) /\ NoDup vs) /\
  (forall vs, vars_okb p mtry vs = true <->
              exists perm, Permutation (seq 0 p) perm /\ vs = firstn mtry perm).
Proof.
  intros p mtry. split; [exact nodupb_NoDup|]. split; [exact (vars_okb_valid p mtry)|].
  intros vs. rewrite vars_okb_valid. exact (valid_subsample_iff_prefix p mtry vs).
Qed.

(* shuffle_is_permutation: the transliterated Fisher-Yates loop of rand 0.8 (`for i in (1..len).rev()
   { swap(i, gen_index(rng, i+1)) }`, `draws` = the values gen_index returned) returns a permutation
   of its input for EVERY draw sequence on which it returns, for every element type ... *)
Theorem C06_shuffle_is_permutation : forall A (l : list A) draws l',
  shuffle_model l draws = Some l' -> Permutation l l'.
Proof. exact @shuffle_model_perm. Qed.
(* ... it returns on every sequence gen_index can produce (iteration i receives a value <= i) ... *)
Theorem C06_shuffle_total : forall A (l : list A) draws,
  fy_draws_ok (length l - 1) draws -> exists l', shuffle_model l draws = Some l'.
Proof. exact @shuffle_model_total. Qed.
(* ... and every permutation of the input is produced by some such sequence *)
Theorem C06_shuffle_reaches_every_permutation : forall A (l l' : list A),
  Permutation l l' ->
  exists draws, fy_draws_ok (length l - 1) draws /\ shuffle_model l draws = Some l'.
Proof. exact @shuffle_model_surjective. Qed.

(* feature_subsample_valid: whatever the generator returns, the features tried at a node
   (`node_vars p mtry draws`: 0..p-1, shuffled iff mtry < p, first mtry entries) are min(mtry,p) distinct
   column indices, pass the boolean check, and are all features in order when mtry >= p; the model
   returns on every sequence gen_index can produce; and conversely every list accepted by vars_okb is
   a possible value (so "vars_okb = true" on a recorded list says exactly: a possible subsample). *)
Theorem C06_feature_subsample_valid : forall p mtry,
  (forall draws vs, node_vars p mtry draws = Some vs ->
     length vs = Nat.min mtry p /\ (forall j, In j vs -> j < p) /\ NoDup vs /\ vars_okb p mtry vs = true) /\
  (forall draws, p <= mtry -> node_vars p mtry draws = Some (seq 0 p)) /\
  (forall draws, fy_draws_ok (p - 1) draws -> exists vs, node_vars p mtry draws = Some vs) /\
  (forall vs, mtry < p -> vars_okb p mtry vs = true ->
     exists draws, fy_draws_ok (p - 1) draws /\ node_vars p mtry draws = Some vs).
Proof.
  intros p mtry. split.
  - intros draws vs H. destruct (node_vars_valid p mtry draws vs H) as ((A & B & C) & D & _). auto.
  - split; [intros draws; exact (node_vars_all p mtry draws)|].
    split; [intros draws; exact (node_vars_total p mtry draws)|exact (vars_okb_reachable p mtry)].
Qed.

(* what a passed correspondence case has established about the recorded oracle (Corr.oracle_okb is a
   conjunct of every whole-forest correspondence term): every tree consumed exactly n draws, and every
   feature list the model's member trees are given is all of 0..p-1 (node ids without a record) or
   min(mtry,p) distinct column indices, i.e. the mtry-prefix of a permutation of 0..p-1 *)
Theorem C06_recorded_features_valid : forall n p mtry (l : SC.C06.Corr.oracle_lit),
  SC.C06.Corr.oracle_okb n p mtry l = true ->
  forall t, t < length l ->
    length (fst (SC.C06.Corr.oracle_of p l t)) = n /\
    forall id, let vs := snd (SC.C06.Corr.oracle_of p l t) id in
      vs = seq 0 p \/
      ((length vs = Nat.min mtry p /\ (forall j, In j vs -> j < p) /\ NoDup vs) /\
       exists perm, Permutation (seq 0 p) perm /\ vs = firstn mtry perm).
Proof. exact oracle_okb_sound. Qed.

(* oob_members_spec: for masks that are the supports of bootstrap samples ss (as in every fitted
   forest, C06_oob_uses_exactly_unsampled_trees_classifier / _regressor), the out-of-bag sub-forest of row i is exactly the
   trees, selected by position, whose sample has count 0 at row i; C06_oob_classifier /
   C06_oob_regressor say that the out-of-bag prediction is the forest prediction of that sub-forest *)
Theorem C06_oob_members_spec : forall Tr (trees : list Tr) (ss : list (list nat)) i,
  length ss = length trees -> Forall (fun s => i < length s) ss ->
  oob_members trees (map mask_of ss) i =
  map fst (filter (fun ts => nth i (snd ts) 0 =? 0) (combine trees ss)).
Proof. exact @oob_members_by_count. Qed.

(* ------------------------------------------------------------------------------------------ *)
(* rounding theorems for the binary64 instance (C06/ProofsFloat.v)                             *)
(* ------------------------------------------------------------------------------------------ *)
(* classifier_votes_exact.  The aggregation of a classifier forest contains NO floating-point operation:
   the vote counters are machine integers in the code (`vec![0usize; k]`, `+= 1`) and naturals in the
   model.  (1) The forest's class index over binary64 is the function `vote_of_preds k` (k = number of
   classes) of the member trees' own class indices `tree_classes FOps trees row` (None as soon as one
   tree walk fails or one index is >= k: the panics), (2) which is the FIRST class index with the maximal
   number of votes; (3) consequently a binary64 forest and a forest over the reals whose member trees
   answer alike (and with as many classes) predict alike: binary64 and exact arithmetic can differ in a
   forest's answer only if they already differ in some member tree's answer (the routing comparisons
   `row[feature] <= threshold`, which for training rows C05_fit_classifier_float_partition describes). *)
Theorem C06_classifier_votes_exact : forall (f : cforest PrimFloat.float) (row : list PrimFloat.float),
  (cf_predict_for_row FOps f row =
     match tree_classes FOps (cf_trees f) row with
     | None => None
     | Some preds => vote_of_preds (length (cf_classes f)) preds
     end) /\
  (forall c, cf_predict_for_row FOps f row = Some c -> 0 < length (cf_classes f) ->
     exists preds, member_preds FOps (cf_trees f) row preds /\
       Forall (fun c' => c' < length (cf_classes f)) preds /\ c < length (cf_classes f) /\
       (forall c', count_occ Nat.eq_dec preds c' <= count_occ Nat.eq_dec preds c) /\
       (forall c', c' < c -> count_occ Nat.eq_dec preds c' < count_occ Nat.eq_dec preds c)) /\
  (forall (g : cforest R) (rowR : list R),
     length (cf_classes f) = length (cf_classes g) ->
     Forall2 (fun tf tg => predict_for_row FOps (ct_nodes tf) row = predict_for_row ROps (ct_nodes tg) rowR)
             (cf_trees f) (cf_trees g) ->
     cf_predict_for_row FOps f row = cf_predict_for_row ROps g rowR).
Proof. exact classifier_votes_exact. Qed.

(* the same statement for every number type at once, and the transfer between any two number types *)
Theorem C06_votes_function_of_tree_classes : forall T (O : Ops T) (f : cforest T) row,
  cf_predict_for_row O f row =
  match tree_classes O (cf_trees f) row with
  | None => None
  | Some preds => vote_of_preds (length (cf_classes f)) preds
  end.
Proof. exact @cf_predict_for_row_votes. Qed.

Theorem C06_votes_transfer : forall T1 T2 (O1 : Ops T1) (O2 : Ops T2) (f1 : cforest T1) (f2 : cforest T2) row1 row2,
  length (cf_classes f1) = length (cf_classes f2) ->
  Forall2 (fun t1 t2 => predict_for_row O1 (ct_nodes t1) row1 = predict_for_row O2 (ct_nodes t2) row2)
          (cf_trees f1) (cf_trees f2) ->
  cf_predict_for_row O1 f1 row1 = cf_predict_for_row O2 f2 row2.
Proof. exact @cf_predict_transfer. Qed.

(* regressor_mean_float_error.  The regressor's prediction over binary64 is
   fl( fl(..fl(fl(0 + o_1) + o_2).. + o_n) / fl(n) ), o_t the member trees' outputs in tree order, n the
   number of trees (converted exactly, n < 2^53).  IF THE PREDICTION IS FINITE then there is at least one
   tree, every tree output is finite, and
     |FR pred - (sum_t FR o_t)/n| <= ((1+u)^n - 1) * (sum_t |FR o_t|)/n + eta          (u = 2^-53, eta = 2^-1075)
   (n-1 roundings of the recursive sum - the first addition 0 + o_1 is exact - and one of the division,
   whose result may be subnormal); the real mean (sum_t FR o_t)/n is the value of the ROps model on every
   forest over R whose member trees return the real numbers FR o_t. *)
Theorem C06_regressor_mean_float_error : forall (f : rforest PrimFloat.float) (row : list PrimFloat.float) (v : PrimFloat.float),
  rf_predict_for_row FOps f row = Some v -> ffin v ->
  (Z.of_nat (length (rf_trees f)) < 2 ^ 53)%Z ->
  exists outs : list PrimFloat.float,
    member_vals FOps (rf_trees f) row outs /\
    let n := length (rf_trees f) in
    let o := map FR outs in
    0 < n /\ length outs = n /\ Forall ffin outs /\
    v = PrimFloat.div (fsum outs) (float_of_Z (Z.of_nat n)) /\
    (Rabs (FR v - Rsuml o / INR n) <= ((1 + u64) ^ n - 1) * (Rsumabs o / INR n) + eta64)%R /\
    (Rabs (FR v) <= (1 + u64) ^ n * (Rsumabs o / INR n) + eta64)%R /\
    (forall (g : rforest R) (rowR : list R), member_vals ROps (rf_trees g) rowR o ->
       rf_predict_for_row ROps g rowR = Some (Rsuml o / INR n)%R).
Proof. exact regressor_mean_float_error. Qed.

(* oob_float (classifier): the out-of-bag class index of training row i is the same integer vote over
   the sub-forest of out-of-bag trees; when NO tree is out of bag all counters stay 0 and the model (like
   the code) answers class index 0, i.e. the smallest label; transfer to exact arithmetic as above. *)
Theorem C06_oob_float_classifier : forall (f : cforest PrimFloat.float) masks (row : list PrimFloat.float) i,
  Forall (fun m => i < length m) masks ->
  (cf_predict_for_row_oob FOps f masks row i =
     match tree_classes FOps (oob_members (cf_trees f) masks i) row with
     | None => None
     | Some preds => vote_of_preds (length (cf_classes f)) preds
     end) /\
  (oob_members (cf_trees f) masks i = [] -> cf_predict_for_row_oob FOps f masks row i = Some 0) /\
  (forall (g : cforest R) (rowR : list R),
     length (cf_classes f) = length (cf_classes g) ->
     Forall2 (fun tf tg => predict_for_row FOps (ct_nodes tf) row = predict_for_row ROps (ct_nodes tg) rowR)
             (oob_members (cf_trees f) masks i) (cf_trees g) ->
     cf_predict_for_row_oob FOps f masks row i = cf_predict_for_row ROps g rowR).
Proof. exact classifier_oob_votes_exact. Qed.

(* oob_float (regressor): a FINITE out-of-bag value of training row i certifies that at least one tree
   is out of bag, and it is the rounded mean of the n <= n_trees out-of-bag trees' outputs with the same
   bound (the counter n is a machine integer incremented in the loop and converted exactly) ... *)
Theorem C06_oob_float_regressor : forall (f : rforest PrimFloat.float) masks (row : list PrimFloat.float) i (v : PrimFloat.float),
  Forall (fun m => i < length m) masks ->
  rf_predict_for_row_oob FOps f masks row i = Some v -> ffin v ->
  (Z.of_nat (length (rf_trees f)) < 2 ^ 53)%Z ->
  let members := oob_members (rf_trees f) masks i in
  exists outs : list PrimFloat.float,
    member_vals FOps members row outs /\
    let n := length members in
    let o := map FR outs in
    0 < n <= length (rf_trees f) /\ length outs = n /\ Forall ffin outs /\
    v = PrimFloat.div (fsum outs) (float_of_Z (Z.of_nat n)) /\
    (Rabs (FR v - Rsuml o / INR n) <= ((1 + u64) ^ n - 1) * (Rsumabs o / INR n) + eta64)%R /\
    (Rabs (FR v) <= (1 + u64) ^ n * (Rsumabs o / INR n) + eta64)%R /\
    (forall (g : rforest R) (rowR : list R), member_vals ROps (rf_trees g) rowR o ->
       rf_predict_for_row ROps g rowR = Some (Rsuml o / INR n)%R).
Proof. exact regressor_oob_mean_float_error. Qed.

(* ... and when no tree is out of bag the model (like the code) returns 0/0: a NaN, not an error *)
Theorem C06_oob_float_regressor_no_member : forall (f : rforest PrimFloat.float) masks (row : list PrimFloat.float) i,
  Forall (fun m => i < length m) masks ->
  oob_members (rf_trees f) masks i = [] ->
  exists v, rf_predict_for_row_oob FOps f masks row i = Some v /\ PrimFloat.is_nan v = true /\ ~ ffin v.
Proof. exact regressor_oob_no_member_nan. Qed.

(* a consequence, towards the binary64 form of regressor_within_target_range: if every (finite) member
   tree output for the row lies in [lo, hi] (as real numbers) then a finite forest prediction lies in
   [lo - E, hi + E] with E = ((1+u)^n - 1) * max(|lo|,|hi|) + eta: the float mean leaves the range of
   the tree outputs by rounding only, by at most n ulp-sized steps relative to the range's magnitude.
   (That the member trees' outputs lie in the range of the training targets over binary64 is NOT proved:
   it needs the corresponding statement for C05's weighted node means.) *)
Theorem C06_regressor_float_within_outputs_range :
  forall (f : rforest PrimFloat.float) (row : list PrimFloat.float) (v : PrimFloat.float) (lo hi : R),
  rf_predict_for_row FOps f row = Some v -> ffin v ->
  (Z.of_nat (length (rf_trees f)) < 2 ^ 53)%Z ->
  (forall tr o, In tr (rf_trees f) -> predict_for_row FOps (fst tr) row = Some o -> ffin o ->
                (lo <= FR o <= hi)%R) ->
  let n := length (rf_trees f) in
  let E := (((1 + u64) ^ n - 1) * Rmax (Rabs lo) (Rabs hi) + eta64)%R in
  (lo - E <= FR v <= hi + E)%R.
Proof. exact regressor_float_within_outputs_range. Qed.

(* C05_fit_*_float_partition carried to the member trees of a forest fitted in binary64 (bootstrap
   counts s as weights, the oracle's features tried at each node): on finite data whose computed orders
   pass the executable test orders_okb (evaluated in Coq by the correspondence on every whole-forest
   case) and with tried features that are column indices (C06_recorded_features_valid), EVERY internal
   node of EVERY member tree hands its children exactly the counted training rows that the exact test at
   the real midpoint of two consecutive counted feature values sends them, when the rounded threshold is
   below the larger value (`float_tree_partition`: C05_float_tree_partition_meaning).  With
   C06_classifier_votes_exact: binary64 enters a classifier forest's answer only through these threshold
   comparisons and the rounded gains of the split search, never through the aggregation. *)
Theorem C06_member_trees_float_partition_regressor :
  forall (x : list (list PrimFloat.float)) (y : list PrimFloat.float) n_trees oracle md msl mss keep f,
  Forall (Forall ffin) x -> SC.C05.Corr.orders_okb x = true ->
  (forall t id j, t < n_trees -> In j (snd (oracle t) id) -> j < length (hd [] x)) ->
  fit_rforest FOps x y n_trees oracle md msl mss keep = Some f ->
  forall t, t < n_trees ->
  exists s nodes d,
    nth_error (rf_trees f) t = Some (nodes, d) /\ length s = length x /\ sum_nat s = length x /\
    (keep = true -> exists masks, rf_samples f = Some masks /\ nth_error masks t = Some (mask_of s)) /\
    SC.C05.ProofsFloatFit.float_tree_partition 0%float x msl s nodes.
Proof. exact SC.C06.ProofsFloatFit.rforest_members_float_partition. Qed.

Theorem C06_member_trees_float_partition_classifier :
  forall lg2 crit (x : list (list PrimFloat.float)) (y : list PrimFloat.float) n_trees oracle md msl mss keep f,
  Forall (Forall ffin) x -> SC.C05.Corr.orders_okb x = true ->
  (forall t id j, t < n_trees -> In j (snd (oracle t) id) -> j < length (hd [] x)) ->
  fit_cforest FOps lg2 crit x y n_trees oracle md msl mss keep = Some f ->
  forall t, t < n_trees ->
  exists s classes nodes d,
    nth_error (cf_trees f) t = Some (classes, nodes, d) /\ length s = length y /\
    (keep = true -> exists masks, cf_samples f = Some masks /\ nth_error masks t = Some (mask_of s)) /\
    SC.C05.ProofsFloatFit.float_tree_partition 0 x msl s nodes.
Proof. exact SC.C06.ProofsFloatFit.cforest_members_float_partition. Qed.

(* ------------------------------------------------------------------------------------------ *)
(* extensions stated, not proved (covered by correspondence and search only)                   *)
(* ------------------------------------------------------------------------------------------ *)
(* the range clause for binary64: float means can leave the range by rounding only; stated with the
   exact bounds it is searched with a 1e-9 relative tolerance *)
Definition C06_regressor_within_target_range_float_full_statement : Prop :=
  forall x y n_trees oracle md msl mss keep f (lo hi : float),
    x <> [] -> length y = length x -> 1 <= msl -> 0 < n_trees ->
    (forall i, i < length y -> PrimFloat.leb lo (nth i y 0%float) = true /\ PrimFloat.leb (nth i y 0%float) hi = true) ->
    fit_rforest FOps x y n_trees oracle md msl mss keep = Some f ->
    forall row v, rf_predict_for_row FOps f row = Some v ->
      PrimFloat.leb lo v = true /\ PrimFloat.leb v hi = true.

(* ------------------------------------------------------------------------------------------ *)
(* the hypotheses are satisfiable (binary64 instance, evaluated by the kernel)                 *)
(* ------------------------------------------------------------------------------------------ *)
(* draws for 4 rows of class 0 then 3 rows of class 1 (each draw < class size); one feature *)
Definition ex_oracle (t : nat) : list nat * (nat -> list nat) :=
  (match t with 0 => [0; 3; 3; 1; 2; 2; 0] | 1 => [1; 1; 2; 0; 0; 1; 1] | _ => [3; 2; 1; 0; 0; 1; 2] end,
   fun _ => [0]).

Example C06_bootstrap_instance :
  cls_sample_with_replacement [0; 0; 1; 0; 1; 1; 0] 2 [0; 3; 3; 1; 2; 2; 0] = Some [1; 1; 1; 0; 0; 2; 2] /\
  reg_sample_with_replacement 5 [4; 4; 0; 2; 4] = Some [1; 0; 1; 0; 3].
Proof. split; vm_compute; reflexivity. Qed.

Example C06_classifier_instance :
  exists f,
    fit_cforest FOps (fun p => p) Gini [[1];[2];[6];[3];[7];[8];[4]]%float [-2;-2;17;-2;17;17;-2]%float 3
                ex_oracle None 1 2 true = Some f /\
    length (cf_trees f) = 3 /\ cf_classes f = [-2; 17]%float /\
    cf_samples f = Some [[true;true;true;false;false;true;true];
                         [true;true;true;true;true;false;false];
                         [true;true;true;true;true;true;true]] /\
    cf_predict FOps f [[0];[5];[9]]%float = Some [-2; -2; 17]%float /\
    cf_predict_oob FOps f [[1];[2];[6];[3];[7];[8];[4]]%float = Some [-2;-2;-2;-2;17;17;-2]%float /\
    oob_members (cf_trees f) [[true;true;true;false;false;true;true];
                              [true;true;true;true;true;false;false];
                              [true;true;true;true;true;true;true]] 3 = firstn 1 (cf_trees f).
Proof. eexists. split; [vm_compute; reflexivity|]. repeat split; vm_compute; reflexivity. Qed.

(* all hypotheses of C06_regressor_within_target_range hold together on an exact-arithmetic instance:
   3 rows, 2 bootstrap samples, orders computed by quick_argsort over R (root-only trees because
   min_samples_split exceeds the sample size, so that the fit can be evaluated symbolically) *)
Example C06_range_instance :
  exists f, fit_rforest ROps xr yr 2 orc None 1 10 true = Some f /\
            forall row v, rf_predict_for_row ROps f row = Some v -> (1 <= v <= 5)%R.
Proof.
  destruct fit_xr as (f & H & _). exists f. split; [exact H|].
  refine (proj1 (C06_regressor_within_target_range xr yr 2 orc None 1 10 true f 1%R 5%R _ _ _ _ _ H)).
  - discriminate.
  - reflexivity.
  - lia.
  - lia.
  - intros i Hi. unfold yr in *. cbn in Hi. destruct i as [|[|[|i]]]; cbn; try lra. lia.
Qed.

Example C06_regressor_instance :
  exists f,
    fit_rforest FOps [[1];[2];[6];[3];[7];[8];[4]]%float [1;2;10;3;11;12;4]%float 3
                ex_oracle None 1 2 true = Some f /\
    length (rf_trees f) = 3 /\
    rf_predict FOps f [[0];[5];[9]]%float = Some [1; 10; 10]%float /\
    option_map (fun o => skipn 3 o) (rf_predict_oob FOps f [[1];[2];[6];[3];[7];[8];[4]]%float) =
      Some [2; 10; 10; 0x1.5555555555555p+1]%float.
Proof. eexists. split; [vm_compute; reflexivity|]. repeat split; vm_compute; reflexivity. Qed.

Example C06_mtry_instance :
  mtry_of None 1 = 1 /\ mtry_of None 10 = 3 /\ mtry_of None 16 = 4 /\ mtry_of (Some 7) 10 = 7.
Proof. repeat split. Qed.

(* five features, mtry = 2, draws 2 0 1 1 for the iterations i = 4 3 2 1 *)
Example C06_shuffle_instance :
  fy_draws_ok 4 [2; 0; 1; 1] /\
  shuffle_model [0; 1; 2; 3; 4] [2; 0; 1; 1] = Some [3; 4; 1; 0; 2] /\
  node_vars 5 2 [2; 0; 1; 1] = Some [3; 4] /\ vars_okb 5 2 [3; 4] = true /\
  node_vars 5 5 [] = Some [0; 1; 2; 3; 4] /\
  vars_okb 5 2 [3; 3] = false /\ vars_okb 5 2 [3; 5] = false /\ vars_okb 5 2 [3] = false /\
  shuffle_model [0; 1; 2] [3; 0] = None.
Proof. repeat split; cbn; try lia; vm_compute; reflexivity. Qed.

Example C06_recorded_features_instance :
  SC.C06.Corr.oracle_okb 3 4 2 [([0; 2; 2]%N, [(0%N, [3; 1]%N); (2%N, [0; 3]%N)])] = true /\
  snd (SC.C06.Corr.oracle_of 4 [([0; 2; 2]%N, [(0%N, [3; 1]%N); (2%N, [0; 3]%N)])] 0) 2 = [0; 3].
Proof. split; vm_compute; reflexivity. Qed.

Example C06_oob_members_instance :
  oob_members [10; 20; 30] (map mask_of [[1; 0]; [0; 2]; [0; 1]]) 0 = [20; 30] /\
  map fst (filter (fun ts => nth 0 (snd ts) 0 =? 0) (combine [10; 20; 30] [[1; 0]; [0; 2]; [0; 1]])) = [20; 30].
Proof. split; vm_compute; reflexivity. Qed.

(* instances for the rounding theorems *)
Definition ex_x7 : list (list PrimFloat.float) := [[1];[2];[6];[3];[7];[8];[4]]%float.
Definition ex_masks : list (list bool) :=
  [[true;true;true;false;false;true;true]; [true;true;true;true;true;false;false]; [true;true;true;true;true;true;true]].

(* a fitted binary64 classifier forest: the three member trees answer 0,0,1 for the row [5]; the vote *)
Example C06_votes_instance :
  exists f,
    fit_cforest FOps (fun p => p) Gini ex_x7 [-2;-2;17;-2;17;17;-2]%float 3 ex_oracle None 1 2 true = Some f /\
    tree_classes FOps (cf_trees f) [5]%float = Some [0; 1; 0] /\
    vote_of_preds (length (cf_classes f)) [0; 1; 0] = Some 0 /\
    cf_predict_for_row FOps f [5]%float = Some 0 /\
    cf_samples f = Some ex_masks /\
    Forall (fun m => 3 < length m) ex_masks /\
    tree_classes FOps (oob_members (cf_trees f) ex_masks 3) [3]%float = Some [0] /\
    cf_predict_for_row_oob FOps f ex_masks [3]%float 3 = Some 0.
Proof.
  eexists. split; [vm_compute; reflexivity|].
  repeat split; try (vm_compute; reflexivity). repeat constructor.
Qed.

(* leaf-only member trees: a binary64 forest and a forest over R that answer alike *)
Definition leafF (c : nat) : ctree PrimFloat.float := ([1; 2]%float, [mkNode c 0 None None None None], 0).
Definition leafR (c : nat) : ctree R := ([1; 2]%R, [mkNode c 0 None None None None], 0).
Example C06_votes_transfer_instance :
  let f := mkCF [leafF 1; leafF 0; leafF 1] [1; 2]%float None in
  let g := mkCF [leafR 1; leafR 0; leafR 1] [1; 2]%R None in
  length (cf_classes f) = length (cf_classes g) /\
  Forall2 (fun tf tg => predict_for_row FOps (ct_nodes tf) [] = predict_for_row ROps (ct_nodes tg) [])
          (cf_trees f) (cf_trees g) /\
  cf_predict_for_row FOps f [] = Some 1 /\ cf_predict_for_row ROps g [] = Some 1.
Proof.
  cbv zeta. split; [reflexivity|]. split; [repeat constructor|]. split; [vm_compute; reflexivity|].
  rewrite <- (C06_votes_transfer _ _ FOps ROps (mkCF [leafF 1; leafF 0; leafF 1] [1; 2]%float None) _ [] []).
  - vm_compute. reflexivity.
  - reflexivity.
  - repeat constructor.
Qed.

(* a fitted binary64 regressor forest: the hypotheses of C06_regressor_mean_float_error (3 trees, finite
   prediction), of C06_oob_float_regressor (training row 6 is held out by all three trees; the
   out-of-bag value 8/3 is rounded) and of C06_oob_float_regressor_no_member (row 0 is in every
   bootstrap sample: NaN) hold *)
Definition ex_rmasks : list (list bool) :=
  [[true;true;true;true;false;false;false]; [true;true;true;false;false;false;false]; [true;true;true;true;false;false;false]].
Example C06_regressor_float_instance :
  exists f v w z,
    fit_rforest FOps ex_x7 [1;2;10;3;11;12;4]%float 3 ex_oracle None 1 2 true = Some f /\
    rf_predict_for_row FOps f [5]%float = Some v /\ ffin v /\
    (Z.of_nat (length (rf_trees f)) < 2 ^ 53)%Z /\
    rf_samples f = Some ex_rmasks /\
    Forall (fun m => 6 < length m) ex_rmasks /\
    rf_predict_for_row_oob FOps f ex_rmasks [4]%float 6 = Some w /\ ffin w /\
    w = 0x1.5555555555555p+1%float /\
    length (oob_members (rf_trees f) ex_rmasks 6) = 3 /\
    oob_members (rf_trees f) ex_rmasks 0 = [] /\
    rf_predict_for_row_oob FOps f ex_rmasks [1]%float 0 = Some z /\ PrimFloat.is_nan z = true.
Proof.
  eexists. eexists. eexists. eexists. split; [vm_compute; reflexivity|].
  repeat split; try (vm_compute; reflexivity). repeat constructor.
Qed.

(* leaf-only member trees with outputs 1, 2.5, 4: the theorem applied, including its ROps clause *)
Definition rleafF (o : PrimFloat.float) : rtree PrimFloat.float := ([mkNode o 0 None None None None], 0).
Definition rleafR (o : R) : rtree R := ([mkNode o 0 None None None None], 0).
Example C06_regressor_mean_instance :
  let f := mkRF [rleafF 1; rleafF 2.5; rleafF 4]%float None in
  let g := mkRF [rleafR (FR 1); rleafR (FR 2.5); rleafR (FR 4)] None in
  let o := [FR 1; FR 2.5; FR 4] in
  rf_predict_for_row FOps f [] = Some 2.5%float /\ ffin 2.5%float /\
  member_vals ROps (rf_trees g) [] o /\
  rf_predict_for_row ROps g [] = Some (Rsuml o / INR 3)%R /\
  (Rabs (FR 2.5 - Rsuml o / INR 3) <= ((1 + u64) ^ 3 - 1) * (Rsumabs o / INR 3) + eta64)%R.
Proof.
  cbv zeta.
  assert (H : rf_predict_for_row FOps (mkRF [rleafF 1; rleafF 2.5; rleafF 4]%float None) [] = Some 2.5%float)
    by (vm_compute; reflexivity).
  assert (Hf : ffin 2.5%float) by reflexivity.
  destruct (C06_regressor_mean_float_error _ _ _ H Hf) as (outs & M & _ & _ & _ & _ & B & _ & G).
  { vm_compute. reflexivity. }
  assert (E : outs = [1; 2.5; 4]%float).
  { cbn [rf_trees] in M. inversion M as [|? o1 ? l1 H1 M1]; subst. inversion M1 as [|? o2 ? l2 H2 M2]; subst.
    inversion M2 as [|? o3 ? l3 H3 M3]; subst. inversion M3; subst.
    vm_compute in H1, H2, H3. congruence. }
  subst outs. cbn [rf_trees length map] in B, G.
  assert (Mg : member_vals ROps [rleafR (FR 1); rleafR (FR 2.5); rleafR (FR 4)] [] [FR 1; FR 2.5; FR 4])
    by (repeat constructor).
  split; [exact H|]. split; [exact Hf|]. split; [exact Mg|]. split; [|exact B].
  exact (G (mkRF [rleafR (FR 1); rleafR (FR 2.5); rleafR (FR 4)] None) [] Mg).
Qed.

(* the hypotheses of C06_regressor_float_within_outputs_range on leaf-only trees with outputs 1, 2, 4 *)
Example C06_regressor_float_range_instance :
  let f := mkRF [rleafF 1; rleafF 2; rleafF 4]%float None in
  exists v, rf_predict_for_row FOps f [] = Some v /\ ffin v /\
    let E := (((1 + u64) ^ 3 - 1) * Rmax (Rabs 1) (Rabs 4) + eta64)%R in (1 - E <= FR v <= 4 + E)%R.
Proof.
  cbv zeta. eexists. split; [vm_compute; reflexivity|]. split; [reflexivity|].
  refine (C06_regressor_float_within_outputs_range (mkRF [rleafF 1; rleafF 2; rleafF 4]%float None) [] _ 1%R 4%R _ _ _ _).
  - vm_compute. reflexivity.
  - reflexivity.
  - vm_compute. reflexivity.
  - assert (F1 : FR 1%float = 1%R) by (exact (proj2 (float_of_Z_exact 1 ltac:(lia)))).
    assert (F2 : FR 2%float = 2%R) by (exact (proj2 (float_of_Z_exact 2 ltac:(lia)))).
    assert (F4 : FR 4%float = 4%R) by (exact (proj2 (float_of_Z_exact 4 ltac:(lia)))).
    intros tr o [<-|[<-|[<-|[]]]] Ho _; vm_compute in Ho; injection Ho as <-; rewrite ?F1, ?F2, ?F4; lra.
Qed.

(* the hypotheses of C06_member_trees_float_partition_* hold on the fitted forests above *)
Example C06_member_trees_float_partition_instance :
  Forall (Forall ffin) ex_x7 /\ SC.C05.Corr.orders_okb ex_x7 = true /\
  (forall t id j, t < 3 -> In j (snd (ex_oracle t) id) -> j < length (hd [] ex_x7)) /\
  (exists f, fit_rforest FOps ex_x7 [1;2;10;3;11;12;4]%float 3 ex_oracle None 1 2 true = Some f) /\
  (exists f, fit_cforest FOps (fun p => p) Gini ex_x7 [-2;-2;17;-2;17;17;-2]%float 3 ex_oracle None 1 2 true = Some f).
Proof.
  split; [repeat constructor|]. split; [vm_compute; reflexivity|]. split.
  - intros t id j _ [<-|[]]. cbn. lia.
  - split; eexists; vm_compute; reflexivity.
Qed.
