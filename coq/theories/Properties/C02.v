(* C02 — eigen-decomposition.  Property theorems only (each closed by `exact <lemma>`); their
   assumptions are printed by the check.

   Symmetric clause: PARTIAL CORRECTNESS THEOREM in exact arithmetic.  tred2, the QL sweeps of tql2 and
   its final sort are modelled (ModelTred2.v, ModelTql2.v, Model.v) and tied to the code by
   correspondence (tred2 bit-exact, tql2 by tolerance because of libm's hypot).  Proved for every order
   and every symmetric matrix: tred2 returns an orthogonal V with A V = V tridiag(d, e)
   (theorems C02_tred2_...); every plane rotation and every whole QL sweep preserves 'V orthogonal and
   A V = V T' (theorems C02_tql2_...); IF the exact-arithmetic model of evd(true) returns THEN A V = V diag(d),
   V^T V = I, d non-increasing, e = 0 (C02_evd_sym_partial_correctness).  NOT proved: that it
   returns (convergence of the QL iteration), and the effect of rounding - the floating-point run is
   still decided per run by the validator `check_evd_sym` (C02_evd_sym_validated_partial).

   General clause: translation validation with supporting proofs.  elmhes + eltran are modelled and
   proved (A Z = Z H, H upper Hessenberg, Z invertible: theorems C02_elmhes_...); balance/balbak, `sort` and the
   2x2 formulas of hqr2 as before; hqr2's QR sweeps and back-substitution are NOT modelled (too
   long, not attempted): for them the property is decided per run by `check_evd_gen`
   (C02_evd_gen_validated_partial). *)
From Coq Require Import List Arith Bool Permutation Reals Floats Lia Lra.
From SC Require Import Base.Num C02.Model C02.Validator C02.ProofsSort C02.ProofsSpec C02.ProofsValid.
From SC Require Import C02.FunMat C02.ModelTred2 C02.ProofsHouse C02.ProofsTred2Step C02.ProofsTred2.
From SC Require Import C02.ModelTql2 C02.ProofsTql2Rot C02.ProofsTql2Sweep C02.ProofsTql2 C02.ProofsTql2Example.
From SC Require Import C02.ModelSymEvd C02.ProofsSymEvd.
From SC Require Import C02.ModelHess C02.ProofsHessAlg C02.ProofsHessStep C02.ProofsHess C02.ProofsHessGhost.
Import ListNotations.

(* ---------------- evd.rs `sort` (end of evd(false)) ---------------- *)
(* For EVERY outcome of every comparison `d[i] >= d[j]` (dec is an arbitrary function of the
   current array and the two indices; the code's own test, which re-reads an already overwritten
   d[j], is one instance) the (d_j, e_j, column j) triples after the loop are a permutation of the
   triples before it. *)
Theorem C02_sort_joint_perm : forall (T : Type) (t0 : T) (dec : list T -> nat -> nat -> bool)
    (d e : list T) (V : list (list T)) d' e' V',
  length e = length d -> length V = length d ->
  sort_model t0 dec d e V = (d', e', V') ->
  length d' = length d /\ length e' = length d /\ length V' = length d /\
  Permutation (zip3 d' e' V') (zip3 d e V).
Proof. exact @sort_joint_perm. Qed.

(* Hence `sort` keeps: every real eigenvalue with a non-zero eigenvector of A, the sum of the
   eigenvalues and the sum of their squares. *)
Theorem C02_sort_preserves_eigpairs : forall (dec : list R -> nat -> nat -> bool) A d e V d' e' V',
  length e = length d -> length V = length d ->
  sort_model 0%R dec d e V = (d', e', V') ->
  (Forall (eig_triple_ok A) (zip3 d e V) -> Forall (eig_triple_ok A) (zip3 d' e' V')) /\
  rlsum (map re3 (zip3 d' e' V')) = rlsum (map re3 (zip3 d e V)) /\
  rlsum (map sq3 (zip3 d' e' V')) = rlsum (map sq3 (zip3 d e V)).
Proof. exact sort_preserves_eigpairs. Qed.

Theorem C02_eigpairs_perm_invariant : forall A (L L' : list (R * R * list R)),
  Permutation L' L ->
  (Forall (eig_triple_ok A) L -> Forall (eig_triple_ok A) L') /\
  rlsum (map re3 L') = rlsum (map re3 L) /\
  rlsum (map sq3 L') = rlsum (map sq3 L).
Proof. exact eigpairs_perm_invariant. Qed.

(* ---------------- tail of tql2 (end of evd(true)) ---------------- *)
(* over the reals: d comes out non-increasing and (d_i, column i) stay paired *)
Theorem C02_tql2_sort_desc : forall (d : list R) (V : list (list R)) d' V',
  length V = length d ->
  tql2_sort_ops ROps d V = (d', V') ->
  length d' = length d /\ length V' = length d /\
  Permutation (combine d' V') (combine d V) /\
  forall i j, i < j -> j < length d -> (nth j d' 0 <= nth i d' 0)%R.
Proof. exact tql2_sort_desc_R. Qed.

(* for every comparison function (NaN included) the pairs are only permuted *)
Theorem C02_tql2_sort_perm : forall (T : Type) (t0 : T) (gtb : T -> T -> bool) d V d' V',
  length V = length d ->
  tql2_sort t0 gtb d V = (d', V') ->
  length d' = length d /\ length V' = length d /\ Permutation (combine d' V') (combine d V).
Proof. exact @tql2_sort_perm. Qed.

(* ---------------- balance / balbak ---------------- *)
(* B = S^-1 A S (S = diag s, s_i <> 0) and B y = lam y  imply  A (S y) = lam (S y), where S y is
   column j of what `balbak` returns *)
Theorem C02_balbak_correct : forall n s A B Y lam j,
  similar_by n s A B -> square n Y ->
  (forall i, i < n -> rresid B (rcol j Y) lam i = 0%R) ->
  (forall i, i < n -> rresid A (rcol j (balbak ROps Y s)) lam i = 0%R) /\
  ((exists i, i < n /\ nth i (rcol j Y) 0%R <> 0%R) ->
   exists i, i < n /\ nth i (rcol j (balbak ROps Y s)) 0%R <> 0%R).
Proof.
  intros n s A B Y lam j H1 H2 H3. split.
  - exact (balbak_correct n s A B Y lam j H1 H2 H3).
  - exact (balbak_nonzero n s A B Y j H1 H2).
Qed.

(* approximate form (what the search uses): the residual in the original coordinates is S times the
   residual in the balanced coordinates, and both trace identities are invariant *)
Theorem C02_balanced_coordinates : forall n s A B,
  similar_by n s A B ->
  rtrace B = rtrace A /\ rtrace2 B = rtrace2 A /\
  forall y v lam i, length y = n -> length v = n ->
    (forall k, k < n -> nth k v 0%R = (nth k s 0 * nth k y 0)%R) -> i < n ->
    rresid A v lam i = (nth i s 0 * rresid B y lam i)%R.
Proof.
  intros n s A B H. split; [exact (similar_trace n s A B H)|]. split; [exact (similar_trace2 n s A B H)|].
  intros y v lam i Hy Hv Hk Hi. exact (balbak_resid n s A B y v lam i H Hy Hv Hk Hi).
Qed.

(* ---------------- hqr2, two roots of a 2x2 block ---------------- *)
(* the two reported values have sum = trace and product = determinant of the (shifted) block
   [[y+t, b], [c, x+t]] with b*c = w; complex ones are a conjugate pair with non-zero imaginary part *)
Theorem C02_block2_spectrum : forall x y w t d1 e1 d2 e2 : R,
  block2 ROps Rcopysign x y w t = ((d1, e1), (d2, e2)) ->
  let tr := ((x + t) + (y + t))%R in
  let det := ((x + t) * (y + t) - w)%R in
  (e1 = 0 /\ e2 = 0 /\ d1 + d2 = tr /\ d1 * d2 = det)%R \/
  (d1 = d2 /\ e1 = - e2 /\ e2 < 0 /\ d1 + d2 = tr /\ d1 * d1 + e1 * e1 = det)%R.
Proof. exact block2_spectrum. Qed.

(* ---------------- the validators (decide the property per run) ---------------- *)
(* PARTIAL with respect to the property: the statement is about a given output (A, V, d, e), not about
   every output of the solver.  All numbers are the exact values of the floats. *)
Theorem C02_evd_sym_validated_partial : forall tol A V d e,
  check_evd_sym tol A V d e = true ->
  all_finite A V d e /\
  evd_sym_ok (F2R tol) (map (map F2R) A) (map (map F2R) V) (map F2R d) (map F2R e).
Proof. exact check_evd_sym_sound. Qed.

Theorem C02_evd_gen_validated_partial : forall tol1 tol2 tolv A V d e,
  check_evd_gen tol1 tol2 tolv A V d e = true ->
  all_finite A V d e /\
  evd_gen_ok (F2R tol1) (F2R tol2) (F2R tolv)
             (map (map F2R) A) (map (map F2R) V) (map F2R d) (map F2R e).
Proof. exact check_evd_gen_sound. Qed.

(* ---------------- tred2: Householder tridiagonalisation with accumulation ---------------- *)
(* Matrices are functions on indices (FunMat.v); `tridiag d e` has d on the diagonal and e i coupling
   i-1 and i.  For EVERY order n >= 1 and EVERY symmetric A the returned V is orthogonal and
   A V = V tridiag(d, e)  (equivalently V^T A V = tridiag(d, e)); e[0] = 0. *)
Theorem C02_tred2_tridiagonalises : forall n (A : mat), 1 <= n -> msym n A ->
  let '(V, d, e) := tred2 ROps n A in
  morth n V /\ meq n (mmul n A V) (mmul n V (tridiag d e)) /\ e 0 = 0%R.
Proof. exact tred2_correct. Qed.

(* the same on lists, in the vocabulary of the validators *)
Theorem C02_tred2_rows : forall (A : list (list R)) V d e,
  let n := length A in
  square n A ->
  (forall i j, i < n -> j < n -> nth j (nth i A []) 0%R = nth i (nth j A []) 0%R) ->
  tred2_rows ROps A = Some (V, d, e) ->
  square n V /\ length d = n /\ length e = n /\ nth 0 e 0%R = 0%R /\
  (forall i j, i < n -> j < n -> rdot (rcol i V) (rcol j V) = if i =? j then 1%R else 0%R) /\
  (forall i j, i < n -> j < n ->
     rdot (nth i A []) (rcol j V)
     = rsum n (fun k => (nth k (nth i V []) 0 * tridiag (vfun 0%R d) (vfun 0%R e) k j)%R)).
Proof. exact tred2_rows_correct_lists. Qed.

(* One step `i` of the reduction (state (V, d, e), row i in d): the represented matrix `cur` is
   conjugated by P = I - u u^T / H, where (u, H) are what the step stores (column i of V above the
   diagonal, d[i]) and EITHER H <> 0 and u^T u = 2H (Householder reflector) OR u = 0 (then P = I:
   this is the `scale == 0` branch, see the next theorem). *)
Theorem C02_tred2_step_similarity : forall n i (V : nat -> nat -> R) (d e : nat -> R),
  1 <= i < n -> (forall b, b < i -> d b = V i b) ->
  let '(V', d', e') := t2_step ROps i (V, d, e) in
  exists u H,
    reflok n i u H /\
    meq n (cur (i - 1) V' e') (mmul n (refl u H) (mmul n (cur i V e) (refl u H))) /\
    d' i = H /\ (forall k, k < i -> V' k i = u k) /\
    (forall r, i < r -> d' r = d r) /\ (forall r, i < r -> e' r = e r) /\
    (forall r c, (i < c \/ i < r \/ (r = i /\ c = i)) -> V' r c = V r c) /\
    (forall b, b < i - 1 -> d' b = V' (i - 1) b) /\ (forall c, c < i -> V' i c = 0%R).
Proof. exact t2_step_sim. Qed.

(* The `scale == 0` branch: the row is already zero left of the diagonal; the state then represents
   the SAME matrix one row further up, e[i] = 0, and what is stored is u = 0, h = d[i] = 0 - so
   the accumulation phase (`if h != 0`) skips the index. *)
Theorem C02_tred2_skip_branch : forall n i (V : nat -> nat -> R) (d e : nat -> R),
  1 <= i < n -> (forall b, b < i -> d b = V i b) ->
  rsum i (fun k => Rabs (d k)) = 0%R ->
  let '(V', d', e') := t2_step ROps i (V, d, e) in
  d' i = 0%R /\ e' i = 0%R /\
  (forall k, k < i -> V' k i = 0%R /\ V' i k = 0%R) /\
  meq n (cur (i - 1) V' e') (cur i V e).
Proof. exact t2_step_skip. Qed.

(* ---------------- tql2: the QL sweeps (partial correctness) ---------------- *)
(* One plane rotation, with the code's r = p.hypot(e_i) <> 0, c = p / r, s = e_i / r: the update of
   columns i, i+1 of V keeps V orthogonal and turns A V = V M into A V' = V' (G^T M G). *)
Theorem C02_tql2_rotation_preserves_invariant : forall n (A V M : mat) i p ei,
  S i < n -> hypR p ei <> 0%R ->
  let r := hypR p ei in
  let c := (p / r)%R in
  let s := (ei / r)%R in
  let V' := rot_cols ROps n i c s V in
  morth n V -> meq n (mmul n A V) (mmul n V M) ->
  morth n V' /\ meq n (mmul n A V') (mmul n V' (rotM i c s M)).
Proof. exact ql_rotation_invariant. Qed.

(* The whole QL part (everything before the final sort) in exact arithmetic: eps := 0, i.e. an
   off-diagonal element is 'negligible' only when it is exactly zero; hypot := sqrt(a^2+b^2).  The
   last component of the result is the GHOST flag 'no rotation had r = 0' (ModelTql2.v).
   IF the routine returns THEN e = 0, V is orthogonal and A V = V diag(d).  Convergence (that
   `Some` is returned, within 29 sweeps per eigenvalue) is NOT proved. *)
Theorem C02_tql2_ql_partial_correctness : forall n (A V0 : mat) (d0 e0 : nat -> R) (V : mat) (d e : nat -> R),
  morth n V0 ->
  meq n (mmul n A V0) (mmul n V0 (tridiag d0 e0)) ->
  tql2_ql ROps hypR 0%R n V0 d0 e0 = Some (V, d, e, true) ->
  (forall a, a < n -> e a = 0%R) /\ morth n V /\ meq n (mmul n A V) (mmul n V (mdiag d)).
Proof. exact tql2_ql_partial_correct. Qed.

(* ---------------- the symmetric clause as a partial-correctness theorem ---------------- *)
(* evd_sym_model = tred2 ; QL part of tql2 ; final sort (ModelSymEvd.v), over R with eps := 0.
   For every order and every symmetric A: IF the model returns (ghost flag true) THEN the result
   satisfies the symmetric clause EXACTLY (tolerance 0): A V = V diag(d), V^T V = I, d non-increasing,
   e = 0.  (Replaces the former Definition C02_evd_sym_full_statement.) *)
Theorem C02_evd_sym_partial_correctness : forall (A : list (list R)) V d e,
  let n := length A in
  square n A ->
  (forall i j, i < n -> j < n -> nth j (nth i A []) 0%R = nth i (nth j A []) 0%R) ->
  evd_sym_model ROps hypR 0%R A = Some (V, d, e, true) ->
  evd_sym_ok 0 A V d e.
Proof. exact evd_sym_partial_correct. Qed.

(* What is still NOT proved for the symmetric clause, stated in full: total correctness of the
   FLOATING-POINT routine.  `solve_sym` stands for evd(true) on binary64, u for the unit roundoff, c for
   the constant of the rounding-error bound.  Missing: (1) convergence of the QL iteration (the
   theorem above assumes the model returns; the code panics after 29 sweeps), (2) a backward error
   analysis of tred2 / tql2 (the theorem above is about exact arithmetic).  Per run the floating-point
   result is decided by the validator (C02_evd_sym_validated_partial). *)
Definition C02_evd_sym_float_total_statement
  (solve_sym : list (list float) -> list float * list float * list (list float)) (c u : R) : Prop :=
  forall A, (forall i j, nth j (nth i A []) 0%float = nth i (nth j A []) 0%float) ->
    let '(d, e, V) := solve_sym A in
    evd_sym_ok (c * INR (length A) * u) (map (map F2R) A) (map (map F2R) V) (map F2R d) (map F2R e).

(* ---------------- elmhes + eltran: reduction to Hessenberg form ---------------- *)
(* For every order n >= 1 and EVERY matrix A: with (A', perm) = elmhes A, H = the upper Hessenberg
   part of A' (what hqr2 reads), Z = eltran(A', I, perm):  A Z = Z H. *)
Theorem C02_elmhes_eltran_similarity : forall n (A : mat), 1 <= n ->
  let A' := fst (elmhes ROps n A) in
  let perm := snd (elmhes ROps n A) in
  let Z := eltran ROps n A' perm (eye ROps) in
  meq n (mmul n A Z) (mmul n Z (hess A')).
Proof. exact hess_similarity. Qed.

(* Z has a two-sided inverse (so H = Z^-1 A Z has the spectrum of A) *)
Theorem C02_elmhes_eltran_invertible : forall n (A : mat), 1 <= n ->
  let A' := fst (elmhes ROps n A) in
  let perm := snd (elmhes ROps n A) in
  let Z := eltran ROps n A' perm (eye ROps) in
  exists W, meq n (mmul n Z W) mid /\ meq n (mmul n W Z) mid.
Proof. exact hess_Z_invertible. Qed.

(* structure: Z = (P_1 L_1)(P_2 L_2)...(P_{n-2} L_{n-2}), P_m the transposition m <-> perm[m] >= m,
   L_m unit lower triangular with the stored multipliers; first row and column of Z are those of I *)
Theorem C02_eltran_product_structure : forall n (A : mat), 1 <= n ->
  let A' := fst (elmhes ROps n A) in
  let perm := snd (elmhes ROps n A) in
  let Z := eltran ROps n A' perm (eye ROps) in
  meq n Z (Zprod n A' perm 1 (n - 2)) /\
  (forall m, 1 <= m -> m + 1 < n -> m <= perm m < n) /\
  (forall c, c < n -> Z 0 c = mid 0 c) /\
  (forall r, r < n -> Z r 0 = mid r 0).
Proof. exact hess_Z_product. Qed.

(* what the in-place storage means: running the same eliminations WITHOUT storing multipliers in the
   matrix (`elmhes_ghost`: full-range swaps and row operations, multipliers recorded aside in Y) yields
   exactly H = hess A' (so H really is the reduced matrix, zero below the sub-diagonal), and the
   entries of A' below the sub-diagonal are exactly the multipliers *)
Theorem C02_elmhes_reduced_matrix : forall n (A : mat), 1 <= n ->
  let A' := fst (elmhes ROps n A) in
  let perm := snd (elmhes ROps n A) in
  let Rg := fst (fst (elmhes_ghost n A)) in
  let Y := snd (fst (elmhes_ghost n A)) in
  let gperm := snd (elmhes_ghost n A) in
  (forall r c, r < n -> c < n -> Rg r c = hess A' r c) /\
  (forall r c, r < n -> c < n -> c + 1 < r -> A' r c = Y r c) /\
  (forall r c, r < n -> c < n -> r <= c + 1 -> Y r c = 0%R) /\
  (forall k, gperm k = perm k).
Proof. exact elmhes_ghost_spec. Qed.

(* The full statement of the general clause, which is NOT proved: it quantifies over the solver's
   output for every input; `solve_gen` stands for evd(false) (balance+elmhes+eltran+hqr2+balbak+sort);
   hqr2's QR sweeps and back-substitution are not modelled (not a target: too long); u is the unit
   roundoff and c the constant of the rounding-error bound.  Missing: a model and the partial
   correctness of hqr2, convergence of the QR sweeps, and a backward error analysis. *)
Definition C02_evd_gen_full_statement
  (solve_gen : list (list float) -> list float * list float * list (list float)) (c u : R) : Prop :=
  forall A, let '(d, e, V) := solve_gen A in
    evd_gen_ok (c * INR (length A) * u) (c * INR (length A) * u) (c * INR (length A) * u)
               (map (map F2R) A) (map (map F2R) V) (map F2R d) (map F2R e).

(* what the validated statements mean *)
Theorem C02_sym_exact_meaning : forall A V d e,
  evd_sym_ok 0 A V d e ->
  forall i j, i < length A -> j < length A ->
    rdot (nth i A []) (rcol j V) = (nth j d 0 * nth i (rcol j V) 0)%R /\
    rdot (rcol i V) (rcol j V) = (if i =? j then 1 else 0)%R.
Proof. exact evd_sym_ok_exact. Qed.

Theorem C02_real_column_nonzero : forall v, (0 < rvmax v)%R -> exists i, nth i v 0%R <> 0%R.
Proof. exact rvmax_pos_nonzero. Qed.

Theorem C02_conj_pairs_im_cancel : forall l, ConjPaired l -> rlsum (map snd l) = 0%R.
Proof. exact conj_paired_im_sum. Qed.

(* ---------------- the hypotheses are satisfiable ---------------- *)
(* `sort` with the code's comparison on naturals: not sorted (the known quirk), but a joint permutation *)
Example C02_sort_instance :
  sort_model 0 (fun d i j => Nat.leb (nth j d 0) (nth i d 0)) [1; 3; 2; 3] [10; 30; 20; 31] [[1]; [3]; [2]; [4]]
  = ([3; 2; 3; 1], [30; 20; 31; 10], [[3]; [2]; [4]; [1]]).
Proof. reflexivity. Qed.

Example C02_tql2_sort_instance :
  tql2_sort 0 (fun a b => Nat.ltb b a) [1; 3; 2; 3] [[1]; [3]; [2]; [4]] = ([3; 3; 2; 1], [[3]; [4]; [2]; [1]]).
Proof. reflexivity. Qed.

(* A = [[1,4],[1,1]], S = diag(2,1), B = S^-1 A S = [[1,2],[2,1]], B (1,1) = 3 (1,1) *)
Example C02_balbak_instance :
  similar_by 2 [2; 1]%R [[1; 4]; [1; 1]]%R [[1; 2]; [2; 1]]%R /\
  (forall i, i < 2 -> rresid [[1; 2]; [2; 1]]%R (rcol 0 [[1; 0]; [1; 0]]%R) 3 i = 0%R).
Proof.
  split.
  - unfold similar_by, square. cbn [length]. repeat split.
    + intros r [<-|[<-|[]]]; reflexivity.
    + intros r [<-|[<-|[]]]; reflexivity.
    + intros i Hi. destruct i as [|[|i]]; cbn; try lra; lia.
    + intros i k Hi Hk. destruct i as [|[|i]]; destruct k as [|[|k]]; cbn; try lia; lra.
  - intros i Hi. destruct i as [|[|i]]; [| |lia]; unfold rresid, resid, rcol, col; cbn; lra.
Qed.

Example C02_block2_instance : exists r, block2 ROps Rcopysign 1%R 3%R (-5)%R 0%R = r.
Proof. eexists; reflexivity. Qed.

(* a validated symmetric output, and a validated rotation (complex pair +-i) *)
Example C02_check_sym_instance :
  check_evd_sym 0x1p-40%float [[2; 0]; [0; 1]]%float [[1; 0]; [0; 1]]%float [2; 1]%float [0; 0]%float = true.
Proof. vm_compute. reflexivity. Qed.

Example C02_check_gen_instance :
  check_evd_gen 0x1p-40%float 0x1p-40%float 0x1p-40%float
    [[0; -1]; [1; 0]]%float [[0; 0]; [0; 0]]%float [0; 0]%float [1; -1]%float = true.
Proof. vm_compute. reflexivity. Qed.

Example C02_check_gen_rejects :
  check_evd_gen 0x1p-40%float 0x1p-40%float 0x1p-40%float
    [[2; 0]; [0; 1]]%float [[0; 1]; [1; 0]]%float [2; 1]%float [0; 0]%float = false.
Proof. vm_compute. reflexivity. Qed.

(* ---------------- the new hypotheses are satisfiable ---------------- *)
(* tred2: the only hypotheses are n >= 1 and symmetry *)
Example C02_tred2_instance :
  let A := mfun 0%R [[4; 1; 2]; [1; 2; 0]; [2; 0; 3]]%R in
  msym 3 A /\ exists V d e, tred2 ROps 3 A = (V, d, e) /\ morth 3 V /\
                            meq 3 (mmul 3 A V) (mmul 3 V (tridiag d e)).
Proof.
  cbv zeta. assert (Hs : msym 3 (mfun 0%R [[4; 1; 2]; [1; 2; 0]; [2; 0; 3]]%R)).
  { intros i j Hi Hj. destruct i as [|[|[|i]]]; destruct j as [|[|[|j]]]; try lia; reflexivity. }
  split; [exact Hs|].
  pose proof (tred2_correct 3 _ ltac:(lia) Hs) as H.
  destruct (tred2 ROps 3 _) as [[V d] e]. exists V, d, e. destruct H as (H1 & H2 & _). auto.
Qed.

(* tql2: T = [[0,12],[12,7]], V0 = I: one real rotation (3-4-5), returns d = (-9, 16) with the flag true *)
Example C02_tql2_instance : exists V d e,
  morth 2 mid /\ meq 2 (mmul 2 xA mid) (mmul 2 mid (tridiag xd0 xe0)) /\
  tql2_ql ROps hypR 0%R 2 mid xd0 xe0 = Some (V, d, e, true) /\
  d 0 = (-9)%R /\ d 1 = 16%R /\
  morth 2 V /\ meq 2 (mmul 2 xA V) (mmul 2 V (mdiag d)).
Proof. exact tql2_ql_partial_correct_example. Qed.

(* the composed model returns with the flag true (order 1; the instance with a real rotation is the
   previous one, the stages of the composition have no other hypothesis) *)
Example C02_evd_sym_instance : forall a : R, exists V d e,
  evd_sym_model ROps hypR 0%R [[a]] = Some (V, d, e, true).
Proof.
  intros a. unfold evd_sym_model, tred2_rows. cbn [length].
  unfold tred2, t2_reduce, t2_finish, t2_init. cbn [Nat.sub ford forn].
  cbn [ROps o0 o1].
  unfold tql2_ql_rows. cbn [length vlist seq map].
  unfold tql2_ql. cbn [Nat.eqb forn]. unfold ql_outer.
  cbn [qd qe qV qf qok ROps o0 o1 oabs oadd omul oleb].
  set (E := e_shift ROps 1 _). set (T1 := omax ROps 0%R _).
  assert (Hm : find_m ROps 0%R 1 E T1 (1 - 0 + 1) 0 = 0).
  { cbn [Nat.sub Nat.add find_m Nat.ltb Nat.leb]. cbn [ROps oleb oabs omul].
    replace (E 0) with 0%R by reflexivity. rewrite Rabs_R0, Rmult_0_r.
    replace (Rleb 0 0) with true by (symmetry; apply Rleb_true; lra). reflexivity. }
  rewrite Hm. cbn [Nat.ltb Nat.leb].
  destruct (tql2_sort_ops ROps _ _) as [d3 C3].
  eexists. eexists. eexists. reflexivity.
Qed.

(* elmhes/eltran: a 3 x 3 instance in which rows/columns 1 and 2 are really interchanged *)
Example C02_elmhes_instance :
  let A' := fst (elmhes ROps 3 ex3) in
  let perm := snd (elmhes ROps 3 ex3) in
  let Z := eltran ROps 3 A' perm (eye ROps) in
  meq 3 (mmul 3 ex3 Z) (mmul 3 Z (hess A')) /\
  (exists W, meq 3 (mmul 3 Z W) mid /\ meq 3 (mmul 3 W Z) mid) /\
  perm 1 = 2.
Proof. exact ex3_similarity. Qed.
