(* C02 — eigen-decomposition.  Property theorems only (each closed by `exact <lemma>`); their
   assumptions are printed by the check.

   Level: translation validation with supporting proofs.  The iterative cores (tred2, the QL sweeps
   of tql2, elmhes, eltran, the QR sweeps and back-substitution of hqr2) are NOT modelled; for them the
   property is decided per run by the validators `check_evd_sym` / `check_evd_gen`
   (SC.C02.Validator), whose soundness is proved here (C02_evd_*_validated_partial).  Proved for
   all inputs and sizes: everything the solvers do AFTER the iterations (both reorderings, the
   back-transformation of balancing) preserves what the validators check, and the closed 2x2
   formulas of hqr2 return the block's spectrum. *)
From Coq Require Import List Arith Bool Permutation Reals Floats Lia Lra.
From SC Require Import Base.Num C02.Model C02.Validator C02.ProofsSort C02.ProofsSpec C02.ProofsValid.
Import ListNotations.

(* ---------------- evd.rs `sort` (end of evd(false)) ---------------- *)
(* For EVERY outcome of every comparison `d[i] >= d[j]` (dec is an arbitrary function of the
   current array and the two indices; the code's own test, which re-reads an already overwritten
   d[j], is one instance) the (d_j, e_j, column j) triples after the loop are a permutation of the
   triples before it. *)
Theorem C02_sort_joint_perm : forall (T : Type) (t0 : T) (dec : list T -> nat -> nat -> bool)
    (d e : list T) (V : list (list T)) d' e' V',
  length e = length d -> length V = length d ->
  sort_model t0 dec d e V = (d', e', V') ->
  length d' = length d /\ length e' = length d /\ length V' = length d /\
  Permutation (zip3 d' e' V') (zip3 d e V).
Proof. exact @sort_joint_perm. Qed.

(* Hence `sort` keeps: every real eigenvalue with a non-zero eigenvector of A, the sum of the
   eigenvalues and the sum of their squares. *)
Theorem C02_sort_preserves_eigpairs : forall (dec : list R -> nat -> nat -> bool) A d e V d' e' V',
  length e = length d -> length V = length d ->
  sort_model 0%R dec d e V = (d', e', V') ->
  (Forall (eig_triple_ok A) (zip3 d e V) -> Forall (eig_triple_ok A) (zip3 d' e' V')) /\
  rlsum (map re3 (zip3 d' e' V')) = rlsum (map re3 (zip3 d e V)) /\
  rlsum (map sq3 (zip3 d' e' V')) = rlsum (map sq3 (zip3 d e V)).
Proof. exact sort_preserves_eigpairs. Qed.

Theorem C02_eigpairs_perm_invariant : forall A (L L' : list (R * R * list R)),
  Permutation L' L ->
  (Forall (eig_triple_ok A) L -> Forall (eig_triple_ok A) L') /\
  rlsum (map re3 L') = rlsum (map re3 L) /\
  rlsum (map sq3 L') = rlsum (map sq3 L).
Proof. exact eigpairs_perm_invariant. Qed.

(* ---------------- tail of tql2 (end of evd(true)) ---------------- *)
(* over the reals: d comes out non-increasing and (d_i, column i) stay paired *)
Theorem C02_tql2_sort_desc : forall (d : list R) (V : list (list R)) d' V',
  length V = length d ->
  tql2_sort_ops ROps d V = (d', V') ->
  length d' = length d /\ length V' = length d /\
  Permutation (combine d' V') (combine d V) /\
  forall i j, i < j -> j < length d -> (nth j d' 0 <= nth i d' 0)%R.
Proof. exact tql2_sort_desc_R. Qed.

(* for every comparison function (NaN included) the pairs are only permuted *)
Theorem C02_tql2_sort_perm : forall (T : Type) (t0 : T) (gtb : T -> T -> bool) d V d' V',
  length V = length d ->
  tql2_sort t0 gtb d V = (d', V') ->
  length d' = length d /\ length V' = length d /\ Permutation (combine d' V') (combine d V).
Proof. exact @tql2_sort_perm. Qed.

(* ---------------- balance / balbak ---------------- *)
(* B = S^-1 A S (S = diag s, s_i <> 0) and B y = lam y  imply  A (S y) = lam (S y), where S y is
   column j of what `balbak` returns *)
Theorem C02_balbak_correct : forall n s A B Y lam j,
  similar_by n s A B -> square n Y ->
  (forall i, i < n -> rresid B (rcol j Y) lam i = 0%R) ->
  (forall i, i < n -> rresid A (rcol j (balbak ROps Y s)) lam i = 0%R) /\
  ((exists i, i < n /\ nth i (rcol j Y) 0%R <> 0%R) ->
   exists i, i < n /\ nth i (rcol j (balbak ROps Y s)) 0%R <> 0%R).
Proof.
  intros n s A B Y lam j H1 H2 H3. split.
  - exact (balbak_correct n s A B Y lam j H1 H2 H3).
  - exact (balbak_nonzero n s A B Y j H1 H2).
Qed.

(* approximate form (what the search uses): the residual in the original coordinates is S times the
   residual in the balanced coordinates, and both trace identities are invariant *)
Theorem C02_balanced_coordinates : forall n s A B,
  similar_by n s A B ->
  rtrace B = rtrace A /\ rtrace2 B = rtrace2 A /\
  forall y v lam i, length y = n -> length v = n ->
    (forall k, k < n -> nth k v 0%R = (nth k s 0 * nth k y 0)%R) -> i < n ->
    rresid A v lam i = (nth i s 0 * rresid B y lam i)%R.
Proof.
  intros n s A B H. split; [exact (similar_trace n s A B H)|]. split; [exact (similar_trace2 n s A B H)|].
  intros y v lam i Hy Hv Hk Hi. exact (balbak_resid n s A B y v lam i H Hy Hv Hk Hi).
Qed.

(* ---------------- hqr2, two roots of a 2x2 block ---------------- *)
(* the two reported values have sum = trace and product = determinant of the (shifted) block
   [[y+t, b], [c, x+t]] with b*c = w; complex ones are a conjugate pair with non-zero imaginary part *)
Theorem C02_block2_spectrum : forall x y w t d1 e1 d2 e2 : R,
  block2 ROps Rcopysign x y w t = ((d1, e1), (d2, e2)) ->
  let tr := ((x + t) + (y + t))%R in
  let det := ((x + t) * (y + t) - w)%R in
  (e1 = 0 /\ e2 = 0 /\ d1 + d2 = tr /\ d1 * d2 = det)%R \/
  (d1 = d2 /\ e1 = - e2 /\ e2 < 0 /\ d1 + d2 = tr /\ d1 * d1 + e1 * e1 = det)%R.
Proof. exact block2_spectrum. Qed.

(* ---------------- the validators (decide the property per run) ---------------- *)
(* PARTIAL with respect to the property: the statement is about a given output (A, V, d, e), not about
   every output of the solver.  All numbers are the exact values of the floats. *)
Theorem C02_evd_sym_validated_partial : forall tol A V d e,
  check_evd_sym tol A V d e = true ->
  all_finite A V d e /\
  evd_sym_ok (F2R tol) (map (map F2R) A) (map (map F2R) V) (map F2R d) (map F2R e).
Proof. exact check_evd_sym_sound. Qed.

Theorem C02_evd_gen_validated_partial : forall tol1 tol2 tolv A V d e,
  check_evd_gen tol1 tol2 tolv A V d e = true ->
  all_finite A V d e /\
  evd_gen_ok (F2R tol1) (F2R tol2) (F2R tolv)
             (map (map F2R) A) (map (map F2R) V) (map F2R d) (map F2R e).
Proof. exact check_evd_gen_sound. Qed.

(* The full statements, which are NOT proved: they quantify over the solver's output for every input;
   `solve_sym` / `solve_gen` stand for evd(true) / evd(false) (tred2+tql2, resp. balance+elmhes+eltran+
   hqr2+balbak+sort), whose iterative parts are not modelled; u is the unit roundoff and c the constant
   of the rounding-error bound.  Missing: convergence of the QL / QR sweeps and a backward error
   analysis of the reductions. *)
Definition C02_evd_sym_full_statement
  (solve_sym : list (list float) -> list float * list float * list (list float)) (c u : R) : Prop :=
  forall A, (forall i j, nth j (nth i A []) 0%float = nth i (nth j A []) 0%float) ->
    let '(d, e, V) := solve_sym A in
    evd_sym_ok (c * INR (length A) * u) (map (map F2R) A) (map (map F2R) V) (map F2R d) (map F2R e).
Definition C02_evd_gen_full_statement
  (solve_gen : list (list float) -> list float * list float * list (list float)) (c u : R) : Prop :=
  forall A, let '(d, e, V) := solve_gen A in
    evd_gen_ok (c * INR (length A) * u) (c * INR (length A) * u) (c * INR (length A) * u)
               (map (map F2R) A) (map (map F2R) V) (map F2R d) (map F2R e).

(* what the validated statements mean *)
Theorem C02_sym_exact_meaning : forall A V d e,
  evd_sym_ok 0 A V d e ->
  forall i j, i < length A -> j < length A ->
    rdot (nth i A []) (rcol j V) = (nth j d 0 * nth i (rcol j V) 0)%R /\
    rdot (rcol i V) (rcol j V) = (if i =? j then 1 else 0)%R.
Proof. exact evd_sym_ok_exact. Qed.

Theorem C02_real_column_nonzero : forall v, (0 < rvmax v)%R -> exists i, nth i v 0%R <> 0%R.
Proof. exact rvmax_pos_nonzero. Qed.

Theorem C02_conj_pairs_im_cancel : forall l, ConjPaired l -> rlsum (map snd l) = 0%R.
Proof. exact conj_paired_im_sum. Qed.

(* ---------------- the hypotheses are satisfiable ---------------- *)
(* `sort` with the code's comparison on naturals: not sorted (the known quirk), but a joint permutation *)
Example C02_sort_instance :
  sort_model 0 (fun d i j => Nat.leb (nth j d 0) (nth i d 0)) [1; 3; 2; 3] [10; 30; 20; 31] [[1]; [3]; [2]; [4]]
  = ([3; 2; 3; 1], [30; 20; 31; 10], [[3]; [2]; [4]; [1]]).
Proof. reflexivity. Qed.

Example C02_tql2_sort_instance :
  tql2_sort 0 (fun a b => Nat.ltb b a) [1; 3; 2; 3] [[1]; [3]; [2]; [4]] = ([3; 3; 2; 1], [[3]; [4]; [2]; [1]]).
Proof. reflexivity. Qed.

(* A = [[1,4],[1,1]], S = diag(2,1), B = S^-1 A S = [[1,2],[2,1]], B (1,1) = 3 (1,1) *)
Example C02_balbak_instance :
  similar_by 2 [2; 1]%R [[1; 4]; [1; 1]]%R [[1; 2]; [2; 1]]%R /\
  (forall i, i < 2 -> rresid [[1; 2]; [2; 1]]%R (rcol 0 [[1; 0]; [1; 0]]%R) 3 i = 0%R).
Proof.
  split.
  - unfold similar_by, square. cbn [length]. repeat split.
    + intros r [<-|[<-|[]]]; reflexivity.
    + intros r [<-|[<-|[]]]; reflexivity.
    + intros i Hi. destruct i as [|[|i]]; cbn; try lra; lia.
    + intros i k Hi Hk. destruct i as [|[|i]]; destruct k as [|[|k]]; cbn; try lia; lra.
  - intros i Hi. destruct i as [|[|i]]; [| |lia]; unfold rresid, resid, rcol, col; cbn; lra.
Qed.

Example C02_block2_instance : exists r, block2 ROps Rcopysign 1%R 3%R (-5)%R 0%R = r.
Proof. eexists; reflexivity. Qed.

(* a validated symmetric output, and a validated rotation (complex pair +-i) *)
Example C02_check_sym_instance :
  check_evd_sym 0x1p-40%float [[2; 0]; [0; 1]]%float [[1; 0]; [0; 1]]%float [2; 1]%float [0; 0]%float = true.
Proof. vm_compute. reflexivity. Qed.

Example C02_check_gen_instance :
  check_evd_gen 0x1p-40%float 0x1p-40%float 0x1p-40%float
    [[0; -1]; [1; 0]]%float [[0; 0]; [0; 0]]%float [0; 0]%float [1; -1]%float = true.
Proof. vm_compute. reflexivity. Qed.

Example C02_check_gen_rejects :
  check_evd_gen 0x1p-40%float 0x1p-40%float 0x1p-40%float
    [[2; 0]; [0; 1]]%float [[0; 1]; [1; 0]]%float [2; 1]%float [0; 0]%float = false.
Proof. vm_compute. reflexivity. Qed.
