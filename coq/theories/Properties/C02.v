(* C02 — eigen-decomposition.  Property theorems only (each closed by `exact <lemma>`); their
   assumptions are printed by the check.

   Symmetric clause: PARTIAL CORRECTNESS THEOREM in exact arithmetic.  tred2, the QL sweeps of tql2 and
   its final sort are modelled (ModelTred2.v, ModelTql2.v, Model.v) and tied to the code by
   correspondence (tred2 bit-exact, tql2 by tolerance because of libm's hypot).  Proved for every order
   and every symmetric matrix: tred2 returns an orthogonal V with A V = V tridiag(d, e)
   (theorems C02_tred2_...); every plane rotation and every whole QL sweep preserves 'V orthogonal and
   A V = V T' (theorems C02_tql2_...); IF the exact-arithmetic model of evd(true) returns THEN A V = V diag(d),
   V^T V = I, d non-increasing, e = 0 (C02_evd_sym_partial_correctness).  NOT proved: that it
   returns (convergence of the QL iteration), and the effect of rounding - the floating-point run is
   still decided per run by the validator `check_evd_sym` (C02_evd_sym_validated_partial).

   General clause: PARTIAL CORRECTNESS THEOREM in exact arithmetic as well.  balance, elmhes, eltran,
   hqr2 (QR sweeps with exceptional shifts and deflation; back-substitution; final product), balbak and
   `sort` are all modelled; the composed model evd_gen_model is bit-exact against evd(false) end to end.
   Proved for every order and every matrix: balance is a diagonal similarity (C02_balance_similar);
   A Z = Z H for elmhes/eltran (theorems C02_elmhes_...); every Francis sweep is an orthogonal
   similarity and IF hqr2's first half returns THEN H is quasi-triangular with the blocks recorded in
   (d, e) (C02_hqr2_sweeps_partial_correctness); the back-substitution gives, for every real
   eigenvalue, a non-zero eigenvector, the overflow-guard rescaling being harmless because it scales the
   whole vector (theorems C02_hqr2_real_... and C02_hqr2_overflow_guard...); IF the composed model returns
   THEN the general clause holds exactly (C02_evd_gen_partial_correctness).  NOT proved: convergence,
   rounding, the values of the columns of complex eigenvalues; the floating-point run is still decided per
   run by `check_evd_gen` (C02_evd_gen_validated_partial). *)
From Coq Require Import List Arith Bool Permutation Reals Floats Lia Lra.
From SC Require Import Base.Num C02.Model C02.Validator C02.ProofsSort C02.ProofsSpec C02.ProofsValid.
From SC Require Import C02.FunMat C02.ModelTred2 C02.ProofsHouse C02.ProofsTred2Step C02.ProofsTred2.
From SC Require Import C02.ModelTql2 C02.ProofsTql2Rot C02.ProofsTql2Sweep C02.ProofsTql2 C02.ProofsTql2Example.
From SC Require Import C02.ModelSymEvd C02.ProofsSymEvd.
From SC Require Import C02.ModelHess C02.ProofsHessAlg C02.ProofsHessStep C02.ProofsHess C02.ProofsHessGhost.
From SC Require Import C02.ModelHqr2Spec C02.ProofsConj C02.ProofsQtri C02.ProofsBalance.
From SC Require Import C02.ModelHqr2Sweep C02.ProofsHqr2SweepJ C02.ProofsHqr2SweepLoop C02.ProofsHqr2SweepSearch C02.ProofsHqr2SweepFinal.
From SC Require Import C02.ModelHqr2 C02.ModelGenEvd C02.ProofsGenAssembly C02.ProofsGenEvd C02.ProofsGenEvdVec C02.ProofsGenEvdFinal.
From SC Require Import C02.ModelHqr2Vec C02.ProofsHqr2VecSum C02.ProofsHqr2VecReal C02.ProofsHqr2VecFrame C02.ProofsHqr2Vec C02.ProofsHqr2VecExample.
Import ListNotations.

(* ---------------- evd.rs `sort` (end of evd(false)) ---------------- *)
(* For EVERY outcome of every comparison `d[i] >= d[j]` (dec is an arbitrary function of the
   current array and the two indices; the code's own test, which re-reads an already overwritten
   d[j], is one instance) the (d_j, e_j, column j) triples after the loop are a permutation of the
   triples before it. *)
Theorem C02_sort_joint_perm : forall (T : Type) (t0 : T) (dec : list T -> nat -> nat -> bool)
    (d e : list T) (V : list (list T)) d' e' V',
  length e = length d -> length V = length d ->
  sort_model t0 dec d e V = (d', e', V') ->
  length d' = length d /\ length e' = length d /\ length V' = length d /\
  Permutation (zip3 d' e' V') (zip3 d e V).
Proof. exact @sort_joint_perm. Qed.

(* Hence `sort` keeps: every real eigenvalue with a non-zero eigenvector of A, the sum of the
   eigenvalues and the sum of their squares. *)
Theorem C02_sort_preserves_eigpairs : forall (dec : list R -> nat -> nat -> bool) A d e V d' e' V',
  length e = length d -> length V = length d ->
  sort_model 0%R dec d e V = (d', e', V') ->
  (Forall (eig_triple_ok A) (zip3 d e V) -> Forall (eig_triple_ok A) (zip3 d' e' V')) /\
  rlsum (map re3 (zip3 d' e' V')) = rlsum (map re3 (zip3 d e V)) /\
  rlsum (map sq3 (zip3 d' e' V')) = rlsum (map sq3 (zip3 d e V)).
Proof. exact sort_preserves_eigpairs. Qed.

Theorem C02_eigpairs_perm_invariant : forall A (L L' : list (R * R * list R)),
  Permutation L' L ->
  (Forall (eig_triple_ok A) L -> Forall (eig_triple_ok A) L') /\
  rlsum (map re3 L') = rlsum (map re3 L) /\
  rlsum (map sq3 L') = rlsum (map sq3 L).
Proof. exact eigpairs_perm_invariant. Qed.

(* ---------------- tail of tql2 (end of evd(true)) ---------------- *)
(* over the reals: d comes out non-increasing and (d_i, column i) stay paired *)
Theorem C02_tql2_sort_desc : forall (d : list R) (V : list (list R)) d' V',
  length V = length d ->
  tql2_sort_ops ROps d V = (d', V') ->
  length d' = length d /\ length V' = length d /\
  Permutation (combine d' V') (combine d V) /\
  forall i j, i < j -> j < length d -> (nth j d' 0 <= nth i d' 0)%R.
Proof. exact tql2_sort_desc_R. Qed.

(* for every comparison function (NaN included) the pairs are only permuted *)
Theorem C02_tql2_sort_perm : forall (T : Type) (t0 : T) (gtb : T -> T -> bool) d V d' V',
  length V = length d ->
  tql2_sort t0 gtb d V = (d', V') ->
  length d' = length d /\ length V' = length d /\ Permutation (combine d' V') (combine d V).
Proof. exact @tql2_sort_perm. Qed.

(* ---------------- balance / balbak ---------------- *)
(* B = S^-1 A S (S = diag s, s_i <> 0) and B y = lam y  imply  A (S y) = lam (S y), where S y is
   column j of what `balbak` returns *)
Theorem C02_balbak_correct : forall n s A B Y lam j,
  similar_by n s A B -> square n Y ->
  (forall i, i < n -> rresid B (rcol j Y) lam i = 0%R) ->
  (forall i, i < n -> rresid A (rcol j (balbak ROps Y s)) lam i = 0%R) /\
  ((exists i, i < n /\ nth i (rcol j Y) 0%R <> 0%R) ->
   exists i, i < n /\ nth i (rcol j (balbak ROps Y s)) 0%R <> 0%R).
Proof.
  intros n s A B Y lam j H1 H2 H3. split.
  - exact (balbak_correct n s A B Y lam j H1 H2 H3).
  - exact (balbak_nonzero n s A B Y j H1 H2).
Qed.

(* approximate form (what the search uses): the residual in the original coordinates is S times the
   residual in the balanced coordinates, and both trace identities are invariant *)
Theorem C02_balanced_coordinates : forall n s A B,
  similar_by n s A B ->
  rtrace B = rtrace A /\ rtrace2 B = rtrace2 A /\
  forall y v lam i, length y = n -> length v = n ->
    (forall k, k < n -> nth k v 0%R = (nth k s 0 * nth k y 0)%R) -> i < n ->
    rresid A v lam i = (nth i s 0 * rresid B y lam i)%R.
Proof.
  intros n s A B H. split; [exact (similar_trace n s A B H)|]. split; [exact (similar_trace2 n s A B H)|].
  intros y v lam i Hy Hv Hk Hi. exact (balbak_resid n s A B y v lam i H Hy Hv Hk Hi).
Qed.

(* ---------------- hqr2, two roots of a 2x2 block ---------------- *)
(* the two reported values have sum = trace and product = determinant of the (shifted) block
   [[y+t, b], [c, x+t]] with b*c = w; complex ones are a conjugate pair with non-zero imaginary part *)
Theorem C02_block2_spectrum : forall x y w t d1 e1 d2 e2 : R,
  block2 ROps Rcopysign x y w t = ((d1, e1), (d2, e2)) ->
  let tr := ((x + t) + (y + t))%R in
  let det := ((x + t) * (y + t) - w)%R in
  (e1 = 0 /\ e2 = 0 /\ d1 + d2 = tr /\ d1 * d2 = det)%R \/
  (d1 = d2 /\ e1 = - e2 /\ e2 < 0 /\ d1 + d2 = tr /\ d1 * d1 + e1 * e1 = det)%R.
Proof. exact block2_spectrum. Qed.

(* ---------------- the validators (decide the property per run) ---------------- *)
(* PARTIAL with respect to the property: the statement is about a given output (A, V, d, e), not about
   every output of the solver.  All numbers are the exact values of the floats. *)
Theorem C02_evd_sym_validated_partial : forall tol A V d e,
  check_evd_sym tol A V d e = true ->
  all_finite A V d e /\
  evd_sym_ok (F2R tol) (map (map F2R) A) (map (map F2R) V) (map F2R d) (map F2R e).
Proof. exact check_evd_sym_sound. Qed.

Theorem C02_evd_gen_validated_partial : forall tol1 tol2 tolv A V d e,
  check_evd_gen tol1 tol2 tolv A V d e = true ->
  all_finite A V d e /\
  evd_gen_ok (F2R tol1) (F2R tol2) (F2R tolv)
             (map (map F2R) A) (map (map F2R) V) (map F2R d) (map F2R e).
Proof. exact check_evd_gen_sound. Qed.

(* ---------------- tred2: Householder tridiagonalisation with accumulation ---------------- *)
(* Matrices are functions on indices (FunMat.v); `tridiag d e` has d on the diagonal and e i coupling
   i-1 and i.  For EVERY order n >= 1 and EVERY symmetric A the returned V is orthogonal and
   A V = V tridiag(d, e)  (equivalently V^T A V = tridiag(d, e)); e[0] = 0. *)
Theorem C02_tred2_tridiagonalises : forall n (A : mat), 1 <= n -> msym n A ->
  let '(V, d, e) := tred2 ROps n A in
  morth n V /\ meq n (mmul n A V) (mmul n V (tridiag d e)) /\ e 0 = 0%R.
Proof. exact tred2_correct. Qed.

(* the same on lists, in the vocabulary of the validators *)
Theorem C02_tred2_rows : forall (A : list (list R)) V d e,
  let n := length A in
  square n A ->
  (forall i j, i < n -> j < n -> nth j (nth i A []) 0%R = nth i (nth j A []) 0%R) ->
  tred2_rows ROps A = Some (V, d, e) ->
  square n V /\ length d = n /\ length e = n /\ nth 0 e 0%R = 0%R /\
  (forall i j, i < n -> j < n -> rdot (rcol i V) (rcol j V) = if i =? j then 1%R else 0%R) /\
  (forall i j, i < n -> j < n ->
     rdot (nth i A []) (rcol j V)
     = rsum n (fun k => (nth k (nth i V []) 0 * tridiag (vfun 0%R d) (vfun 0%R e) k j)%R)).
Proof. exact tred2_rows_correct_lists. Qed.

(* One step `i` of the reduction (state (V, d, e), row i in d): the represented matrix `cur` is
   conjugated by P = I - u u^T / H, where (u, H) are what the step stores (column i of V above the
   diagonal, d[i]) and EITHER H <> 0 and u^T u = 2H (Householder reflector) OR u = 0 (then P = I:
   this is the `scale == 0` branch, see the next theorem). *)
Theorem C02_tred2_step_similarity : forall n i (V : nat -> nat -> R) (d e : nat -> R),
  1 <= i < n -> (forall b, b < i -> d b = V i b) ->
  let '(V', d', e') := t2_step ROps i (V, d, e) in
  exists u H,
    reflok n i u H /\
    meq n (cur (i - 1) V' e') (mmul n (refl u H) (mmul n (cur i V e) (refl u H))) /\
    d' i = H /\ (forall k, k < i -> V' k i = u k) /\
    (forall r, i < r -> d' r = d r) /\ (forall r, i < r -> e' r = e r) /\
    (forall r c, (i < c \/ i < r \/ (r = i /\ c = i)) -> V' r c = V r c) /\
    (forall b, b < i - 1 -> d' b = V' (i - 1) b) /\ (forall c, c < i -> V' i c = 0%R).
Proof. exact t2_step_sim. Qed.

(* The `scale == 0` branch: the row is already zero left of the diagonal; the state then represents
   the SAME matrix one row further up, e[i] = 0, and what is stored is u = 0, h = d[i] = 0 - so
   the accumulation phase (`if h != 0`) skips the index. *)
Theorem C02_tred2_skip_branch : forall n i (V : nat -> nat -> R) (d e : nat -> R),
  1 <= i < n -> (forall b, b < i -> d b = V i b) ->
  rsum i (fun k => Rabs (d k)) = 0%R ->
  let '(V', d', e') := t2_step ROps i (V, d, e) in
  d' i = 0%R /\ e' i = 0%R /\
  (forall k, k < i -> V' k i = 0%R /\ V' i k = 0%R) /\
  meq n (cur (i - 1) V' e') (cur i V e).
Proof. exact t2_step_skip. Qed.

(* ---------------- tql2: the QL sweeps (partial correctness) ---------------- *)
(* One plane rotation, with the code's r = p.hypot(e_i) <> 0, c = p / r, s = e_i / r: the update of
   columns i, i+1 of V keeps V orthogonal and turns A V = V M into A V' = V' (G^T M G). *)
Theorem C02_tql2_rotation_preserves_invariant : forall n (A V M : mat) i p ei,
  S i < n -> hypR p ei <> 0%R ->
  let r := hypR p ei in
  let c := (p / r)%R in
  let s := (ei / r)%R in
  let V' := rot_cols ROps n i c s V in
  morth n V -> meq n (mmul n A V) (mmul n V M) ->
  morth n V' /\ meq n (mmul n A V') (mmul n V' (rotM i c s M)).
Proof. exact ql_rotation_invariant. Qed.

(* The whole QL part (everything before the final sort) in exact arithmetic: eps := 0, i.e. an
   off-diagonal element is 'negligible' only when it is exactly zero; hypot := sqrt(a^2+b^2).  The
   last component of the result is the GHOST flag 'no rotation had r = 0' (ModelTql2.v).
   IF the routine returns THEN e = 0, V is orthogonal and A V = V diag(d).  Convergence (that
   `Some` is returned, within 29 sweeps per eigenvalue) is NOT proved. *)
Theorem C02_tql2_ql_partial_correctness : forall n (A V0 : mat) (d0 e0 : nat -> R) (V : mat) (d e : nat -> R),
  morth n V0 ->
  meq n (mmul n A V0) (mmul n V0 (tridiag d0 e0)) ->
  tql2_ql ROps hypR 0%R n V0 d0 e0 = Some (V, d, e, true) ->
  (forall a, a < n -> e a = 0%R) /\ morth n V /\ meq n (mmul n A V) (mmul n V (mdiag d)).
Proof. exact tql2_ql_partial_correct. Qed.

(* ---------------- the symmetric clause as a partial-correctness theorem ---------------- *)
(* evd_sym_model = tred2 ; QL part of tql2 ; final sort (ModelSymEvd.v), over R with eps := 0.
   For every order and every symmetric A: IF the model returns (ghost flag true) THEN the result
   satisfies the symmetric clause EXACTLY (tolerance 0): A V = V diag(d), V^T V = I, d non-increasing,
   e = 0.  (Replaces the former Definition C02_evd_sym_full_statement.) *)
Theorem C02_evd_sym_partial_correctness : forall (A : list (list R)) V d e,
  let n := length A in
  square n A ->
  (forall i j, i < n -> j < n -> nth j (nth i A []) 0%R = nth i (nth j A []) 0%R) ->
  evd_sym_model ROps hypR 0%R A = Some (V, d, e, true) ->
  evd_sym_ok 0 A V d e.
Proof. exact evd_sym_partial_correct. Qed.

(* What is still NOT proved for the symmetric clause, stated in full: total correctness of the
   FLOATING-POINT routine.  `solve_sym` stands for evd(true) on binary64, u for the unit roundoff, c for
   the constant of the rounding-error bound.  Missing: (1) convergence of the QL iteration (the
   theorem above assumes the model returns; the code panics after 29 sweeps), (2) a backward error
   analysis of tred2 / tql2 (the theorem above is about exact arithmetic).  Per run the floating-point
   result is decided by the validator (C02_evd_sym_validated_partial). *)
Definition C02_evd_sym_float_total_statement
  (solve_sym : list (list float) -> list float * list float * list (list float)) (c u : R) : Prop :=
  forall A, (forall i j, nth j (nth i A []) 0%float = nth i (nth j A []) 0%float) ->
    let '(d, e, V) := solve_sym A in
    evd_sym_ok (c * INR (length A) * u) (map (map F2R) A) (map (map F2R) V) (map F2R d) (map F2R e).

(* ---------------- elmhes + eltran: reduction to Hessenberg form ---------------- *)
(* For every order n >= 1 and EVERY matrix A: with (A', perm) = elmhes A, H = the upper Hessenberg
   part of A' (what hqr2 reads), Z = eltran(A', I, perm):  A Z = Z H. *)
Theorem C02_elmhes_eltran_similarity : forall n (A : mat), 1 <= n ->
  let A' := fst (elmhes ROps n A) in
  let perm := snd (elmhes ROps n A) in
  let Z := eltran ROps n A' perm (eye ROps) in
  meq n (mmul n A Z) (mmul n Z (hess A')).
Proof. exact hess_similarity. Qed.

(* Z has a two-sided inverse (so H = Z^-1 A Z has the spectrum of A) *)
Theorem C02_elmhes_eltran_invertible : forall n (A : mat), 1 <= n ->
  let A' := fst (elmhes ROps n A) in
  let perm := snd (elmhes ROps n A) in
  let Z := eltran ROps n A' perm (eye ROps) in
  exists W, meq n (mmul n Z W) mid /\ meq n (mmul n W Z) mid.
Proof. exact hess_Z_invertible. Qed.

(* structure: Z = (P_1 L_1)(P_2 L_2)...(P_{n-2} L_{n-2}), P_m the transposition m <-> perm[m] >= m,
   L_m unit lower triangular with the stored multipliers; first row and column of Z are those of I *)
Theorem C02_eltran_product_structure : forall n (A : mat), 1 <= n ->
  let A' := fst (elmhes ROps n A) in
  let perm := snd (elmhes ROps n A) in
  let Z := eltran ROps n A' perm (eye ROps) in
  meq n Z (Zprod n A' perm 1 (n - 2)) /\
  (forall m, 1 <= m -> m + 1 < n -> m <= perm m < n) /\
  (forall c, c < n -> Z 0 c = mid 0 c) /\
  (forall r, r < n -> Z r 0 = mid r 0).
Proof. exact hess_Z_product. Qed.

(* what the in-place storage means: running the same eliminations WITHOUT storing multipliers in the
   matrix (`elmhes_ghost`: full-range swaps and row operations, multipliers recorded aside in Y) yields
   exactly H = hess A' (so H really is the reduced matrix, zero below the sub-diagonal), and the
   entries of A' below the sub-diagonal are exactly the multipliers *)
Theorem C02_elmhes_reduced_matrix : forall n (A : mat), 1 <= n ->
  let A' := fst (elmhes ROps n A) in
  let perm := snd (elmhes ROps n A) in
  let Rg := fst (fst (elmhes_ghost n A)) in
  let Y := snd (fst (elmhes_ghost n A)) in
  let gperm := snd (elmhes_ghost n A) in
  (forall r c, r < n -> c < n -> Rg r c = hess A' r c) /\
  (forall r c, r < n -> c < n -> c + 1 < r -> A' r c = Y r c) /\
  (forall r c, r < n -> c < n -> r <= c + 1 -> Y r c = 0%R) /\
  (forall k, gperm k = perm k).
Proof. exact elmhes_ghost_spec. Qed.

(* ---------------- balance: the returned matrix is a diagonal similarity of the input ---------------- *)
(* whatever the comparisons decide: B = S^-1 A S, S = diag(scale), every scale_i <> 0 - the hypothesis of
   C02_balbak_correct / C02_balanced_coordinates, now proved about the model's output *)
Theorem C02_balance_similar : forall t095 sweeps fuel (A B : list (list R)) (s : list R),
  square (length A) A ->
  balance ROps t095 sweeps fuel A = Some (B, s) ->
  similar_by (length A) s A B.
Proof. exact balance_similar. Qed.

(* ---------------- the spectrum recorded by hqr2's first half ---------------- *)
(* `qtri n H d e` (ModelHqr2Spec.v): H is quasi-upper-triangular with 1x1 and 2x2 diagonal blocks as
   flagged by e (e_i = 0: H_ii = d_i real; e_i > 0 = -e_{i+1}: d_i +- i e_i are the eigenvalues of the
   2x2 block).  Then the recorded values are conjugate-paired, sum d = trace H, sum (d^2 - e^2) = trace H^2. *)
Theorem C02_qtri_spectrum : forall n (H : mat) (d e : nat -> R), qtri n H d e ->
  ConjPaired (combine (vlist n d) (vlist n e)) /\
  rsum n d = mtrace n H /\
  rsum n (fun i => (d i * d i - e i * e i)%R) = mtrace n (mmul n H H).
Proof.
  intros n H d e HQ. split; [exact (qtri_conj_paired n H d e HQ)|].
  split; [exact (qtri_trace n H d e HQ)|exact (qtri_trace2 n H d e HQ)].
Qed.

(* a similarity by an invertible Z preserves the trace (and, applied to A^2 and H^2, the trace of squares) *)
Theorem C02_similarity_preserves_trace : forall n (A Z W H : mat),
  meq n (mmul n A Z) (mmul n Z H) -> meq n (mmul n W Z) mid -> meq n (mmul n Z W) mid ->
  mtrace n H = mtrace n A /\ mtrace n (mmul n H H) = mtrace n (mmul n A A).
Proof.
  intros n A Z W H Hs H1 H2. split; [exact (similar_mtrace n A Z W H Hs H1 H2)|].
  exact (similar_mtrace n _ Z W _ (similar_square n A Z H Hs) H1 H2).
Qed.

(* conjugate pairing does not depend on the order (so `sort` cannot break it) *)
Theorem C02_conj_paired_perm_invariant : forall l l' : list (R * R),
  Permutation l l' -> ConjPaired l -> ConjPaired l'.
Proof. exact ConjPaired_perm. Qed.

(* ---------------- hqr2, first half: one Francis double-shift sweep is an orthogonal similarity ---------------- *)
(* The loop `for k in m..nn` of 3x3 (last: 2x2) Householder steps, started at m with ANY p0, q0, r0 (any
   shift, ordinary or exceptional), on a working array whose window is clean (what the zeroing loop
   before it establishes) and with A[m][m-1] = 0 (m = l): there is G, orthogonal on both sides and
   commuting with the indicator of the active block 0..=nn (so the accumulated exceptional shift t I_active
   carries through), with  (uhess A0) G = G (uhess A'),  V' = V0 G,  rows below nn untouched.
   uhess = the upper Hessenberg part: the entries the steps leave below the sub-diagonal are stale
   storage, never read again. *)
Theorem C02_hqr2_sweep_orthogonal_similarity : forall (n nn m : nat) (p0 q0 r0 : R) (A0 V0 : mat),
  S (S m) <= nn -> nn < n ->
  (forall c, c < n -> S c = m -> A0 m c = 0%R) ->
  (forall r c, r < n -> c < n -> S c < r -> r <= nn -> r <= c + 3 -> m <= c -> A0 r c = 0%R) ->
  (S nn < n -> A0 (S nn) nn = 0%R) ->
  forall A' V' : nat -> nat -> R,
  forn m (nn - m) (k_step ROps Rcopysign n m m nn p0 q0 r0) (A0, V0) = (A', V') ->
  exists G : mat,
    orth2 n G /\ Jcomm n nn G /\
    meq n (mmul n (uhess A0) G) (mmul n G (uhess A')) /\
    (forall i j, i < n -> j < n -> V' i j = mmul n V0 G i j) /\
    (forall i j, i < n -> j < n -> nn < i -> A' i j = A0 i j).
Proof. exact k_loop_sim. Qed.

(* with eps = 0 ('negligible' = exactly zero) and non-zero sub-diagonal entries inside the active block
   (what the l-search guarantees) the search for the start of the sweep always ends at m = l: the branch
   `k == m, l != m` (sign flip) is dead in exact arithmetic, and no division by zero occurs *)
Theorem C02_hqr2_sweep_starts_at_l : forall (A : mat) (x y w : R) (l fuel m : nat),
  m = l + fuel ->
  (forall i, l <= i -> i <= S m -> A (S i) i <> 0%R) ->
  fst (m_search ROps 0%R A x y w fuel m) = l.
Proof. exact m_search_l. Qed.

(* The whole first half of hqr2 (l-search, exceptional shifts at its = 10 / 20, sweeps, deflation of one
   root / a complex pair / a real pair by a plane rotation) over R with eps := 0 (an entry is negligible
   only when exactly zero): IF it returns THEN H = uhess A is quasi-upper-triangular with the 1x1 / 2x2
   blocks recorded in (d, e) (`qtri`), and there is Q, orthogonal on both sides, with V = V0 Q and
   (uhess A0) Q = Q H.  No ghost flag is needed: no division by zero can occur in exact arithmetic.
   Convergence (that it returns; the code panics after 30 sweeps without deflation) is NOT proved. *)
Theorem C02_hqr2_sweeps_partial_correctness : forall n (A0 V0 A V : mat) (d e : nat -> R) (an : R),
  hqr2_sweeps ROps Rcopysign 0%R n A0 V0 (fun _ => 0%R) (fun _ => 0%R) = Some (A, V, d, e, an) ->
  qtri n (uhess A) d e /\
  exists Q, morth n Q /\ meq n (mmul n Q (mtr Q)) mid /\ meq n V (mmul n V0 Q) /\
            meq n (mmul n (uhess A0) Q) (mmul n Q (uhess A)).
Proof. exact hqr2_sweeps_partial_correct. Qed.

(* ---------------- hqr2, second half: back-substitution for REAL eigenvalues ---------------- *)
(* For ARBITRARY eps (so the overflow guard may fire): if H = uhess A is quasi-triangular as recorded in
   (d, e), anorm <> 0 and the ghost flag is true (the perturbation `if t == 0 { t = eps * anorm }` was
   never taken in a real column, i.e. no division by zero in exact arithmetic), then for every real
   eigenvalue d[nn] the routine leaves in column nn of the working array a vector x with x[nn] <> 0,
   zero below nn, (H - d[nn] I) x = 0, and column nn of the returned V is V x. *)
Theorem C02_hqr2_real_eigenvector_column : forall eps n anorm (A V : mat) (d e : nat -> R) nn,
  qtri n (uhess A) d e -> anorm <> 0%R ->
  hqr2_vectors_ok ROps eps n anorm A V d e = true ->
  nn < n -> e nn = 0%R ->
  let A' := fst (hqr2_vectors ROps eps n anorm A V d e) in
  let V' := snd (hqr2_vectors ROps eps n anorm A V d e) in
  exists x : nat -> R,
    x nn <> 0%R /\
    (forall k, nn < k -> x k = 0%R) /\
    (forall k, k <= nn -> x k = A' k nn) /\
    (forall i, i < n -> rsum n (fun j => (uhess A i j * x j)%R) = (d nn * x i)%R) /\
    (forall i, i < n -> V' i nn = rsum n (fun k => (V i k * x k)%R)).
Proof. exact hqr2_vectors_real_column. Qed.

(* hence, when B V = V H, that column is an eigenvector of B, non-zero when V has a left inverse *)
Theorem C02_hqr2_real_eigenvector_of_similar : forall eps n anorm (A V B : mat) (d e : nat -> R) nn,
  qtri n (uhess A) d e -> anorm <> 0%R ->
  hqr2_vectors_ok ROps eps n anorm A V d e = true ->
  nn < n -> e nn = 0%R ->
  meq n (mmul n B V) (mmul n V (uhess A)) ->
  let V' := snd (hqr2_vectors ROps eps n anorm A V d e) in
  forall i, i < n -> rsum n (fun k => (B i k * V' k nn)%R) = (d nn * V' i nn)%R.
Proof. exact hqr2_vectors_real_eigvec. Qed.

Theorem C02_hqr2_real_eigenvector_nonzero : forall eps n anorm (A V W : mat) (d e : nat -> R) nn,
  qtri n (uhess A) d e -> anorm <> 0%R ->
  hqr2_vectors_ok ROps eps n anorm A V d e = true ->
  nn < n -> e nn = 0%R ->
  meq n (mmul n W V) mid ->
  let V' := snd (hqr2_vectors ROps eps n anorm A V d e) in
  exists i, i < n /\ V' i nn <> 0%R.
Proof. exact hqr2_vectors_real_nonzero. Qed.

(* The overflow guard `if eps * t * t > 1 { for j in i..=nn { A[j][nn] /= t } }`: it divides the WHOLE
   part of the vector computed so far (rows m..=nn of column nn, the leading A[nn][nn] included) by
   t <> 0.  `Good H d nn A0 m Ac` says: only rows m..nn of column nn differ from the entry array A0,
   Ac[nn][nn] <> 0, and the homogeneous equations of rows m..nn-1 hold for column nn; it is preserved -
   because the equations are homogeneous.  (Rescaling only a part, or by a different factor per entry,
   would break `Eqs`.)  The guarded form, with t = |A[k][nn]| <> 0 following from 1 < eps*t*t: *)
Theorem C02_hqr2_overflow_guard_scales_whole_vector : forall n (H : mat) (d : nat -> R) nn,
  nn < n -> forall (A0 : mat) m (Ac : mat) (t : R),
  Good H d nn A0 m Ac -> t <> 0%R ->
  Good H d nn A0 m (vec_scale_col ROps Ac m nn nn t).
Proof. exact good_scale. Qed.

Theorem C02_hqr2_overflow_guard : forall n (eps : R) (H : mat) (d : nat -> R) nn,
  nn < n -> forall (A0 : mat) k (A1 : mat),
  Good H d nn A0 k A1 ->
  Good H d nn A0 k
    (if Rltb 1 (eps * Rabs (A1 k nn) * Rabs (A1 k nn))
     then vec_scale_col ROps A1 k nn nn (Rabs (A1 k nn)) else A1).
Proof. exact good_guard. Qed.

(* a complex-pair iteration writes only columns nn-1, nn of the working array and leaves the flag alone *)
Theorem C02_hqr2_complex_iteration_frame : forall (eps anorm p q : R) (d e : nat -> R) nn (st : vst),
  vok (vec_cplx ROps eps anorm p q d e nn st) = vok st /\
  (forall r c, c <> nn - 1 -> c <> nn -> vA (vec_cplx ROps eps anorm p q d e nn st) r c = vA st r c).
Proof. exact vec_cplx_frame. Qed.

(* the ghost flag holds whenever the real eigenvalues are pairwise distinct *)
Theorem C02_hqr2_flag_distinct_eigenvalues : forall eps n anorm (A V : mat) (d e : nat -> R),
  qtri n (uhess A) d e ->
  (forall i nn, i < nn -> nn < n -> e i = 0%R -> e nn = 0%R -> d i <> d nn) ->
  hqr2_vectors_ok ROps eps n anorm A V d e = true.
Proof. exact hqr2_vectors_ok_distinct. Qed.

(* ---------------- the general clause as a partial-correctness theorem ---------------- *)
(* evd_gen_model = balance ; elmhes ; eltran ; hqr2 (sweeps, back-substitution) ; balbak ; sort
   (ModelGenEvd.v; bit-exact against evd(false) end to end), over R with eps := 0.
   For every order and EVERY square matrix A: IF the model returns, with the ghost flag true (no division
   by zero in the back-substitution of a real eigenvalue: the perturbation branch was not taken - it holds
   e.g. when the real eigenvalues are pairwise distinct, C02_hqr2_flag_distinct_eigenvalues), THEN the
   general clause holds EXACTLY (tolerances 0): the values d + i e are conjugate-paired, sum d = trace A,
   sum (d^2 - e^2) = trace A^2, and every real d_j has a non-zero column v_j with A v_j = d_j v_j.
   (Replaces the former Definition C02_evd_gen_full_statement.) *)
Theorem C02_evd_gen_partial_correctness :
  forall (t095 : R) (sweeps fuel : nat) (A : list (list R)) V d e,
  let n := length A in
  square n A ->
  evd_gen_model ROps Rcopysign t095 0%R sweeps fuel A = Some (V, d, e, true) ->
  evd_gen_ok 0 0 0 A V d e.
Proof. exact evd_gen_partial_correct. Qed.

(* the last steps alone (no hypothesis about hqr2's internals): from 'B = S^-1 A S is similar, by an
   invertible Z, to a quasi-triangular H recorded in (d, e), and every real d_j has a non-zero eigenvector
   column of B' to the general clause for what balbak and sort return *)
Theorem C02_evd_gen_assembly : forall (A B : list (list R)) (s : list R) (H Z W V3 : mat) (d e : nat -> R)
    (d' e' : list R) (C : list (list R)),
  let n := length A in
  similar_by n s A B ->
  qtri n H d e ->
  meq n (mmul n (mfun 0%R B) Z) (mmul n Z H) -> meq n (mmul n W Z) mid -> meq n (mmul n Z W) mid ->
  (forall j, j < n -> e j = 0%R ->
     (forall i, i < n -> rsum n (fun k => (mfun 0%R B i k * V3 k j)%R) = (d j * V3 i j)%R) /\
     (exists i, i < n /\ V3 i j <> 0%R)) ->
  evd_sort ROps (vlist n d) (vlist n e) (transpose_rows 0%R n (balbak ROps (mrows n V3) s)) = (d', e', C) ->
  evd_gen_ok 0 0 0 A (transpose_rows 0%R n C) d' e'.
Proof. exact gen_clause_assembly. Qed.

(* What is still NOT proved for the general clause, stated in full: total correctness of the
   FLOATING-POINT routine.  `solve_gen` stands for evd(false) on binary64, u for the unit roundoff, c for
   the constant of the rounding-error bound.  Missing: (1) convergence of the QR sweeps (the theorem above
   assumes the model returns; the code panics after 30 sweeps without deflation - a known finding on
   defective matrices); (2) a backward error analysis (the theorem is about exact arithmetic with
   eps = 0 and assumes the ghost flag); (3) the columns of V that belong to complex eigenvalues: modelled and
   validated bit for bit, but nothing is proved about their values (the property does not constrain them).
   Per run the floating-point result is decided by the validator (C02_evd_gen_validated_partial). *)
Definition C02_evd_gen_float_total_statement
  (solve_gen : list (list float) -> list float * list float * list (list float)) (c u : R) : Prop :=
  forall A, let '(d, e, V) := solve_gen A in
    evd_gen_ok (c * INR (length A) * u) (c * INR (length A) * u) (c * INR (length A) * u)
               (map (map F2R) A) (map (map F2R) V) (map F2R d) (map F2R e).

(* what the validated statements mean *)
Theorem C02_sym_exact_meaning : forall A V d e,
  evd_sym_ok 0 A V d e ->
  forall i j, i < length A -> j < length A ->
    rdot (nth i A []) (rcol j V) = (nth j d 0 * nth i (rcol j V) 0)%R /\
    rdot (rcol i V) (rcol j V) = (if i =? j then 1 else 0)%R.
Proof. exact evd_sym_ok_exact. Qed.

Theorem C02_real_column_nonzero : forall v, (0 < rvmax v)%R -> exists i, nth i v 0%R <> 0%R.
Proof. exact rvmax_pos_nonzero. Qed.

Theorem C02_conj_pairs_im_cancel : forall l, ConjPaired l -> rlsum (map snd l) = 0%R.
Proof. exact conj_paired_im_sum. Qed.

(* ---------------- the hypotheses are satisfiable ---------------- *)
(* `sort` with the code's comparison on naturals: not sorted (the known quirk), but a joint permutation *)
Example C02_sort_instance :
  sort_model 0 (fun d i j => Nat.leb (nth j d 0) (nth i d 0)) [1; 3; 2; 3] [10; 30; 20; 31] [[1]; [3]; [2]; [4]]
  = ([3; 2; 3; 1], [30; 20; 31; 10], [[3]; [2]; [4]; [1]]).
Proof. reflexivity. Qed.

Example C02_tql2_sort_instance :
  tql2_sort 0 (fun a b => Nat.ltb b a) [1; 3; 2; 3] [[1]; [3]; [2]; [4]] = ([3; 3; 2; 1], [[3]; [4]; [2]; [1]]).
Proof. reflexivity. Qed.

(* A = [[1,4],[1,1]], S = diag(2,1), B = S^-1 A S = [[1,2],[2,1]], B (1,1) = 3 (1,1) *)
Example C02_balbak_instance :
  similar_by 2 [2; 1]%R [[1; 4]; [1; 1]]%R [[1; 2]; [2; 1]]%R /\
  (forall i, i < 2 -> rresid [[1; 2]; [2; 1]]%R (rcol 0 [[1; 0]; [1; 0]]%R) 3 i = 0%R).
Proof.
  split.
  - unfold similar_by, square. cbn [length]. repeat split.
    + intros r [<-|[<-|[]]]; reflexivity.
    + intros r [<-|[<-|[]]]; reflexivity.
    + intros i Hi. destruct i as [|[|i]]; cbn; try lra; lia.
    + intros i k Hi Hk. destruct i as [|[|i]]; destruct k as [|[|k]]; cbn; try lia; lra.
  - intros i Hi. destruct i as [|[|i]]; [| |lia]; unfold rresid, resid, rcol, col; cbn; lra.
Qed.

Example C02_block2_instance : exists r, block2 ROps Rcopysign 1%R 3%R (-5)%R 0%R = r.
Proof. eexists; reflexivity. Qed.

(* a validated symmetric output, and a validated rotation (complex pair +-i) *)
Example C02_check_sym_instance :
  check_evd_sym 0x1p-40%float [[2; 0]; [0; 1]]%float [[1; 0]; [0; 1]]%float [2; 1]%float [0; 0]%float = true.
Proof. vm_compute. reflexivity. Qed.

Example C02_check_gen_instance :
  check_evd_gen 0x1p-40%float 0x1p-40%float 0x1p-40%float
    [[0; -1]; [1; 0]]%float [[0; 0]; [0; 0]]%float [0; 0]%float [1; -1]%float = true.
Proof. vm_compute. reflexivity. Qed.

Example C02_check_gen_rejects :
  check_evd_gen 0x1p-40%float 0x1p-40%float 0x1p-40%float
    [[2; 0]; [0; 1]]%float [[0; 1]; [1; 0]]%float [2; 1]%float [0; 0]%float = false.
Proof. vm_compute. reflexivity. Qed.

(* ---------------- the new hypotheses are satisfiable ---------------- *)
(* tred2: the only hypotheses are n >= 1 and symmetry *)
Example C02_tred2_instance :
  let A := mfun 0%R [[4; 1; 2]; [1; 2; 0]; [2; 0; 3]]%R in
  msym 3 A /\ exists V d e, tred2 ROps 3 A = (V, d, e) /\ morth 3 V /\
                            meq 3 (mmul 3 A V) (mmul 3 V (tridiag d e)).
Proof.
  cbv zeta. assert (Hs : msym 3 (mfun 0%R [[4; 1; 2]; [1; 2; 0]; [2; 0; 3]]%R)).
  { intros i j Hi Hj. destruct i as [|[|[|i]]]; destruct j as [|[|[|j]]]; try lia; reflexivity. }
  split; [exact Hs|].
  pose proof (tred2_correct 3 _ ltac:(lia) Hs) as H.
  destruct (tred2 ROps 3 _) as [[V d] e]. exists V, d, e. destruct H as (H1 & H2 & _). auto.
Qed.

(* tql2: T = [[0,12],[12,7]], V0 = I: one real rotation (3-4-5), returns d = (-9, 16) with the flag true *)
Example C02_tql2_instance : exists V d e,
  morth 2 mid /\ meq 2 (mmul 2 xA mid) (mmul 2 mid (tridiag xd0 xe0)) /\
  tql2_ql ROps hypR 0%R 2 mid xd0 xe0 = Some (V, d, e, true) /\
  d 0 = (-9)%R /\ d 1 = 16%R /\
  morth 2 V /\ meq 2 (mmul 2 xA V) (mmul 2 V (mdiag d)).
Proof. exact tql2_ql_partial_correct_example. Qed.

(* the composed model returns with the flag true (order 1; the instance with a real rotation is the
   previous one, the stages of the composition have no other hypothesis) *)
Example C02_evd_sym_instance : forall a : R, exists V d e,
  evd_sym_model ROps hypR 0%R [[a]] = Some (V, d, e, true).
Proof.
  intros a. unfold evd_sym_model, tred2_rows. cbn [length].
  unfold tred2, t2_reduce, t2_finish, t2_init. cbn [Nat.sub ford forn].
  cbn [ROps o0 o1].
  unfold tql2_ql_rows. cbn [length vlist seq map].
  unfold tql2_ql. cbn [Nat.eqb forn]. unfold ql_outer.
  cbn [qd qe qV qf qok ROps o0 o1 oabs oadd omul oleb].
  set (E := e_shift ROps 1 _). set (T1 := omax ROps 0%R _).
  assert (Hm : find_m ROps 0%R 1 E T1 (1 - 0 + 1) 0 = 0).
  { cbn [Nat.sub Nat.add find_m Nat.ltb Nat.leb]. cbn [ROps oleb oabs omul].
    replace (E 0) with 0%R by reflexivity. rewrite Rabs_R0, Rmult_0_r.
    replace (Rleb 0 0) with true by (symmetry; apply Rleb_true; lra). reflexivity. }
  rewrite Hm. cbn [Nat.ltb Nat.leb].
  destruct (tql2_sort_ops ROps _ _) as [d3 C3].
  eexists. eexists. eexists. reflexivity.
Qed.

(* elmhes/eltran: a 3 x 3 instance in which rows/columns 1 and 2 are really interchanged *)
Example C02_elmhes_instance :
  let A' := fst (elmhes ROps 3 ex3) in
  let perm := snd (elmhes ROps 3 ex3) in
  let Z := eltran ROps 3 A' perm (eye ROps) in
  meq 3 (mmul 3 ex3 Z) (mmul 3 Z (hess A')) /\
  (exists W, meq 3 (mmul 3 Z W) mid /\ meq 3 (mmul 3 W Z) mid) /\
  perm 1 = 2.
Proof. exact ex3_similarity. Qed.

(* the rotation [[0,-1],[1,0]]: one complex 2x2 block with eigenvalues +-i, recorded as d = (0,0), e = (1,-1) *)
Example C02_qtri_instance :
  qtri 2 (mfun 0%R [[0; -1]; [1; 0]]%R) (vfun 0%R [0; 0]%R) (vfun 0%R [1; -1]%R).
Proof.
  unfold qtri. split; [|split; [|split; [|split]]].
  - intros r c Hr Hc Hrc. lia.
  - intros i Hi Hn. assert (i = 0) by lia. subst i. exfalso. apply Hn. cbn. lra.
  - intros i Hi He. destruct i as [|[|i]]; [| |lia]; cbn in He; lra.
  - intros i Hi He. destruct i as [|[|i]]; [| |lia].
    + cbn. repeat split; try lia; lra.
    + cbn in He. lra.
  - intros i Hi He. destruct i as [|[|i]]; [| |lia].
    + cbn in He. lra.
    + exists 0. split; [reflexivity|cbn; lra].
Qed.

(* hqr2 back-substitution: H = [[0,1,5],[-1,0,7],[0,0,2]] (a complex 2x2 block ABOVE the real eigenvalue 2,
   so the 2x2 solve is exercised), d = (0,0,2), e = (1,-1,0): qtri holds, the flag is true for every eps *)
Example C02_hqr2_vectors_instance : forall eps anorm (V : mat),
  qtri 3 (uhess exB) exBd exBe /\ hqr2_vectors_ok ROps eps 3 anorm exB V exBd exBe = true.
Proof. intros eps anorm V. split; [exact exB_qtri|exact (exB_ok eps anorm V)]. Qed.

(* hqr2's first half returns on an order-1 input (one root recorded immediately); sweeps with real
   Francis steps are exercised by the bit-exact correspondence, over R they involve nested square roots *)
Example C02_hqr2_sweeps_instance : exists A V d e anorm,
  hqr2_sweeps ROps Rcopysign 0%R 1 (fun _ _ => 5%R) mid (fun _ => 0%R) (fun _ => 0%R) = Some (A, V, d, e, anorm) /\
  d 0 = 5%R.
Proof. exact hqr2_sweeps_example. Qed.

(* the composed general model returns with the flag true (order 1) *)
Example C02_evd_gen_instance : forall t095 : R, exists V d e,
  evd_gen_model ROps Rcopysign t095 0%R 3 3 [[5%R]] = Some (V, d, e, true).
Proof.
  intros t095. unfold evd_gen_model. cbn [length].
  assert (Eb : balance ROps t095 3 3 [[5%R]] = Some ([[5%R]], [1%R])).
  { unfold balance. cbn [length repeat bal_loop seq fold_left bal_index bal_sums Nat.eqb].
    cbn [ROps o0 o1]. unfold neqb. cbn [ROps oeqb o0].
    replace (Reqb 0 0) with true by (symmetry; apply Reqb_true; reflexivity). cbn [negb andb]. reflexivity. }
  rewrite Eb.
  set (A1 := fst (elmhes ROps 1 (mfun (o0 ROps) [[5%R]]))).
  set (Z := eltran ROps 1 A1 (snd (elmhes ROps 1 (mfun (o0 ROps) [[5%R]]))) (eye ROps)).
  assert (Es : exists A V d e an,
            hqr2_sweeps ROps Rcopysign 0%R 1 A1 Z (fun _ => o0 ROps) (fun _ => o0 ROps) = Some (A, V, d, e, an)).
  { do 5 eexists. Timeout 60 lazy -[Rplus Rminus Rmult Rdiv Ropp Rabs IZR Rleb Reqb Rltb sqrt Rcopysign]. reflexivity. }
  destruct Es as (A2 & V2 & d2 & e2 & an & Es).
  destruct (hqr2_sweeps_partial_correct 1 A1 Z A2 V2 d2 e2 an Es) as [HQ _].
  pose proof (hqr2_vectors_ok_distinct 0%R 1 an A2 V2 d2 e2 HQ ltac:(intros; lia)) as Hok.
  unfold hqr2_model. cbn [ROps o0] in Es |- *. rewrite Es. unfold hqr2_vectors_ok in Hok. rewrite Hok.
  destruct (evd_sort ROps _ _ _) as [[d' e'] C]. do 3 eexists. reflexivity.
Qed.
