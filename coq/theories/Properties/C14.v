(* C14 — PCA and truncated SVD.  Property theorems only (each closed by `exact <lemma>`).

   The statements are about the executable model SC.C14.Model (transliteration of
   src/decomposition/pca.rs and src/decomposition/svd.rs on the C03 dense-matrix model) instantiated
   at the reals.  The SVD / symmetric EVD the code calls are ARGUMENTS of the model (`svd`, `evd`);
   the theorems hold for every pair of such functions whose result ON THE MATRIX THE MODEL HANDS
   THEM satisfies the factorisation's post-condition (`pca_fact_ok`, `tsvd_fact_ok`: V orthogonal,
   G V = V diag(lambda), lambda non-increasing).  That hypothesis is what C01/C02 validate; it is
   re-decided per run inside Coq on the implementation's own factors (C14/Corr.v,
   corr_pca_valid / corr_tsvd_valid).

   Vocabulary (SC.C14.ProofsLin / ProofsModel / ProofsPCA): matrices as functions nat -> nat -> R with
   explicit sizes; `cen X` centred data, `std X` centred data divided by the population standard
   deviation `col_sd` (what the code divides by), `pdata X corr` = the one the components act on;
   `pweights X corr P` = P (covariance mode) or diag(sd) P (correlation mode); `scov n Y` = Y^T Y/(n-1)
   the sample covariance matrix; `orthocols p k W`: the k columns of W are orthonormal;
   `eigcols p k S W lam`: S w_c = lam_c w_c for c < k; `noninc`; `mmul`; `qf p S q` = q^T S q. *)
From Coq Require Import List Arith Bool Reals Lia.
From SC Require Import Base.Num C03.Model C03.ProofsBase C03.ProofsRed
  C14.Model C14.ProofsBasic C14.ProofsLin C14.ProofsModel C14.ProofsPCA C14.ProofsTSVD C14.ProofsEx.
Import ListNotations.
Local Open Scope R_scope.
Local Notation get := (Model.get ROps).

(* ============================== PCA ============================== *)

(* transform is the row-wise affine map x -> (x - mu) P, for every fitted state (no assumption on
   the factorisation), and refuses any other column count *)
Theorem C14_pca_transform_affine : forall (svd evd : fact) X k corr st X',
  pca_fit ROps svd evd X k corr = Some st -> ncols X' = ncols X ->
  exists T, pca_transform ROps st X' = Some T /\ nrows T = nrows X' /\ ncols T = k /\ wf T /\
    forall r c, (r < nrows X')%nat -> (c < k)%nat ->
      get T r c = rsum (ncols X) (fun i => (get X' r i - col_mu X i) * get (p_projection st) i c).
Proof. exact transform_spec. Qed.

Theorem C14_pca_transform_rejects_width : forall (svd evd : fact) X k corr st X',
  pca_fit ROps svd evd X k corr = Some st -> ncols X' <> ncols X -> pca_transform ROps st X' = None.
Proof. exact transform_rejects. Qed.

(* transforming a stack of rows equals stacking the transforms *)
Theorem C14_pca_transform_stack : forall (svd evd : fact) X k corr st A B AB TA TB,
  pca_fit ROps svd evd X k corr = Some st ->
  ncols A = ncols X -> ncols B = ncols X -> v_stack ROps A B = Some AB ->
  pca_transform ROps st A = Some TA -> pca_transform ROps st B = Some TB ->
  exists TAB, pca_transform ROps st AB = Some TAB /\ v_stack ROps TA TB = Some TAB.
Proof. exact transform_stack. Qed.

(* The main theorem, both modes (corr = false: covariance; corr = true: correlation, i.e. the same
   on the standardised data), both internal paths, every n >= 2, p, k <= p:
   the components W are orthonormal eigenvectors of the sample covariance matrix S of the data for
   its k LARGEST eigenvalues lam_0 >= ... >= lam_{k-1} (lam_0..lam_{p-1} is the whole spectrum:
   S = V diag(lam) V^T with V orthogonal and W its first k columns); the stored eigenvalues are the
   lam up to the factor `evscale`; the scores of the training data are Y W, have zero column sums,
   and their cross products / (n-1) are diag(lam): uncorrelated, variances lam_c, non-increasing. *)
Theorem C14_pca_components_and_scores : forall (svd evd : fact) X k corr st,
  (2 <= nrows X)%nat ->
  (corr = true -> forall i, (i < ncols X)%nat -> col_sd X i <> 0) ->
  pca_fact_ok svd evd X corr ->
  pca_fit ROps svd evd X k corr = Some st ->
  let n := nrows X in let p := ncols X in
  let Y := pdata X corr in let S := scov n Y in
  let W := pweights X corr (p_projection st) in
  exists (lam : nat -> R) (T : dm R),
    (k <= p)%nat /\
    orthocols p k W /\ eigcols p k S W lam /\ noninc p lam /\
    (forall c, (c < p)%nat -> lam c = evscale X corr * nth c (p_eigenvalues st) 0) /\
    (exists V, fact_ok p S lam V /\ forall i c, (i < p)%nat -> (c < k)%nat -> W i c = get V i c) /\
    pca_transform ROps st X = Some T /\ nrows T = n /\ ncols T = k /\ wf T /\
    (forall r c, (r < n)%nat -> (c < k)%nat -> get T r c = mmul p Y W r c) /\
    (forall c, (c < k)%nat -> rsum n (fun r => get T r c) = 0) /\
    (forall a b, (a < k)%nat -> (b < k)%nat ->
       rsum n (fun r => get T r a * get T r b) / INR (n - 1) = lam b * delta a b).
Proof. exact pca_main. Qed.

(* the same in the vocabulary of the dense-matrix model: column means of the scores are zero and
   DenseMatrix::cov of the scores is diag(lam_0, ..., lam_{k-1}), lam non-increasing eigenvalues of
   the sample covariance matrix *)
Theorem C14_pca_scores_covariance_diagonal : forall (svd evd : fact) X k corr st,
  (2 <= nrows X)%nat ->
  (corr = true -> forall i, (i < ncols X)%nat -> col_sd X i <> 0) ->
  pca_fact_ok svd evd X corr ->
  pca_fit ROps svd evd X k corr = Some st ->
  exists T D (lam : nat -> R),
    pca_transform ROps st X = Some T /\ cov ROps T = Some D /\ nrows D = k /\ ncols D = k /\
    (forall c, (c < k)%nat -> col_mu T c = 0) /\
    (forall a b, (a < k)%nat -> (b < k)%nat -> get D a b = if Nat.eqb a b then lam a else 0) /\
    (forall a b, (a <= b)%nat -> (b < k)%nat -> lam b <= lam a) /\
    eigcols (ncols X) k (scov (nrows X) (pdata X corr)) (pweights X corr (p_projection st)) lam /\
    (forall c, (c < k)%nat -> lam c = evscale X corr * nth c (p_eigenvalues st) 0).
Proof. exact pca_scores_cov. Qed.

(* `scov n (cen X)` is the matrix DenseMatrix::cov returns for the data *)
Theorem C14_sample_covariance_is_dense_cov : forall X C i j,
  (1 <= nrows X)%nat -> cov ROps X = Some C -> (i < ncols X)%nat -> (j < ncols X)%nat ->
  get C i j = scov (nrows X) (cen X) i j.
Proof. exact scov_is_cov. Qed.

(* optimality: the variance captured by the k components (= lam_0 + ... + lam_{k-1}) is at least the
   variance captured by ANY k orthonormal directions Q *)
Theorem C14_pca_variance_captured_optimal : forall (svd evd : fact) X k corr st (Q : Mx),
  (2 <= nrows X)%nat -> (1 <= k)%nat ->
  (corr = true -> forall i, (i < ncols X)%nat -> col_sd X i <> 0) ->
  pca_fact_ok svd evd X corr ->
  pca_fit ROps svd evd X k corr = Some st ->
  let n := nrows X in let p := ncols X in
  let Y := pdata X corr in let W := pweights X corr (p_projection st) in
  let pvar := fun (q : nat -> R) =>
    rsum n (fun r => rsum p (fun i => Y r i * q i) * rsum p (fun i => Y r i * q i)) / INR (n - 1) in
  orthocols p k Q ->
  rsum k (fun a => pvar (fun i => Q i a)) <= rsum k (fun a => pvar (fun i => W i a)).
Proof. exact pca_optimal. Qed.

(* Ky Fan's maximum principle in general form *)
Theorem C14_ky_fan : forall p k (G V Q : Mx) lam,
  (1 <= k)%nat -> (k <= p)%nat ->
  eigcols p p G V lam -> orthocols p p V -> orthorows p V -> noninc p lam ->
  orthocols p k Q ->
  rsum k (fun a => qf p G (fun i => Q i a)) <= rsum k lam.
Proof. exact ky_fan. Qed.

(* SVD path = EVD path: right singular vectors of the (centred) data are eigenvectors of its Gram
   matrix with eigenvalues s^2, which is the form `pca_fact_ok` asks of the SVD *)
Theorem C14_pca_svd_path_equiv : forall m p (X U V : Mx) (s : nat -> R),
  (forall r i, (r < m)%nat -> (i < p)%nat -> X r i = rsum p (fun a => U r a * (s a * V i a))) ->
  orthocols m p U -> orthocols p p V ->
  eigcols p p (gramm m X) V (fun c => s c * s c).
Proof. exact svd_gives_eig. Qed.

Theorem C14_pca_rejects_k_gt_p : forall (T : Type) (K : Ops T) (svd evd : fact) (x : dm T) (k : nat) (c : bool),
  (ncols x < k)%nat -> pca_fit K svd evd x k c = None.
Proof. exact @pca_rejects. Qed.

(* ============================== truncated SVD ============================== *)

(* components = the k leading columns of V: orthonormal eigenvectors of X^T X for its k largest
   eigenvalues s_c^2; the columns of X C are orthogonal with squared norms s_c^2, so
   |X C|_F^2 = s_0^2 + ... + s_{k-1}^2 *)
Theorem C14_tsvd_components_and_energy : forall (svd : fact) X k C,
  tsvd_fact_ok svd X -> tsvd_fit ROps svd X k = Some C ->
  let n := nrows X in let p := ncols X in
  exists (s : list R) (T : dm R),
    (k < p)%nat /\ nrows C = p /\ ncols C = k /\ wf C /\
    orthocols p k (get C) /\
    eigcols p k (gramm n (get X)) (get C) (fun c => lam_of s c * lam_of s c) /\
    noninc p (fun c => lam_of s c * lam_of s c) /\
    (exists V, svd X = Some (s, V) /\ fact_ok p (gramm n (get X)) (fun c => lam_of s c * lam_of s c) V /\
               forall i c, (i < p)%nat -> (c < k)%nat -> get C i c = get V i c) /\
    tsvd_transform ROps C X = Some T /\ nrows T = n /\ ncols T = k /\ wf T /\
    (forall r c, (r < n)%nat -> (c < k)%nat -> get T r c = rsum p (fun i => get X r i * get C i c)) /\
    (forall a b, (a < k)%nat -> (b < k)%nat ->
       rsum n (fun r => get T r a * get T r b) = lam_of s b * lam_of s b * delta a b) /\
    rsum k (fun c => rsum n (fun r => get T r c * get T r c)) = rsum k (fun c => lam_of s c * lam_of s c).
Proof. exact tsvd_main. Qed.

Theorem C14_tsvd_energy_optimal : forall (svd : fact) X k C (Q : Mx),
  (1 <= k)%nat -> tsvd_fact_ok svd X -> tsvd_fit ROps svd X k = Some C ->
  let n := nrows X in let p := ncols X in
  let energy := fun (q : nat -> R) =>
    rsum n (fun r => rsum p (fun i => get X r i * q i) * rsum p (fun i => get X r i * q i)) in
  orthocols p k Q ->
  rsum k (fun a => energy (fun i => Q i a)) <= rsum k (fun a => energy (fun i => get C i a)).
Proof. exact tsvd_optimal. Qed.

(* transform is x -> x C row by row, for any components matrix; other widths are refused; stacking *)
Theorem C14_tsvd_transform_linear : forall (C X' : dm R),
  nrows C = ncols X' ->
  exists T, tsvd_transform ROps C X' = Some T /\ nrows T = nrows X' /\ ncols T = ncols C /\ wf T /\
    forall r c, (r < nrows X')%nat -> (c < ncols C)%nat ->
      get T r c = rsum (ncols X') (fun i => get X' r i * get C i c).
Proof. exact tsvd_transform_spec. Qed.

Theorem C14_tsvd_transform_rejects_width : forall (C X' : dm R),
  nrows C <> ncols X' -> tsvd_transform ROps C X' = None.
Proof. exact tsvd_transform_rejects. Qed.

Theorem C14_tsvd_transform_stack : forall (C A B AB TA TB : dm R),
  nrows C = ncols A -> nrows C = ncols B -> v_stack ROps A B = Some AB ->
  tsvd_transform ROps C A = Some TA -> tsvd_transform ROps C B = Some TB ->
  exists TAB, tsvd_transform ROps C AB = Some TAB /\ v_stack ROps TA TB = Some TAB.
Proof. exact tsvd_transform_stack. Qed.

(* truncated SVD rejects n_components >= p (in particular k = p), whatever the SVD would return *)
Theorem C14_tsvd_rejects_k_ge_p : forall (T : Type) (K : Ops T) (svd : fact) (x : dm T) (k : nat),
  (ncols x <= k)%nat -> tsvd_fit K svd x k = None.
Proof. exact @tsvd_rejects. Qed.

(* ============================== the hypotheses are satisfiable ============================== *)
(* 4 x 2 data [[2,1],[2,-1],[-2,1],[-2,-1]] (SVD path, n > p), an `svd` returning s = (4, 2), V = I:
   the factorisation hypothesis holds, fit succeeds for every k <= 2, and there are orthonormal
   frames to compare with *)
Example C14_pca_hypotheses_satisfiable :
  (2 <= nrows exX)%nat /\ pca_fact_ok ex_svd ex_evd exX false /\
  (forall k, (k <= 2)%nat -> exists st, pca_fit ROps ex_svd ex_evd exX k false = Some st) /\
  orthocols (ncols exX) 1 (fun i _ => if Nat.eqb i 1 then 1 else 0).
Proof.
  split; [cbn; lia|]. split; [exact ex_pca_fact_ok|]. split; [exact ex_pca_fit_some|exact ex_frame].
Qed.

Example C14_tsvd_hypotheses_satisfiable :
  tsvd_fact_ok ex_svd exX /\ (exists C, tsvd_fit ROps ex_svd exX 1 = Some C) /\
  orthocols (ncols exX) 1 (fun i _ => if Nat.eqb i 1 then 1 else 0).
Proof. split; [exact ex_tsvd_fact_ok|]. split; [exact ex_tsvd_fit_some|exact ex_frame]. Qed.

(* correlation mode (EVD path): 3 x 2 data [[1,1],[-1,1],[0,-2]] (column standard deviations
   sqrt(2/3) and sqrt 2, correlation matrix = identity), an `evd` returning d = (1, 1), V = I *)
Example C14_pca_correlation_hypotheses_satisfiable :
  (2 <= nrows exX2)%nat /\
  (true = true -> forall i, (i < ncols exX2)%nat -> col_sd exX2 i <> 0) /\
  pca_fact_ok ex_svd2 ex_evd2 exX2 true /\
  (forall k, (k <= 2)%nat -> exists st, pca_fit ROps ex_svd2 ex_evd2 exX2 k true = Some st).
Proof.
  split; [cbn; lia|]. split; [intros _; exact ex2_sd_nonzero|].
  split; [exact ex2_pca_fact_ok|exact ex2_pca_fit_some].
Qed.

(* ============================== END TO END (exact arithmetic) ============================== *)
(* The factorisation arguments instantiated with the MODELS of the code's own routines over the reals:
   `svd_fact cs minpos` = C01's model of svd_mut (src/linalg/svd.rs) with the negligibility threshold
   eps := 0, `evd_fact` = C02's model of evd(true) (tred2 + QL sweeps + sort, src/linalg/evd.rs) with
   eps := 0 and exact hypot.  pca_fact_ok / tsvd_fact_ok are no longer hypotheses: they are proved from
   C01's svd_mut_correct and C02's evd_sym_partial_correct (C14/ProofsEndToEnd.v).  What remains:
   the models must RETURN (`pca_fit ... = Some st`: convergence of the sweeps is not proved, and over
   the reals with eps = 0 a generic matrix needing a sweep does not return), and on the SVD path C01's
   side condition `bd_regular` (every bidiagonal entry is zero or at least minpos in size), packaged as
   `pca_svd_regular` (vacuous on the EVD path).  Rounding is outside these statements. *)
From SC Require Import C14.ProofsEndToEnd.
From SC Require C01.Proofs_svd_bidiag C01.Proofs_svd_accum.

(* pca_fact_ok holds for the modelled factorisations *)
Theorem C14_pca_factorisation_hypothesis_discharged : forall cs minpos X corr,
  0 < minpos -> C01.Proofs_svd_bidiag.cs_spec cs -> pca_svd_regular cs minpos X corr ->
  pca_fact_ok (svd_fact cs minpos) evd_fact X corr.
Proof. exact pca_fact_ok_end_to_end. Qed.

(* tsvd_fact_ok holds for the modelled SVD on tall or square data (for wide data C01's statement
   gives U U^T = I only, from which (X^T X) V = V diag(s^2) does not follow without knowing which
   singular values vanish: not discharged) *)
Theorem C14_tsvd_factorisation_hypothesis_discharged : forall cs minpos X,
  (ncols X <= nrows X)%nat -> 0 < minpos -> C01.Proofs_svd_bidiag.cs_spec cs ->
  C01.Proofs_svd_accum.bd_regular minpos (ncols X)
    (C01.Proofs_svd_accum.svd_bd cs (nrows X) (ncols X) (fun i j => get X i j)) ->
  tsvd_fact_ok (svd_fact cs minpos) X.
Proof. exact tsvd_fact_ok_end_to_end. Qed.

(* a square matrix with orthonormal columns has orthonormal rows (C02 states V^T V = I only) *)
Theorem C14_orthocols_square_orthorows : forall p (V : Mx), orthocols p p V -> orthorows p V.
Proof. exact orthocols_square_orthorows. Qed.

Theorem C14_pca_components_and_scores_end_to_end : forall cs minpos X k corr st,
  (2 <= nrows X)%nat ->
  (corr = true -> forall i, (i < ncols X)%nat -> col_sd X i <> 0) ->
  0 < minpos -> C01.Proofs_svd_bidiag.cs_spec cs -> pca_svd_regular cs minpos X corr ->
  pca_fit ROps (svd_fact cs minpos) evd_fact X k corr = Some st ->
  let n := nrows X in let p := ncols X in
  let Y := pdata X corr in let S := scov n Y in
  let W := pweights X corr (p_projection st) in
  exists (lam : nat -> R) (T : dm R),
    (k <= p)%nat /\
    orthocols p k W /\ eigcols p k S W lam /\ noninc p lam /\
    (forall c, (c < p)%nat -> lam c = evscale X corr * nth c (p_eigenvalues st) 0) /\
    (exists V, fact_ok p S lam V /\ forall i c, (i < p)%nat -> (c < k)%nat -> W i c = get V i c) /\
    pca_transform ROps st X = Some T /\ nrows T = n /\ ncols T = k /\ wf T /\
    (forall r c, (r < n)%nat -> (c < k)%nat -> get T r c = mmul p Y W r c) /\
    (forall c, (c < k)%nat -> rsum n (fun r => get T r c) = 0) /\
    (forall a b, (a < k)%nat -> (b < k)%nat ->
       rsum n (fun r => get T r a * get T r b) / INR (n - 1) = lam b * delta a b).
Proof.
  intros cs minpos X k corr st Hn Hsd Hmp Hcs Hreg Hfit.
  exact (pca_main _ _ X k corr st Hn Hsd (pca_fact_ok_end_to_end cs minpos X corr Hmp Hcs Hreg) Hfit).
Qed.

Theorem C14_pca_scores_covariance_diagonal_end_to_end : forall cs minpos X k corr st,
  (2 <= nrows X)%nat ->
  (corr = true -> forall i, (i < ncols X)%nat -> col_sd X i <> 0) ->
  0 < minpos -> C01.Proofs_svd_bidiag.cs_spec cs -> pca_svd_regular cs minpos X corr ->
  pca_fit ROps (svd_fact cs minpos) evd_fact X k corr = Some st ->
  exists T D (lam : nat -> R),
    pca_transform ROps st X = Some T /\ cov ROps T = Some D /\ nrows D = k /\ ncols D = k /\
    (forall c, (c < k)%nat -> col_mu T c = 0) /\
    (forall a b, (a < k)%nat -> (b < k)%nat -> get D a b = if Nat.eqb a b then lam a else 0) /\
    (forall a b, (a <= b)%nat -> (b < k)%nat -> lam b <= lam a) /\
    eigcols (ncols X) k (scov (nrows X) (pdata X corr)) (pweights X corr (p_projection st)) lam /\
    (forall c, (c < k)%nat -> lam c = evscale X corr * nth c (p_eigenvalues st) 0).
Proof.
  intros cs minpos X k corr st Hn Hsd Hmp Hcs Hreg Hfit.
  exact (pca_scores_cov _ _ X k corr st Hn Hsd (pca_fact_ok_end_to_end cs minpos X corr Hmp Hcs Hreg) Hfit).
Qed.

Theorem C14_pca_variance_captured_optimal_end_to_end : forall cs minpos X k corr st (Q : Mx),
  (2 <= nrows X)%nat -> (1 <= k)%nat ->
  (corr = true -> forall i, (i < ncols X)%nat -> col_sd X i <> 0) ->
  0 < minpos -> C01.Proofs_svd_bidiag.cs_spec cs -> pca_svd_regular cs minpos X corr ->
  pca_fit ROps (svd_fact cs minpos) evd_fact X k corr = Some st ->
  let n := nrows X in let p := ncols X in
  let Y := pdata X corr in let W := pweights X corr (p_projection st) in
  let pvar := fun (q : nat -> R) =>
    rsum n (fun r => rsum p (fun i => Y r i * q i) * rsum p (fun i => Y r i * q i)) / INR (n - 1) in
  orthocols p k Q ->
  rsum k (fun a => pvar (fun i => Q i a)) <= rsum k (fun a => pvar (fun i => W i a)).
Proof.
  intros cs minpos X k corr st Q Hn Hk Hsd Hmp Hcs Hreg Hfit.
  exact (pca_optimal _ _ X k corr st Q Hn Hk Hsd (pca_fact_ok_end_to_end cs minpos X corr Hmp Hcs Hreg) Hfit).
Qed.

Theorem C14_tsvd_components_and_energy_end_to_end : forall cs minpos X k C,
  (ncols X <= nrows X)%nat -> 0 < minpos -> C01.Proofs_svd_bidiag.cs_spec cs ->
  C01.Proofs_svd_accum.bd_regular minpos (ncols X)
    (C01.Proofs_svd_accum.svd_bd cs (nrows X) (ncols X) (fun i j => get X i j)) ->
  tsvd_fit ROps (svd_fact cs minpos) X k = Some C ->
  let n := nrows X in let p := ncols X in
  exists (s : list R) (T : dm R),
    (k < p)%nat /\ nrows C = p /\ ncols C = k /\ wf C /\
    orthocols p k (get C) /\
    eigcols p k (gramm n (get X)) (get C) (fun c => lam_of s c * lam_of s c) /\
    noninc p (fun c => lam_of s c * lam_of s c) /\
    (exists V, svd_fact cs minpos X = Some (s, V) /\
               fact_ok p (gramm n (get X)) (fun c => lam_of s c * lam_of s c) V /\
               forall i c, (i < p)%nat -> (c < k)%nat -> get C i c = get V i c) /\
    tsvd_transform ROps C X = Some T /\ nrows T = n /\ ncols T = k /\ wf T /\
    (forall r c, (r < n)%nat -> (c < k)%nat -> get T r c = rsum p (fun i => get X r i * get C i c)) /\
    (forall a b, (a < k)%nat -> (b < k)%nat ->
       rsum n (fun r => get T r a * get T r b) = lam_of s b * lam_of s b * delta a b) /\
    rsum k (fun c => rsum n (fun r => get T r c * get T r c)) = rsum k (fun c => lam_of s c * lam_of s c).
Proof.
  intros cs minpos X k C Hnm Hmp Hcs Hreg Hfit.
  exact (tsvd_main _ X k C (tsvd_fact_ok_end_to_end cs minpos X Hnm Hmp Hcs Hreg) Hfit).
Qed.

Theorem C14_tsvd_energy_optimal_end_to_end : forall cs minpos X k C (Q : Mx),
  (1 <= k)%nat -> (ncols X <= nrows X)%nat -> 0 < minpos -> C01.Proofs_svd_bidiag.cs_spec cs ->
  C01.Proofs_svd_accum.bd_regular minpos (ncols X)
    (C01.Proofs_svd_accum.svd_bd cs (nrows X) (ncols X) (fun i j => get X i j)) ->
  tsvd_fit ROps (svd_fact cs minpos) X k = Some C ->
  let n := nrows X in let p := ncols X in
  let energy := fun (q : nat -> R) =>
    rsum n (fun r => rsum p (fun i => get X r i * q i) * rsum p (fun i => get X r i * q i)) in
  orthocols p k Q ->
  rsum k (fun a => energy (fun i => Q i a)) <= rsum k (fun a => energy (fun i => get C i a)).
Proof.
  intros cs minpos X k C Q Hk Hnm Hmp Hcs Hreg Hfit.
  exact (tsvd_optimal _ X k C Q Hk (tsvd_fact_ok_end_to_end cs minpos X Hnm Hmp Hcs Hreg) Hfit).
Qed.

(* the end-to-end hypotheses are satisfiable: for EVERY single-column data set with n >= 2 rows (SVD
   path, no sweep needed) the modelled SVD returns, its bidiagonal entries are regular for a suitable
   minpos, and PCA::fit's model returns a state *)
Example C14_end_to_end_hypotheses_satisfiable : forall X : dm R,
  ncols X = 1%nat -> (2 <= nrows X)%nat ->
  exists minpos st, 0 < minpos /\ C01.Proofs_svd_bidiag.cs_spec copysignR /\
    pca_svd_regular copysignR minpos X false /\
    pca_fit ROps (svd_fact copysignR minpos) evd_fact X 1 false = Some st.
Proof.
  intros X Hp Hn. destruct (single_column_end_to_end X Hp Hn) as (minpos & st & H1 & H2 & H3).
  exists minpos, st. split; [exact H1|]. split; [exact copysignR_spec|]. split; [exact H2|exact H3].
Qed.

(* ============================== ROUNDING (binary64) ============================== *)
(* The same generic definitions instantiated at FOps (Coq primitive floats = IEEE binary64) are what the
   per-run correspondence executes against the Rust code bit for bit.  Fitting goes through SVD / EVD and
   has no rounding theorem; TRANSFORM is straight-line (C14/ProofsFloat.v):
       SVD:  t_ic = fl(sum_j x_ij C_jc)                        (x.matmul(components))
       PCA:  t_ic = fl( fl(sum_j x_ij P_jc) - pmu_c )           (x.matmul(projection), then -= pmu[c]:
             the code does not centre x, it subtracts the projected mean stored at fit time)
   Vocabulary (Base/FloatError.v): FR x = real value of a float, ffin x = finite, u64 = 2^-53,
   eta64 = 2^-1075; RM m = the matrix of real values (C03/ProofsFloat.v), RSt st = the fitted state of
   real values.  The only no-overflow hypothesis is that the entry in question is finite (then every
   operand that entered it is finite).  Bounds are relative to the sum of magnitudes (cancellation). *)
From Coq Require Import ZArith Floats.
From SC Require Base.FloatError C03.ProofsFloat C03.ProofsFloat2 C14.ProofsFloat.

(* truncated SVD: every finite entry (i,c) of the binary64 transform: the matmul-entry bound of C03 *)
Theorem C14_tsvd_transform_float_error : forall (C X Tm : C03.Model.dm PrimFloat.float) (i c : nat),
  C14.Model.tsvd_transform FOps C X = Some Tm -> (i < C03.Model.nrows X)%nat -> (c < C03.Model.ncols C)%nat ->
  FloatError.ffin (C03.Model.get FOps Tm i c) ->
  let p := C03.Model.ncols X in
  let t := fun j => FloatError.FR (C03.Model.get FOps X i j) * FloatError.FR (C03.Model.get FOps C j c) in
  (forall j, (j < p)%nat -> FloatError.ffin (C03.Model.get FOps X i j) /\ FloatError.ffin (C03.Model.get FOps C j c)) /\
  (exists TR, C14.Model.tsvd_transform ROps (C03.ProofsFloat.RM C) (C03.ProofsFloat.RM X) = Some TR /\
              C03.Model.get ROps TR i c = FloatError.Rsuml (map t (seq 0 p))) /\
  Rabs (FloatError.FR (C03.Model.get FOps Tm i c) - FloatError.Rsuml (map t (seq 0 p))) <=
    ((1 + FloatError.u64) ^ p - 1) * (FloatError.Rsumabs (map t (seq 0 p)) + INR p * FloatError.eta64)
    + INR p * FloatError.eta64.
Proof. exact C14.ProofsFloat.tsvd_transform_float_error. Qed.

(* PCA, in the model's (= the code's) expression order: product first, then one subtraction of the stored
   projected mean pmu_c (one more rounding; a difference of two floats cannot underflow inexactly).
   S = sum_j x_ij P_jc, A = sum_j |x_ij P_jc| on the real values of the floats; the exact value S - pmu_c is
   what the SAME model computes over the reals on the real values of the same state and input. *)
Theorem C14_pca_transform_float_error : forall (st : C14.Model.pca_st PrimFloat.float)
    (X Tm : C03.Model.dm PrimFloat.float) (i c : nat),
  C14.Model.pca_transform FOps st X = Some Tm -> (i < C03.Model.nrows X)%nat ->
  (c < C03.Model.ncols (C14.Model.p_projection st))%nat ->
  FloatError.ffin (C03.Model.get FOps Tm i c) ->
  let p := C03.Model.ncols X in
  let Pm := C14.Model.p_projection st in
  let m := FloatError.FR (nth c (C14.Model.p_pmu st) 0%float) in
  let t := fun j => FloatError.FR (C03.Model.get FOps X i j) * FloatError.FR (C03.Model.get FOps Pm j c) in
  let S := FloatError.Rsuml (map t (seq 0 p)) in
  let A := FloatError.Rsumabs (map t (seq 0 p)) in
  (forall j, (j < p)%nat -> FloatError.ffin (C03.Model.get FOps X i j) /\ FloatError.ffin (C03.Model.get FOps Pm j c)) /\
  FloatError.ffin (nth c (C14.Model.p_pmu st) 0%float) /\
  (exists TR, C14.Model.pca_transform ROps (C14.ProofsFloat.RSt st) (C03.ProofsFloat.RM X) = Some TR /\
              C03.Model.get ROps TR i c = S - m) /\
  Rabs (FloatError.FR (C03.Model.get FOps Tm i c) - (S - m)) <=
    FloatError.u64 * Rabs (S - m)
    + (1 + FloatError.u64) * (((1 + FloatError.u64) ^ p - 1) * (A + INR p * FloatError.eta64) + INR p * FloatError.eta64) /\
  Rabs (FloatError.FR (C03.Model.get FOps Tm i c) - (S - m)) <=
    ((1 + FloatError.u64) ^ (p + 1) - 1) * (A + INR p * FloatError.eta64) + INR p * FloatError.eta64
    + FloatError.u64 * Rabs m.
Proof. exact C14.ProofsFloat.pca_transform_float_error. Qed.

(* the projected mean stored by the model of fit run at binary64 (for EVERY svd / evd function: nothing is
   claimed about the factorisation): pmu_c = fl(sum_j P_jc mu_j) on the stored projection and mu *)
Theorem C14_pca_pmu_float_error : forall (svd evd : C14.Model.fact) (data : C03.Model.dm PrimFloat.float)
    (k : nat) (corr : bool) (st : C14.Model.pca_st PrimFloat.float) (c : nat),
  C14.Model.pca_fit FOps svd evd data k corr = Some st -> (c < k)%nat ->
  FloatError.ffin (nth c (C14.Model.p_pmu st) 0%float) ->
  let p := C03.Model.ncols data in
  let Pm := C14.Model.p_projection st in
  let w := fun j => FloatError.FR (C03.Model.get FOps Pm j c) * FloatError.FR (nth j (C14.Model.p_mu st) 0%float) in
  (forall j, (j < p)%nat -> FloatError.ffin (C03.Model.get FOps Pm j c) /\
                            FloatError.ffin (nth j (C14.Model.p_mu st) 0%float)) /\
  Rabs (FloatError.FR (nth c (C14.Model.p_pmu st) 0%float) - FloatError.Rsuml (map w (seq 0 p))) <=
    ((1 + FloatError.u64) ^ p - 1) * (FloatError.Rsumabs (map w (seq 0 p)) + INR p * FloatError.eta64)
    + INR p * FloatError.eta64.
Proof. exact C14.ProofsFloat.pca_pmu_float_error. Qed.

(* fit then transform, both at binary64: every finite score against the affine form sum_j (x_ij - mu_j) P_jc
   on the real values of the stored mean and projection; A = sum_j |x_ij P_jc|, B = sum_j |P_jc mu_j| *)
Theorem C14_pca_transform_affine_float_error : forall (svd evd : C14.Model.fact)
    (data : C03.Model.dm PrimFloat.float) (k : nat) (corr : bool) (st : C14.Model.pca_st PrimFloat.float)
    (X Tm : C03.Model.dm PrimFloat.float) (i c : nat),
  C14.Model.pca_fit FOps svd evd data k corr = Some st ->
  C14.Model.pca_transform FOps st X = Some Tm -> (i < C03.Model.nrows X)%nat -> (c < k)%nat ->
  FloatError.ffin (C03.Model.get FOps Tm i c) ->
  let p := C03.Model.ncols X in
  let Pm := C14.Model.p_projection st in
  let mu := fun j => FloatError.FR (nth j (C14.Model.p_mu st) 0%float) in
  let x := fun j => FloatError.FR (C03.Model.get FOps X i j) in
  let A := FloatError.Rsumabs (map (fun j => x j * FloatError.FR (C03.Model.get FOps Pm j c)) (seq 0 p)) in
  let B := FloatError.Rsumabs (map (fun j => FloatError.FR (C03.Model.get FOps Pm j c) * mu j) (seq 0 p)) in
  p = C03.Model.ncols data /\
  (forall j, (j < p)%nat -> FloatError.ffin (C03.Model.get FOps X i j) /\ FloatError.ffin (C03.Model.get FOps Pm j c) /\
                            FloatError.ffin (nth j (C14.Model.p_mu st) 0%float)) /\
  Rabs (FloatError.FR (C03.Model.get FOps Tm i c)
        - FloatError.Rsuml (map (fun j => (x j - mu j) * FloatError.FR (C03.Model.get FOps Pm j c)) (seq 0 p))) <=
    ((1 + FloatError.u64) ^ (p + 1) - 1) * (A + B + 2 * INR p * FloatError.eta64) + 2 * INR p * FloatError.eta64.
Proof. exact C14.ProofsFloat.pca_transform_affine_float_error. Qed.

(* Row independence at binary64, BIT FOR BIT (Leibniz equality of matrices of primitive floats; Coq's floats
   have a single NaN): the transform of a stack of rows is the stack of the transforms.  No rounding argument:
   it is structural and holds for every fitted state / components matrix whatsoever. *)
Theorem C14_transform_row_independent_float :
  (forall (st : C14.Model.pca_st PrimFloat.float) (A B AB TA TB : C03.Model.dm PrimFloat.float),
     C03.Model.v_stack FOps A B = Some AB ->
     C14.Model.pca_transform FOps st A = Some TA -> C14.Model.pca_transform FOps st B = Some TB ->
     exists TAB, C14.Model.pca_transform FOps st AB = Some TAB /\ C03.Model.v_stack FOps TA TB = Some TAB) /\
  (forall (C A B AB TA TB : C03.Model.dm PrimFloat.float),
     C03.Model.v_stack FOps A B = Some AB ->
     C14.Model.tsvd_transform FOps C A = Some TA -> C14.Model.tsvd_transform FOps C B = Some TB ->
     exists TAB, C14.Model.tsvd_transform FOps C AB = Some TAB /\ C03.Model.v_stack FOps TA TB = Some TAB).
Proof.
  split; [exact (C14.ProofsFloat.pca_transform_stack_gen FOps) | exact (C14.ProofsFloat.tsvd_transform_stack_gen FOps)].
Qed.

(* the same for every number type the model is instantiated at *)
Theorem C14_transform_row_independent_generic : forall (T : Type) (K : Ops T),
  (forall (st : C14.Model.pca_st T) (A B AB TA TB : C03.Model.dm T),
     C03.Model.v_stack K A B = Some AB ->
     C14.Model.pca_transform K st A = Some TA -> C14.Model.pca_transform K st B = Some TB ->
     exists TAB, C14.Model.pca_transform K st AB = Some TAB /\ C03.Model.v_stack K TA TB = Some TAB) /\
  (forall (C A B AB TA TB : C03.Model.dm T),
     C03.Model.v_stack K A B = Some AB ->
     C14.Model.tsvd_transform K C A = Some TA -> C14.Model.tsvd_transform K C B = Some TB ->
     exists TAB, C14.Model.tsvd_transform K C AB = Some TAB /\ C03.Model.v_stack K TA TB = Some TAB).
Proof.
  intros T K. split; [exact (C14.ProofsFloat.pca_transform_stack_gen K) | exact (C14.ProofsFloat.tsvd_transform_stack_gen K)].
Qed.

(* sharper form: row r of the output is a function of row r of the input alone — two inputs that agree on a
   row (standing at any two positions r, r') produce the same output row, whatever their other rows are *)
Theorem C14_transform_row_function_of_row : forall (T : Type) (K : Ops T),
  (forall (st : C14.Model.pca_st T) (X X' Tm Tm' : C03.Model.dm T) (r r' : nat),
     C14.Model.pca_transform K st X = Some Tm -> C14.Model.pca_transform K st X' = Some Tm' ->
     (r < C03.Model.nrows X)%nat -> (r' < C03.Model.nrows X')%nat ->
     (forall i, (i < C03.Model.ncols X)%nat -> C03.Model.get K X r i = C03.Model.get K X' r' i) ->
     forall c, (c < C03.Model.ncols (C14.Model.p_projection st))%nat ->
       C03.Model.get K Tm r c = C03.Model.get K Tm' r' c) /\
  (forall (C X X' Tm Tm' : C03.Model.dm T) (r r' : nat),
     C14.Model.tsvd_transform K C X = Some Tm -> C14.Model.tsvd_transform K C X' = Some Tm' ->
     (r < C03.Model.nrows X)%nat -> (r' < C03.Model.nrows X')%nat ->
     (forall i, (i < C03.Model.ncols X)%nat -> C03.Model.get K X r i = C03.Model.get K X' r' i) ->
     forall c, (c < C03.Model.ncols C)%nat -> C03.Model.get K Tm r c = C03.Model.get K Tm' r' c).
Proof.
  intros T K. split; [exact (C14.ProofsFloat.pca_transform_row_independent K) | exact (C14.ProofsFloat.tsvd_transform_row_independent K)].
Qed.

(* ---------------- the hypotheses are satisfiable (entries 0.1, 0.2, 0.3, 0.7, 0.6, 0.8: every operation rounds) ---- *)
Example C14_tsvd_transform_float_instance :
  exists Tm, C14.Model.tsvd_transform FOps C14.ProofsFloat.exf_C C14.ProofsFloat.exf_X = Some Tm /\
    (1 < C03.Model.nrows C14.ProofsFloat.exf_X)%nat /\ (0 < C03.Model.ncols C14.ProofsFloat.exf_C)%nat /\
    FloatError.ffin (C03.Model.get FOps Tm 1 0).
Proof. eexists. split; [vm_compute; reflexivity|]. split; [vm_compute; lia|]. split; vm_compute; [lia | reflexivity]. Qed.

(* fit (SVD path, a factorisation returning a rotation with entries 0.6 / 0.8) then transform, at binary64 *)
Example C14_pca_transform_float_instance :
  exists st Tm,
    C14.Model.pca_fit FOps C14.ProofsFloat.exf_svd C14.ProofsFloat.exf_evd C14.ProofsFloat.exf_data 2 false = Some st /\
    C14.Model.pca_transform FOps st C14.ProofsFloat.exf_X = Some Tm /\
    (1 < C03.Model.nrows C14.ProofsFloat.exf_X)%nat /\ (1 < 2)%nat /\
    (1 < C03.Model.ncols (C14.Model.p_projection st))%nat /\
    FloatError.ffin (nth 1 (C14.Model.p_pmu st) 0%float) /\
    FloatError.ffin (C03.Model.get FOps Tm 1 1).
Proof.
  eexists. eexists. split; [vm_compute; reflexivity|]. split; [vm_compute; reflexivity|].
  split; [vm_compute; lia|]. split; [lia|]. split; [vm_compute; lia|]. split; vm_compute; reflexivity.
Qed.

(* stacking exf_X on top of the single row exf_Y: all three transforms exist (PCA and truncated SVD) *)
Example C14_transform_row_independent_float_instance :
  exists st AB TA TB TA' TB',
    C14.Model.pca_fit FOps C14.ProofsFloat.exf_svd C14.ProofsFloat.exf_evd C14.ProofsFloat.exf_data 2 false = Some st /\
    C03.Model.v_stack FOps C14.ProofsFloat.exf_X C14.ProofsFloat.exf_Y = Some AB /\
    C14.Model.pca_transform FOps st C14.ProofsFloat.exf_X = Some TA /\
    C14.Model.pca_transform FOps st C14.ProofsFloat.exf_Y = Some TB /\
    C14.Model.tsvd_transform FOps C14.ProofsFloat.exf_C C14.ProofsFloat.exf_X = Some TA' /\
    C14.Model.tsvd_transform FOps C14.ProofsFloat.exf_C C14.ProofsFloat.exf_Y = Some TB' /\
    (* and row 1 of exf_X is the row of exf_Y: the hypotheses of C14_transform_row_function_of_row *)
    (forall i, (i < C03.Model.ncols C14.ProofsFloat.exf_X)%nat ->
       C03.Model.get FOps C14.ProofsFloat.exf_X 1 i = C03.Model.get FOps C14.ProofsFloat.exf_Y 0 i).
Proof.
  do 6 eexists. repeat (split; [vm_compute; reflexivity|]).
  intros i Hi. change (i < 2)%nat in Hi.
  destruct i as [|[|i]]; [vm_compute; reflexivity | vm_compute; reflexivity | lia].
Qed.

(* Exact unit invariance of the truncated-SVD transform at binary64: if row i of the data is scaled by 2^a and
   column c of the components by 2^b as REAL numbers (the scaling rounded nothing), no exact product
   x_ij C_jc underflows before or after (each is zero, or it and its scaled value are at least 2^-1022 in
   magnitude) and both computed entries are finite (no overflow), the computed entries differ by exactly the
   factor 2^(a+b): same significand, for every sign pattern and every amount of cancellation.
   (PCA::transform subtracts a stored pmu and is not covered; nor is the effect of the unit on FIT.) *)
Theorem C14_tsvd_transform_scale_pow2_exact : forall (a b : Z) (C C' X X' Tm Tm' : C03.Model.dm PrimFloat.float) (i c : nat),
  C14.Model.tsvd_transform FOps C X = Some Tm -> C14.Model.tsvd_transform FOps C' X' = Some Tm' ->
  C03.Model.ncols X' = C03.Model.ncols X ->
  (i < C03.Model.nrows X)%nat -> (i < C03.Model.nrows X')%nat ->
  (c < C03.Model.ncols C)%nat -> (c < C03.Model.ncols C')%nat ->
  FloatError.ffin (C03.Model.get FOps Tm i c) -> FloatError.ffin (C03.Model.get FOps Tm' i c) ->
  (forall j, (j < C03.Model.ncols X)%nat ->
     FloatError.FR (C03.Model.get FOps X' i j) = FloatError.FR (C03.Model.get FOps X i j) * powerRZ 2 a /\
     FloatError.FR (C03.Model.get FOps C' j c) = FloatError.FR (C03.Model.get FOps C j c) * powerRZ 2 b /\
     let t := FloatError.FR (C03.Model.get FOps X i j) * FloatError.FR (C03.Model.get FOps C j c) in
     (t = 0 \/ (/ 2 ^ 1022 <= Rabs t /\ / 2 ^ 1022 <= Rabs (t * powerRZ 2 (a + b))))) ->
  FloatError.FR (C03.Model.get FOps Tm' i c) = FloatError.FR (C03.Model.get FOps Tm i c) * powerRZ 2 (a + b).
Proof. exact C14.ProofsFloat.tsvd_transform_scale_pow2_exact. Qed.

(* data rows (3,5), (1,2), component (2,7); data times 2^1, component times 2^2: all hypotheses hold for entry (0,0) *)
Example C14_tsvd_transform_scale_instance :
  let X := C14.ProofsFloat.exs_X in let X' := C14.ProofsFloat.exs_X' in
  let C := C14.ProofsFloat.exs_C in let C' := C14.ProofsFloat.exs_C' in
  exists Tm Tm', C14.Model.tsvd_transform FOps C X = Some Tm /\ C14.Model.tsvd_transform FOps C' X' = Some Tm' /\
    C03.Model.ncols X' = C03.Model.ncols X /\
    (0 < C03.Model.nrows X)%nat /\ (0 < C03.Model.nrows X')%nat /\
    (0 < C03.Model.ncols C)%nat /\ (0 < C03.Model.ncols C')%nat /\
    FloatError.ffin (C03.Model.get FOps Tm 0 0) /\ FloatError.ffin (C03.Model.get FOps Tm' 0 0) /\
    (forall j, (j < C03.Model.ncols X)%nat ->
       FloatError.FR (C03.Model.get FOps X' 0 j) = FloatError.FR (C03.Model.get FOps X 0 j) * powerRZ 2 1 /\
       FloatError.FR (C03.Model.get FOps C' j 0) = FloatError.FR (C03.Model.get FOps C j 0) * powerRZ 2 2 /\
       let t := FloatError.FR (C03.Model.get FOps X 0 j) * FloatError.FR (C03.Model.get FOps C j 0) in
       (t = 0 \/ (/ 2 ^ 1022 <= Rabs t /\ / 2 ^ 1022 <= Rabs (t * powerRZ 2 (1 + 2))))).
Proof. exact C14.ProofsFloat.ex_tsvd_scale. Qed.
