(* C14 — PCA and truncated SVD.  Property theorems only. *)
From Coq Require Import List Arith Bool Reals.
From SC Require Import Base.Num C03.Model C14.Model C14.ProofsBasic.
Import ListNotations.

(* truncated SVD rejects n_components >= p (in particular k = p), PCA rejects k > p, whatever the
   factorisation would return *)
Theorem C14_tsvd_rejects_k_ge_p : forall (T : Type) (K : Ops T) (svd : fact) (x : dm T) (k : nat),
  ncols x <= k -> tsvd_fit K svd x k = None.
Proof. exact @tsvd_rejects. Qed.

Theorem C14_pca_rejects_k_gt_p : forall (T : Type) (K : Ops T) (svd evd : fact) (x : dm T) (k : nat) (c : bool),
  ncols x < k -> pca_fit K svd evd x k c = None.
Proof. exact @pca_rejects. Qed.
