(* C05 — decision trees.  Property theorems only: each is closed by assembling lemmas of
   C05/Proofs*.v; its assumptions are printed by the check.  Statements are about the executable
   model SC.C05.Model (generic in `Ops T`; `ROps` = exact real arithmetic, `FOps` = binary64), which
   the correspondence check ties to src/tree/decision_tree_{regressor,classifier}.rs and
   src/algorithm/sort/quick_sort.rs.

   Vocabulary (defined in C05/ProofsGrow.v):
   - `route O nodes row k`     : node k lies on the path that `row` takes from the root when every
                                 internal node sends it to true_child iff row[split_feature] <= split_value;
   - `reach a0 nodes k d`      : node k is d child-links below the root;
   - `tree_consistent O a0 x msl P samples nodes G D` : G k is the vector of per-row sample counts
     handed to node k (G 0 = samples; the children of an internal node get the threshold partition
     of its vector), D k the number of splits above k, every non-root node holds >= msl counted rows
     and P (G k) (output of node k) holds;
   - `grow_tree` is the common part of both `fit_weak_learner`s (root, breadth-first growth) for an
     arbitrary split search `find`; the theorems about it therefore hold for both trees, for every
     bootstrap weight vector `samples` and every choice of tried features (random forest, C06).
   Proof files: ProofsGrow (growth invariant), ProofsReg / ProofsCls (leaf values), ProofsSort +
   ProofsSorted (quick_argsort: permutation, sortedness over R), ProofsEndToEnd (orders computed by
   the fit functions), ProofsGrowFull (internal nodes carry the split the search returned; why a leaf
   is a leaf), ProofsOpt (regression: greedy optimality, completeness), ProofsOptCls + ProofsPure
   (classification: optimality among boundary thresholds, purity), ProofsImpurity (Gini / entropy /
   classification error as concave homogeneous functions of the class counts) + ProofsBoundary (the
   boundary-point property: a best boundary threshold is best among all admissible thresholds),
   ProofsScale (the fitted regressor commutes with every monotone, midpoint-preserving relabelling of
   the feature values: simulation through quicksort, sweep and growth) + ProofsScaleR (exact reals,
   any positive factor) + ProofsScaleF64 (binary64, factor 2^e, via Flocq), ProofsPredict (path
   characterisation of predict_for_row, uniqueness of the routed leaf, predict_regressor /
   predict_classifier) + ProofsPredictFit (predicting a training row returns the value of the leaf the
   row was partitioned into at fit time), ProofsMonotone (two split searches that agree up to the value
   of the threshold grow the same tree up to threshold values, with the same partition of the training
   rows) + ProofsMonotoneReg (regression tree over exact reals: feature columns transformed by strictly
   increasing maps), ProofsFloat (binary64 rounding: the threshold (xi + px)/2 is the correctly rounded real
   midpoint; when it separates the two values; the binary64 partition equals the exact-midpoint partition;
   sweep invariant "thresholds are midpoints of consecutive counted values"; every internal node of a tree
   grown in binary64) + ProofsFloatFit (the same for DecisionTree{Regressor,Classifier}::fit under the
   executable test orders_okb) + ProofsFloatSum (rounding bounds of the sweep's running sum, the true-child
   mean and the root mean). *)
From Coq Require Import List Arith ZArith Bool Reals Lra Floats Lia.
From SC Require Import Base.Num C05.Model C05.ProofsGrow C05.ProofsReg C05.ProofsCls C05.ProofsSort
                       C05.ProofsSorted C05.ProofsEndToEnd C05.ProofsGrowFull C05.ProofsOpt C05.ProofsOptCls C05.ProofsPure
                       C05.ProofsImpurity C05.ProofsBoundary C05.ProofsScale C05.ProofsScaleR C05.ProofsScaleF64
                       C05.ProofsPredict C05.ProofsPredictFit C05.ProofsMonotone C05.ProofsMonotoneReg C05.ProofsMonotoneFit.
Import ListNotations.
Local Open Scope nat_scope.

(* predict_for_row returns the output of the leaf reached by single-feature threshold tests
   (any number type, any well-formed node array — in particular the implementation's own arrays,
   on which the correspondence check evaluates `wf_treeb`). *)
Theorem C05_predict_routes : forall T A (O : Ops T) (nodes : list (node T A)) (row : list T),
  wf_treeb nodes = true ->
  exists k nd, route O nodes row k /\ nth_error nodes k = Some nd /\ leafb nd = true /\
               predict_for_row O nodes row = Some (output nd).
Proof. exact @predict_routes. Qed.

(* every grown tree satisfies that well-formedness hypothesis *)
Theorem C05_fitted_tree_wf : forall T A (O : Ops T) (a0 : A) x msl find root_out samples md nodes d,
  grow_tree O a0 x msl find root_out samples md = Some (nodes, d) -> wf_treeb nodes = true.
Proof.
  intros T A O a0 x msl find r s md nodes d H.
  destruct (grow_tree_structure O a0 x msl find r s md nodes d H) as (G & D & C & _).
  exact (consistent_wf O a0 x msl _ s nodes G D C).
Qed.

(* node_samples_invariant: the sample vector handed to node k is, row by row, the row's count if
   the training row is routed to k and 0 otherwise *)
Theorem C05_node_samples_invariant : forall T A (O : Ops T) (a0 : A) x msl find root_out samples md nodes d,
  grow_tree O a0 x msl find root_out samples md = Some (nodes, d) ->
  exists G D, tree_consistent O a0 x msl (fun _ _ => True) samples nodes G D /\
    forall i k, i < length x -> k < length nodes ->
      (route O nodes (nth i x []) k -> nth i (G k) 0 = nth i samples 0) /\
      (~ route O nodes (nth i x []) k -> nth i (G k) 0 = 0).
Proof.
  intros T A O a0 x msl find r s md nodes d H.
  destruct (grow_tree_structure O a0 x msl find r s md nodes d H) as (G & D & C & _).
  exists G, D. split; [exact C|]. intros i k Hi Hk. exact (samples_routed O a0 x msl _ s nodes G D i k C Hi Hk).
Qed.

(* leaf_size: every node other than the root (in particular every leaf other than an unsplit root)
   holds at least min_samples_leaf counted training rows *)
Theorem C05_leaf_size : forall T A (O : Ops T) (a0 : A) x msl find root_out samples md nodes d,
  grow_tree O a0 x msl find root_out samples md = Some (nodes, d) ->
  exists G D, tree_consistent O a0 x msl (fun _ _ => True) samples nodes G D /\
    forall k, 0 < k < length nodes -> msl <= sum_nat (G k).
Proof.
  intros T A O a0 x msl find r s md nodes d H.
  destruct (grow_tree_structure O a0 x msl find r s md nodes d H) as (G & D & C & _).
  exists G, D. split; [exact C|]. exact (tc_size O a0 x msl _ s nodes G D C).
Qed.

(* depth_bound: no node is more than max_depth splits below the root *)
Theorem C05_depth_bound : forall T A (O : Ops T) (a0 : A) x msl find root_out samples md nodes d k dk,
  grow_tree O a0 x msl find root_out samples (Some md) = Some (nodes, d) ->
  reach a0 nodes k dk -> dk <= md.
Proof.
  intros T A O a0 x msl find r s md nodes d k dk H R.
  destruct (grow_tree_structure O a0 x msl find r s (Some md) nodes d H) as (G & D & C & HD).
  destruct (reach_depth O a0 x msl _ s nodes G D k dk C R) as [Hk <-]. exact (HD k Hk).
Qed.

(* leaf_value_regression (exact arithmetic): in a fitted regression tree — for every weight vector,
   every choice of tried features and all limits — the output of EVERY node k is the weighted mean
   target of the rows counted by G k, i.e. (by C05_node_samples_invariant, same G) of exactly the
   training rows routed to k.  Hypothesis on `order`: each tried feature's order is a sorting
   permutation of the rows (C05_argsort_* discharge it for the computed orders). *)
Theorem C05_leaf_value_regression : forall x y samples vars order md msl mss nodes d,
  length y = length x -> length samples = length x ->
  (forall id j, In j (vars id) -> sorted_order x j (nth j order [])) ->
  fit_regressor_with_order ROps x y samples vars order md msl mss = Some (nodes, d) ->
  exists G D, tree_consistent ROps 0%R x msl (reg_out_ok x y) samples nodes G D /\
    (forall i k, i < length x -> k < length nodes ->
      (route ROps nodes (nth i x []) k -> nth i (G k) 0 = nth i samples 0) /\
      (~ route ROps nodes (nth i x []) k -> nth i (G k) 0 = 0)) /\
    forall k, k < length nodes -> 0 < sum_nat (G k) ->
      (output (nth k nodes (dnode 0%R)) * IZN (sum_nat (G k)) =
       rsum (fun i => IZN (nth i (G k) 0%nat) * nth i y 0) (seq 0%nat (length x)))%R.
Proof.
  intros x y samples vars order md msl mss nodes d Hy Hs Ho H.
  destruct (fit_regressor_consistent x y samples vars order md msl mss nodes d Hy Hs Ho H) as (G & D & C & _).
  exists G, D. split; [exact C|]. split.
  - intros i k Hi Hk. exact (samples_routed ROps 0%R x msl _ samples nodes G D i k C Hi Hk).
  - intros k Hk Hpos. destruct (tc_out ROps 0%R x msl _ samples nodes G D C k Hk) as [Hl Hm].
    exact (Hm Hl Hpos).
Qed.

(* leaf_value_classification (exact arithmetic for the feature comparisons): in a fitted
   classification tree the output of EVERY node n is a class index < k whose count among the rows
   counted by G n (= the training rows routed to n) is maximal: a majority class.
   `cvec x yi k s` is the vector of per-class counts of the rows counted by s. *)
Theorem C05_leaf_value_classification : forall lg2 crit x yi k samples vars order md msl mss nodes d,
  0 < k -> length yi = length x -> length samples = length x ->
  (forall id j, In j (vars id) -> sorted_order x j (nth j order [])) ->
  fit_classifier_with_order ROps lg2 crit x yi k samples vars order md msl mss = Some (nodes, d) ->
  exists G D, tree_consistent ROps 0 x msl (cls_out_ok x yi k) samples nodes G D /\
    (forall i n, i < length x -> n < length nodes ->
      (route ROps nodes (nth i x []) n -> nth i (G n) 0 = nth i samples 0) /\
      (~ route ROps nodes (nth i x []) n -> nth i (G n) 0 = 0)) /\
    forall n, n < length nodes ->
      output (nth n nodes (dnode 0)) < k /\
      forall c, nth c (cvec x yi k (G n)) 0 <= nth (output (nth n nodes (dnode 0))) (cvec x yi k (G n)) 0.
Proof.
  intros lg2 crit x yi k samples vars order md msl mss nodes d Hk Hy Hs Ho H.
  destruct (fit_classifier_consistent lg2 crit x yi k samples vars order md msl mss nodes d Hy Hs Ho H)
    as (G & D & C & _).
  exists G, D. split; [exact C|]. split.
  - intros i n Hi Hn. exact (samples_routed ROps 0 x msl _ samples nodes G D i n C Hi Hn).
  - intros n Hn. destruct (tc_out ROps 0 x msl _ samples nodes G D C n Hn) as [Hl Hm].
    rewrite (Hm Hl).
    assert (NE : cvec x yi k (G n) <> []).
    { intros E. pose proof (cvec_length x yi k (G n)) as L. rewrite E in L. cbn in L. lia. }
    destruct (which_max_spec _ NE) as [W1 W2]. rewrite cvec_length in W1. split; [exact W1|exact W2].
Qed.

(* ... and the label reported for a class index is one of the training labels (any number type) *)
Theorem C05_labels_are_originals : forall T (O : Ops T) lg2 crit x y samples vars md msl mss classes nodes d c dflt,
  fit_classifier_weak O lg2 crit x y samples vars md msl mss = Some (classes, nodes, d) ->
  c < length classes -> In (nth c classes dflt) y.
Proof. exact @classifier_labels_original. Qed.

(* argsort_perm_sorted, permutation half: whenever quick_argsort returns (it returns `None` only for an
   empty vector, on stack overflow or — never observed — when a sentinel scan leaves the array), the
   index vector is a permutation of 0..n-1; for every number type and every behaviour of the
   comparisons (NaN included).  Axiom-free. *)
Theorem C05_argsort_perm_partial : forall T (O : Ops T) (col : list T) idx,
  quick_argsort O col = Some idx -> Permutation.Permutation idx (seq 0 (length col)).
Proof. exact @quick_argsort_perm. Qed.

(* argsort_perm_sorted, full statement (exact reals): whenever the transliterated explicit-stack
   median-of-three quicksort (insertion sort below 7 elements) returns, its index vector is a
   permutation of 0..n-1 AND sorts the column.  Proof: C05/ProofsSorted.v (loop invariant over the
   pending ranges of the explicit stack). *)
Theorem C05_argsort_perm_sorted : forall (col : list R) idx, quick_argsort ROps col = Some idx ->
    Permutation.Permutation idx (seq 0 (length col)) /\
    forall i j, i <= j < length col -> (nth (nth i idx 0%nat) col 0 <= nth (nth j idx 0%nat) col 0)%R.
Proof. exact quick_argsort_sorted. Qed.

(* hence every order computed by fit_weak_learner satisfies the hypothesis `sorted_order` of the two
   leaf-value theorems above *)
Theorem C05_argsort_columns_sorted : forall (x : list (list R)) p order,
  argsort_columns ROps x p = Some order ->
  length order = p /\ forall j, j < p -> sorted_order x j (nth j order []).
Proof. exact argsort_columns_sorted. Qed.

(* End-to-end leaf-value theorems: the functions that compute the orders themselves, no hypothesis
   on the orders.  `_weak` = fit_weak_learner with arbitrary sample counts and tried features (the
   random forest's calls; the tried features must be column indices), `_fit` = DecisionTree*::fit
   (all counts 1, all features tried), where the sample vector of a node is the 0/1 indicator of
   the training rows routed to it. *)
Theorem C05_leaf_value_regression_weak : forall x y samples vars md msl mss nodes d,
  length y = length x -> length samples = length x ->
  (forall id j, In j (vars id) -> j < length (hd [] x)) ->
  fit_regressor_weak ROps x y samples vars md msl mss = Some (nodes, d) ->
  exists G D, tree_consistent ROps 0%R x msl (reg_out_ok x y) samples nodes G D /\
    (forall i k, i < length x -> k < length nodes ->
      (route ROps nodes (nth i x []) k -> nth i (G k) 0 = nth i samples 0) /\
      (~ route ROps nodes (nth i x []) k -> nth i (G k) 0 = 0)) /\
    forall k, k < length nodes -> 0 < sum_nat (G k) ->
      (output (nth k nodes (dnode 0%R)) * IZN (sum_nat (G k)) =
       rsum (fun i => IZN (nth i (G k) 0%nat) * nth i y 0) (seq 0%nat (length x)))%R.
Proof. exact leaf_value_regression_weak. Qed.

Theorem C05_leaf_value_regression_fit : forall x y md msl mss nodes d,
  length y = length x ->
  fit_regressor ROps x y md msl mss = Some (nodes, d) ->
  exists G D, tree_consistent ROps 0%R x msl (reg_out_ok x y) (repeat 1 (length x)) nodes G D /\
    (forall i k, i < length x -> k < length nodes ->
      (route ROps nodes (nth i x []) k -> nth i (G k) 0 = 1) /\
      (~ route ROps nodes (nth i x []) k -> nth i (G k) 0 = 0)) /\
    forall k, k < length nodes -> 0 < sum_nat (G k) ->
      (output (nth k nodes (dnode 0%R)) * IZN (sum_nat (G k)) =
       rsum (fun i => IZN (nth i (G k) 0%nat) * nth i y 0) (seq 0%nat (length x)))%R.
Proof. exact leaf_value_regression_fit. Qed.

(* classification: `yi` is the vector of class indices of the training rows (classes[yi[i]] = y[i]);
   every node's output is a class index with maximal count among the rows routed to the node, and
   the label reported for it is classes[output] (C05_labels_are_originals: one of the labels in y) *)
Theorem C05_leaf_value_classification_weak : forall lg2 crit x y samples vars md msl mss classes nodes d,
  length y = length x -> length samples = length x ->
  (forall id j, In j (vars id) -> j < length (hd [] x)) ->
  fit_classifier_weak ROps lg2 crit x y samples vars md msl mss = Some (classes, nodes, d) ->
  exists yi, length yi = length x /\
    (forall i, i < length x -> nth i yi 0 < length classes /\ nth (nth i yi 0) classes 0%R = nth i y 0%R) /\
    exists G D, tree_consistent ROps 0 x msl (cls_out_ok x yi (length classes)) samples nodes G D /\
      (forall i n, i < length x -> n < length nodes ->
        (route ROps nodes (nth i x []) n -> nth i (G n) 0 = nth i samples 0) /\
        (~ route ROps nodes (nth i x []) n -> nth i (G n) 0 = 0)) /\
      forall n, n < length nodes ->
        output (nth n nodes (dnode 0)) < length classes /\
        forall c, nth c (cvec x yi (length classes) (G n)) 0 <=
                  nth (output (nth n nodes (dnode 0))) (cvec x yi (length classes) (G n)) 0.
Proof. exact leaf_value_classification_weak. Qed.

Theorem C05_leaf_value_classification_fit : forall lg2 crit x y md msl mss classes nodes d,
  length y = length x ->
  fit_classifier ROps lg2 crit x y md msl mss = Some (classes, nodes, d) ->
  exists yi, length yi = length x /\
    (forall i, i < length x -> nth i yi 0 < length classes /\ nth (nth i yi 0) classes 0%R = nth i y 0%R) /\
    exists G D, tree_consistent ROps 0 x msl (cls_out_ok x yi (length classes)) (repeat 1 (length x)) nodes G D /\
      (forall i n, i < length x -> n < length nodes ->
        (route ROps nodes (nth i x []) n -> nth i (G n) 0 = 1) /\
        (~ route ROps nodes (nth i x []) n -> nth i (G n) 0 = 0)) /\
      forall n, n < length nodes ->
        output (nth n nodes (dnode 0)) < length classes /\
        forall c, nth c (cvec x yi (length classes) (G n)) 0 <=
                  nth (output (nth n nodes (dnode 0))) (cvec x yi (length classes) (G n)) 0.
Proof. exact leaf_value_classification_fit. Qed.

(* ---- greedy optimality and completeness of the regression tree (exact reals) ---- *)
(* squared-error reduction of splitting the rows counted by s at (feature j, threshold t) *)
Definition sse_gain (x : list (list R)) (y : list R) (s : list nat) (j : nat) (t : R) : R :=
  let n := length x in
  let mean (w : list nat) := (rsum (fun i => IZN (nth i w 0%nat) * nth i y 0) (seq 0 n) / IZN (sum_nat w))%R in
  let sse (w : list nat) := rsum (fun i => IZN (nth i w 0%nat) * (nth i y 0 - mean w) * (nth i y 0 - mean w))%R (seq 0 n) in
  (sse s - sse (true_part ROps x s j (Some t)) - sse (false_part ROps x s j (Some t)))%R.
Definition admissible (x : list (list R)) (msl : nat) (s : list nat) (j : nat) (t : R) : Prop :=
  msl <= sum_nat (true_part ROps x s j (Some t)) /\ msl <= sum_nat (false_part ROps x s j (Some t)) /\
  0 < sum_nat (true_part ROps x s j (Some t)) /\ 0 < sum_nat (false_part ROps x s j (Some t)).
(* regression_split_greedy_optimal: at every internal node of a fitted regression tree the chosen
   (feature, threshold) is admissible and its squared-error reduction is the largest among ALL
   admissible single-feature real thresholds, for the rows counted by G n (= the training rows routed
   to the node, C05_node_samples_invariant).  Any weights, any limits; the orders are hypotheses
   here and are discharged by C05_argsort_columns_sorted (see the _fit version below).
   Proof: C05/ProofsOpt.v (sweep invariant: the running best dominates every admissible threshold
   whose first row above it has been passed) + C05/ProofsGrowFull.v (every internal node carries the
   split that the search returned on its own sample vector). *)
Theorem C05_regression_split_greedy_optimal :
  forall x y samples order md msl mss nodes d,
    length y = length x -> length samples = length x ->
    (forall j, j < length (hd [] x) -> sorted_order x j (nth j order [])) ->
    fit_regressor_with_order ROps x y samples (fun _ => seq 0 (length (hd [] x))) order md msl mss = Some (nodes, d) ->
    exists G D, tree_consistent ROps 0%R x msl (reg_out_ok x y) samples nodes G D /\
      forall n, n < length nodes -> leafb (nth n nodes (dnode 0%R)) = false ->
        forall t0, split_value (nth n nodes (dnode 0%R)) = Some t0 ->
          admissible x msl (G n) (split_feature (nth n nodes (dnode 0%R))) t0 /\
          forall j t, j < length (hd [] x) -> admissible x msl (G n) j t ->
            (sse_gain x y (G n) j t <= sse_gain x y (G n) (split_feature (nth n nodes (dnode 0%R))) t0)%R.
Proof. exact regression_split_greedy_optimal. Qed.

(* growth_complete_without_depth_limit: without a depth limit (the model's stand-in 65535 = u16::MAX,
   not reached by a tree with fewer nodes) a node holding more than min_samples_split counted rows
   stays a leaf only if no admissible single-feature threshold exists. *)
Theorem C05_growth_complete_without_depth_limit :
  forall x y samples order msl mss nodes d,
    length y = length x -> length samples = length x ->
    (forall j, j < length (hd [] x) -> sorted_order x j (nth j order [])) ->
    fit_regressor_with_order ROps x y samples (fun _ => seq 0 (length (hd [] x))) order None msl mss = Some (nodes, d) ->
    length nodes < 65535 ->
    exists G D, tree_consistent ROps 0%R x msl (reg_out_ok x y) samples nodes G D /\
      forall n, n < length nodes -> leafb (nth n nodes (dnode 0%R)) = true -> mss < sum_nat (G n) ->
        forall j t, j < length (hd [] x) -> ~ admissible x msl (G n) j t.
Proof. exact growth_complete_without_depth_limit. Qed.

(* the same two statements for DecisionTreeRegressor::fit itself (orders computed by quick_argsort) *)
Theorem C05_regression_split_greedy_optimal_fit :
  forall x y md msl mss nodes d,
    length y = length x ->
    fit_regressor ROps x y md msl mss = Some (nodes, d) ->
    exists G D, tree_consistent ROps 0%R x msl (reg_out_ok x y) (repeat 1 (length x)) nodes G D /\
      forall n, n < length nodes -> leafb (nth n nodes (dnode 0%R)) = false ->
        forall t0, split_value (nth n nodes (dnode 0%R)) = Some t0 ->
          admissible x msl (G n) (split_feature (nth n nodes (dnode 0%R))) t0 /\
          forall j t, j < length (hd [] x) -> admissible x msl (G n) j t ->
            (sse_gain x y (G n) j t <= sse_gain x y (G n) (split_feature (nth n nodes (dnode 0%R))) t0)%R.
Proof.
  intros x y md msl mss nodes d Hy H.
  apply fit_regressor_weak_orders in H as (order & _ & Ho & H).
  exact (regression_split_greedy_optimal x y _ order md msl mss nodes d Hy (repeat_length 1 (length x)) Ho H).
Qed.

Theorem C05_growth_complete_without_depth_limit_fit :
  forall x y msl mss nodes d,
    length y = length x ->
    fit_regressor ROps x y None msl mss = Some (nodes, d) -> length nodes < 65535 ->
    exists G D, tree_consistent ROps 0%R x msl (reg_out_ok x y) (repeat 1 (length x)) nodes G D /\
      forall n, n < length nodes -> leafb (nth n nodes (dnode 0%R)) = true -> mss < sum_nat (G n) ->
        forall j t, j < length (hd [] x) -> ~ admissible x msl (G n) j t.
Proof.
  intros x y msl mss nodes d Hy H Hlen.
  apply fit_regressor_weak_orders in H as (order & _ & Ho & H).
  exact (growth_complete_without_depth_limit x y _ order msl mss nodes d Hy (repeat_length 1 (length x)) Ho H Hlen).
Qed.

(* ---- classification tree: greedy optimality / completeness (exact reals) ----
   Vocabulary (C05/ProofsOptCls.v):
   - `cls_gain lg2 crit x yi k s j t` : impurity(parent) - (tc/n) impurity(true part) - (fc/n) impurity(false part)
     for the configured criterion, computed from the class-count vectors `cvec` of the rows counted by s
     and of the two parts of the split at (feature j, threshold t);
   - `boundary x yi s j t` : t separates two counted rows that are adjacent in value (no counted row
     strictly between them) and have DIFFERENT classes;
   - `distinct_feature x j` : the values of feature j are pairwise distinct (the property's side condition).
   What is proved (any criterion, any `lg2`, any limits, any weights): the chosen threshold is admissible
   and attains the largest impurity decrease among all admissible BOUNDARY thresholds of all features -
   these are exactly the candidates the sweep examines (it skips the midpoint between two consecutive
   rows of the same class) - internal nodes are not pure, and without a depth limit an impure node with
   more than min_samples_split rows stays a leaf only if no admissible boundary threshold exists.
   The step to the full statement is the purely mathematical fact that for min_samples_leaf = 1
   a best boundary threshold is best among ALL admissible thresholds (concavity of Gini / entropy /
   classification error along a run of rows of one class; `boundary_point_property`).  It is the single
   hypothesis of C05_classification_split_greedy_optimal_conditional and is proved further down
   (C05_boundary_point_property), which gives C05_classification_split_greedy_optimal. *)
Theorem C05_classification_split_greedy_optimal_partial :
  forall lg2 crit x yi k samples order msl mss,
    length yi = length x -> length samples = length x -> (forall r, nth r yi 0 < k) ->
    (forall j, j < length (hd [] x) -> sorted_order x j (nth j order [])) ->
    (forall j, j < length (hd [] x) -> distinct_feature x j) ->
    forall md nodes d,
    fit_classifier_with_order ROps lg2 crit x yi k samples (fun _ => seq 0 (length (hd [] x))) order md msl mss
      = Some (nodes, d) ->
    exists G D, tree_consistent ROps 0 x msl (cls_out_ok x yi k) samples nodes G D /\
      forall n, n < length nodes -> leafb (nth n nodes (dnode 0)) = false ->
        is_pure x yi (G n) = false /\
        forall t0, split_value (nth n nodes (dnode 0)) = Some t0 ->
          admissible x msl (G n) (split_feature (nth n nodes (dnode 0))) t0 /\
          forall j t, j < length (hd [] x) -> admissible x msl (G n) j t -> boundary x yi (G n) j t ->
            (cls_gain lg2 crit x yi k (G n) j t <=
             cls_gain lg2 crit x yi k (G n) (split_feature (nth n nodes (dnode 0%nat))) t0)%R.
Proof. exact classification_split_boundary_optimal. Qed.

Theorem C05_classification_growth_complete_partial :
  forall lg2 crit x yi k samples order msl mss,
    length yi = length x -> length samples = length x -> (forall r, nth r yi 0 < k) ->
    (forall j, j < length (hd [] x) -> sorted_order x j (nth j order [])) ->
    (forall j, j < length (hd [] x) -> distinct_feature x j) ->
    forall nodes d,
    fit_classifier_with_order ROps lg2 crit x yi k samples (fun _ => seq 0 (length (hd [] x))) order None msl mss
      = Some (nodes, d) ->
    length nodes < 65535 ->
    exists G D, tree_consistent ROps 0 x msl (cls_out_ok x yi k) samples nodes G D /\
      forall n, n < length nodes -> leafb (nth n nodes (dnode 0)) = true ->
        is_pure x yi (G n) = false -> mss < sum_nat (G n) ->
        forall j t, j < length (hd [] x) -> admissible x msl (G n) j t -> boundary x yi (G n) j t -> False.
Proof. exact classification_growth_boundary_complete. Qed.

(* `is_pure` (the model's transliteration of the purity loop) means: all counted rows share one class *)
Theorem C05_is_pure_spec : forall T (x : list (list T)) (yi s : list nat),
  (is_pure x yi s = true -> forall r r', r < length x -> r' < length x -> 0 < nth r s 0 -> 0 < nth r' s 0 ->
     nth r yi 0 = nth r' yi 0) /\
  (is_pure x yi s = false -> exists r r', r < length x /\ r' < length x /\ 0 < nth r s 0 /\ 0 < nth r' s 0 /\
     nth r yi 0 <> nth r' yi 0).
Proof. exact @is_pure_spec. Qed.

(* the same for DecisionTreeClassifier::fit (class indices and orders computed by the model) *)
Theorem C05_classification_split_greedy_optimal_partial_fit :
  forall lg2 crit x y md msl mss classes nodes d,
    length y = length x ->
    (forall j, j < length (hd [] x) -> distinct_feature x j) ->
    fit_classifier ROps lg2 crit x y md msl mss = Some (classes, nodes, d) ->
    exists yi, length yi = length x /\
      (forall i, i < length x -> nth i yi 0 < length classes /\ nth (nth i yi 0) classes 0%R = nth i y 0%R) /\
      exists G D, tree_consistent ROps 0 x msl (cls_out_ok x yi (length classes)) (repeat 1 (length x)) nodes G D /\
        forall n, n < length nodes -> leafb (nth n nodes (dnode 0)) = false ->
          is_pure x yi (G n) = false /\
          forall t0, split_value (nth n nodes (dnode 0)) = Some t0 ->
            admissible x msl (G n) (split_feature (nth n nodes (dnode 0))) t0 /\
            forall j t, j < length (hd [] x) -> admissible x msl (G n) j t -> boundary x yi (G n) j t ->
              (cls_gain lg2 crit x yi (length classes) (G n) j t <=
               cls_gain lg2 crit x yi (length classes) (G n) (split_feature (nth n nodes (dnode 0%nat))) t0)%R.
Proof. exact classification_split_boundary_optimal_fit. Qed.

(* the full statement of the property's classifier clause (min_samples_leaf = 1, distinct values,
   lg2 = the real binary logarithm, every criterion, any weights, any depth / split-size limits): the
   chosen threshold is best among ALL admissible thresholds of all features.  PROVED: the partial
   theorem above + the boundary-point property (C05_boundary_point_property below; C05/ProofsBoundary.v,
   from the concavity of count x impurity, C05/ProofsImpurity.v).  For Gini and ClassificationError
   the result does not depend on lg2 (C05_classification_split_greedy_optimal_conditional with
   C05_boundary_point_property_gini / _clserr gives it for any lg2). *)
Theorem C05_classification_split_greedy_optimal :
  forall crit x yi k samples order md mss nodes d,
    let lg2 := (fun p : R => ln p / ln 2)%R in
    length yi = length x -> length samples = length x -> (forall r, nth r yi 0 < k) ->
    (forall j, j < length (hd [] x) -> sorted_order x j (nth j order [])) ->
    (forall j, j < length (hd [] x) -> distinct_feature x j) ->
    fit_classifier_with_order ROps lg2 crit x yi k samples (fun _ => seq 0 (length (hd [] x))) order md 1 mss
      = Some (nodes, d) ->
    exists G D, tree_consistent ROps 0 x 1 (cls_out_ok x yi k) samples nodes G D /\
      forall n, n < length nodes -> leafb (nth n nodes (dnode 0)) = false ->
        forall t0, split_value (nth n nodes (dnode 0)) = Some t0 ->
          admissible x 1 (G n) (split_feature (nth n nodes (dnode 0))) t0 /\
          forall j t, j < length (hd [] x) -> admissible x 1 (G n) j t ->
            (cls_gain lg2 crit x yi k (G n) j t <=
             cls_gain lg2 crit x yi k (G n) (split_feature (nth n nodes (dnode 0%nat))) t0)%R.
Proof. intros crit x yi k samples order md mss nodes d lg2. exact (classification_split_greedy_optimal crit x yi k samples order md mss nodes d). Qed.

(* the same for DecisionTreeClassifier::fit (class indices and orders computed by the model) *)
Theorem C05_classification_split_greedy_optimal_fit :
  forall crit x y md mss classes nodes d,
    let lg2 := (fun p : R => ln p / ln 2)%R in
    length y = length x ->
    (forall j, j < length (hd [] x) -> distinct_feature x j) ->
    fit_classifier ROps lg2 crit x y md 1 mss = Some (classes, nodes, d) ->
    exists yi, length yi = length x /\
      (forall i, i < length x -> nth i yi 0 < length classes /\ nth (nth i yi 0) classes 0%R = nth i y 0%R) /\
      exists G D, tree_consistent ROps 0 x 1 (cls_out_ok x yi (length classes)) (repeat 1 (length x)) nodes G D /\
        forall n, n < length nodes -> leafb (nth n nodes (dnode 0)) = false ->
          forall t0, split_value (nth n nodes (dnode 0)) = Some t0 ->
            admissible x 1 (G n) (split_feature (nth n nodes (dnode 0))) t0 /\
            forall j t, j < length (hd [] x) -> admissible x 1 (G n) j t ->
              (cls_gain lg2 crit x yi (length classes) (G n) j t <=
               cls_gain lg2 crit x yi (length classes) (G n) (split_feature (nth n nodes (dnode 0%nat))) t0)%R.
Proof. intros crit x y md mss classes nodes d lg2. exact (classification_split_greedy_optimal_fit crit x y md mss classes nodes d). Qed.

(* classification_growth_complete (min_samples_leaf = 1, distinct values): without a depth limit an impure
   node holding more than min_samples_split rows stays a leaf only if NO admissible threshold exists *)
Theorem C05_classification_growth_complete :
  forall crit x yi k samples order mss nodes d,
    let lg2 := (fun p : R => ln p / ln 2)%R in
    length yi = length x -> length samples = length x -> (forall r, nth r yi 0 < k) ->
    (forall j, j < length (hd [] x) -> sorted_order x j (nth j order [])) ->
    (forall j, j < length (hd [] x) -> distinct_feature x j) ->
    fit_classifier_with_order ROps lg2 crit x yi k samples (fun _ => seq 0 (length (hd [] x))) order None 1 mss
      = Some (nodes, d) ->
    length nodes < 65535 ->
    exists G D, tree_consistent ROps 0 x 1 (cls_out_ok x yi k) samples nodes G D /\
      forall n, n < length nodes -> leafb (nth n nodes (dnode 0)) = true ->
        is_pure x yi (G n) = false -> mss < sum_nat (G n) ->
        forall j t, j < length (hd [] x) -> ~ admissible x 1 (G n) j t.
Proof. intros crit x yi k samples order mss nodes d lg2. exact (classification_growth_complete crit x yi k samples order mss nodes d). Qed.

(* the boundary-point property itself (Fayyad-Irani): for min_samples_leaf = 1, pairwise distinct values
   of the feature and an impure node, every admissible threshold is matched or beaten by an admissible
   boundary threshold of the same feature.  Gini and ClassificationError: for every `lg2`; Entropy: for
   the real binary logarithm. *)
Theorem C05_boundary_point_property_gini : forall lg2, boundary_point_property lg2 Gini.
Proof. exact boundary_point_gini. Qed.
Theorem C05_boundary_point_property_clserr : forall lg2, boundary_point_property lg2 ClassificationError.
Proof. exact boundary_point_clserr. Qed.
Theorem C05_boundary_point_property : forall crit, boundary_point_property (fun p : R => ln p / ln 2)%R crit.
Proof. exact boundary_point_all. Qed.

Theorem C05_classification_split_greedy_optimal_conditional :
  forall lg2 crit, boundary_point_property lg2 crit ->
  forall x yi k samples order md mss nodes d,
    length yi = length x -> length samples = length x -> (forall r, nth r yi 0 < k) ->
    (forall j, j < length (hd [] x) -> sorted_order x j (nth j order [])) ->
    (forall j, j < length (hd [] x) -> distinct_feature x j) ->
    fit_classifier_with_order ROps lg2 crit x yi k samples (fun _ => seq 0 (length (hd [] x))) order md 1 mss
      = Some (nodes, d) ->
    exists G D, tree_consistent ROps 0 x 1 (cls_out_ok x yi k) samples nodes G D /\
      forall n, n < length nodes -> leafb (nth n nodes (dnode 0)) = false ->
        forall t0, split_value (nth n nodes (dnode 0)) = Some t0 ->
          admissible x 1 (G n) (split_feature (nth n nodes (dnode 0))) t0 /\
          forall j t, j < length (hd [] x) -> admissible x 1 (G n) j t ->
            (cls_gain lg2 crit x yi k (G n) j t <=
             cls_gain lg2 crit x yi k (G n) (split_feature (nth n nodes (dnode 0%nat))) t0)%R.
Proof. exact classification_split_optimal_conditional. Qed.

(* ---- scale invariance ----
   The regressor applies to feature values only the comparisons <=, <, == (quick_argsort, the tie test of
   the sweep, the threshold test of `split`) and the midpoint (a + b) / 2 of two feature values.
   C05_scale_invariance_generic: for ANY number type and any map phi that - on a set V of values that
   contains 0 and all data - preserves the three comparisons, commutes with the midpoint, and preserves
   the comparison of a data value with a midpoint (Vt: a set containing the midpoints), fitting on the
   relabelled matrix returns the tree fitted on x with every threshold t replaced by phi t: identical
   node array structure, outputs, split features, split scores, child indices and depth.  Axiom-free. *)
Theorem C05_scale_invariance_generic :
  forall T (O : Ops T) (phi : T -> T) (V Vt : T -> Prop),
    phi (o0 O) = o0 O -> V (o0 O) ->
    (forall a b, V a -> V b -> oleb O (phi a) (phi b) = oleb O a b) ->
    (forall a b, V a -> V b -> oltb O (phi a) (phi b) = oltb O a b) ->
    (forall a b, V a -> V b -> oeqb O (phi a) (phi b) = oeqb O a b) ->
    (forall a b, V a -> V b -> Vt (mid O a b)) ->
    (forall a b, V a -> V b -> mid O (phi a) (phi b) = phi (mid O a b)) ->
    (forall v t, V v -> Vt t -> oleb O (phi v) (phi t) = oleb O v t) ->
    forall x, (forall i j, V (getx O x i j)) ->
    forall y md msl mss,
      fit_regressor O (map (map phi) x) y md msl mss =
      option_map (relabel_tree phi) (fit_regressor O x y md msl mss).
Proof.
  intros T O phi V Vt H0 HV0 Hle Hlt Heq HmV Hmid Hthr x Hx y md msl mss.
  exact (fit_regressor_relabel O phi V Vt H0 HV0 Hle Hlt Heq HmV Hmid Hthr x Hx y md msl mss).
Qed.

(* exact reals: multiplication of all features by ANY c > 0 (in particular 2^e) *)
Theorem C05_scale_invariance_real :
  forall (c : R) (x : list (list R)) (y : list R) md msl mss, (0 < c)%R ->
    fit_regressor ROps (map (map (fun v => v * c)%R) x) y md msl mss =
    option_map (relabel_tree (fun v => v * c)%R) (fit_regressor ROps x y md msl mss).
Proof. intros c x y md msl mss Hc. exact (fit_regressor_scale_R c Hc x y md msl mss). Qed.

(* scale_invariance_pow2, BINARY64 (the FOps instance = the arithmetic of the f64 code): multiplying every
   feature by 2^e, 0 <= e <= 1023, leaves the fitted regressor unchanged - node array structure, outputs,
   split features, split scores, child indices, depth - except that every threshold is multiplied by 2^e.
   Exponent-range hypothesis `pow2_scalable e v` (C05/ProofsScaleF64.v) on every feature value v:
       v is finite (no NaN / infinity)  and  v = 0 (either sign)  or  2^-969 <= |v| <= 2^(1022-e),
   stated on the real value B2R (Prim2B v) of the float.  The upper bound excludes overflow of v 2^e and
   of the sum of two scaled values; the lower bound keeps the sum a + b of two feature values and its half
   out of the subnormal range, where rounding does not commute with scaling (e.g. a + b = 2^-1074:
   (a + b) / 2 rounds to 0 but (a 2^e + b 2^e) / 2 = 2^(e-1075) does not).
   `relabel_tree phi (nodes, depth)` = (nodes with split_value mapped through phi, depth).
   Proof: C05_scale_invariance_generic + Flocq's correctness theorems for binary64 multiplication,
   addition, division, ldexp and comparison and its bridge to Coq's primitive floats (Print Assumptions
   lists Coq's FloatAxioms.* / Uint63 axioms, i.e. the specification of the primitive operations). *)
Theorem C05_scale_invariance_pow2 :
  forall (x : list (list float)) (y : list float) md msl mss (e : Z),
    (0 <= e <= 1023)%Z ->
    Forall (Forall (pow2_scalable e)) x ->
    let phi := (fun v => PrimFloat.mul v (Z.ldexp 1%float e)) in
    fit_regressor FOps (map (map phi) x) y md msl mss =
    option_map (relabel_tree phi) (fit_regressor FOps x y md msl mss).
Proof. intros x y md msl mss e He Hx phi. exact (fit_regressor_pow2 e He x y md msl mss Hx). Qed.

(* the same for the classification tree (every criterion, any log2 table `lg2`): class list, node array
   (majority-class outputs, split features, scores, child indices) and depth are unchanged, thresholds are
   multiplied by 2^e.  `relabel_classifier phi (classes, nodes, depth)` maps the split values through phi. *)
Theorem C05_scale_invariance_pow2_classifier :
  forall lg2 crit (x : list (list float)) (y : list float) md msl mss (e : Z),
    (0 <= e <= 1023)%Z ->
    Forall (Forall (pow2_scalable e)) x ->
    let phi := (fun v => PrimFloat.mul v (Z.ldexp 1%float e)) in
    fit_classifier FOps lg2 crit (map (map phi) x) y md msl mss =
    option_map (relabel_classifier phi) (fit_classifier FOps lg2 crit x y md msl mss).
Proof. intros lg2 crit x y md msl mss e He Hx phi. exact (fit_classifier_pow2 e He lg2 crit x y md msl mss Hx). Qed.

(* generic and exact-real versions for the classification tree *)
Theorem C05_scale_invariance_generic_classifier :
  forall T (O : Ops T) (phi : T -> T) (V Vt : T -> Prop),
    phi (o0 O) = o0 O -> V (o0 O) ->
    (forall a b, V a -> V b -> oleb O (phi a) (phi b) = oleb O a b) ->
    (forall a b, V a -> V b -> oltb O (phi a) (phi b) = oltb O a b) ->
    (forall a b, V a -> V b -> oeqb O (phi a) (phi b) = oeqb O a b) ->
    (forall a b, V a -> V b -> Vt (mid O a b)) ->
    (forall a b, V a -> V b -> mid O (phi a) (phi b) = phi (mid O a b)) ->
    (forall v t, V v -> Vt t -> oleb O (phi v) (phi t) = oleb O v t) ->
    forall x, (forall i j, V (getx O x i j)) ->
    forall lg2 crit y md msl mss,
      fit_classifier O lg2 crit (map (map phi) x) y md msl mss =
      option_map (relabel_classifier phi) (fit_classifier O lg2 crit x y md msl mss).
Proof.
  intros T O phi V Vt H0 HV0 Hle Hlt Heq HmV Hmid Hthr x Hx lg2 crit y md msl mss.
  exact (fit_classifier_relabel O phi V Vt H0 HV0 Hle Hlt Heq HmV Hmid Hthr x Hx lg2 crit y md msl mss).
Qed.

Theorem C05_scale_invariance_real_classifier :
  forall (c : R) lg2 crit (x : list (list R)) (y : list R) md msl mss, (0 < c)%R ->
    fit_classifier ROps lg2 crit (map (map (fun v => v * c)%R) x) y md msl mss =
    option_map (relabel_classifier (fun v => v * c)%R) (fit_classifier ROps lg2 crit x y md msl mss).
Proof. intros c lg2 crit x y md msl mss Hc. exact (fit_classifier_scale_R c Hc lg2 crit x y md msl mss). Qed.

(* ... in the form of the property text: outputs, split features and child indices are unchanged *)
Theorem C05_scale_invariance_pow2_structure :
  forall (x : list (list float)) (y : list float) md msl mss (e : Z),
    (0 <= e <= 1023)%Z ->
    Forall (Forall (pow2_scalable e)) x ->
    let x' := map (map (fun v => PrimFloat.mul v (Z.ldexp 1%float e))) x in
    option_map (fun r => map (fun nd => (output nd, split_feature nd, true_child nd, false_child nd)) (fst r))
               (fit_regressor FOps x' y md msl mss) =
    option_map (fun r => map (fun nd => (output nd, split_feature nd, true_child nd, false_child nd)) (fst r))
               (fit_regressor FOps x y md msl mss).
Proof.
  intros x y md msl mss e He Hx x'. unfold x'.
  change (map (map (fun v => PrimFloat.mul v (Z.ldexp 1%float e))) x) with (map (map (scale2 e)) x).
  rewrite (fit_regressor_pow2 e He x y md msl mss Hx).
  destruct (fit_regressor FOps x y md msl mss) as [[nodes d]|]; [|reflexivity].
  cbn [option_map relabel_tree fst]. rewrite map_map. reflexivity.
Qed.

(* ---- predict ----
   Vocabulary (C05/ProofsPredict.v):
   - `next_child O nd row` : the child to which the internal node nd sends the row: true_child iff
     row[split_feature nd] <= split_value nd, false_child otherwise (a missing threshold compares false,
     as `unwrap_or(NaN)` does);
   - `root_path O nodes row p k` (inductive: `rp_root : root_path [] 0`, `rp_step : root_path p k ->
     nodes[k] = nd internal -> next_child nd row = Some c -> root_path (k :: p) c`): k is reached from the
     root by the threshold tests, p lists the internal nodes passed, the parent of k first, the root last;
   - `leaf_of O nodes row k` : k is a leaf at the end of such a path.
   predict_leaf: for EVERY node array that satisfies the growth invariant `wf_treeb` (every node has no
   child or two children whose indices are larger than its own and inside the array - this is what
   C05_fitted_tree_wf proves of fitted trees and what the correspondence evaluates on the
   implementation's arrays), every number type and every row: predict_for_row does not exhaust its
   fuel (= number of nodes), and returns the output of THE leaf at the end of the row's path: the path
   exists, has fewer steps than there are nodes, its node indices increase strictly, and both the path
   and the leaf are unique.  Axiom-free. *)
Theorem C05_predict_leaf : forall T A (O : Ops T) (nodes : list (node T A)) (row : list T),
  wf_treeb nodes = true ->
  exists p k nd, root_path O nodes row p k /\ nth_error nodes k = Some nd /\ leafb nd = true /\
    predict_for_row O nodes row = Some (output nd) /\
    length p < length nodes /\ Forall (fun j => j < k) p /\
    forall p' k' nd', root_path O nodes row p' k' -> nth_error nodes k' = Some nd' -> leafb nd' = true ->
      p' = p /\ k' = k.
Proof. exact @predict_leaf. Qed.

(* `route` of the growth theorems is `root_path` without the recorded path, so the leaf named by
   C05_predict_routes is unique: two routed leaves coincide (no hypothesis on the node array) *)
Theorem C05_route_is_root_path : forall T A (O : Ops T) (nodes : list (node T A)) (row : list T) k,
  route O nodes row k <-> exists p, root_path O nodes row p k.
Proof.
  intros T A O nodes row k. split; [apply route_root_path|]. intros [p P]. exact (root_path_route O nodes row p k P).
Qed.
Theorem C05_routed_leaf_unique : forall T A (O : Ops T) (nodes : list (node T A)) (row : list T) k nd k' nd',
  route O nodes row k -> nth_error nodes k = Some nd -> leafb nd = true ->
  route O nodes row k' -> nth_error nodes k' = Some nd' -> leafb nd' = true -> k' = k.
Proof. exact @route_leaf_unique. Qed.

(* the public batch functions.  DecisionTreeRegressor::predict: one value per row, the output of that
   row's leaf; never `None` on a well-formed node array *)
Theorem C05_predict_regressor_leaf : forall T (O : Ops T) (nodes : list (node T T)) (rows : list (list T)),
  wf_treeb nodes = true ->
  exists outs, predict_regressor O nodes rows = Some outs /\ length outs = length rows /\
    forall i, i < length rows ->
      exists k, leaf_of O nodes (nth i rows []) k /\ k < length nodes /\
                nth i outs (o0 O) = output (nth k nodes (dnode (o0 O))).
Proof. exact @predict_regressor_leaves. Qed.

(* DecisionTreeClassifier::predict: classes[output of the row's leaf]; never `None` (no index panic) when
   every leaf output indexes into `classes` (true of fitted trees: C05_leaf_value_classification_fit) *)
Theorem C05_predict_classifier_leaf :
  forall T (O : Ops T) (classes : list T) (nodes : list (node T nat)) (rows : list (list T)),
  wf_treeb nodes = true ->
  (forall k, k < length nodes -> leafb (nth k nodes (dnode 0)) = true ->
             output (nth k nodes (dnode 0)) < length classes) ->
  exists labels, predict_classifier O classes nodes rows = Some labels /\ length labels = length rows /\
    forall i, i < length rows ->
      exists k, leaf_of O nodes (nth i rows []) k /\ k < length nodes /\
                output (nth k nodes (dnode 0)) < length classes /\
                nth i labels (o0 O) = nth (output (nth k nodes (dnode 0))) classes (o0 O).
Proof. exact @predict_classifier_leaves. Qed.

(* predict_training_rows, structural half - ANY number type (binary64 included), any split search (both
   trees, any criterion), any weights / tried features / limits: in a tree grown by the model, predicting
   training row i returns the output of a leaf k whose ghost sample vector G k (the vector handed to node k
   at fit time: C05_node_samples_invariant, same G) counts row i with its full weight, while every other
   leaf counts it 0 times: k is the leaf into which row i was partitioned at fit time.  Axiom-free. *)
Theorem C05_predict_training_rows_structure :
  forall T A (O : Ops T) (a0 : A) x msl find root_out samples md nodes d,
  grow_tree O a0 x msl find root_out samples md = Some (nodes, d) ->
  exists G D, tree_consistent O a0 x msl (fun _ _ => True) samples nodes G D /\
    forall i, i < length x ->
      exists k, leaf_of O nodes (nth i x []) k /\ k < length nodes /\ leafb (nth k nodes (dnode a0)) = true /\
        predict_for_row O nodes (nth i x []) = Some (output (nth k nodes (dnode a0))) /\
        nth i (G k) 0 = nth i samples 0 /\
        (forall k', k' < length nodes -> leafb (nth k' nodes (dnode a0)) = true -> k' <> k -> nth i (G k') 0 = 0) /\
        nth i samples 0 <= sum_nat (G k).
Proof. exact @predict_training_rows_structure. Qed.

(* predict_training_rows, regression (exact reals), end to end: fit_weak_learner with arbitrary sample
   counts and tried features, then predict on the training matrix.  predict returns a value for every
   row; the value for training row i is the output of the leaf k that counts row i (G k i = samples i,
   all other leaves 0), and if the row has weight > 0 it is the weighted MEAN target of the rows counted
   by that leaf, (sum_r G k r * y r) / (sum_r G k r). *)
Theorem C05_predict_training_rows_regressor_weak : forall x y samples vars md msl mss nodes d,
  length y = length x -> length samples = length x ->
  (forall id j, In j (vars id) -> j < length (hd [] x)) ->
  fit_regressor_weak ROps x y samples vars md msl mss = Some (nodes, d) ->
  exists G D, tree_consistent ROps 0%R x msl (reg_out_ok x y) samples nodes G D /\
    (forall r k, r < length x -> k < length nodes ->
      (route ROps nodes (nth r x []) k -> nth r (G k) 0 = nth r samples 0) /\
      (~ route ROps nodes (nth r x []) k -> nth r (G k) 0 = 0)) /\
    exists outs, predict_regressor ROps nodes x = Some outs /\ length outs = length x /\
      forall i, i < length x ->
        exists k, leaf_of ROps nodes (nth i x []) k /\ k < length nodes /\
          leafb (nth k nodes (dnode 0%R)) = true /\
          nth i (G k) 0 = nth i samples 0 /\
          (forall k', k' < length nodes -> leafb (nth k' nodes (dnode 0%R)) = true -> k' <> k ->
                      nth i (G k') 0 = 0) /\
          nth i outs 0%R = output (nth k nodes (dnode 0%R)) /\
          (0 < nth i samples 0 ->
             nth i outs 0%R =
             (rsum (fun r => IZN (nth r (G k) 0%nat) * nth r y 0) (seq 0%nat (length x)) / IZN (sum_nat (G k)))%R).
Proof. exact predict_training_regressor_weak. Qed.

(* ... for DecisionTreeRegressor::fit followed by predict on the training matrix (all weights 1: G k is the
   0/1 indicator of the training rows routed to leaf k, so the prediction for row i is the plain mean of
   the targets of the training rows that share its leaf) *)
Theorem C05_predict_training_rows_regressor : forall x y md msl mss nodes d,
  length y = length x ->
  fit_regressor ROps x y md msl mss = Some (nodes, d) ->
  exists G D, tree_consistent ROps 0%R x msl (reg_out_ok x y) (repeat 1 (length x)) nodes G D /\
    (forall r k, r < length x -> k < length nodes ->
      (route ROps nodes (nth r x []) k -> nth r (G k) 0 = 1) /\
      (~ route ROps nodes (nth r x []) k -> nth r (G k) 0 = 0)) /\
    exists outs, predict_regressor ROps nodes x = Some outs /\ length outs = length x /\
      forall i, i < length x ->
        exists k, leaf_of ROps nodes (nth i x []) k /\ k < length nodes /\
          leafb (nth k nodes (dnode 0%R)) = true /\
          nth i (G k) 0 = 1 /\
          (forall k', k' < length nodes -> leafb (nth k' nodes (dnode 0%R)) = true -> k' <> k ->
                      nth i (G k') 0 = 0) /\
          nth i outs 0%R = output (nth k nodes (dnode 0%R)) /\
          nth i outs 0%R =
            (rsum (fun r => IZN (nth r (G k) 0%nat) * nth r y 0) (seq 0%nat (length x)) / IZN (sum_nat (G k)))%R.
Proof. exact predict_training_regressor_fit. Qed.

(* predict_training_rows, classification (exact reals for the feature comparisons; any criterion, any lg2):
   the label predicted for training row i is classes[c], c the output of the leaf k that counts row i;
   c is a class index with maximal count among the rows counted by that leaf (a plurality class of the
   leaf's samples), and the label is one of the training labels. *)
Theorem C05_predict_training_rows_classifier_weak :
  forall lg2 crit x y samples vars md msl mss classes nodes d,
  length y = length x -> length samples = length x ->
  (forall id j, In j (vars id) -> j < length (hd [] x)) ->
  fit_classifier_weak ROps lg2 crit x y samples vars md msl mss = Some (classes, nodes, d) ->
  exists yi, length yi = length x /\
    (forall i, i < length x -> nth i yi 0 < length classes /\ nth (nth i yi 0) classes 0%R = nth i y 0%R) /\
    exists G D, tree_consistent ROps 0 x msl (cls_out_ok x yi (length classes)) samples nodes G D /\
      (forall r n, r < length x -> n < length nodes ->
        (route ROps nodes (nth r x []) n -> nth r (G n) 0 = nth r samples 0) /\
        (~ route ROps nodes (nth r x []) n -> nth r (G n) 0 = 0)) /\
      exists labels, predict_classifier ROps classes nodes x = Some labels /\ length labels = length x /\
        forall i, i < length x ->
          exists k, leaf_of ROps nodes (nth i x []) k /\ k < length nodes /\
            leafb (nth k nodes (dnode 0)) = true /\
            nth i (G k) 0 = nth i samples 0 /\
            (forall k', k' < length nodes -> leafb (nth k' nodes (dnode 0)) = true -> k' <> k ->
                        nth i (G k') 0 = 0) /\
            output (nth k nodes (dnode 0)) < length classes /\
            nth i labels 0%R = nth (output (nth k nodes (dnode 0))) classes 0%R /\
            In (nth i labels 0%R) y /\
            forall c, nth c (cvec x yi (length classes) (G k)) 0 <=
                      nth (output (nth k nodes (dnode 0))) (cvec x yi (length classes) (G k)) 0.
Proof. exact predict_training_classifier_weak. Qed.

Theorem C05_predict_training_rows_classifier :
  forall lg2 crit x y md msl mss classes nodes d,
  length y = length x ->
  fit_classifier ROps lg2 crit x y md msl mss = Some (classes, nodes, d) ->
  exists yi, length yi = length x /\
    (forall i, i < length x -> nth i yi 0 < length classes /\ nth (nth i yi 0) classes 0%R = nth i y 0%R) /\
    exists G D, tree_consistent ROps 0 x msl (cls_out_ok x yi (length classes)) (repeat 1 (length x)) nodes G D /\
      (forall r n, r < length x -> n < length nodes ->
        (route ROps nodes (nth r x []) n -> nth r (G n) 0 = 1) /\
        (~ route ROps nodes (nth r x []) n -> nth r (G n) 0 = 0)) /\
      exists labels, predict_classifier ROps classes nodes x = Some labels /\ length labels = length x /\
        forall i, i < length x ->
          exists k, leaf_of ROps nodes (nth i x []) k /\ k < length nodes /\
            leafb (nth k nodes (dnode 0)) = true /\
            nth i (G k) 0 = 1 /\
            (forall k', k' < length nodes -> leafb (nth k' nodes (dnode 0)) = true -> k' <> k ->
                        nth i (G k') 0 = 0) /\
            output (nth k nodes (dnode 0)) < length classes /\
            nth i labels 0%R = nth (output (nth k nodes (dnode 0))) classes 0%R /\
            In (nth i labels 0%R) y /\
            forall c, nth c (cvec x yi (length classes) (G k)) 0 <=
                      nth (output (nth k nodes (dnode 0))) (cvec x yi (length classes) (G k)) 0.
Proof. exact predict_training_classifier_fit. Qed.

(* ---- strictly increasing feature maps (regression tree) ----
   The candidate thresholds are midpoints (a + b)/2 of neighbouring training values; after transforming a
   feature column by a strictly increasing map f they are (f a + f b)/2, not f((a + b)/2).  Hence the
   statement "predictions are unchanged when one feature column of the training and of the query data is
   transformed by the same strictly increasing map" is FALSE for query rows that fall between the two
   thresholds - C05_predict_invariant_monotone_feature_map_refuted: binary64 model, f = cube (strictly
   increasing), training column [1; 3], targets [0; 1]: thresholds 2 resp. 14, the query 2.25 is predicted
   1 before and 0 after the transformation (2.25^3 = 11.390625 <= 14). *)
Theorem C05_predict_invariant_monotone_feature_map_refuted :
  let f := (fun v : float => v * v * v)%float in
  exists nodes d nodes' d',
    fit_regressor FOps [[1];[3]]%float [0;1]%float None 1 2 = Some (nodes, d) /\
    fit_regressor FOps (map (map f) [[1];[3]]%float) [0;1]%float None 1 2 = Some (nodes', d') /\
    predict_regressor FOps nodes [[1];[3];[2.25]]%float = Some [0;1;1]%float /\
    predict_regressor FOps nodes' (map (map f) [[1];[3];[2.25]]%float) = Some [0;1;0]%float.
Proof.
  cbv zeta. eexists. eexists. eexists. eexists.
  split; [vm_compute; reflexivity|]. split; [vm_compute; reflexivity|]. split; vm_compute; reflexivity.
Qed.

(* What IS true (exact reals, proved): the partition of the TRAINING rows and their predictions are
   unchanged.  Vocabulary (C05/ProofsMonotone.v, C05/ProofsMonotoneReg.v):
   - `same_order x x' j` : column j of x' is ordered like column j of x (x[r][j] <= x[r'][j] iff
     x'[r][j] <= x'[r'][j] for all rows r, r');
   - `map_col f j0 x` : x with f applied to entry j0 of every row;
   - `erase nd` : the node without the VALUE of its threshold (output, split feature, whether a threshold is
     present, split score, child indices);
   - `res_rel r' r` : both fits fail, or both succeed with `map erase`-equal node arrays and equal depth.
   General form: any weights, tried features and limits, a common family `order` of sorting permutations
   (as in C05_leaf_value_regression; quick_argsort makes the same comparisons on both matrices), every
   tried column of x' ordered like the column of x: the two fitted trees are equal up to the threshold
   values (same outputs, split features, scores, children, depth), ONE family of ghost sample vectors G
   satisfies the growth invariant for both - the training rows are partitioned identically, node by
   node - and every training row of weight > 0 gets the same prediction. *)
Theorem C05_monotone_columns_same_training_partition :
  forall (x x' : list (list R)) y samples vars order md msl mss,
    length x' = length x ->
    (forall id j, In j (vars id) -> sorted_order x j (nth j order [])) ->
    (forall id j, In j (vars id) -> same_order x x' j) ->
    res_rel (fit_regressor_with_order ROps x' y samples vars order md msl mss)
            (fit_regressor_with_order ROps x y samples vars order md msl mss) /\
    forall nodes' nodes d' d,
      fit_regressor_with_order ROps x' y samples vars order md msl mss = Some (nodes', d') ->
      fit_regressor_with_order ROps x y samples vars order md msl mss = Some (nodes, d) ->
      map erase nodes' = map erase nodes /\ d' = d /\
      (exists G D, tree_consistent ROps 0%R x msl (fun _ _ => True) samples nodes G D /\
                   tree_consistent ROps 0%R x' msl (fun _ _ => True) samples nodes' G D) /\
      forall i, i < length x -> 0 < nth i samples 0 ->
        predict_for_row ROps nodes' (nth i x' []) = predict_for_row ROps nodes (nth i x []).
Proof.
  intros x x' y samples vars order md msl mss Hl Ho Hc. split.
  - exact (fit_regressor_with_order_sim x x' Hl y msl order mss vars Ho Hc samples md).
  - intros nodes' nodes d' d. exact (fit_regressor_with_order_same_partition x x' Hl y msl order mss vars Ho Hc samples md nodes' nodes d' d).
Qed.

(* the target's form: ONE feature column j0 (present in every row) of the training matrix transformed by a
   strictly increasing map f; the query rows are the (transformed) training rows *)
Theorem C05_predict_invariant_monotone_feature_map_training_rows :
  forall (f : R -> R) j0 x y samples vars order md msl mss,
    (forall a b, (a < b)%R -> (f a < f b)%R) ->
    (forall r, r < length x -> j0 < length (nth r x [])) ->
    (forall id j, In j (vars id) -> sorted_order x j (nth j order [])) ->
    res_rel (fit_regressor_with_order ROps (map_col f j0 x) y samples vars order md msl mss)
            (fit_regressor_with_order ROps x y samples vars order md msl mss) /\
    forall nodes' nodes d' d,
      fit_regressor_with_order ROps (map_col f j0 x) y samples vars order md msl mss = Some (nodes', d') ->
      fit_regressor_with_order ROps x y samples vars order md msl mss = Some (nodes, d) ->
      map erase nodes' = map erase nodes /\ d' = d /\
      (exists G D, tree_consistent ROps 0%R x msl (fun _ _ => True) samples nodes G D /\
                   tree_consistent ROps 0%R (map_col f j0 x) msl (fun _ _ => True) samples nodes' G D) /\
      forall i, i < length x -> 0 < nth i samples 0 ->
        predict_for_row ROps nodes' (nth i (map_col f j0 x) []) = predict_for_row ROps nodes (nth i x []).
Proof. exact monotone_column_training_rows. Qed.

(* ... and for DecisionTreeRegressor::fit followed by predict on the (transformed) training matrix, the
   orders being computed by quick_argsort on each matrix: same tree up to threshold values, same partition,
   and the two prediction vectors for the training rows are EQUAL.
   PARTIAL only in the side condition f 0 = 0: the simulation lemma for the transliterated quicksort
   (ProofsScale.quick_argsort_phi) is stated for maps fixing 0, because the sort's out-of-range default
   element is the pair (0, 0); the sort never reads out of range on a non-empty column, but that is not
   proved.  The full statement (any strictly increasing f) is the Definition below; what is missing is
   exactly `quick_argsort ROps (map f col) = quick_argsort ROps col` without f 0 = 0.  The `_with_order`
   theorem above has no such condition. *)
Theorem C05_predict_invariant_monotone_feature_map_training_rows_fit_partial :
  forall (f : R -> R) j0 x y md msl mss,
    f 0%R = 0%R ->
    (forall a b, (a < b)%R -> (f a < f b)%R) ->
    (forall r, r < length x -> j0 < length (nth r x [])) ->
    res_rel (fit_regressor ROps (map_col f j0 x) y md msl mss) (fit_regressor ROps x y md msl mss) /\
    forall nodes' nodes d' d,
      fit_regressor ROps (map_col f j0 x) y md msl mss = Some (nodes', d') ->
      fit_regressor ROps x y md msl mss = Some (nodes, d) ->
      map erase nodes' = map erase nodes /\ d' = d /\
      (exists G D, tree_consistent ROps 0%R x msl (fun _ _ => True) (repeat 1 (length x)) nodes G D /\
                   tree_consistent ROps 0%R (map_col f j0 x) msl (fun _ _ => True) (repeat 1 (length x)) nodes' G D) /\
      exists outs, predict_regressor ROps nodes' (map_col f j0 x) = Some outs /\
                   predict_regressor ROps nodes x = Some outs.
Proof.
  intros f j0 x y md msl mss H0 Hf Hr. exact (monotone_column_training_rows_fit f H0 Hf j0 x Hr y md msl mss).
Qed.
Definition C05_predict_invariant_monotone_feature_map_training_rows_fit_full_statement : Prop :=
  forall (f : R -> R) j0 x y md msl mss,
    (forall a b, (a < b)%R -> (f a < f b)%R) ->
    (forall r, r < length x -> j0 < length (nth r x [])) ->
    forall nodes' nodes d' d,
      fit_regressor ROps (map_col f j0 x) y md msl mss = Some (nodes', d') ->
      fit_regressor ROps x y md msl mss = Some (nodes, d) ->
      map erase nodes' = map erase nodes /\ d' = d /\
      exists outs, predict_regressor ROps nodes' (map_col f j0 x) = Some outs /\
                   predict_regressor ROps nodes x = Some outs.

(* the same for arbitrary output type and split search (both trees, any number type): whenever two split
   searches agree up to the value of the threshold (`cand_rel`: same feature, score, child outputs, and the
   two thresholds split the rows counted by s alike), the grown trees have the same partition.  Axiom-free. *)
Theorem C05_same_partition_generic :
  forall T A (O : Ops T) (a0 : A) (x x' : list (list T)) msl find find' root_out samples md nodes' nodes d' d,
    length x' = length x ->
    (forall id out s, ocand_rel O x x' s (find' id out s) (find id out s)) ->
    grow_tree O a0 x' msl find' root_out samples md = Some (nodes', d') ->
    grow_tree O a0 x msl find root_out samples md = Some (nodes, d) ->
    map erase nodes' = map erase nodes /\ d' = d /\
    exists G D, tree_consistent O a0 x msl (fun _ _ => True) samples nodes G D /\
                tree_consistent O a0 x' msl (fun _ _ => True) samples nodes' G D.
Proof.
  intros T A O a0 x x' msl find find' r s md nodes' nodes d' d Hl Hf H' H.
  exact (grow_tree_same_partition O a0 x x' Hl msl find find' Hf r s md nodes' nodes d' d H' H).
Qed.

(* ---- the hypotheses are satisfiable (binary64 instance, evaluated by the kernel) ---- *)
Example C05_regressor_instance :
  exists nodes d,
    fit_regressor FOps [[1;5];[2;4];[3;9];[4;1];[5;7];[6;2]]%float [1;1.5;3;3.5;10;11]%float (Some 3) 1 2
      = Some (nodes, d) /\ length nodes = 5 /\ wf_treeb nodes = true.
Proof. eexists. eexists. split; [vm_compute; reflexivity|]. split; vm_compute; reflexivity. Qed.

(* hypotheses of the optimality / completeness theorems: no depth limit, an internal root, leaves *)
Example C05_regressor_unlimited_instance :
  exists nodes d,
    fit_regressor FOps [[1;5];[2;4];[3;9];[4;1];[5;7];[6;2]]%float [1;1.5;3;3.5;10;11]%float None 1 2
      = Some (nodes, d) /\ length nodes < 65535 /\ leafb (nth 0 nodes (dnode 0%float)) = false /\
    leafb (nth (length nodes - 1) nodes (dnode 0%float)) = true.
Proof.
  eexists. eexists. split; [vm_compute; reflexivity|]. split; [apply Nat.ltb_lt; vm_compute; reflexivity|].
  split; vm_compute; reflexivity.
Qed.

Example C05_classifier_instance :
  exists classes nodes d,
    fit_classifier FOps (fun p => p) Gini
      [[1;0];[1;0];[1;1];[2;1];[2;1];[3;0];[3;0];[3;2]]%float [-2;17;-2;17;17;100;-2;100]%float None 1 0
      = Some (classes, nodes, d) /\ classes = [-2; 17; 100]%float /\ length nodes = 9 /\ wf_treeb nodes = true.
Proof.
  eexists. eexists. eexists. split; [vm_compute; reflexivity|]. repeat split; vm_compute; reflexivity.
Qed.

(* predict on fitted trees (binary64, evaluated by the kernel): the regressor of C05_regressor_instance
   predicts its training rows with the means of their leaves (rows 0,1 share a leaf: (1 + 1.5)/2), the
   classifier of C05_classifier_instance (no limits; rows 0 and 1 are identical with different labels)
   returns a plurality label for every training row, and the path of a row ends in a leaf *)
Example C05_predict_regressor_instance :
  exists nodes d,
    fit_regressor FOps [[1;5];[2;4];[3;9];[4;1];[5;7];[6;2]]%float [1;1.5;3;3.5;10;11]%float (Some 3) 1 2
      = Some (nodes, d) /\ wf_treeb nodes = true /\
    predict_regressor FOps nodes [[1;5];[2;4];[3;9];[4;1];[5;7];[6;2]]%float
      = Some [1.25; 1.25; 3.25; 3.25; 10.5; 10.5]%float.
Proof. eexists. eexists. split; [vm_compute; reflexivity|]. split; vm_compute; reflexivity. Qed.

Example C05_predict_classifier_instance :
  exists classes nodes d,
    fit_classifier FOps (fun p => p) Gini
      [[1;0];[1;0];[1;1];[2;1];[2;1];[3;0];[3;0];[3;2]]%float [-2;17;-2;17;17;100;-2;100]%float None 1 0
      = Some (classes, nodes, d) /\ wf_treeb nodes = true /\
    forallb (fun nd => output nd <? length classes) nodes = true /\
    predict_classifier FOps classes nodes [[1;0];[1;1];[2;1];[3;0];[3;2];[0;7]]%float
      = Some [-2; -2; 17; -2; 100; -2]%float.
Proof.
  eexists. eexists. eexists. split; [vm_compute; reflexivity|]. repeat split; vm_compute; reflexivity.
Qed.

Example C05_root_path_instance :
  let nodes : list (node float float) :=
    [mkNode 0%float 0 (Some 2%float) None (Some 1) (Some 2); mkNode 7%float 0 None None None None;
     mkNode 9%float 0 None None None None] in
  wf_treeb nodes = true /\ root_path FOps nodes [3%float] [0] 2 /\ leaf_of FOps nodes [3%float] 2.
Proof.
  cbv zeta. split; [vm_compute; reflexivity|].
  match goal with |- ?P /\ _ => assert (H : P) end.
  { eapply rp_step; [apply rp_root|reflexivity|reflexivity|vm_compute; reflexivity]. }
  split; [exact H|]. eexists. eexists. split; [exact H|]. split; reflexivity.
Qed.

(* hypotheses of the monotone-map theorems: a strictly increasing map, a column present in every row,
   and the transformed matrix, whose column 0 is ordered like the original one *)
Example C05_map_col_instance :
  let f := (fun v : R => 3 * v + 1)%R in
  (forall a b, (a < b)%R -> (f a < f b)%R) /\
  (forall r, r < length [[1;5];[2;4]]%R -> 0 < length (nth r [[1;5];[2;4]]%R [])) /\
  map_col f 0 [[1;5];[2;4]]%R = [[3 * 1 + 1; 5]; [3 * 2 + 1; 4]]%R /\
  same_order [[1;5];[2;4]]%R (map_col f 0 [[1;5];[2;4]]%R) 0.
Proof.
  cbv zeta. split; [intros a b H; lra|]. split.
  - intros r Hr. cbn in Hr. destruct r as [|[|r]]; cbn; lia.
  - split; [reflexivity|]. apply map_col_same_order; [intros a b H; lra|].
    intros r Hr. cbn in Hr. destruct r as [|[|r]]; cbn; lia.
Qed.

Example C05_argsort_instance :
  quick_argsort FOps [3; 1; 2; 1; 5; 0; 4; 1; 9; 2]%float = Some [5; 7; 3; 1; 9; 2; 0; 6; 4; 8].
Proof. vm_compute. reflexivity. Qed.

(* exact-real instance of the hypothesis of C05_argsort_perm_sorted (3 values: insertion-sort path;
   the partition path is exercised by the binary64 instance above with 10 values) *)
Example C05_argsort_real_instance : quick_argsort ROps [3; 1; 2]%R = Some [1; 2; 0].
Proof.
  unfold quick_argsort. cbn -[Rleb].
  repeat (repeat match goal with
          | |- context [Rleb ?a ?b] =>
              first [rewrite (proj2 (Rleb_true a b)) by lra | rewrite (proj2 (Rleb_false a b)) by lra]
          end; cbn -[Rleb]).
  reflexivity.
Qed.

(* the classifier side conditions are satisfiable: distinct values, and a boundary threshold between
   the two rows of different class *)
Example C05_distinct_boundary_instance :
  distinct_feature [[1];[2];[4]]%R 0 /\ boundary [[1];[2];[4]]%R [0;0;1] [1;1;1] 0 3%R.
Proof.
  split.
  - intros r r' Hr Hr' E. cbn in Hr, Hr'.
    destruct r as [|[|[|r]]]; destruct r' as [|[|[|r']]]; try lia; try reflexivity;
      unfold X, getx in E; cbn in E; lra.
  - exists 1, 2. cbn [length]. repeat split; try lia; try (unfold X, getx; cbn; lra); try (cbn; lia).
    intros r Hr _. destruct r as [|[|[|r]]]; try lia; unfold X, getx; cbn; [left|left|right]; lra.
Qed.

Example C05_sorted_order_instance : sorted_order [[3];[1];[2]]%R 0 [1; 2; 0].
Proof.
  split.
  - cbn. apply Permutation.perm_trans with [1; 0; 2].
    + apply Permutation.perm_skip. apply Permutation.perm_swap.
    + apply Permutation.perm_swap.
  - unfold X, getx. repeat constructor; cbn; lra.
Qed.

(* hypotheses of the boundary-point property: an impure node and an admissible threshold (3/2, between
   two rows of the SAME class) that is not a boundary threshold; the boundary threshold 3 of
   C05_distinct_boundary_instance beats it *)
Example C05_nonboundary_admissible_instance :
  admissible [[1];[2];[4]]%R 1 [1;1;1] 0 (3/2)%R /\ is_pure [[1];[2];[4]]%R [0;0;1] [1;1;1] = false.
Proof.
  split; [|reflexivity].
  unfold admissible, true_part, false_part, goes_true, le_thr, getx. cbn -[Rleb Rdiv].
  repeat match goal with
         | |- context [Rleb ?a ?b] =>
             first [rewrite (proj2 (Rleb_true a b)) by lra | rewrite (proj2 (Rleb_false a b)) by lra]
         end.
  cbn. lia.
Qed.

(* the exponent-range hypothesis of C05_scale_invariance_pow2 is satisfiable: zeros and powers of two
   2^-3, 2^5, 2^700 can be scaled by 2^300 *)
Example C05_pow2_scalable_instance :
  Forall (Forall (pow2_scalable 300)) [[Z.ldexp 1 (-3); 0]; [Z.ldexp 1 5; Z.ldexp 1 700]; [0; 0]]%float.
Proof.
  repeat (apply Forall_cons || apply Forall_nil);
    first [apply pow2_scalable_zero | apply pow2_scalable_pow2; lia].
Qed.

(* ------------------------------------------------------------------------------------------
   ROUNDING theorems (C05/ProofsFloat.v): the BINARY64 instance FOps of the split threshold
   (xi + px) / 2 and of the row partition it induces, proved through Flocq's PrimFloat bridge.
   FR x is the real value of a float, ffin x = finite, rnd64 = rounding to nearest-even in the
   binary64 format (Base/FloatError.v); RX x = map (map FR) x.  The only no-overflow hypothesis is
   that the SUM of the two values is finite.  `mid_of_rows x s f t i0 i` (C05/ProofsFloat.v): rows
   i0, i are counted by s, hold consecutive distinct values a < b of feature f among the rows counted
   by s, and t is the model's expression (b + a) / 2 evaluated in binary64.
   ------------------------------------------------------------------------------------------ *)
From SC Require Base.FloatUtil Base.FloatError C05.ProofsFloat.

(* target 1: the computed threshold is the correctly rounded real midpoint, hence between a and b *)
Theorem C05_midpoint_float_between : forall a b : PrimFloat.float,
  FloatError.ffin a -> FloatError.ffin b -> FloatError.ffin (b + a)%float ->
  (FloatError.FR a <= FloatError.FR b)%R ->
  let t := odiv FOps (oadd FOps b a) (oofZ FOps 2) in
  FloatError.ffin t /\
  FloatError.FR t = FloatError.rnd64 ((FloatError.FR a + FloatError.FR b) / 2)%R /\
  (FloatError.FR a <= FloatError.FR t <= FloatError.FR b)%R.
Proof. exact C05.ProofsFloat.midpoint_float_between. Qed.

(* target 2: a < t < b iff a binary64 number lies strictly between; otherwise t is a or b; a always passes
   the test x <= t, b passes it iff t = b *)
Theorem C05_midpoint_float_separates : forall a b : PrimFloat.float,
  FloatError.ffin a -> FloatError.ffin b -> FloatError.ffin (b + a)%float ->
  (FloatError.FR a < FloatError.FR b)%R ->
  let t := odiv FOps (oadd FOps b a) (oofZ FOps 2) in
  ((exists c : PrimFloat.float, (FloatError.FR a < FloatError.FR c < FloatError.FR b)%R) <->
   (FloatError.FR a < FloatError.FR t < FloatError.FR b)%R) /\
  ((forall c : PrimFloat.float, ~ (FloatError.FR a < FloatError.FR c < FloatError.FR b)%R) ->
   FloatError.FR t = FloatError.FR a \/ FloatError.FR t = FloatError.FR b) /\
  oleb FOps a t = true /\
  (oleb FOps b t = true <-> FloatError.FR t = FloatError.FR b).
Proof. exact C05.ProofsFloat.midpoint_float_separates. Qed.

(* adjacent floats whose tie rounds up to b: the split x <= t does not separate them *)
Example C05_midpoint_adjacent_rounds_up :
  let a := 0x1.0000000000001p+0%float in let b := 0x1.0000000000002p+0%float in
  PrimFloat.ltb a b = true /\ odiv FOps (oadd FOps b a) (oofZ FOps 2) = b /\
  oleb FOps b (odiv FOps (oadd FOps b a) (oofZ FOps 2)) = true.
Proof. vm_compute. repeat split. Qed.
(* adjacent floats whose tie rounds down to a: still separated *)
Example C05_midpoint_adjacent_rounds_down :
  let a := 1%float in let b := 0x1.0000000000001p+0%float in
  PrimFloat.ltb a b = true /\ odiv FOps (oadd FOps b a) (oofZ FOps 2) = a /\
  oleb FOps b (odiv FOps (oadd FOps b a) (oofZ FOps 2)) = false.
Proof. vm_compute. repeat split. Qed.
(* the subnormal corner (halving inexact) and the excluded overflow of the sum *)
Example C05_midpoint_subnormal_and_overflow :
  odiv FOps (oadd FOps 0x1p-1073%float 0x1p-1074%float) (oofZ FOps 2) = 0x1p-1073%float /\
  odiv FOps (oadd FOps 0x1p-1074%float 0%float) (oofZ FOps 2) = 0%float /\
  PrimFloat.is_finite 0x1.fffffffffffffp+1023%float = true /\
  PrimFloat.is_finite (odiv FOps (oadd FOps 0x1.fffffffffffffp+1023%float 0x1.fffffffffffffp+1023%float)
                                 (oofZ FOps 2)) = false.
Proof. vm_compute. repeat split. Qed.

(* target 3: for a < b consecutive among the counted rows, if t < b the binary64 partition is the
   exact-arithmetic partition at the real midpoint *)
Theorem C05_partition_float_consistent :
  forall (x : list (list PrimFloat.float)) (samples : list nat) (feat : nat) (a b : PrimFloat.float),
  Forall (Forall FloatError.ffin) x ->
  FloatError.ffin a -> FloatError.ffin b -> FloatError.ffin (b + a)%float ->
  (FloatError.FR a < FloatError.FR b)%R ->
  (forall i, i < length x -> 0 < nth i samples 0 ->
     (FloatError.FR (getx FOps x i feat) <= FloatError.FR a)%R \/
     (FloatError.FR b <= FloatError.FR (getx FOps x i feat))%R) ->
  let t := odiv FOps (oadd FOps b a) (oofZ FOps 2) in
  (FloatError.FR t < FloatError.FR b)%R ->
  true_part FOps x samples feat (Some t) =
    true_part ROps (C05.ProofsFloat.RX x) samples feat (Some ((FloatError.FR a + FloatError.FR b) / 2)%R) /\
  false_part FOps x samples feat (Some t) =
    false_part ROps (C05.ProofsFloat.RX x) samples feat (Some ((FloatError.FR a + FloatError.FR b) / 2)%R).
Proof. exact C05.ProofsFloat.partition_float_consistent. Qed.

(* ... in particular when a and b are not adjacent binary64 numbers *)
Theorem C05_partition_float_consistent_nonadjacent :
  forall (x : list (list PrimFloat.float)) (samples : list nat) (feat : nat) (a b : PrimFloat.float),
  Forall (Forall FloatError.ffin) x ->
  FloatError.ffin a -> FloatError.ffin b -> FloatError.ffin (b + a)%float ->
  (FloatError.FR a < FloatError.FR b)%R ->
  (forall i, i < length x -> 0 < nth i samples 0 ->
     (FloatError.FR (getx FOps x i feat) <= FloatError.FR a)%R \/
     (FloatError.FR b <= FloatError.FR (getx FOps x i feat))%R) ->
  (exists c : PrimFloat.float, (FloatError.FR a < FloatError.FR c < FloatError.FR b)%R) ->
  let t := odiv FOps (oadd FOps b a) (oofZ FOps 2) in
  true_part FOps x samples feat (Some t) =
    true_part ROps (C05.ProofsFloat.RX x) samples feat (Some ((FloatError.FR a + FloatError.FR b) / 2)%R) /\
  false_part FOps x samples feat (Some t) =
    false_part ROps (C05.ProofsFloat.RX x) samples feat (Some ((FloatError.FR a + FloatError.FR b) / 2)%R).
Proof. exact C05.ProofsFloat.partition_float_consistent_nonadjacent. Qed.

(* and the mechanism of the tie defects: if t = b, a counted row holding b goes to the TRUE child in
   binary64 and to the FALSE child in exact arithmetic *)
Theorem C05_partition_float_differs_when_rounds_up :
  forall (x : list (list PrimFloat.float)) (samples : list nat) (feat : nat) (a b : PrimFloat.float),
  Forall (Forall FloatError.ffin) x ->
  FloatError.ffin a -> FloatError.ffin b -> FloatError.ffin (b + a)%float ->
  (FloatError.FR a < FloatError.FR b)%R ->
  let t := odiv FOps (oadd FOps b a) (oofZ FOps 2) in
  FloatError.FR t = FloatError.FR b ->
  forall i, 0 < nth i samples 0 -> FloatError.FR (getx FOps x i feat) = FloatError.FR b ->
  goes_true FOps x samples feat (Some t) i = true /\
  goes_true ROps (C05.ProofsFloat.RX x) samples feat (Some ((FloatError.FR a + FloatError.FR b) / 2)%R) i = false.
Proof. exact C05.ProofsFloat.partition_float_differs_when_rounds_up. Qed.

(* the thresholds returned by the two split searches in binary64 are such midpoints *)
Theorem C05_regressor_thresholds_are_float_midpoints :
  forall (x : list (list PrimFloat.float)) (y : list PrimFloat.float) order msl mss vars,
  Forall (Forall FloatError.ffin) x ->
  (forall (id j : nat), In j (vars id) -> sorted_order (C05.ProofsFloat.RX x) j (nth j order [])) ->
  forall id out s c, reg_find FOps x y order msl mss vars id out s = Some c ->
  exists i0 i, C05.ProofsFloat.mid_of_rows x s (c_feat c) (c_val c) i0 i.
Proof. exact C05.ProofsFloat.reg_find_mid. Qed.

Theorem C05_classifier_thresholds_are_float_midpoints :
  forall lg2 crit (x : list (list PrimFloat.float)) yi k order msl mss vars,
  Forall (Forall FloatError.ffin) x ->
  (forall (id j : nat), In j (vars id) -> sorted_order (C05.ProofsFloat.RX x) j (nth j order [])) ->
  forall id out s c, cls_find FOps lg2 crit x yi k order msl mss vars id out s = Some c ->
  exists i0 i, C05.ProofsFloat.mid_of_rows x s (c_feat c) (c_val c) i0 i.
Proof. exact C05.ProofsFloat.cls_find_mid. Qed.

(* what `mid_of_rows` says, spelled out *)
Theorem C05_mid_of_rows_meaning : forall x s f t i0 i,
  C05.ProofsFloat.mid_of_rows x s f t i0 i <->
  (i0 < length x /\ i < length x /\ 0 < nth i0 s 0 /\ 0 < nth i s 0 /\
   t = odiv FOps (oadd FOps (getx FOps x i f) (getx FOps x i0 f)) (oofZ FOps 2) /\
   (FloatError.FR (getx FOps x i0 f) < FloatError.FR (getx FOps x i f))%R /\
   (forall r, r < length x -> 0 < nth r s 0 ->
      (FloatError.FR (getx FOps x r f) <= FloatError.FR (getx FOps x i0 f))%R \/
      (FloatError.FR (getx FOps x i f) <= FloatError.FR (getx FOps x r f))%R)).
Proof. intros. reflexivity. Qed.

(* every internal node of a tree grown in binary64 hands its children the rows that the exact test at
   the real midpoint of two consecutive counted values sends them, when the threshold is below the larger
   value (always the case when the two values are not adjacent binary64 numbers) *)
Theorem C05_grown_tree_float_partition :
  forall A (a0 : A) (x : list (list PrimFloat.float)) msl
         (find : nat -> A -> list nat -> option (cand PrimFloat.float A)) root samples md nodes d,
  Forall (Forall FloatError.ffin) x ->
  (forall id out s c, find id out s = Some c ->
     exists i0 i, C05.ProofsFloat.mid_of_rows x s (c_feat c) (c_val c) i0 i) ->
  grow_tree FOps a0 x msl find root samples md = Some (nodes, d) ->
  exists G D, tree_consistent FOps a0 x msl (fun _ _ => True) samples nodes G D /\
    forall n, n < length nodes -> leafb (nth n nodes (dnode a0)) = false ->
      let nd := nth n nodes (dnode a0) in
      exists t i0 i tc,
        split_value nd = Some t /\ true_child nd = Some tc /\ false_child nd = Some (S tc) /\
        G tc = true_part FOps x (G n) (split_feature nd) (Some t) /\
        G (S tc) = false_part FOps x (G n) (split_feature nd) (Some t) /\
        C05.ProofsFloat.mid_of_rows x (G n) (split_feature nd) t i0 i /\
        let a := getx FOps x i0 (split_feature nd) in
        let b := getx FOps x i (split_feature nd) in
        (FloatError.ffin (b + a)%float ->
         (FloatError.FR a <= FloatError.FR t <= FloatError.FR b)%R /\
         ((exists c : PrimFloat.float, (FloatError.FR a < FloatError.FR c < FloatError.FR b)%R) ->
          (FloatError.FR a < FloatError.FR t < FloatError.FR b)%R) /\
         ((FloatError.FR t < FloatError.FR b)%R ->
          G tc = true_part ROps (C05.ProofsFloat.RX x) (G n) (split_feature nd)
                           (Some ((FloatError.FR a + FloatError.FR b) / 2)%R) /\
          G (S tc) = false_part ROps (C05.ProofsFloat.RX x) (G n) (split_feature nd)
                                (Some ((FloatError.FR a + FloatError.FR b) / 2)%R))).
Proof. exact @C05.ProofsFloat.grown_tree_float_partition. Qed.

(* the hypotheses of C05_partition_float_consistent (and of the sweep / tree theorems) are satisfiable:
   the column 1, 2, 4, the consecutive values a = 2 < b = 4, threshold 3 < 4; the order 0,1,2 sorts it *)
Example C05_partition_float_instance :
  let x := [[FloatUtil.float_of_Z 1]; [FloatUtil.float_of_Z 2]; [FloatUtil.float_of_Z 4]] in
  let a := FloatUtil.float_of_Z 2 in let b := FloatUtil.float_of_Z 4 in
  Forall (Forall FloatError.ffin) x /\ FloatError.ffin a /\ FloatError.ffin b /\ FloatError.ffin (b + a)%float /\
  (FloatError.FR a < FloatError.FR b)%R /\
  (forall i, i < length x -> 0 < nth i [1; 1; 1] 0 ->
     (FloatError.FR (getx FOps x i 0) <= FloatError.FR a)%R \/ (FloatError.FR b <= FloatError.FR (getx FOps x i 0))%R) /\
  (FloatError.FR (odiv FOps (oadd FOps b a) (oofZ FOps 2)) < FloatError.FR b)%R /\
  sorted_order (C05.ProofsFloat.RX x) 0 [0; 1; 2].
Proof.
  assert (F : forall z, (0 <= z < 2 ^ 53)%Z -> FloatError.FR (FloatUtil.float_of_Z z) = IZR z)
    by exact C05.ProofsFloat.FR_ofZ.
  cbv zeta. split; [repeat constructor|]. do 3 (split; [vm_compute; reflexivity|]).
  split; [rewrite !F by lia; lra|]. split; [|split].
  - intros i Hi _. cbn [length] in Hi.
    destruct i as [|[|[|i]]]; try lia; unfold getx; cbn [nth]; rewrite !F by lia; [left|left|right]; lra.
  - change (odiv FOps (oadd FOps (FloatUtil.float_of_Z 4) (FloatUtil.float_of_Z 2)) (oofZ FOps 2)) with (FloatUtil.float_of_Z 3).
    rewrite !F by lia. lra.
  - split; [apply Permutation.Permutation_refl|].
    repeat constructor; rewrite !C05.ProofsFloat.X_RX; unfold getx; cbn [nth]; rewrite !F by lia; lra.
Qed.

(* a tree grown in binary64 with an internal node: hypothesis `grow_tree ... = Some` with a non-leaf root *)
Example C05_grown_tree_float_instance :
  let x := [[FloatUtil.float_of_Z 1]; [FloatUtil.float_of_Z 2]; [FloatUtil.float_of_Z 4]] in
  let y := [FloatUtil.float_of_Z 0; FloatUtil.float_of_Z 0; FloatUtil.float_of_Z 5] in
  exists nodes d,
    grow_tree FOps 0%float x 1 (reg_find FOps x y [[0; 1; 2]] 1 2 (fun _ => [0])) (FloatUtil.float_of_Z 1) [1; 1; 1] None
      = Some (nodes, d) /\
    leafb (nth 0 nodes (dnode 0%float)) = false /\ split_value (nth 0 nodes (dnode 0%float)) = Some (FloatUtil.float_of_Z 3).
Proof. cbv zeta. eexists. eexists. split; [vm_compute; reflexivity|]. split; vm_compute; reflexivity. Qed.

(* ------------------------------------------------------------------------------------------
   ... carried to DecisionTreeRegressor::fit / DecisionTreeClassifier::fit in binary64
   (C05/ProofsFloatFit.v).  The hypothesis on the orders is now the EXECUTABLE test `orders_okb x` of
   C05/Corr.v — the one the correspondence check evaluates in Coq on every whole-tree case: the index
   vectors the model's quick_argsort returns at FOps are permutations whose consecutive entries are
   ordered by the binary64 `<=`.  `float_tree_partition a0 x msl samples nodes` is, verbatim, the
   conclusion of C05_grown_tree_float_partition (C05_float_tree_partition_meaning).
   ------------------------------------------------------------------------------------------ *)
From SC Require C05.Corr C05.ProofsFloatFit.

Theorem C05_orders_okb_sorted : forall (x : list (list PrimFloat.float)) order,
  Forall (Forall FloatError.ffin) x -> C05.Corr.orders_okb x = true ->
  argsort_columns FOps x (length (hd [] x)) = Some order ->
  forall j, j < length (hd [] x) -> sorted_order (C05.ProofsFloat.RX x) j (nth j order []).
Proof. exact C05.ProofsFloatFit.orders_okb_sorted. Qed.

Theorem C05_float_tree_partition_meaning :
  forall A (a0 : A) (x : list (list PrimFloat.float)) msl samples (nodes : list (node PrimFloat.float A)),
  C05.ProofsFloatFit.float_tree_partition a0 x msl samples nodes <->
  exists G D, tree_consistent FOps a0 x msl (fun _ _ => True) samples nodes G D /\
    forall n, n < length nodes -> leafb (nth n nodes (dnode a0)) = false ->
      let nd := nth n nodes (dnode a0) in
      exists t i0 i tc,
        split_value nd = Some t /\ true_child nd = Some tc /\ false_child nd = Some (S tc) /\
        G tc = true_part FOps x (G n) (split_feature nd) (Some t) /\
        G (S tc) = false_part FOps x (G n) (split_feature nd) (Some t) /\
        C05.ProofsFloat.mid_of_rows x (G n) (split_feature nd) t i0 i /\
        let a := getx FOps x i0 (split_feature nd) in
        let b := getx FOps x i (split_feature nd) in
        (FloatError.ffin (b + a)%float ->
         (FloatError.FR a <= FloatError.FR t <= FloatError.FR b)%R /\
         ((exists c : PrimFloat.float, (FloatError.FR a < FloatError.FR c < FloatError.FR b)%R) ->
          (FloatError.FR a < FloatError.FR t < FloatError.FR b)%R) /\
         ((FloatError.FR t < FloatError.FR b)%R ->
          G tc = true_part ROps (C05.ProofsFloat.RX x) (G n) (split_feature nd)
                           (Some ((FloatError.FR a + FloatError.FR b) / 2)%R) /\
          G (S tc) = false_part ROps (C05.ProofsFloat.RX x) (G n) (split_feature nd)
                                (Some ((FloatError.FR a + FloatError.FR b) / 2)%R))).
Proof. intros. reflexivity. Qed.

Theorem C05_fit_regressor_float_partition :
  forall (x : list (list PrimFloat.float)) (y : list PrimFloat.float) md msl mss nodes d,
  Forall (Forall FloatError.ffin) x -> C05.Corr.orders_okb x = true ->
  fit_regressor FOps x y md msl mss = Some (nodes, d) ->
  C05.ProofsFloatFit.float_tree_partition 0%float x msl (repeat 1 (length x)) nodes.
Proof. exact C05.ProofsFloatFit.fit_regressor_float_partition. Qed.

Theorem C05_fit_classifier_float_partition :
  forall lg2 crit (x : list (list PrimFloat.float)) (y : list PrimFloat.float) md msl mss classes nodes d,
  Forall (Forall FloatError.ffin) x -> C05.Corr.orders_okb x = true ->
  fit_classifier FOps lg2 crit x y md msl mss = Some (classes, nodes, d) ->
  C05.ProofsFloatFit.float_tree_partition 0 x msl (repeat 1 (length x)) nodes.
Proof. exact C05.ProofsFloatFit.fit_classifier_float_partition. Qed.

(* the hypotheses are satisfiable: a fit in binary64 on finite data whose orders pass the test, with an
   internal node (threshold 0x1.8p+1 = 3 between the feature values 2 and 4) *)
Example C05_fit_float_partition_instance :
  let x := [[1; 7]; [4; 5]; [2; 6]; [8; 0.5]]%float in
  let y := [0; 5; 0; 6]%float in
  Forall (Forall FloatError.ffin) x /\ C05.Corr.orders_okb x = true /\
  exists nodes d, fit_regressor FOps x y None 1 2 = Some (nodes, d) /\
                  leafb (nth 0 nodes (dnode 0%float)) = false /\
                  split_value (nth 0 nodes (dnode 0%float)) = Some 0x1.8p+1%float /\
  exists cl cn cd, fit_classifier FOps (fun v => v) Gini x y None 1 2 = Some (cl, cn, cd) /\
                   leafb (nth 0 cn (dnode 0)) = false.
Proof.
  cbv zeta. split; [repeat constructor|]. split; [vm_compute; reflexivity|].
  eexists. eexists. split; [vm_compute; reflexivity|]. split; [vm_compute; reflexivity|].
  split; [vm_compute; reflexivity|].
  eexists. eexists. eexists. split; vm_compute; reflexivity.
Qed.

(* ------------------------------------------------------------------------------------------
   Rounding bounds for the running sums and means of the regression tree in binary64
   (C05/ProofsFloatSum.v).  Counts are natural numbers in the model, hence exact; they enter the
   arithmetic through `ofn`, exact below 2^53.  wy_term y s i = ofn (s_i) * y_i in binary64,
   wy_exact y s i = s_i * FR y_i, wsum s rows = sum of the s_i, counted s pre = the rows of pre with
   s_i > 0, FloatError.fsum = the left-to-right binary64 sum from 0.  u64 = 2^-53, eta64 = 2^-1075,
   Eu m = (1+u64)^m - 1.  The only no-overflow hypothesis is that the computed mean is finite.
   Not bounded: the false-child mean (it subtracts from the parent's ROUNDED output times n), the gains.
   ------------------------------------------------------------------------------------------ *)
From SC Require C05.ProofsFloatSum.

Theorem C05_count_conversion_exact : forall n, (Z.of_nat n < 2 ^ 53)%Z ->
  FloatError.ffin (ofn FOps n) /\ FloatError.FR (ofn FOps n) = INR n.
Proof. exact C05.ProofsFloatSum.ofn_exact. Qed.

(* a weighted sum of m rounded products, accumulated left to right, divided by the exact count *)
Theorem C05_weighted_mean_float_error : forall (y : list PrimFloat.float) (s : list nat) (rows : list nat),
  let W := C05.ProofsFloatSum.wsum s rows in
  (forall i, In i rows -> (Z.of_nat (nth i s 0%nat) < 2 ^ 53)%Z) -> (Z.of_nat W < 2 ^ 53)%Z -> 0 < W ->
  let q := odiv FOps (FloatError.fsum (map (C05.ProofsFloatSum.wy_term y s) rows)) (ofn FOps W) in
  FloatError.ffin q ->
  let S := FloatError.Rsuml (map (C05.ProofsFloatSum.wy_exact y s) rows) in
  let Sabs := FloatError.Rsumabs (map (C05.ProofsFloatSum.wy_exact y s) rows) in
  let m := length rows in
  let E := (FloatError.Eu m * (Sabs + INR m * FloatError.eta64) + INR m * FloatError.eta64)%R in
  FloatError.ffin (FloatError.fsum (map (C05.ProofsFloatSum.wy_term y s) rows)) /\
  (Rabs (FloatError.FR (FloatError.fsum (map (C05.ProofsFloatSum.wy_term y s) rows)) - S) <= E)%R /\
  (Rabs (FloatError.FR q - S / INR W) <= (FloatError.u64 * (Sabs + E) + E) / INR W + FloatError.eta64)%R.
Proof. exact C05.ProofsFloatSum.wmean_float_error. Qed.

(* the state of the regression sweep after any prefix of the visiting order *)
Theorem C05_regression_sweep_state : forall x (y : list PrimFloat.float) msl s n sum pg j pre st,
  let st' := fold_left (reg_step FOps x y msl s n sum pg j) pre st in
  rs_sum st' = fold_left PrimFloat.add (map (C05.ProofsFloatSum.wy_term y s) (C05.ProofsFloatSum.counted s pre)) (rs_sum st) /\
  rs_cnt st' = rs_cnt st + C05.ProofsFloatSum.wsum s (C05.ProofsFloatSum.counted s pre).
Proof. exact C05.ProofsFloatSum.reg_sweep_state. Qed.

(* the outputs a freshly created candidate carries are the two quotients of that state *)
Theorem C05_regression_candidate_outputs : forall x (y : list PrimFloat.float) msl s n sum pg j st i c,
  rs_best (reg_step FOps x y msl s n sum pg j st i) = Some c -> rs_best st <> Some c ->
  c_tco c = odiv FOps (rs_sum st) (ofn FOps (rs_cnt st)) /\
  c_fco c = odiv FOps (osub FOps sum (rs_sum st)) (ofn FOps (n - rs_cnt st)).
Proof. exact C05.ProofsFloatSum.reg_step_outputs. Qed.

(* hence the true-child mean *)
Theorem C05_regression_true_mean_float_error : forall x (y : list PrimFloat.float) msl s n sum pg j best pre,
  let st := fold_left (reg_step FOps x y msl s n sum pg j) pre (mkRS 0%float 0 None best) in
  let rows := C05.ProofsFloatSum.counted s pre in
  let W := rs_cnt st in
  let tm := odiv FOps (rs_sum st) (ofn FOps W) in
  (forall i, In i rows -> (Z.of_nat (nth i s 0%nat) < 2 ^ 53)%Z) -> (Z.of_nat W < 2 ^ 53)%Z -> 0 < W ->
  FloatError.ffin tm ->
  let S := FloatError.Rsuml (map (C05.ProofsFloatSum.wy_exact y s) rows) in
  let Sabs := FloatError.Rsumabs (map (C05.ProofsFloatSum.wy_exact y s) rows) in
  let m := length rows in
  let E := (FloatError.Eu m * (Sabs + INR m * FloatError.eta64) + INR m * FloatError.eta64)%R in
  W = C05.ProofsFloatSum.wsum s rows /\
  (Rabs (FloatError.FR (rs_sum st) - S) <= E)%R /\
  (Rabs (FloatError.FR tm - S / INR W) <= (FloatError.u64 * (Sabs + E) + E) / INR W + FloatError.eta64)%R.
Proof. exact C05.ProofsFloatSum.reg_true_mean_float_error. Qed.

(* and the root output of fit_regressor_with_order / fit_weak_learner *)
Theorem C05_root_mean_float_error : forall (y : list PrimFloat.float) (s : list nat),
  let rows := seq 0 (Nat.min (length s) (length y)) in
  let W := fst (root_stats FOps y s) in
  let root := odiv FOps (snd (root_stats FOps y s)) (ofn FOps W) in
  (forall i, In i rows -> (Z.of_nat (nth i s 0%nat) < 2 ^ 53)%Z) -> (Z.of_nat W < 2 ^ 53)%Z -> 0 < W ->
  FloatError.ffin root ->
  let S := FloatError.Rsuml (map (C05.ProofsFloatSum.wy_exact y s) rows) in
  let Sabs := FloatError.Rsumabs (map (C05.ProofsFloatSum.wy_exact y s) rows) in
  let m := length rows in
  let E := (FloatError.Eu m * (Sabs + INR m * FloatError.eta64) + INR m * FloatError.eta64)%R in
  W = C05.ProofsFloatSum.wsum s rows /\
  (Rabs (FloatError.FR root - S / INR W) <= (FloatError.u64 * (Sabs + E) + E) / INR W + FloatError.eta64)%R.
Proof. exact C05.ProofsFloatSum.root_mean_float_error. Qed.

(* the hypotheses are satisfiable: inexact targets 0.1, 0.2, 0.3 with weights 1, 2, 1 *)
Example C05_root_mean_float_instance :
  let y := [0x1.999999999999ap-4; 0x1.999999999999ap-3; 0x1.3333333333333p-2]%float in
  let s := [1; 2; 1] in
  (forall i, In i (seq 0 (Nat.min (length s) (length y))) -> (Z.of_nat (nth i s 0%nat) < 2 ^ 53)%Z) /\
  fst (root_stats FOps y s) = 4 /\
  FloatError.ffin (odiv FOps (snd (root_stats FOps y s)) (ofn FOps (fst (root_stats FOps y s)))).
Proof.
  cbv zeta. split; [|split; vm_compute; reflexivity].
  intros i Hi. cbn in Hi. destruct Hi as [<-|[<-|[<-|[]]]]; cbn; lia.
Qed.
