(* C05 — decision trees.  Property theorems only (placeholder while the proofs are being built). *)
From Coq Require Import List Arith Bool.
From SC Require Import C05.Model.
Import ListNotations.
