(* C13 — DBSCAN labels satisfy the definition of density-based clusters.
   Property theorems only; statements are about the executable model SC.C13.Model (a transliteration
   of src/cluster/dbscan.rs `fit` / `predict`, parameterised by the neighbourhood function `nb` that
   stands for the search backend + metric + eps), which the correspondence check ties to the code.
   Vocabulary (SC.C13.Spec): `core nb minpts i` = at least minpts indices in `nb i`;
   `core_conn nb minpts i j` = chain of core points, each listed in the previous one's neighbourhood;
   `nb_in_range`, `nb_symmetric`, `nb_same_sets` = the hypotheses on the backend's answers. *)
From Coq Require Import List Arith ZArith Bool Lia.
From SC Require Import C13.Model C13.Spec C13.ProofsBase C13.ProofsMain C13.ProofsBackend C13.ProofsPredict.
From SC Require Import C13.Corr C13.ProofsCorr C13.ProofsLinear.
Import ListNotations.

(* Functional correctness of `fit` for every neighbourhood function with indices in range that is
   symmetric as sets (any order, any n, any min_samples):
   labels are -1 or 0..c-1; core points are clustered; two core points share a label exactly when
   they are density-connected; a non-core point with a core point in its neighbourhood carries the
   label of one such core point (the smallest such cluster id); all other points are noise (-1);
   every id 0..c-1 is used (by a core point), i.e. no gaps and num_classes = c. *)
Theorem C13_dbscan_correct : forall nb minpts n y c,
  nb_in_range nb n -> nb_symmetric nb n ->
  dbscan nb minpts n = Some (y, c) ->
  length y = n /\ (0 <= c)%Z /\
  (forall i, i < n -> get y i = (-1)%Z \/ (0 <= get y i < c)%Z) /\
  (forall i, i < n -> core nb minpts i -> (0 <= get y i < c)%Z) /\
  (forall i j, i < n -> j < n -> core nb minpts i -> core nb minpts j ->
     (get y i = get y j <-> core_conn nb minpts i j)) /\
  (forall i, i < n -> ~ core nb minpts i -> (exists q, In q (nb i) /\ core nb minpts q) ->
     exists q, In q (nb i) /\ core nb minpts q /\ get y i = get y q) /\
  (forall i, i < n -> ~ core nb minpts i -> (forall q, In q (nb i) -> ~ core nb minpts q) ->
     get y i = (-1)%Z) /\
  (forall l, (0 <= l < c)%Z -> exists i, i < n /\ core nb minpts i /\ get y i = l) /\
  (forall i q, i < n -> In q (nb i) -> core nb minpts q -> (0 <= get y i <= get y q)%Z).
Proof. intros nb minpts n y c Hr Hs. exact (dbscan_correct nb minpts n Hr Hs y c). Qed.

(* The hypotheses hold for the linear-scan backend with every symmetric "distance <= eps" test
   (any metric): its answer for row i is the duplicate-free, increasing list of the j < n within eps. *)
Theorem C13_linear_scan_wellformed : forall within n,
  (forall i j, i < n -> j < n -> within i j = within j i) ->
  nb_in_range (linear_radius within n) n /\
  nb_symmetric (linear_radius within n) n /\
  (forall i, NoDup (linear_radius within n i)) /\
  (forall i j, In j (linear_radius within n i) <-> j < n /\ within i j = true).
Proof.
  intros within n Hs. destruct (linear_radius_wellformed within n Hs) as (A & B & C).
  split; [exact A|]. split; [exact B|]. split; [exact C|].
  intros i j. apply linear_radius_In.
Qed.

(* Termination by an explicit measure (stack length + total neighbour-list length of the points
   that can still be expanded): the model's `while` loop never runs out of the fuel `dbscan`
   supplies, any larger fuel gives the same result, and the fuel is at most 2 n^2 for
   duplicate-free lists.  Together with the parameter check: `fit` fails exactly when
   min_samples < 1. *)
Theorem C13_fit_terminates : forall nb minpts n,
  nb_in_range nb n ->
  (exists y c, dbscan nb minpts n = Some (y, c)) /\
  (forall fuel, dbscan_fuel nb n <= fuel ->
     outer nb minpts fuel (seq 0 n) 0%Z (repeat undefined n) = dbscan nb minpts n) /\
  ((forall i, i < n -> NoDup (nb i)) -> dbscan_fuel nb n <= 2 * (n * n)) /\
  (1 <= minpts -> fit nb minpts n = dbscan nb minpts n) /\
  (minpts < 1 -> fit nb minpts n = None).
Proof.
  intros nb minpts n Hr. split; [exact (dbscan_terminates nb minpts n Hr)|].
  split; [exact (dbscan_fuel_irrelevant nb minpts n Hr)|].
  split; [exact (dbscan_fuel_quadratic nb n Hr)|].
  unfold fit. split; intro H; destruct (Nat.ltb_spec minpts 1); auto; lia.
Qed.

(* Core-point labels, the number of clusters and the noise set do not depend on the search backend:
   two backends that return the same neighbour *sets* (each index once, in any order). *)
Theorem C13_core_labels_backend_independent : forall nb1 nb2 minpts n y1 c1 y2 c2,
  nb_in_range nb1 n -> nb_symmetric nb1 n -> nb_same_sets nb1 nb2 n ->
  dbscan nb1 minpts n = Some (y1, c1) -> dbscan nb2 minpts n = Some (y2, c2) ->
  c1 = c2 /\
  (forall i, i < n -> core nb1 minpts i -> get y1 i = get y2 i) /\
  (forall i, i < n -> (get y1 i = (-1)%Z <-> get y2 i = (-1)%Z)).
Proof.
  intros nb1 nb2 minpts n y1 c1 y2 c2 Hr Hs (Hset & Hn1 & Hn2).
  exact (backend_independent nb1 nb2 minpts n Hr Hs Hset Hn1 Hn2 y1 c1 y2 c2).
Qed.

(* Stronger than the property asks: border points get the smallest adjacent cluster id, so the
   whole labelling is a function of the neighbour sets. *)
Theorem C13_all_labels_backend_independent : forall nb1 nb2 minpts n y1 c1 y2 c2,
  nb_in_range nb1 n -> nb_symmetric nb1 n -> nb_same_sets nb1 nb2 n ->
  dbscan nb1 minpts n = Some (y1, c1) -> dbscan nb2 minpts n = Some (y2, c2) ->
  y1 = y2 /\ c1 = c2.
Proof.
  intros nb1 nb2 minpts n y1 c1 y2 c2 Hr Hs (Hset & Hn1 & Hn2).
  exact (backend_independent_all nb1 nb2 minpts n Hr Hs Hset Hn1 Hn2 y1 c1 y2 c2).
Qed.

(* predict (after the repair of D9): with nbq = the training indices within eps of the new row and
   all their labels below c, the answer is -1 or a cluster w < c that has at least one vote, at least
   as many votes as every cluster and as the unclustered neighbours, and strictly more than every
   smaller cluster id; it is -1 exactly when there is no neighbour or the unclustered neighbours
   strictly outnumber every cluster. *)
Theorem C13_predict_plurality : forall y c nbq,
  (forall idx, In idx nbq -> (get y idx < Z.of_nat c)%Z) ->
  let r := predict_one y c nbq in
  (r = (-1)%Z \/ exists w, r = Z.of_nat w /\ w < c /\
       0 < votes_for y nbq w /\
       (forall l, l < c -> votes_for y nbq l <= votes_for y nbq w) /\
       votes_noise y nbq <= votes_for y nbq w /\
       (forall l, l < w -> votes_for y nbq l < votes_for y nbq w)) /\
  (r = (-1)%Z <-> nbq = [] \/ (forall l, l < c -> votes_for y nbq l < votes_noise y nbq)).
Proof. exact predict_plurality. Qed.

(* What an agreeing correspondence case of group fit_linear / fit_cover means: the neighbour lists the
   implementation's search structure returned satisfy the hypotheses of C13_dbscan_correct (and are
   duplicate-free), min_samples >= 1, and the model maps them to exactly the labels and num_classes
   the implementation produced — so C13_dbscan_correct applies to the implementation's output of
   that run, relative to what its own search structure answered. *)
Theorem C13_corr_fit_sound : forall minpts nbs exp_y exp_c,
  corr_fit minpts nbs exp_y exp_c = true ->
  let nbs' := map to_nats nbs in
  let n := length nbs' in
  nb_in_range (nb_of nbs') n /\ nb_symmetric (nb_of nbs') n /\
  (forall i, i < n -> NoDup (nb_of nbs' i)) /\
  1 <= N.to_nat minpts /\
  dbscan (nb_of nbs') (N.to_nat minpts) n = Some (exp_y, exp_c).
Proof. exact corr_fit_sound. Qed.

(* ---------- the hypotheses are satisfiable on a non-trivial instance ----------
   1-D points 1,1,2,4,6,7,7,20 with eps = 2, min_samples = 4: core points 2 and 4 (two clusters),
   point 3 is a border point within eps of both clusters, point 7 is noise, points 0 and 1 are
   first marked as provisional noise and then relabelled. *)
Definition ex_nbs : list (list nat) :=
  [[0;1;2]; [0;1;2]; [0;1;2;3]; [2;3;4]; [3;4;5;6]; [4;5;6]; [4;5;6]; [7]].
Definition ex_nb (i : nat) : list nat := nth i ex_nbs [].
Definition ex_nb_rev (i : nat) : list nat := rev (ex_nb i).

(* the lists above are what the linear scan returns for those points *)
Definition ex_pts : list Z := [1; 1; 2; 4; 6; 7; 7; 20]%Z.
Definition ex_within (i j : nat) : bool := (Z.abs (nth i ex_pts 0 - nth j ex_pts 0) <=? 2)%Z.
Example C13_example_linear_scan : map (linear_radius ex_within 8) (seq 0 8) = ex_nbs.
Proof. vm_compute. reflexivity. Qed.

Example C13_example_hypotheses : nb_in_range ex_nb 8 /\ nb_symmetric ex_nb 8.
Proof.
  split; intros i j Hi Hin;
    do 8 (destruct i as [|i]; [cbn in Hin; intuition (subst; cbn; auto; lia)|]); lia.
Qed.

Example C13_example_run :
  dbscan ex_nb 4 8 = Some ([0; 0; 0; 0; 1; 1; 1; -1]%Z, 2%Z) /\
  core ex_nb 4 2 /\ core ex_nb 4 4 /\ ~ core ex_nb 4 3 /\ ~ core_conn ex_nb 4 2 4.
Proof.
  split; [vm_compute; reflexivity|]. unfold core. cbn. repeat split; try lia.
  assert (H : forall a b, core_conn ex_nb 4 a b -> a = 2 -> b = 2).
  { intros a b Hc. induction Hc as [|a j b Ha Hj Hin _ IH]; intro E; [exact E|].
    subst a. apply IH. unfold core in Hj. cbn in Hin. intuition (subst; cbn in Hj; lia). }
  intro Hc. specialize (H 2 4 Hc eq_refl). discriminate.
Qed.

Example C13_example_backends :
  nb_same_sets ex_nb ex_nb_rev 8 /\
  dbscan ex_nb_rev 4 8 = dbscan ex_nb 4 8.
Proof.
  split; [|vm_compute; reflexivity].
  split; [|split]; intros i; intros;
    do 8 (destruct i as [|i]; [unfold ex_nb_rev; try (rewrite <- in_rev; tauto);
                               cbn; repeat constructor; cbn; intuition lia|]); lia.
Qed.

Example C13_example_corr :
  corr_fit 4 [[0;1;2]; [0;1;2]; [0;1;2;3]; [2;3;4]; [3;4;5;6]; [4;5;6]; [4;5;6]; [7]]%N
           [0; 0; 0; 0; 1; 1; 1; -1]%Z 2%Z = true.
Proof. vm_compute. reflexivity. Qed.

Example C13_example_predict :
  let y := [0; 0; 0; 0; 1; 1; 1; -1]%Z in
  predict_one y 2 [3; 4; 5] = 1%Z /\ predict_one y 2 [3; 4] = 0%Z /\
  predict_one y 2 [7] = (-1)%Z /\ predict_one y 2 [] = (-1)%Z /\ predict_one y 2 [7; 7; 3] = (-1)%Z.
Proof. vm_compute. repeat split. Qed.
