(* C13 — DBSCAN (placeholder while the proofs are being written) *)
From Coq Require Import List Arith ZArith Bool.
From SC Require Import C13.Model.
Import ListNotations.

Theorem C13_placeholder : dbscan (fun _ => [0]) 1 1 = Some ([0%Z], 1%Z).
Proof. reflexivity. Qed.
