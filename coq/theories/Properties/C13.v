(* C13 — DBSCAN labels satisfy the definition of density-based clusters.
   Property theorems only; statements are about the executable model SC.C13.Model (a transliteration
   of src/cluster/dbscan.rs `fit` / `predict`, parameterised by the neighbourhood function `nb` that
   stands for the search backend + metric + eps), which the correspondence check ties to the code.
   Vocabulary (SC.C13.Spec): `core nb minpts i` = at least minpts indices in `nb i`;
   `core_conn nb minpts i j` = chain of core points, each listed in the previous one's neighbourhood;
   `nb_in_range`, `nb_symmetric`, `nb_same_sets` = the hypotheses on the backend's answers. *)
From Coq Require Import List Arith ZArith Bool Lia.
From SC Require Import C13.Model C13.Spec C13.ProofsBase C13.ProofsMain C13.ProofsBackend C13.ProofsPredict.
From SC Require Import C13.Corr C13.ProofsCorr C13.ProofsLinear.
Import ListNotations.

(* Functional correctness of `fit` for every neighbourhood function with indices in range that is
   symmetric as sets (any order, any n, any min_samples):
   labels are -1 or 0..c-1; core points are clustered; two core points share a label exactly when
   they are density-connected; a non-core point with a core point in its neighbourhood carries the
   label of one such core point (the smallest such cluster id); all other points are noise (-1);
   every id 0..c-1 is used (by a core point), i.e. no gaps and num_classes = c. *)
Theorem C13_dbscan_correct : forall nb minpts n y c,
  nb_in_range nb n -> nb_symmetric nb n ->
  dbscan nb minpts n = Some (y, c) ->
  length y = n /\ (0 <= c)%Z /\
  (forall i, i < n -> get y i = (-1)%Z \/ (0 <= get y i < c)%Z) /\
  (forall i, i < n -> core nb minpts i -> (0 <= get y i < c)%Z) /\
  (forall i j, i < n -> j < n -> core nb minpts i -> core nb minpts j ->
     (get y i = get y j <-> core_conn nb minpts i j)) /\
  (forall i, i < n -> ~ core nb minpts i -> (exists q, In q (nb i) /\ core nb minpts q) ->
     exists q, In q (nb i) /\ core nb minpts q /\ get y i = get y q) /\
  (forall i, i < n -> ~ core nb minpts i -> (forall q, In q (nb i) -> ~ core nb minpts q) ->
     get y i = (-1)%Z) /\
  (forall l, (0 <= l < c)%Z -> exists i, i < n /\ core nb minpts i /\ get y i = l) /\
  (forall i q, i < n -> In q (nb i) -> core nb minpts q -> (0 <= get y i <= get y q)%Z).
Proof. intros nb minpts n y c Hr Hs. exact (dbscan_correct nb minpts n Hr Hs y c). Qed.

(* The hypotheses hold for the linear-scan backend with every symmetric "distance <= eps" test
   (any metric): its answer for row i is the duplicate-free, increasing list of the j < n within eps. *)
Theorem C13_linear_scan_wellformed : forall within n,
  (forall i j, i < n -> j < n -> within i j = within j i) ->
  nb_in_range (linear_radius within n) n /\
  nb_symmetric (linear_radius within n) n /\
  (forall i, NoDup (linear_radius within n i)) /\
  (forall i j, In j (linear_radius within n i) <-> j < n /\ within i j = true).
Proof.
  intros within n Hs. destruct (linear_radius_wellformed within n Hs) as (A & B & C).
  split; [exact A|]. split; [exact B|]. split; [exact C|].
  intros i j. apply linear_radius_In.
Qed.

(* Termination by an explicit measure (stack length + total neighbour-list length of the points
   that can still be expanded): the model's `while` loop never runs out of the fuel `dbscan`
   supplies, any larger fuel gives the same result, and the fuel is at most 2 n^2 for
   duplicate-free lists.  Together with the parameter check: `fit` fails exactly when
   min_samples < 1. *)
Theorem C13_fit_terminates : forall nb minpts n,
  nb_in_range nb n ->
  (exists y c, dbscan nb minpts n = Some (y, c)) /\
  (forall fuel, dbscan_fuel nb n <= fuel ->
     outer nb minpts fuel (seq 0 n) 0%Z (repeat undefined n) = dbscan nb minpts n) /\
  ((forall i, i < n -> NoDup (nb i)) -> dbscan_fuel nb n <= 2 * (n * n)) /\
  (1 <= minpts -> fit nb minpts n = dbscan nb minpts n) /\
  (minpts < 1 -> fit nb minpts n = None).
Proof.
  intros nb minpts n Hr. split; [exact (dbscan_terminates nb minpts n Hr)|].
  split; [exact (dbscan_fuel_irrelevant nb minpts n Hr)|].
  split; [exact (dbscan_fuel_quadratic nb n Hr)|].
  unfold fit. split; intro H; destruct (Nat.ltb_spec minpts 1); auto; lia.
Qed.

(* Core-point labels, the number of clusters and the noise set do not depend on the search backend:
   two backends that return the same neighbour *sets* (each index once, in any order). *)
Theorem C13_core_labels_backend_independent : forall nb1 nb2 minpts n y1 c1 y2 c2,
  nb_in_range nb1 n -> nb_symmetric nb1 n -> nb_same_sets nb1 nb2 n ->
  dbscan nb1 minpts n = Some (y1, c1) -> dbscan nb2 minpts n = Some (y2, c2) ->
  c1 = c2 /\
  (forall i, i < n -> core nb1 minpts i -> get y1 i = get y2 i) /\
  (forall i, i < n -> (get y1 i = (-1)%Z <-> get y2 i = (-1)%Z)).
Proof.
  intros nb1 nb2 minpts n y1 c1 y2 c2 Hr Hs (Hset & Hn1 & Hn2).
  exact (backend_independent nb1 nb2 minpts n Hr Hs Hset Hn1 Hn2 y1 c1 y2 c2).
Qed.

(* Stronger than the property asks: border points get the smallest adjacent cluster id, so the
   whole labelling is a function of the neighbour sets. *)
Theorem C13_all_labels_backend_independent : forall nb1 nb2 minpts n y1 c1 y2 c2,
  nb_in_range nb1 n -> nb_symmetric nb1 n -> nb_same_sets nb1 nb2 n ->
  dbscan nb1 minpts n = Some (y1, c1) -> dbscan nb2 minpts n = Some (y2, c2) ->
  y1 = y2 /\ c1 = c2.
Proof.
  intros nb1 nb2 minpts n y1 c1 y2 c2 Hr Hs (Hset & Hn1 & Hn2).
  exact (backend_independent_all nb1 nb2 minpts n Hr Hs Hset Hn1 Hn2 y1 c1 y2 c2).
Qed.

(* predict (after the repair of D9): with nbq = the training indices within eps of the new row and
   all their labels below c, the answer is -1 or a cluster w < c that has at least one vote, at least
   as many votes as every cluster and as the unclustered neighbours, and strictly more than every
   smaller cluster id; it is -1 exactly when there is no neighbour or the unclustered neighbours
   strictly outnumber every cluster. *)
Theorem C13_predict_plurality : forall y c nbq,
  (forall idx, In idx nbq -> (get y idx < Z.of_nat c)%Z) ->
  let r := predict_one y c nbq in
  (r = (-1)%Z \/ exists w, r = Z.of_nat w /\ w < c /\
       0 < votes_for y nbq w /\
       (forall l, l < c -> votes_for y nbq l <= votes_for y nbq w) /\
       votes_noise y nbq <= votes_for y nbq w /\
       (forall l, l < w -> votes_for y nbq l < votes_for y nbq w)) /\
  (r = (-1)%Z <-> nbq = [] \/ (forall l, l < c -> votes_for y nbq l < votes_noise y nbq)).
Proof. exact predict_plurality. Qed.

(* What an agreeing correspondence case of group fit_linear / fit_cover means: the neighbour lists the
   implementation's search structure returned satisfy the hypotheses of C13_dbscan_correct (and are
   duplicate-free), min_samples >= 1, and the model maps them to exactly the labels and num_classes
   the implementation produced — so C13_dbscan_correct applies to the implementation's output of
   that run, relative to what its own search structure answered. *)
Theorem C13_corr_fit_sound : forall minpts nbs exp_y exp_c,
  corr_fit minpts nbs exp_y exp_c = true ->
  let nbs' := map to_nats nbs in
  let n := length nbs' in
  nb_in_range (nb_of nbs') n /\ nb_symmetric (nb_of nbs') n /\
  (forall i, i < n -> NoDup (nb_of nbs' i)) /\
  1 <= N.to_nat minpts /\
  dbscan (nb_of nbs') (N.to_nat minpts) n = Some (exp_y, exp_c).
Proof. exact corr_fit_sound. Qed.

(* ---------- the hypotheses are satisfiable on a non-trivial instance ----------
   1-D points 1,1,2,4,6,7,7,20 with eps = 2, min_samples = 4: core points 2 and 4 (two clusters),
   point 3 is a border point within eps of both clusters, point 7 is noise, points 0 and 1 are
   first marked as provisional noise and then relabelled. *)
Definition ex_nbs : list (list nat) :=
  [[0;1;2]; [0;1;2]; [0;1;2;3]; [2;3;4]; [3;4;5;6]; [4;5;6]; [4;5;6]; [7]].
Definition ex_nb (i : nat) : list nat := nth i ex_nbs [].
Definition ex_nb_rev (i : nat) : list nat := rev (ex_nb i).

(* the lists above are what the linear scan returns for those points *)
Definition ex_pts : list Z := [1; 1; 2; 4; 6; 7; 7; 20]%Z.
Definition ex_within (i j : nat) : bool := (Z.abs (nth i ex_pts 0 - nth j ex_pts 0) <=? 2)%Z.
Example C13_example_linear_scan : map (linear_radius ex_within 8) (seq 0 8) = ex_nbs.
Proof. vm_compute. reflexivity. Qed.

Example C13_example_hypotheses : nb_in_range ex_nb 8 /\ nb_symmetric ex_nb 8.
Proof.
  split; intros i j Hi Hin;
    do 8 (destruct i as [|i]; [cbn in Hin; intuition (subst; cbn; auto; lia)|]); lia.
Qed.

Example C13_example_run :
  dbscan ex_nb 4 8 = Some ([0; 0; 0; 0; 1; 1; 1; -1]%Z, 2%Z) /\
  core ex_nb 4 2 /\ core ex_nb 4 4 /\ ~ core ex_nb 4 3 /\ ~ core_conn ex_nb 4 2 4.
Proof.
  split; [vm_compute; reflexivity|]. unfold core. cbn. repeat split; try lia.
  assert (H : forall a b, core_conn ex_nb 4 a b -> a = 2 -> b = 2).
  { intros a b Hc. induction Hc as [|a j b Ha Hj Hin _ IH]; intro E; [exact E|].
    subst a. apply IH. unfold core in Hj. cbn in Hin. intuition (subst; cbn in Hj; lia). }
  intro Hc. specialize (H 2 4 Hc eq_refl). discriminate.
Qed.

Example C13_example_backends :
  nb_same_sets ex_nb ex_nb_rev 8 /\
  dbscan ex_nb_rev 4 8 = dbscan ex_nb 4 8.
Proof.
  split; [|vm_compute; reflexivity].
  split; [|split]; intros i; intros;
    do 8 (destruct i as [|i]; [unfold ex_nb_rev; try (rewrite <- in_rev; tauto);
                               cbn; repeat constructor; cbn; intuition lia|]); lia.
Qed.

Example C13_example_corr :
  corr_fit 4 [[0;1;2]; [0;1;2]; [0;1;2;3]; [2;3;4]; [3;4;5;6]; [4;5;6]; [4;5;6]; [7]]%N
           [0; 0; 0; 0; 1; 1; 1; -1]%Z 2%Z = true.
Proof. vm_compute. reflexivity. Qed.

Example C13_example_predict :
  let y := [0; 0; 0; 0; 1; 1; 1; -1]%Z in
  predict_one y 2 [3; 4; 5] = 1%Z /\ predict_one y 2 [3; 4] = 0%Z /\
  predict_one y 2 [7] = (-1)%Z /\ predict_one y 2 [] = (-1)%Z /\ predict_one y 2 [7; 7; 3] = (-1)%Z.
Proof. vm_compute. repeat split. Qed.

(* ---------------- rounding: binary64 DBSCAN makes the same decisions as exact arithmetic ----------------
   Everything above is about an abstract neighbourhood function.  The theorems below are an END-TO-END
   floating-point statement for the whole algorithm with the Euclidean metric and the linear-scan backend
   (SC.C13.ProofsFloat; rounding bounds from SC.Base.FloatError and SC.C17.ProofsFloat through Flocq's
   primitive-float bridge; extra assumptions of the rounding theorems: the FloatAxioms / Uint63
   specification axioms that give Coq's primitive floats their meaning, and the axioms of the Reals).
   `euclid O a b` = sqrt of the running sum of (a_k - b_k)^2, written once for every instance `Ops T`;
   `fit_euclid O data eps minpts` = `fit` on the linear scan with the test `euclid O row_i row_j <= eps`;
   at O = FOps (binary64) this is the computation the correspondence group fit_euclid executes against
   the Rust code; at O = ROps it is exact real arithmetic.  FR x = the real value of a float,
   u64 = 2^-53. *)
From Coq Require Import Reals Floats.
From SC Require Import Base.FloatUtil Base.Num Base.FloatError C13.ProofsFloat C13.ProofsFloatEx.
From SC Require C17.Model.
From SC Require C17.ProofsFloat.

(* STRUCTURE (axiom-free): fit reads the neighbourhood function only at the indices below n ... *)
Theorem C13_fit_neighbour_lists_ext : forall (nb1 nb2 : nat -> list nat) (minpts n : nat),
  (forall i, i < n -> nb1 i = nb2 i) ->
  (forall i j, i < n -> In j (nb1 i) -> j < n) ->
  fit nb1 minpts n = fit nb2 minpts n.
Proof. exact fit_ext. Qed.

(* ... so DBSCAN depends on the data ONLY through the predicate `dist i j <= eps`: two instantiations
   (any two scalar types with their comparison, any two distance functions, any two eps) whose tests
   agree on all pairs i, j < n return the same labels and the same number of clusters *)
Theorem C13_fit_depends_only_on_neighbourhoods :
  forall (T1 T2 : Type) (O1 : Ops T1) (O2 : Ops T2)
         (d1 : nat -> nat -> T1) (d2 : nat -> nat -> T2) (e1 : T1) (e2 : T2) (minpts n : nat),
  (forall i j, i < n -> j < n -> oleb O1 (d1 i j) e1 = oleb O2 (d2 i j) e2) ->
  fit (linear_radius (fun i j => oleb O1 (d1 i j) e1) n) minpts n =
  fit (linear_radius (fun i j => oleb O2 (d2 i j) e2) n) minpts n.
Proof. exact @fit_depends_only_on_neighbourhoods. Qed.

(* the model's Euclidean distance is, for every instance, sqrt of the same left fold as C17's
   Euclidian::squared_distance model, and at binary64 it is the term the correspondence executes *)
Theorem C13_euclid_same_fold : forall (T : Type) (O : Ops T) (a b : list T),
  euclid O a b = osqrt O (C17.Model.sq_dist_loop O a b).
Proof. exact @euclid_same_fold. Qed.

(* what an agreeing correspondence case of group fit_euclid means: the binary64 instance of fit_euclid
   on the literal data returns exactly the labels and num_classes of the implementation *)
Theorem C13_corr_fit_euclid_sound : forall minpts data eps exp_y exp_c,
  corr_fit_euclid minpts data eps exp_y exp_c = true ->
  fit_euclid FOps data eps (N.to_nat minpts) = Some (exp_y, exp_c).
Proof. exact corr_fit_euclid_sound. Qed.

(* one computed distance: p + 3 roundings, relative to the exact distance *)
Theorem C13_euclid_float_error : forall x y : list PrimFloat.float,
  length x = length y -> PrimFloat.is_finite (euclid FOps x y) = true ->
  C17.ProofsFloat.diff_normal_b x y = true ->
  (0 <= euclid ROps (map FR x) (map FR y))%R /\
  (Rabs (FR (euclid FOps x y) - euclid ROps (map FR x) (map FR y)) <=
   ((1 + u64) ^ (length x + 3) - 1) * euclid ROps (map FR x) (map FR y))%R.
Proof. exact euclid_float_error. Qed.

(* DBSCAN::fit, binary64 against exact arithmetic: float rows of equal length p, a finite float eps,
   every computed pairwise distance finite (nothing overflowed), no underflow in the squares (decidable
   check diff_normal_b), and NO EXACT PAIRWISE DISTANCE WITHIN THE PROVED ROUNDING ERROR OF eps:
   ((1+u64)^(p+3) - 1) * D_ij < |D_ij - FR eps|.  Then the binary64 run returns exactly the labels and
   the number of clusters that exact real arithmetic returns on the real values of the same inputs *)
Theorem C13_fit_float_robust :
  forall (data : list (list PrimFloat.float)) (eps : PrimFloat.float) (minpts p : nat),
  let n := length data in
  (forall i, i < n -> length (nth i data []) = p) ->
  PrimFloat.is_finite eps = true ->
  (forall i j, i < n -> j < n ->
     PrimFloat.is_finite (euclid FOps (nth i data []) (nth j data [])) = true /\
     C17.ProofsFloat.diff_normal_b (nth i data []) (nth j data []) = true) ->
  (forall i j, i < n -> j < n ->
     let D := euclid ROps (map FR (nth i data [])) (map FR (nth j data [])) in
     (((1 + u64) ^ (p + 3) - 1) * D < Rabs (D - FR eps))%R) ->
  fit_euclid FOps data eps minpts = fit_euclid ROps (map (map FR) data) (FR eps) minpts.
Proof. exact fit_float_robust. Qed.

(* consequently the labels the binary64 computation returns satisfy the definition of density-based
   clusters for the EXACT neighbourhoods {j | D_ij <= FR eps}: the run equals `fit` on them, and they
   satisfy the hypotheses of C13_dbscan_correct *)
Theorem C13_fit_float_exact_neighbourhoods :
  forall (data : list (list PrimFloat.float)) (eps : PrimFloat.float) (minpts p : nat),
  let n := length data in
  let D := fun i j => euclid ROps (map FR (nth i data [])) (map FR (nth j data [])) in
  let nbR := linear_radius (fun i j => Rleb (D i j) (FR eps)) n in
  (forall i, i < n -> length (nth i data []) = p) ->
  PrimFloat.is_finite eps = true ->
  (forall i j, i < n -> j < n ->
     PrimFloat.is_finite (euclid FOps (nth i data []) (nth j data [])) = true /\
     C17.ProofsFloat.diff_normal_b (nth i data []) (nth j data []) = true) ->
  (forall i j, i < n -> j < n -> (((1 + u64) ^ (p + 3) - 1) * D i j < Rabs (D i j - FR eps))%R) ->
  fit_euclid FOps data eps minpts = fit nbR minpts n /\
  nb_in_range nbR n /\ nb_symmetric nbR n /\
  (forall i j, In j (nbR i) <-> j < n /\ (D i j <= FR eps)%R).
Proof. exact fit_float_exact_neighbourhoods. Qed.

(* DBSCAN::predict, one query row q against the training rows: under the same margin for the pairs
   (q, row_j) the binary64 linear scan returns the exact neighbour list, hence the same label *)
Theorem C13_predict_float_robust :
  forall (y : list Z) (c : nat) (data : list (list PrimFloat.float)) (q : list PrimFloat.float)
         (eps : PrimFloat.float),
  let n := length data in
  let p := length q in
  PrimFloat.is_finite eps = true ->
  (forall j, j < n -> length (nth j data []) = p /\
     PrimFloat.is_finite (euclid FOps q (nth j data [])) = true /\
     C17.ProofsFloat.diff_normal_b q (nth j data []) = true) ->
  (forall j, j < n ->
     let D := euclid ROps (map FR q) (map FR (nth j data [])) in
     (((1 + u64) ^ (p + 3) - 1) * D < Rabs (D - FR eps))%R) ->
  radius_query FOps data q eps = radius_query ROps (map (map FR) data) (map FR q) (FR eps) /\
  predict_euclid FOps y c data q eps = predict_euclid ROps y c (map (map FR) data) (map FR q) (FR eps).
Proof. exact predict_float_robust. Qed.

(* fit followed by predict on a matrix of query rows (every query of length p, margins for the training
   pairs and for every (query, training row) pair): the binary64 run returns the same labels, the same
   num_classes and the same predicted labels as exact arithmetic *)
Theorem C13_fit_predict_float_robust :
  forall (data queries : list (list PrimFloat.float)) (eps : PrimFloat.float) (minpts p : nat),
  let n := length data in
  (forall i, i < n -> length (nth i data []) = p) ->
  PrimFloat.is_finite eps = true ->
  (forall i j, i < n -> j < n ->
     PrimFloat.is_finite (euclid FOps (nth i data []) (nth j data [])) = true /\
     C17.ProofsFloat.diff_normal_b (nth i data []) (nth j data []) = true) ->
  (forall i j, i < n -> j < n ->
     let D := euclid ROps (map FR (nth i data [])) (map FR (nth j data [])) in
     (((1 + u64) ^ (p + 3) - 1) * D < Rabs (D - FR eps))%R) ->
  (forall q, In q queries -> length q = p /\
     forall j, j < n ->
       PrimFloat.is_finite (euclid FOps q (nth j data [])) = true /\
       C17.ProofsFloat.diff_normal_b q (nth j data []) = true /\
       let D := euclid ROps (map FR q) (map FR (nth j data [])) in
       (((1 + u64) ^ (p + 3) - 1) * D < Rabs (D - FR eps))%R) ->
  fit_predict_euclid FOps data eps minpts queries =
  fit_predict_euclid ROps (map (map FR) data) (FR eps) minpts (map (map FR) queries).
Proof. exact fit_predict_float_robust. Qed.

(* the hypotheses are satisfiable: seven 2-D points (0.1,0.2) (0.3,0.1) (0.2,0.4) (5.3,4.1) (5.1,4.4)
   (5.5,3.9) (-3.7,6.9) (nearest binary64 numbers: every operation rounds), eps = 0.5, min_samples = 3;
   two clusters, points 4 and 5 are border points (their distance 0.64 exceeds eps), point 6 is noise *)
Example C13_fit_float_robust_instance :
  let data := [[0x1.999999999999ap-4; 0x1.999999999999ap-3]; [0x1.3333333333333p-2; 0x1.999999999999ap-4];
               [0x1.999999999999ap-3; 0x1.999999999999ap-2]; [0x1.5333333333333p+2; 0x1.0666666666666p+2];
               [0x1.4666666666666p+2; 0x1.199999999999ap+2]; [0x1.6p+2; 0x1.f333333333333p+1];
               [-0x1.d99999999999ap+1; 0x1.b99999999999ap+2]]%float in
  let eps := 0x1p-1%float in
  let n := length data in
  (forall i, i < n -> length (nth i data []) = 2) /\
  PrimFloat.is_finite eps = true /\
  (forall i j, i < n -> j < n ->
     PrimFloat.is_finite (euclid FOps (nth i data []) (nth j data [])) = true /\
     C17.ProofsFloat.diff_normal_b (nth i data []) (nth j data []) = true) /\
  (forall i j, i < n -> j < n ->
     let D := euclid ROps (map FR (nth i data [])) (map FR (nth j data [])) in
     (((1 + u64) ^ (2 + 3) - 1) * D < Rabs (D - FR eps))%R) /\
  fit_euclid FOps data eps 3 = Some ([0; 0; 0; 1; 1; 1; -1]%Z, 2%Z) /\
  fit_euclid ROps (map (map FR) data) (FR eps) 3 = Some ([0; 0; 0; 1; 1; 1; -1]%Z, 2%Z).
Proof. exact ex_fit_robust. Qed.

(* predict on the same data: query (5.2, 4.2), neighbours 3, 4, 5, label 1 *)
Example C13_predict_float_robust_instance :
  let data := [[0x1.999999999999ap-4; 0x1.999999999999ap-3]; [0x1.3333333333333p-2; 0x1.999999999999ap-4];
               [0x1.999999999999ap-3; 0x1.999999999999ap-2]; [0x1.5333333333333p+2; 0x1.0666666666666p+2];
               [0x1.4666666666666p+2; 0x1.199999999999ap+2]; [0x1.6p+2; 0x1.f333333333333p+1];
               [-0x1.d99999999999ap+1; 0x1.b99999999999ap+2]]%float in
  let eps := 0x1p-1%float in
  let q := [0x1.4cccccccccccdp+2; 0x1.0cccccccccccdp+2]%float in
  let y := [0; 0; 0; 1; 1; 1; -1]%Z in
  let n := length data in
  let p := length q in
  PrimFloat.is_finite eps = true /\
  (forall j, j < n -> length (nth j data []) = p /\
     PrimFloat.is_finite (euclid FOps q (nth j data [])) = true /\
     C17.ProofsFloat.diff_normal_b q (nth j data []) = true) /\
  (forall j, j < n ->
     let D := euclid ROps (map FR q) (map FR (nth j data [])) in
     (((1 + u64) ^ (p + 3) - 1) * D < Rabs (D - FR eps))%R) /\
  radius_query FOps data q eps = [3; 4; 5] /\
  predict_euclid FOps y 2 data q eps = 1%Z /\
  predict_euclid ROps y 2 (map (map FR) data) (map FR q) (FR eps) = 1%Z.
Proof. exact ex_predict_robust. Qed.

(* THE MARGIN IS NEEDED.  Points (0, 0) and (a, 1) with a = 2^26 + 1, eps = a, min_samples = 2: exactly
   representable integers, every computed distance finite, no underflow.  The exact distance
   sqrt(a^2 + 1) exceeds eps (by less than the rounding bound); the squared distance a^2 + 1 is computed
   exactly, but its square root rounds to a = eps, so the binary64 test `d <= eps` succeeds: binary64
   DBSCAN returns ONE CLUSTER {0, 1}, exact-arithmetic DBSCAN returns TWO NOISE POINTS *)
Theorem C13_fit_float_margin_needed_refuted :
  let data := [[0; 0]; [67108865; 1]]%float in
  let eps := 67108865%float in
  let n := length data in
  let D := fun i j => euclid ROps (map FR (nth i data [])) (map FR (nth j data [])) in
  (forall i, i < n -> length (nth i data []) = 2) /\
  PrimFloat.is_finite eps = true /\
  (forall i j, i < n -> j < n ->
     PrimFloat.is_finite (euclid FOps (nth i data []) (nth j data [])) = true /\
     C17.ProofsFloat.diff_normal_b (nth i data []) (nth j data []) = true) /\
  D 0 1 = R_sqrt.sqrt (67108865 * 67108865 + 1)%R /\ FR eps = 67108865%R /\
  (FR eps < D 0%nat 1%nat)%R /\
  (Rabs (D 0%nat 1%nat - FR eps) < ((1 + u64) ^ (2 + 3) - 1) * D 0%nat 1%nat)%R /\
  euclid FOps (nth 0 data []) (nth 1 data []) = eps /\
  fit_euclid FOps data eps 2 = Some ([0; 0]%Z, 1%Z) /\
  fit_euclid ROps (map (map FR) data) (FR eps) 2 = Some ([-1; -1]%Z, 0%Z).
Proof. exact ex_margin_needed. Qed.
