(* C04 — nearest-neighbour search and k-NN estimators.  Property theorems only; statements are about
   the executable model SC.C04.Model, which the correspondence check ties to
   src/algorithm/sort/heap_select.rs, src/algorithm/neighbour/{linear_search,cover_tree}.rs and
   src/neighbors/*.rs.  Distances live in any type with a total preorder (`preorder ltb leb`). *)
From Coq Require Import List Arith Bool Permutation.
From SC Require Import C04.Model C04.Proofs_Heap C04.Proofs_Linear C04.Proofs_Cover.
Import ListNotations.

(* HeapSelection: after any non-empty add sequence `l` into a heap of capacity k >= 1 the array holds
   min(k,|l|) elements, they are the smallest so far (l splits into the array and a rest that is
   no smaller), and peek is a maximum of the array. *)
Theorem C04_heap_keeps_k_smallest :
  forall (A : Type) (ltb leb : A -> A -> bool) (d0 : A), preorder ltb leb ->
  forall k l, 1 <= k -> l <> [] ->
  let h := fold_left (hs_add ltb leb d0) l (with_capacity k) in
  length (hs_get h) = Nat.min k (length l) /\
  (exists rest, Permutation l (hs_get h ++ rest) /\
                forall x y, In x (hs_get h) -> In y rest -> leb x y = true) /\
  In (hs_peek ltb d0 h) (hs_get h) /\
  (forall x, In x (hs_get h) -> leb x (hs_peek ltb d0 h) = true).
Proof. intros A ltb leb d0 PO. exact (heap_keeps_k_smallest ltb leb d0 PO). Qed.

(* LinearKNNSearch::find: for 1 <= k <= n (all distances below the +infinity sentinel) the result is
   a k-nearest set: k entries, distinct true indices, true distances, nothing left out is closer. *)
Theorem C04_linear_find_exact :
  forall (D : Type) (ltb leb : D -> D -> bool) (dinf : D), preorder ltb leb ->
  forall (dq : nat -> D) n k, (forall i, i < n -> ltb (dq i) dinf = true) -> 1 <= k <= n ->
  exists res, linear_find ltb leb dinf dq n k = Some res /\ is_knn leb dq n k res.
Proof. intros D ltb leb dinf PO. exact (linear_find_exact ltb leb dinf PO). Qed.

(* LinearKNNSearch::find_radius returns exactly the points with distance <= r *)
Theorem C04_linear_radius_exact :
  forall (D : Type) (leb : D -> D -> bool) (dzero : D) (dq : nat -> D) n r res,
  linear_find_radius leb dzero dq n r = Some res -> is_ball leb dq n r res.
Proof. intros D leb dzero. exact (linear_radius_exact leb dzero). Qed.

(* parameter errors of the exhaustive search: k = 0, k > n, r <= 0 *)
Theorem C04_linear_param_errors :
  forall (D : Type) (ltb leb : D -> D -> bool) (dinf dzero : D) (dq : nat -> D) n,
  (forall k, linear_find ltb leb dinf dq n k = None <-> (k = 0 \/ n < k)) /\
  (forall r, linear_find_radius leb dzero dq n r = None <-> leb r dzero = true).
Proof.
  intros. split; intros.
  - apply linear_find_error.
  - apply linear_radius_error.
Qed.


(* CoverTree::find_radius on EVERY well-formed tree (wf_root: every node's max_dist bounds the distance
   from its point to every point below it, the first child repeats its parent's point, the root is
   internal and the leaves enumerate 0..n-1 once each): for any distance that is symmetric and obeys
   the triangle inequality (with a monotone addition), and r > 0, the result is exactly the set of
   points with distance <= r, each with its true index and distance.  `wf_root` is the boolean that the
   correspondence check evaluates on every tree the implementation builds. *)
Theorem C04_cover_radius_exact :
  forall (D : Type) (ltb leb : D -> D -> bool) (plus : D -> D -> D), preorder ltb leb ->
  (forall a b c d, leb a b = true -> leb c d = true -> leb (plus a c) (plus b d) = true) ->
  forall (P : Type) (dist : P -> P -> D) (pt : nat -> P) (q : P),
  (forall a b, dist a b = dist b a) ->
  (forall a b c, leb (dist a c) (plus (dist a b) (dist b c)) = true) ->
  forall (dzero r : D) n (root : ctree D),
  wf_root leb (dpp dist pt) n root = true -> leb r dzero = false ->
  exists res, cover_find_radius leb plus dzero (dq dist pt q) root r = Some res /\
              is_ball leb (dq dist pt q) n r res.
Proof.
  intros D ltb leb plus PO PM P dist pt q SY TR dzero r n root.
  exact (cover_radius_exact ltb leb plus PO PM dist pt q SY TR dzero r n root).
Qed.

(* the hypotheses are satisfiable: nat with <, <= is a preorder; a concrete run *)
Example C04_nat_preorder : preorder Nat.ltb Nat.leb.
Proof.
  split; intros.
  - destruct (Nat.leb_spec a b); auto. right. apply Nat.leb_le. auto with arith.
  - apply Nat.leb_le in H, H0. apply Nat.leb_le. eauto with arith.
  - destruct (Nat.leb_spec b a), (Nat.ltb_spec a b); auto; exfalso; eapply Nat.lt_irrefl; eauto with arith.
Qed.
Example C04_linear_instance :
  linear_find Nat.ltb Nat.leb 100 (fun i => nth i [7; 3; 9; 3; 5] 0) 5 3 = Some [(4, 5); (3, 3); (1, 3)].
Proof. reflexivity. Qed.
Example C04_heap_instance :
  hs_get (fold_left (hs_add Nat.ltb Nat.leb 0) [5; 1; 4; 2; 8; 3] (with_capacity 3)) = [3; 2; 1].
Proof. reflexivity. Qed.
