(* C04 — nearest-neighbour search and k-NN estimators.  Property theorems only; statements are about
   the executable model SC.C04.Model, which the correspondence check ties to
   src/algorithm/sort/heap_select.rs, src/algorithm/neighbour/{linear_search,cover_tree}.rs and
   src/neighbors/*.rs.  Distances live in any type with a total preorder (`preorder ltb leb`). *)
From Coq Require Import List Arith Bool Permutation Lia Reals Lra.
From SC Require Import Base.Num C04.Model C04.Proofs_Heap C04.Proofs_Linear C04.Proofs_Cover C04.Proofs_Est.
Import ListNotations.
Local Close Scope R_scope.

(* HeapSelection: after any non-empty add sequence `l` into a heap of capacity k >= 1 the array holds
   min(k,|l|) elements, they are the smallest so far (l splits into the array and a rest that is
   no smaller), and peek is a maximum of the array. *)
Theorem C04_heap_keeps_k_smallest :
  forall (A : Type) (ltb leb : A -> A -> bool) (d0 : A), preorder ltb leb ->
  forall k l, 1 <= k -> l <> [] ->
  let h := fold_left (hs_add ltb leb d0) l (with_capacity k) in
  length (hs_get h) = Nat.min k (length l) /\
  (exists rest, Permutation l (hs_get h ++ rest) /\
                forall x y, In x (hs_get h) -> In y rest -> leb x y = true) /\
  In (hs_peek ltb d0 h) (hs_get h) /\
  (forall x, In x (hs_get h) -> leb x (hs_peek ltb d0 h) = true).
Proof. intros A ltb leb d0 PO. exact (heap_keeps_k_smallest ltb leb d0 PO). Qed.

(* LinearKNNSearch::find: for 1 <= k <= n (all distances below the +infinity sentinel) the result is
   a k-nearest set: k entries, distinct true indices, true distances, nothing left out is closer. *)
Theorem C04_linear_find_exact :
  forall (D : Type) (ltb leb : D -> D -> bool) (dinf : D), preorder ltb leb ->
  forall (dq : nat -> D) n k, (forall i, i < n -> ltb (dq i) dinf = true) -> 1 <= k <= n ->
  exists res, linear_find ltb leb dinf dq n k = Some res /\ is_knn leb dq n k res.
Proof. intros D ltb leb dinf PO. exact (linear_find_exact ltb leb dinf PO). Qed.

(* LinearKNNSearch::find_radius returns exactly the points with distance <= r *)
Theorem C04_linear_radius_exact :
  forall (D : Type) (leb : D -> D -> bool) (dzero : D) (dq : nat -> D) n r res,
  linear_find_radius leb dzero dq n r = Some res -> is_ball leb dq n r res.
Proof. intros D leb dzero. exact (linear_radius_exact leb dzero). Qed.

(* parameter errors of the exhaustive search: k = 0, k > n, r <= 0 *)
Theorem C04_linear_param_errors :
  forall (D : Type) (ltb leb : D -> D -> bool) (dinf dzero : D) (dq : nat -> D) n,
  (forall k, linear_find ltb leb dinf dq n k = None <-> (k = 0 \/ n < k)) /\
  (forall r, linear_find_radius leb dzero dq n r = None <-> leb r dzero = true).
Proof.
  intros. split; intros.
  - apply linear_find_error.
  - apply linear_radius_error.
Qed.


(* CoverTree::find_radius on EVERY well-formed tree (wf_root: every node's max_dist bounds the distance
   from its point to every point below it, the first child repeats its parent's point, the root is
   internal and the leaves enumerate 0..n-1 once each): for any distance that is symmetric and obeys
   the triangle inequality (with a monotone addition), and r > 0, the result is exactly the set of
   points with distance <= r, each with its true index and distance.  `wf_root` is the boolean that the
   correspondence check evaluates on every tree the implementation builds. *)
Theorem C04_cover_radius_exact :
  forall (D : Type) (ltb leb : D -> D -> bool) (plus : D -> D -> D), preorder ltb leb ->
  (forall a b c d, leb a b = true -> leb c d = true -> leb (plus a c) (plus b d) = true) ->
  forall (P : Type) (dist : P -> P -> D) (pt : nat -> P) (q : P),
  (forall a b, dist a b = dist b a) ->
  (forall a b c, leb (dist a c) (plus (dist a b) (dist b c)) = true) ->
  forall (dzero r : D) n (root : ctree D),
  wf_root leb (dpp dist pt) n root = true -> leb r dzero = false ->
  exists res, cover_find_radius leb plus dzero (dq dist pt q) root r = Some res /\
              is_ball leb (dq dist pt q) n r res.
Proof.
  intros D ltb leb plus PO PM P dist pt q SY TR dzero r n root.
  exact (cover_radius_exact ltb leb plus PO PM dist pt q SY TR dzero r n root).
Qed.


(* CoverTree::find on EVERY well-formed tree: for 1 <= k <= n (all distances at most the MAX sentinel)
   the result is a k-nearest set: exactly k entries, distinct true indices, true distances, and no
   point left out is closer than a returned one (so the distances are the k smallest). *)
Theorem C04_cover_find_exact :
  forall (D : Type) (ltb leb : D -> D -> bool) (plus : D -> D -> D), preorder ltb leb ->
  (forall a b c d, leb a b = true -> leb c d = true -> leb (plus a c) (plus b d) = true) ->
  forall (P : Type) (dist : P -> P -> D) (pt : nat -> P) (q : P),
  (forall a b, dist a b = dist b a) ->
  (forall a b c, leb (dist a c) (plus (dist a b) (dist b c)) = true) ->
  forall (dmax dzero : D) k n (root : ctree D), 1 <= k -> k <= n ->
  wf_root leb (dpp dist pt) n root = true ->
  (forall i, i < n -> leb (dq dist pt q i) dmax = true) ->
  exists res, cover_find ltb leb plus dmax dzero (dq dist pt q) root n k = Some res /\
              is_knn leb (dq dist pt q) n k res.
Proof.
  intros D ltb leb plus PO PM P dist pt q SY TR dmax dzero k n root Hk Hkn W Hmax.
  exact (cover_find_exact ltb leb plus PO PM dist pt q SY TR dmax dzero k Hk n root W Hmax Hkn).
Qed.

(* parameter errors of the cover-tree queries: k = 0, k > n, r <= 0 *)
Theorem C04_cover_param_errors :
  forall (D : Type) (ltb leb : D -> D -> bool) (plus : D -> D -> D) (dmax dzero : D) (dq : nat -> D)
         (root : ctree D) n,
  (forall k, k = 0 \/ n < k -> cover_find ltb leb plus dmax dzero dq root n k = None) /\
  (forall r, leb r dzero = true -> cover_find_radius leb plus dzero dq root r = None).
Proof.
  intros. split; intros.
  - now apply cover_find_error.
  - now apply cover_radius_error.
Qed.


(* KNNWeightFunction::calc_weights (over the reals): uniform weights are all 1; under distance
   weighting an exact match (a zero distance) takes all the weight, otherwise weights are 1/d. *)
Theorem C04_knn_weights : forall ds : list R,
  calc_weights ROps Uniform ds = repeat 1%R (length ds) /\
  (In 0%R ds -> calc_weights ROps DistanceW ds = map (fun e => if Req_EM_T e 0 then 1%R else 0%R) ds) /\
  (~ In 0%R ds -> calc_weights ROps DistanceW ds = map (fun e => (1 / e)%R) ds).
Proof.
  intros ds. split; [apply weights_uniform|]. split; [apply weights_exact_match|apply weights_inverse].
Qed.

(* KNNRegressor::predict_for_row after the search: the prediction is the sum of target * weight / W
   over the neighbour list, i.e. (W <> 0) the weighted mean of the neighbours' targets. *)
Theorem C04_knn_regressor_mean : forall (y : list R) (w : weightfn) (sr : list (nat * R)),
  let ws := calc_weights ROps w (map snd sr) in
  let W := rsum ws in
  reg_mean ROps y w sr =
    rsum (map (fun rw : (nat * R) * R => (nth (fst (fst rw)) y 0 * (snd rw / W))%R) (combine sr ws)) /\
  (W <> 0%R ->
   (reg_mean ROps y w sr * W)%R =
     rsum (map (fun rw : (nat * R) * R => (nth (fst (fst rw)) y 0 * snd rw)%R) (combine sr ws))).
Proof. exact knn_regressor_mean. Qed.

(* KNNClassifier::predict_for_row after the search: with non-negative distances and positive total
   weight the predicted class index has maximal accumulated (normalised) weight among all classes:
   it is a (weighted) plurality class of the neighbour list. *)
Theorem C04_knn_classifier_vote : forall ncl (y : list nat) (w : weightfn) (sr : list (nat * R)),
  let ws := calc_weights ROps w (map snd sr) in
  let W := rsum ws in
  (forall r, In r sr -> nth (fst r) y 0 < ncl) -> (forall r, In r sr -> (0 <= snd r)%R) -> (0 < W)%R ->
  forall j, j < ncl ->
  (score y W (combine sr ws) j <= score y W (combine sr ws) (clf_vote ROps ncl y w sr))%R.
Proof. exact knn_classifier_vote. Qed.

(* estimator parameter checks of fit: the classifier needs k >= 2, the regressor k >= 1, both |x| = |y| *)
Theorem C04_knn_param_errors : forall x_n y_n k,
  (clf_fit_ok x_n y_n k = true <-> (x_n = y_n /\ 2 <= k)) /\
  (reg_fit_ok x_n y_n k = true <-> (x_n = y_n /\ 1 <= k)).
Proof.
  intros. unfold clf_fit_ok, reg_fit_ok. rewrite !andb_true_iff, !negb_true_iff, Nat.eqb_eq, Nat.leb_gt, Nat.ltb_ge.
  split; split; intros [? ?]; split; auto; lia.
Qed.

(* the hypotheses are satisfiable: nat with <, <= is a preorder; a concrete run *)
Example C04_nat_preorder : preorder Nat.ltb Nat.leb.
Proof.
  split; intros.
  - destruct (Nat.leb_spec a b); auto. right. apply Nat.leb_le. auto with arith.
  - apply Nat.leb_le in H, H0. apply Nat.leb_le. eauto with arith.
  - destruct (Nat.leb_spec b a), (Nat.ltb_spec a b); auto; exfalso; eapply Nat.lt_irrefl; eauto with arith.
Qed.
Example C04_linear_instance :
  linear_find Nat.ltb Nat.leb 100 (fun i => nth i [7; 3; 9; 3; 5] 0) 5 3 = Some [(4, 5); (3, 3); (1, 3)].
Proof. reflexivity. Qed.
Example C04_heap_instance :
  hs_get (fold_left (hs_add Nat.ltb Nat.leb 0) [5; 1; 4; 2; 8; 3] (with_capacity 3)) = [3; 2; 1].
Proof. reflexivity. Qed.

(* a well-formed tree over the points 0,1,2 of the line with |a-b| (all hypotheses of the cover-tree
   theorems hold for it), and the model's answers on it *)
Definition C04_line (a b : nat) : nat := (a - b) + (b - a).
Definition C04_tree : ctree nat :=
  Node 0 2 [Node 0 0 []; Node 1 1 [Node 1 0 []; Node 2 0 []]].
Example C04_cover_instance :
  wf_root Nat.leb (dpp C04_line (fun i => i)) 3 C04_tree = true /\
  cover_find Nat.ltb Nat.leb Nat.add 1000 0 (dq C04_line (fun i => i) 2) C04_tree 3 2 = Some [(1, 1); (2, 0)] /\
  cover_find_radius Nat.leb Nat.add 0 (dq C04_line (fun i => i) 2) C04_tree 1 = Some [(1, 1); (2, 0)].
Proof. repeat split; reflexivity. Qed.
Example C04_line_metric :
  (forall a b, C04_line a b = C04_line b a) /\
  (forall a b c, Nat.leb (C04_line a c) (C04_line a b + C04_line b c) = true) /\
  (forall a b c d, Nat.leb a b = true -> Nat.leb c d = true -> Nat.leb (a + c) (b + d) = true).
Proof.
  unfold C04_line. repeat split; intros.
  - lia.
  - apply Nat.leb_le. lia.
  - apply Nat.leb_le in H, H0. apply Nat.leb_le. lia.
Qed.

(* estimators: a distance-weighted vote and mean with an exact match among the neighbours *)
Example C04_estimator_instance :
  calc_weights ROps DistanceW [2; 0; 4]%R = [0; 1; 0]%R /\
  In 0%R [2; 0; 4]%R.
Proof.
  split; [|simpl; auto]. rewrite weights_exact_match by (simpl; auto). simpl.
  repeat match goal with |- context [Req_EM_T ?a ?b] => destruct (Req_EM_T a b); try lra end; reflexivity.
Qed.
