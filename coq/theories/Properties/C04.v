(* C04 — nearest-neighbour search and k-NN estimators.  Property theorems only; statements are about
   the executable model SC.C04.Model, which the correspondence check ties to
   src/algorithm/sort/heap_select.rs, src/algorithm/neighbour/{linear_search,cover_tree}.rs and
   src/neighbors/*.rs.  Distances live in any type with a total preorder (`preorder ltb leb`). *)
From Coq Require Import List Arith Bool Permutation Lia Reals Lra ZArith.
From SC Require Import Base.Num C04.Model C04.ModelBuild C04.Proofs_Heap C04.Proofs_Linear C04.Proofs_Cover C04.Proofs_Est
     C04.ProofsBuild C04.ProofsKnn C04.ProofsLabels C04.ProofsClassifier C04.ProofsNearest C04.ProofsIndep.
Import ListNotations.
Local Close Scope R_scope.

(* HeapSelection: after any non-empty add sequence `l` into a heap of capacity k >= 1 the array holds
   min(k,|l|) elements, they are the smallest so far (l splits into the array and a rest that is
   no smaller), and peek is a maximum of the array. *)
Theorem C04_heap_keeps_k_smallest :
  forall (A : Type) (ltb leb : A -> A -> bool) (d0 : A), preorder ltb leb ->
  forall k l, 1 <= k -> l <> [] ->
  let h := fold_left (hs_add ltb leb d0) l (with_capacity k) in
  length (hs_get h) = Nat.min k (length l) /\
  (exists rest, Permutation l (hs_get h ++ rest) /\
                forall x y, In x (hs_get h) -> In y rest -> leb x y = true) /\
  In (hs_peek ltb d0 h) (hs_get h) /\
  (forall x, In x (hs_get h) -> leb x (hs_peek ltb d0 h) = true).
Proof. intros A ltb leb d0 PO. exact (heap_keeps_k_smallest ltb leb d0 PO). Qed.

(* LinearKNNSearch::find: for 1 <= k <= n (all distances below the +infinity sentinel) the result is
   a k-nearest set: k entries, distinct true indices, true distances, nothing left out is closer. *)
Theorem C04_linear_find_exact :
  forall (D : Type) (ltb leb : D -> D -> bool) (dinf : D), preorder ltb leb ->
  forall (dq : nat -> D) n k, (forall i, i < n -> ltb (dq i) dinf = true) -> 1 <= k <= n ->
  exists res, linear_find ltb leb dinf dq n k = Some res /\ is_knn leb dq n k res.
Proof. intros D ltb leb dinf PO. exact (linear_find_exact ltb leb dinf PO). Qed.

(* LinearKNNSearch::find_radius returns exactly the points with distance <= r *)
Theorem C04_linear_radius_exact :
  forall (D : Type) (leb : D -> D -> bool) (dzero : D) (dq : nat -> D) n r res,
  linear_find_radius leb dzero dq n r = Some res -> is_ball leb dq n r res.
Proof. intros D leb dzero. exact (linear_radius_exact leb dzero). Qed.

(* parameter errors of the exhaustive search: k = 0, k > n, r <= 0 *)
Theorem C04_linear_param_errors :
  forall (D : Type) (ltb leb : D -> D -> bool) (dinf dzero : D) (dq : nat -> D) n,
  (forall k, linear_find ltb leb dinf dq n k = None <-> (k = 0 \/ n < k)) /\
  (forall r, linear_find_radius leb dzero dq n r = None <-> leb r dzero = true).
Proof.
  intros. split; intros.
  - apply linear_find_error.
  - apply linear_radius_error.
Qed.


(* CoverTree::find_radius on EVERY well-formed tree (wf_root: every node's max_dist bounds the distance
   from its point to every point below it, the first child repeats its parent's point, the root is
   internal and the leaves enumerate 0..n-1 once each): for any distance that is symmetric and obeys
   the triangle inequality (with a monotone addition), and r > 0, the result is exactly the set of
   points with distance <= r, each with its true index and distance.  `wf_root` is the boolean that the
   correspondence check evaluates on every tree the implementation builds. *)
(* NOTE (exact arithmetic): the proof uses the triangle inequality EXACTLY, in the step `prune_sound`:
   d(q, node) <= d(q, x) + d(x, node) <= r + max_dist for a point x below the node with d(q, x) <= r.  For
   binary64 the three distances and the sum r + max_dist are each rounded, so the hypothesis
   `leb (dist a c) (plus (dist a b) (dist b c)) = true` can fail by an ulp and the theorem does not transfer
   to a boundary point: KNOWN_FINDINGS covertree-radius-boundary-rounding, witness (Euclid) data
   [(0,4); (0,0); (1,3); (0,2)], query (4,0), r = 4.242640687119285 = d(q, (1,3)) bit for bit:
   CoverTree::find_radius returns {1}, the exhaustive scan {1, 2}.  Points strictly inside the radius by more
   than 8 ulp of the pruning sum are always returned (searched per run, harness/src/bin/c04.rs). *)
Theorem C04_cover_radius_exact :
  forall (D : Type) (ltb leb : D -> D -> bool) (plus : D -> D -> D), preorder ltb leb ->
  (forall a b c d, leb a b = true -> leb c d = true -> leb (plus a c) (plus b d) = true) ->
  forall (P : Type) (dist : P -> P -> D) (pt : nat -> P) (q : P),
  (forall a b, dist a b = dist b a) ->
  (forall a b c, leb (dist a c) (plus (dist a b) (dist b c)) = true) ->
  forall (dzero r : D) n (root : ctree D),
  wf_root leb (dpp dist pt) n root = true -> leb r dzero = false ->
  exists res, cover_find_radius leb plus dzero (dq dist pt q) root r = Some res /\
              is_ball leb (dq dist pt q) n r res.
Proof.
  intros D ltb leb plus PO PM P dist pt q SY TR dzero r n root.
  exact (cover_radius_exact ltb leb plus PO PM dist pt q SY TR dzero r n root).
Qed.


(* CoverTree::find on EVERY well-formed tree: for 1 <= k <= n (all distances at most the MAX sentinel)
   the result is a k-nearest set: exactly k entries, distinct true indices, true distances, and no
   point left out is closer than a returned one (so the distances are the k smallest). *)
Theorem C04_cover_find_exact :
  forall (D : Type) (ltb leb : D -> D -> bool) (plus : D -> D -> D), preorder ltb leb ->
  (forall a b c d, leb a b = true -> leb c d = true -> leb (plus a c) (plus b d) = true) ->
  forall (P : Type) (dist : P -> P -> D) (pt : nat -> P) (q : P),
  (forall a b, dist a b = dist b a) ->
  (forall a b c, leb (dist a c) (plus (dist a b) (dist b c)) = true) ->
  forall (dmax dzero : D) k n (root : ctree D), 1 <= k -> k <= n ->
  wf_root leb (dpp dist pt) n root = true ->
  (forall i, i < n -> leb (dq dist pt q i) dmax = true) ->
  exists res, cover_find ltb leb plus dmax dzero (dq dist pt q) root n k = Some res /\
              is_knn leb (dq dist pt q) n k res.
Proof.
  intros D ltb leb plus PO PM P dist pt q SY TR dmax dzero k n root Hk Hkn W Hmax.
  exact (cover_find_exact ltb leb plus PO PM dist pt q SY TR dmax dzero k Hk n root W Hmax Hkn).
Qed.

(* CoverTree::new (build_cover_tree / batch_insert / split / dist_split / get_scale, model SC.C04.ModelBuild):
   EVERY tree the construction builds from n >= 1 points is well formed (wf_root: each node's max_dist
   bounds the distance from its point to every point below it, the first child repeats its parent's
   point, the root is internal, the leaves enumerate 0..n-1 exactly once) - for every distance function
   with d(x,x) <= 0 (no symmetry or triangle inequality is needed for this) and any pair of scale
   functions with `scale_ok`: positive distances have a rounded logarithm >= slo, a floor well above
   i64::MIN; cover radii of scales below the floor are <= 0; and the rounded logarithm is off by at most
   one step (radius (gsp d) < d -> d <= radius (gsp d + 1)), which with the bump in get_scale gives
   d <= radius (get_scale d).  `fuel` bounds the recursion depth of the model; this statement is about every
   run that does not exhaust it, C04_build_total below says how much fuel is enough. *)
Theorem C04_build_wf :
  forall (D : Type) (ltb leb : D -> D -> bool) (dzero dmone : D), preorder ltb leb ->
  forall (smin : Z) (gsp : D -> Z) (radius : Z -> D) (slo : Z) (dpp : nat -> nat -> D),
  scale_ok ltb leb dzero smin gsp radius slo -> (forall i, leb (dpp i i) dzero = true) ->
  forall fuel n t, cover_build ltb leb dzero dmone smin gsp radius dpp fuel n = Some t ->
                   wf_root leb dpp n t = true.
Proof. intros D ltb leb dzero dmone PO smin gsp radius slo dpp. exact (build_wf' ltb leb dzero dmone PO smin gsp radius slo dpp). Qed.

(* ... and the construction SUCCEEDS on every non-empty data set (duplicates, all points identical, a single
   point included): with one unit of fuel per scale between the root's scale and the floor (plus 3) the
   model returns a tree - the recursion of batch_insert and its while loop terminate - and the tree is
   well formed.  (For binary64 and base 1.3 the root's scale is < 2710 and the floor -3000: fewer than
   5720 levels; the correspondence check runs the model with 7000.) *)
Theorem C04_build_total :
  forall (D : Type) (ltb leb : D -> D -> bool) (dzero dmone : D), preorder ltb leb ->
  forall (smin : Z) (gsp : D -> Z) (radius : Z -> D) (slo : Z) (dpp : nat -> nat -> D),
  scale_ok ltb leb dzero smin gsp radius slo -> (forall i, leb (dpp i i) dzero = true) ->
  forall fuel n, 1 <= n ->
  Z.to_nat (get_scale ltb leb dzero smin gsp radius (initial_max ltb dmone dpp n) - slo + 2) + 1 <= fuel ->
  exists t, cover_build ltb leb dzero dmone smin gsp radius dpp fuel n = Some t /\ wf_root leb dpp n t = true.
Proof. intros D ltb leb dzero dmone PO smin gsp radius slo dpp. exact (build_total' ltb leb dzero dmone PO smin gsp radius slo dpp). Qed.

(* hence the two query theorems hold on every BUILT tree (no well-formedness hypothesis left) *)
Theorem C04_cover_built_find_exact :
  forall (D : Type) (ltb leb : D -> D -> bool) (plus : D -> D -> D), preorder ltb leb ->
  (forall a b c d, leb a b = true -> leb c d = true -> leb (plus a c) (plus b d) = true) ->
  forall (P : Type) (dist : P -> P -> D) (pt : nat -> P) (q : P),
  (forall a b, dist a b = dist b a) ->
  (forall a b c, leb (dist a c) (plus (dist a b) (dist b c)) = true) ->
  forall (dmax dzero dmone : D) (smin : Z) (gsp : D -> Z) (radius : Z -> D) (slo : Z),
  scale_ok ltb leb dzero smin gsp radius slo -> (forall a, leb (dist a a) dzero = true) ->
  forall fuel k n (root : ctree D), 1 <= k -> k <= n ->
  cover_build ltb leb dzero dmone smin gsp radius (dpp dist pt) fuel n = Some root ->
  (forall i, i < n -> leb (dq dist pt q i) dmax = true) ->
  exists res, cover_find ltb leb plus dmax dzero (dq dist pt q) root n k = Some res /\
              is_knn leb (dq dist pt q) n k res.
Proof.
  intros D ltb leb plus PO PM P dist pt q SY TR dmax dzero dmone smin gsp radius slo SC RF fuel k n root Hk Hkn B Hmax.
  apply (cover_find_exact ltb leb plus PO PM dist pt q SY TR dmax dzero k Hk n root); auto.
  eapply (build_wf' ltb leb dzero dmone PO); eauto.
Qed.

Theorem C04_cover_built_radius_exact :
  forall (D : Type) (ltb leb : D -> D -> bool) (plus : D -> D -> D), preorder ltb leb ->
  (forall a b c d, leb a b = true -> leb c d = true -> leb (plus a c) (plus b d) = true) ->
  forall (P : Type) (dist : P -> P -> D) (pt : nat -> P) (q : P),
  (forall a b, dist a b = dist b a) ->
  (forall a b c, leb (dist a c) (plus (dist a b) (dist b c)) = true) ->
  forall (dzero dmone r : D) (smin : Z) (gsp : D -> Z) (radius : Z -> D) (slo : Z),
  scale_ok ltb leb dzero smin gsp radius slo -> (forall a, leb (dist a a) dzero = true) ->
  forall fuel n (root : ctree D),
  cover_build ltb leb dzero dmone smin gsp radius (dpp dist pt) fuel n = Some root -> leb r dzero = false ->
  exists res, cover_find_radius leb plus dzero (dq dist pt q) root r = Some res /\
              is_ball leb (dq dist pt q) n r res.
Proof.
  intros D ltb leb plus PO PM P dist pt q SY TR dzero dmone r smin gsp radius slo SC RF fuel n root B Hr.
  apply (cover_radius_exact ltb leb plus PO PM dist pt q SY TR dzero r n root); auto.
  eapply (build_wf' ltb leb dzero dmone PO); eauto.
Qed.

(* parameter errors of the cover-tree queries: k = 0, k > n, r <= 0 *)
Theorem C04_cover_param_errors :
  forall (D : Type) (ltb leb : D -> D -> bool) (plus : D -> D -> D) (dmax dzero : D) (dq : nat -> D)
         (root : ctree D) n,
  (forall k, k = 0 \/ n < k -> cover_find ltb leb plus dmax dzero dq root n k = None) /\
  (forall r, leb r dzero = true -> cover_find_radius leb plus dzero dq root r = None).
Proof.
  intros. split; intros.
  - now apply cover_find_error.
  - now apply cover_radius_error.
Qed.


(* KNNWeightFunction::calc_weights (over the reals): uniform weights are all 1; under distance
   weighting an exact match (a zero distance) takes all the weight, otherwise weights are 1/d. *)
Theorem C04_knn_weights : forall ds : list R,
  calc_weights ROps Uniform ds = repeat 1%R (length ds) /\
  (In 0%R ds -> calc_weights ROps DistanceW ds = map (fun e => if Req_EM_T e 0 then 1%R else 0%R) ds) /\
  (~ In 0%R ds -> calc_weights ROps DistanceW ds = map (fun e => (1 / e)%R) ds).
Proof.
  intros ds. split; [apply weights_uniform|]. split; [apply weights_exact_match|apply weights_inverse].
Qed.

(* KNNRegressor::predict_for_row after the search: the prediction is the sum of target * weight / W
   over the neighbour list, i.e. (W <> 0) the weighted mean of the neighbours' targets. *)
Theorem C04_knn_regressor_mean : forall (y : list R) (w : weightfn) (sr : list (nat * R)),
  let ws := calc_weights ROps w (map snd sr) in
  let W := rsum ws in
  reg_mean ROps y w sr =
    rsum (map (fun rw : (nat * R) * R => (nth (fst (fst rw)) y 0 * (snd rw / W))%R) (combine sr ws)) /\
  (W <> 0%R ->
   (reg_mean ROps y w sr * W)%R =
     rsum (map (fun rw : (nat * R) * R => (nth (fst (fst rw)) y 0 * snd rw)%R) (combine sr ws))).
Proof. exact knn_regressor_mean. Qed.

(* KNNClassifier::predict_for_row after the search: with non-negative distances and positive total
   weight the predicted class index has maximal accumulated (normalised) weight among all classes:
   it is a (weighted) plurality class of the neighbour list. *)
Theorem C04_knn_classifier_vote : forall ncl (y : list nat) (w : weightfn) (sr : list (nat * R)),
  let ws := calc_weights ROps w (map snd sr) in
  let W := rsum ws in
  (forall r, In r sr -> nth (fst r) y 0 < ncl) -> (forall r, In r sr -> (0 <= snd r)%R) -> (0 < W)%R ->
  forall j, j < ncl ->
  (score y W (combine sr ws) j <= score y W (combine sr ws) (clf_vote ROps ncl y w sr))%R.
Proof. exact knn_classifier_vote. Qed.

(* The estimators END TO END (over the reals; one query row): whichever search structure the estimator was
   fitted with - the exhaustive scan over the n training rows or the cover tree CoverTree::new built from
   them (`fitted`) - for every metric (symmetric, triangle inequality, non-negative, d(x,x) = 0), every
   1 <= k <= n and both weight functions there is a k-nearest set `sr` of the training rows (k entries,
   distinct true indices, true distances, nothing left out is closer) such that
   - the regressor's prediction is the weighted mean over sr of the targets (total weight W > 0), and
   - the classifier's prediction is the label of a class of maximal total weight over sr. *)
Theorem C04_knn_regressor_end_to_end :
  forall (P : Type) (dist : P -> P -> R) (pt : nat -> P) (q : P),
  (forall a b, dist a b = dist b a) -> (forall a b c, (dist a c <= dist a b + dist b c)%R) ->
  (forall a b, (0 <= dist a b)%R) -> (forall a, dist a a = 0%R) ->
  forall (smin : Z) (gsp : R -> Z) (radius : Z -> R) (slo : Z), scale_ok Rltb Rleb 0%R smin gsp radius slo ->
  forall (dmax dinf : R) (s : searcher) n k (y : list R) (w : weightfn),
  fitted dist pt smin gsp radius s n -> 1 <= k <= n ->
  (forall i, i < n -> (dq dist pt q i < dinf)%R) -> (forall i, i < n -> (dq dist pt q i <= dmax)%R) ->
  exists sr, is_knn Rleb (dq dist pt q) n k sr /\
    let ws := calc_weights ROps w (map snd sr) in
    let W := rsum ws in
    (0 < W)%R /\
    exists pred, reg_predict_row ROps dmax dinf s y w k (dq dist pt q) = Some pred /\
      (pred * W)%R = rsum (map (fun rw : (nat * R) * R => (nth (fst (fst rw)) y 0 * snd rw)%R) (combine sr ws)).
Proof.
  intros P dist pt q SY TR NN RF smin gsp radius slo SC dmax dinf s n k y w.
  exact (knn_regressor_end_to_end dist pt q SY TR NN RF smin gsp radius slo SC dmax dinf s n k y w).
Qed.

Theorem C04_knn_classifier_end_to_end :
  forall (P : Type) (dist : P -> P -> R) (pt : nat -> P) (q : P),
  (forall a b, dist a b = dist b a) -> (forall a b c, (dist a c <= dist a b + dist b c)%R) ->
  (forall a b, (0 <= dist a b)%R) -> (forall a, dist a a = 0%R) ->
  forall (smin : Z) (gsp : R -> Z) (radius : Z -> R) (slo : Z), scale_ok Rltb Rleb 0%R smin gsp radius slo ->
  forall (dmax dinf : R) (s : searcher) n k (classes : list R) (y : list nat) (w : weightfn),
  fitted dist pt smin gsp radius s n -> 1 <= k <= n -> (forall i, i < n -> nth i y 0 < length classes) ->
  (forall i, i < n -> (dq dist pt q i < dinf)%R) -> (forall i, i < n -> (dq dist pt q i <= dmax)%R) ->
  exists sr, is_knn Rleb (dq dist pt q) n k sr /\
    let ws := calc_weights ROps w (map snd sr) in
    let W := rsum ws in
    let c := clf_vote ROps (length classes) y w sr in
    clf_predict_row ROps dmax dinf s classes y w k (dq dist pt q) = Some (nth c classes 0%R) /\
    forall j, j < length classes -> (score y W (combine sr ws) j <= score y W (combine sr ws) c)%R.
Proof.
  intros P dist pt q SY TR NN RF smin gsp radius slo SC dmax dinf s n k classes y w.
  exact (knn_classifier_end_to_end dist pt q SY TR NN RF smin gsp radius slo SC dmax dinf s n k classes y w).
Qed.

(* estimator parameter checks of fit: the classifier needs k >= 2, the regressor k >= 1, both |x| = |y| *)
Theorem C04_knn_param_errors : forall x_n y_n k,
  (clf_fit_ok x_n y_n k = true <-> (x_n = y_n /\ 2 <= k)) /\
  (reg_fit_ok x_n y_n k = true <-> (x_n = y_n /\ 1 <= k)).
Proof.
  intros. unfold clf_fit_ok, reg_fit_ok. rewrite !andb_true_iff, !negb_true_iff, Nat.eqb_eq, Nat.leb_gt, Nat.ltb_ge.
  split; split; intros [? ?]; split; auto; lia.
Qed.

(* the hypotheses are satisfiable: nat with <, <= is a preorder; a concrete run *)
Example C04_nat_preorder : preorder Nat.ltb Nat.leb.
Proof.
  split; intros.
  - destruct (Nat.leb_spec a b); auto. right. apply Nat.leb_le. auto with arith.
  - apply Nat.leb_le in H, H0. apply Nat.leb_le. eauto with arith.
  - destruct (Nat.leb_spec b a), (Nat.ltb_spec a b); auto; exfalso; eapply Nat.lt_irrefl; eauto with arith.
Qed.
Example C04_linear_instance :
  linear_find Nat.ltb Nat.leb 100 (fun i => nth i [7; 3; 9; 3; 5] 0) 5 3 = Some [(4, 5); (3, 3); (1, 3)].
Proof. reflexivity. Qed.
Example C04_heap_instance :
  hs_get (fold_left (hs_add Nat.ltb Nat.leb 0) [5; 1; 4; 2; 8; 3] (with_capacity 3)) = [3; 2; 1].
Proof. reflexivity. Qed.

(* a well-formed tree over the points 0,1,2 of the line with |a-b| (all hypotheses of the cover-tree
   theorems hold for it), and the model's answers on it *)
Definition C04_line (a b : nat) : nat := (a - b) + (b - a).
Definition C04_tree : ctree nat :=
  Node 0 2 [Node 0 0 []; Node 1 1 [Node 1 0 []; Node 2 0 []]].
Example C04_cover_instance :
  wf_root Nat.leb (dpp C04_line (fun i => i)) 3 C04_tree = true /\
  cover_find Nat.ltb Nat.leb Nat.add 1000 0 (dq C04_line (fun i => i) 2) C04_tree 3 2 = Some [(1, 1); (2, 0)] /\
  cover_find_radius Nat.leb Nat.add 0 (dq C04_line (fun i => i) 2) C04_tree 1 = Some [(1, 1); (2, 0)].
Proof. repeat split; reflexivity. Qed.
Example C04_line_metric :
  (forall a b, C04_line a b = C04_line b a) /\
  (forall a b c, Nat.leb (C04_line a c) (C04_line a b + C04_line b c) = true) /\
  (forall a b c d, Nat.leb a b = true -> Nat.leb c d = true -> Nat.leb (a + c) (b + d) = true).
Proof.
  unfold C04_line. repeat split; intros.
  - lia.
  - apply Nat.leb_le. lia.
  - apply Nat.leb_le in H, H0. apply Nat.leb_le. lia.
Qed.

(* estimators: a distance-weighted vote and mean with an exact match among the neighbours *)
Example C04_estimator_instance :
  calc_weights ROps DistanceW [2; 0; 4]%R = [0; 1; 0]%R /\
  In 0%R [2; 0; 4]%R.
Proof.
  split; [|simpl; auto]. rewrite weights_exact_match by (simpl; auto). simpl.
  repeat match goal with |- context [Req_EM_T ?a ?b] => destruct (Req_EM_T a b); try lra end; reflexivity.
Qed.

(* construction: scale functions over nat with scale_ok (rounded logarithm = the distance itself, cover
   radius = the scale), the tree the model builds from six points of the line (with a duplicate), its
   well-formedness and a query on it *)
Definition C04_pts (i : nat) : nat := nth i [0; 7; 3; 3; 12; 8] 0.
Example C04_nat_scale_ok : scale_ok Nat.ltb Nat.leb 0 (-10)%Z Z.of_nat Z.to_nat 0%Z.
Proof.
  split; [lia|]. split; [intros; lia|]. split.
  - intros s x Hs H. apply Nat.leb_le in H. apply Nat.leb_le. destruct s; simpl in *; lia.
  - intros d _ H. rewrite Nat2Z.id in H. apply Nat.ltb_lt in H. lia.
Qed.
Example C04_build_instance :
  cover_build Nat.ltb Nat.leb 0 0 (-10)%Z Z.of_nat Z.to_nat (dpp C04_line C04_pts) 40 6 =
    Some (Node 0 12 [Node 0 8 [Node 0 3 [Node 0 0 []; Node 3 0 [Node 3 0 []; Node 2 0 []]];
                               Node 1 1 [Node 1 0 []; Node 5 0 []]];
                     Node 4 0 []]) /\
  (forall i, Nat.leb (dpp C04_line C04_pts i i) 0 = true) /\
  Z.to_nat (get_scale Nat.ltb Nat.leb 0 (-10)%Z Z.of_nat Z.to_nat (initial_max Nat.ltb 0 (dpp C04_line C04_pts) 6) - 0 + 2) + 1 <= 40 /\
  (forall t, cover_build Nat.ltb Nat.leb 0 0 (-10)%Z Z.of_nat Z.to_nat (dpp C04_line C04_pts) 40 6 = Some t ->
             cover_find Nat.ltb Nat.leb Nat.add 1000 0 (dq C04_line C04_pts 6) t 6 3 = Some [(1, 1); (5, 2); (3, 3)]).
Proof.
  split; [reflexivity|]. split.
  - intros i. unfold dpp, C04_line. apply Nat.leb_le. lia.
  - split; [vm_compute; lia|]. intros t H. vm_compute in H. inversion H; subst. reflexivity.
Qed.

(* end to end: |a - b| on the reals is a metric in the sense of the theorems, scale functions over the reals
   with scale_ok exist (rounded logarithm = the next integer above d, cover radius = the scale itself), and
   both kinds of search structure can be `fitted` *)
Example C04_R_metric :
  (forall a b : R, Rabs (a - b) = Rabs (b - a)) /\
  (forall a b c : R, (Rabs (a - c) <= Rabs (a - b) + Rabs (b - c))%R) /\
  (forall a b : R, (0 <= Rabs (a - b))%R) /\ (forall a : R, Rabs (a - a) = 0%R).
Proof.
  repeat split; intros.
  - apply Rabs_minus_sym.
  - replace (a - c)%R with ((a - b) + (b - c))%R by lra. apply Rabs_triang.
  - apply Rabs_pos.
  - rewrite Rminus_diag_eq by reflexivity. apply Rabs_R0.
Qed.
Definition C04_Rradius (s : Z) : R := if (s <? 0)%Z then 0%R else IZR s.
Example C04_R_scale_ok : scale_ok Rltb Rleb 0%R (-10)%Z up C04_Rradius 0%Z.
Proof.
  split; [lia|]. split; [|split].
  - intros d H. apply Rleb_false in H. destruct (archimed d) as [A _].
    assert (0 < IZR (up d))%R by lra. apply lt_IZR in H0. lia.
  - intros s x Hs H. unfold C04_Rradius in H. apply Z.ltb_lt in Hs. rewrite Hs in H. exact H.
  - intros d H H1. exfalso. apply Rleb_false in H. destruct (archimed d) as [A _].
    assert (0 < IZR (up d))%R by lra. apply lt_IZR in H0.
    unfold C04_Rradius in H1. replace (up d <? 0)%Z with false in H1 by (symmetry; apply Z.ltb_ge; lia).
    apply Rltb_true in H1. lra.
Qed.
Example C04_fitted_instances :
  fitted (fun a b : R => Rabs (a - b)) (fun i => INR i) (-10)%Z up C04_Rradius (SLinear 5) 5 /\
  fitted (fun a b : R => Rabs (a - b)) (fun i => INR i) (-10)%Z up C04_Rradius (SCover 1 (Node 0 0%R [Node 0 0%R []])) 1.
Proof.
  split; [reflexivity|]. split; [reflexivity|]. exists 1. cbn. rewrite Z.eqb_refl. reflexivity.
Qed.

(* KNNClassifier::fit's label mapping (`classes = y.unique()`: sort_by(partial_cmp) + dedup; `y[i] =
   classes.iter().position(|c| yc == *c)`; model: insert_label / dedup / unique / position), for ARBITRARY label
   lists over every element type whose `<` is a strict total order and whose `==` decides equality
   (`label_order`; the reals are an instance, C04_R_label_order): the class list is strictly increasing, it has
   exactly the values of the label vector, every label is found at a position in range that holds that label
   (round trip label -> index -> label), and every class index is the position of its own label (round trip
   index -> label -> index); so position / nth are mutually inverse bijections between the distinct labels
   and 0..|classes|-1.  (`position` returns |classes| where Rust's unwrap() would panic; the third clause
   says that this never happens for a training label.) *)
Theorem C04_classes_sorted_unique :
  forall (T : Type) (O : Ops T), label_order O -> forall (d : T) (ys : list T),
  let cl := unique O ys in
  (forall i j, i < j < length cl -> oltb O (nth i cl d) (nth j cl d) = true) /\
  (forall x, In x cl <-> In x ys) /\
  (forall y, In y ys -> position O y cl < length cl /\ nth (position O y cl) cl d = y) /\
  (forall i, i < length cl -> position O (nth i cl d) cl = i).
Proof. intros T O LO. exact (classes_sorted_unique O LO). Qed.

(* The classifier END TO END in terms of the ORIGINAL labels (over the reals; one query row): fit maps the label
   vector ys (one label per training row) to `classes` / class indices as above, and whichever search structure
   was fitted, for every metric, 1 <= k <= n and both weight functions there is a k-nearest set sr of the
   training rows (with weights ws, total W > 0, L = the neighbours paired with their weights in the order the
   search returned them) such that the prediction succeeds and the predicted value lbl
   - is the training label of one of the k neighbours in sr - in particular an element of ys, never a
     default or an out-of-range class -,
   - has positive total weight lscore ys W L lbl (= the sum of w/W over the neighbours labelled lbl) and that
     weight is MAXIMAL among all labels (for all reals `lab`, labels not occurring score 0), and
   - on ties is the label whose running total reached the maximum FIRST in the order of the search result:
     L splits as l1 ++ l2 with lbl already at its final total after l1 while every other label is then still
     strictly below that total (this determines lbl uniquely given L).
   NOT "the first maximal index in class order": `if c[y] > max_c` is strict and runs over the neighbours, not
   over the classes - see C04_classifier_tie_first_index_refuted. *)
Theorem C04_classifier_predicts_original_label :
  forall (P : Type) (dist : P -> P -> R) (pt : nat -> P) (q : P),
  (forall a b, dist a b = dist b a) -> (forall a b c, (dist a c <= dist a b + dist b c)%R) ->
  (forall a b, (0 <= dist a b)%R) -> (forall a, dist a a = 0%R) ->
  forall (smin : Z) (gsp : R -> Z) (radius : Z -> R) (slo : Z), scale_ok Rltb Rleb 0%R smin gsp radius slo ->
  forall (dmax dinf : R) (s : searcher) n k (ys : list R) (w : weightfn),
  fitted dist pt smin gsp radius s n -> 1 <= k <= n -> length ys = n ->
  (forall i, i < n -> (dq dist pt q i < dinf)%R) -> (forall i, i < n -> (dq dist pt q i <= dmax)%R) ->
  exists sr, is_knn Rleb (dq dist pt q) n k sr /\
    let ws := calc_weights ROps w (map snd sr) in
    let W := rsum ws in
    let L := combine sr ws in
    exists lbl,
      clf_predict_row ROps dmax dinf s (unique ROps ys) (map (fun l => position ROps l (unique ROps ys)) ys)
                      w k (dq dist pt q) = Some lbl /\
      (exists r, In r sr /\ nth (fst r) ys 0%R = lbl) /\ In lbl ys /\
      (0 < lscore ys W L lbl)%R /\
      (forall lab, (lscore ys W L lab <= lscore ys W L lbl)%R) /\
      exists l1 l2, L = l1 ++ l2 /\ lscore ys W l1 lbl = lscore ys W L lbl /\
                    forall lab, lab <> lbl -> (lscore ys W l1 lab < lscore ys W L lbl)%R.
Proof.
  intros P dist pt q SY TR NN RF smin gsp radius slo SC dmax dinf s n k ys w.
  exact (knn_classifier_predicts_original_label dist pt q SY TR NN RF smin gsp radius slo SC dmax dinf s n k ys w).
Qed.

(* the same facts about the vote alone (any neighbour list with in-range class indices, non-negative distances
   and positive total weight), by class index: the predicted index is in range, its tally is positive and
   maximal, and it is the class whose running tally reached the maximum first *)
Theorem C04_knn_classifier_vote_first_max : forall ncl (y : list nat) (w : weightfn) (sr : list (nat * R)),
  let ws := calc_weights ROps w (map snd sr) in
  let W := rsum ws in
  let L := combine sr ws in
  let c := clf_vote ROps ncl y w sr in
  (forall r, In r sr -> nth (fst r) y 0 < ncl) -> (forall r, In r sr -> (0 <= snd r)%R) -> (0 < W)%R ->
  c < ncl /\ (0 < score y W L c)%R /\
  (forall j, (score y W L j <= score y W L c)%R) /\
  exists l1 l2, L = l1 ++ l2 /\ score y W l1 c = score y W L c /\
                forall j, j <> c -> (score y W l1 j < score y W L c)%R.
Proof. exact clf_vote_first_max. Qed.

(* REFUTED tie rule "the first maximal index in class order wins": labels [2; 1; 2] (classes [1; 2]), two
   neighbours of equal weight, the first one labelled 2: the prediction is 2 although label 1 (class index 0)
   has the same total weight.  Not a defect - the property asks for a plurality class - but the tie rule is
   the one stated in C04_classifier_predicts_original_label, and it depends on the order of the search result.
   Observed on the implementation (not part of the check): x = [-1; 1], y = [1; 2], query 0, k = 2, uniform
   weights: KNNClassifier with LinearSearch predicts 2, with CoverTree 1; with y = [2; 1] it is 1 resp. 2. *)
Theorem C04_classifier_tie_first_index_refuted :
  exists (ys : list R) (sr : list (nat * R)),
  let ws := calc_weights ROps Uniform (map snd sr) in
  let W := rsum ws in
  nth (clf_vote ROps (length (unique ROps ys)) (map (fun l => position ROps l (unique ROps ys)) ys) Uniform sr)
      (unique ROps ys) 0%R = 2%R /\
  lscore ys W (combine sr ws) 1%R = lscore ys W (combine sr ws) 2%R /\ (1 < 2)%R.
Proof. exists [2; 1; 2]%R, [(0, 1%R); (1, 1%R)]. exact clf_tie_goes_to_first_reached. Qed.

(* the hypotheses are satisfiable: the reals are a label order; a concrete label mapping *)
Example C04_R_label_order : label_order ROps.
Proof. exact R_label_order. Qed.
Example C04_fit_instance :
  unique ROps [2; 1; 2]%R = [1; 2]%R /\
  map (fun l => position ROps l (unique ROps [2; 1; 2]%R)) [2; 1; 2]%R = [1; 0; 1].
Proof. exact fit_example. Qed.

(* k = 1 (over the reals, one query row, both searches, both weight functions): KNNRegressor's and
   KNNClassifier's predict_for_row return the target resp. the ORIGINAL label of a nearest training row i
   (dq i <= dq j for all rows j).  (KNNClassifier::fit refuses k = 1, C04_knn_param_errors; the statement is
   about the predict function with the label mapping of fit.) *)
Theorem C04_knn_k1_nearest :
  forall (P : Type) (dist : P -> P -> R) (pt : nat -> P) (q : P),
  (forall a b, dist a b = dist b a) -> (forall a b c, (dist a c <= dist a b + dist b c)%R) ->
  (forall a b, (0 <= dist a b)%R) -> (forall a, dist a a = 0%R) ->
  forall (smin : Z) (gsp : R -> Z) (radius : Z -> R) (slo : Z), scale_ok Rltb Rleb 0%R smin gsp radius slo ->
  forall (dmax dinf : R) (s : searcher) n (y ys : list R) (w : weightfn),
  fitted dist pt smin gsp radius s n -> 1 <= n -> length ys = n ->
  (forall i, i < n -> (dq dist pt q i < dinf)%R) -> (forall i, i < n -> (dq dist pt q i <= dmax)%R) ->
  exists i, i < n /\ (forall j, j < n -> (dq dist pt q i <= dq dist pt q j)%R) /\
    reg_predict_row ROps dmax dinf s y w 1 (dq dist pt q) = Some (nth i y 0%R) /\
    clf_predict_row ROps dmax dinf s (unique ROps ys) (map (fun l => position ROps l (unique ROps ys)) ys)
                    w 1 (dq dist pt q) = Some (nth i ys 0%R).
Proof.
  intros P dist pt q SY TR NN RF smin gsp radius slo SC dmax dinf s n y ys w.
  exact (knn_k1_nearest dist pt q SY TR NN RF smin gsp radius slo SC dmax dinf s n y ys w).
Qed.

(* exact match under distance weighting (any 1 <= k <= n, both searches): if the query is at distance 0 from
   some training rows and all such rows carry the target v and the label lv, the regressor returns v and the
   classifier lv - the zero-distance neighbours take all the weight.  In particular an in-sample query on
   data without conflicting duplicates reproduces its own target / label. *)
Theorem C04_knn_exact_match :
  forall (P : Type) (dist : P -> P -> R) (pt : nat -> P) (q : P),
  (forall a b, dist a b = dist b a) -> (forall a b c, (dist a c <= dist a b + dist b c)%R) ->
  (forall a b, (0 <= dist a b)%R) -> (forall a, dist a a = 0%R) ->
  forall (smin : Z) (gsp : R -> Z) (radius : Z -> R) (slo : Z), scale_ok Rltb Rleb 0%R smin gsp radius slo ->
  forall (dmax dinf : R) (s : searcher) n k (y ys : list R) (v lv : R),
  fitted dist pt smin gsp radius s n -> 1 <= k <= n -> length ys = n ->
  (forall i, i < n -> (dq dist pt q i < dinf)%R) -> (forall i, i < n -> (dq dist pt q i <= dmax)%R) ->
  (exists i0, i0 < n /\ dq dist pt q i0 = 0%R) ->
  (forall j, j < n -> dq dist pt q j = 0%R -> nth j y 0%R = v /\ nth j ys 0%R = lv) ->
  reg_predict_row ROps dmax dinf s y DistanceW k (dq dist pt q) = Some v /\
  clf_predict_row ROps dmax dinf s (unique ROps ys) (map (fun l => position ROps l (unique ROps ys)) ys)
                  DistanceW k (dq dist pt q) = Some lv.
Proof.
  intros P dist pt q SY TR NN RF smin gsp radius slo SC dmax dinf s n k y ys v lv.
  exact (knn_exact_match dist pt q SY TR NN RF smin gsp radius slo SC dmax dinf s n k y ys v lv).
Qed.

(* satisfiable: on the line with |a - b| and points 0, 1, 2, ... the query 2 is at distance 0 from row 2 only,
   so any target / label vectors meet the agreement hypothesis *)
Example C04_exact_match_instance :
  dq (fun a b : R => Rabs (a - b)) (fun i => INR i) 2%R 2 = 0%R /\
  forall (y ys : list R) j, dq (fun a b : R => Rabs (a - b)) (fun i => INR i) 2%R j = 0%R ->
                            nth j y 0%R = nth 2 y 0%R /\ nth j ys 0%R = nth 2 ys 0%R.
Proof.
  unfold dq. split.
  - simpl. replace (1 + 1 - 2)%R with 0%R by lra. apply Rabs_R0.
  - intros y ys j H. assert (E : INR j = INR 2).
    { simpl. destruct (Req_dec (INR j - 2) 0) as [Q|Q]; [lra|]. apply Rabs_no_R0 in Q. contradiction. }
    apply INR_eq in E. subst j. split; reflexivity.
Qed.

(* "whichever search structure is configured": two estimators fitted on the same n training rows with ANY two
   search structures (exhaustive scan / built cover tree, in any combination), a query whose distances to the
   training rows are pairwise distinct (so that the k-nearest SET is unique; with ties at the k-th distance
   two exact searches may legitimately return different sets): there is one k-nearest set sr such that
   - the two regressors return the SAME value, and
   - the two classifier predictions l1, l2 are both labels of maximal total weight over sr; if l1's weight is
     strictly maximal they are EQUAL (they can differ only when two labels tie exactly, because the vote
     breaks ties by the order of the search result, C04_classifier_predicts_original_label). *)
Theorem C04_knn_search_independent :
  forall (P : Type) (dist : P -> P -> R) (pt : nat -> P) (q : P),
  (forall a b, dist a b = dist b a) -> (forall a b c, (dist a c <= dist a b + dist b c)%R) ->
  (forall a b, (0 <= dist a b)%R) -> (forall a, dist a a = 0%R) ->
  forall (smin : Z) (gsp : R -> Z) (radius : Z -> R) (slo : Z), scale_ok Rltb Rleb 0%R smin gsp radius slo ->
  forall (dmax dinf : R) (s1 s2 : searcher) n k (y ys : list R) (w : weightfn),
  fitted dist pt smin gsp radius s1 n -> fitted dist pt smin gsp radius s2 n ->
  1 <= k <= n -> length ys = n ->
  (forall i, i < n -> (dq dist pt q i < dinf)%R) -> (forall i, i < n -> (dq dist pt q i <= dmax)%R) ->
  (forall i j, i < n -> j < n -> i <> j -> dq dist pt q i <> dq dist pt q j) ->
  exists sr, is_knn Rleb (dq dist pt q) n k sr /\
    let ws := calc_weights ROps w (map snd sr) in
    let W := rsum ws in
    let L := combine sr ws in
    (exists p, reg_predict_row ROps dmax dinf s1 y w k (dq dist pt q) = Some p /\
               reg_predict_row ROps dmax dinf s2 y w k (dq dist pt q) = Some p) /\
    exists l1 l2,
      clf_predict_row ROps dmax dinf s1 (unique ROps ys) (map (fun l => position ROps l (unique ROps ys)) ys)
                      w k (dq dist pt q) = Some l1 /\
      clf_predict_row ROps dmax dinf s2 (unique ROps ys) (map (fun l => position ROps l (unique ROps ys)) ys)
                      w k (dq dist pt q) = Some l2 /\
      (forall lab, (lscore ys W L lab <= lscore ys W L l1)%R) /\
      (forall lab, (lscore ys W L lab <= lscore ys W L l2)%R) /\
      ((forall lab, lab <> l1 -> (lscore ys W L lab < lscore ys W L l1)%R) -> l2 = l1).
Proof.
  intros P dist pt q SY TR NN RF smin gsp radius slo SC dmax dinf s1 s2 n k y ys w.
  exact (knn_search_independent dist pt q SY TR NN RF smin gsp radius slo SC dmax dinf s1 s2 n k y ys w).
Qed.

(* satisfiable: from the query -1 the points 0, 1, 2, ... of the line are at pairwise distinct distances *)
Example C04_distinct_distances_instance :
  forall i j, i <> j -> dq (fun a b : R => Rabs (a - b)) (fun i => INR i) (-1)%R i <>
                        dq (fun a b : R => Rabs (a - b)) (fun i => INR i) (-1)%R j.
Proof.
  intros i j Hne H. unfold dq in H.
  pose proof (pos_INR i). pose proof (pos_INR j).
  rewrite !Rabs_pos_eq in H by lra. apply Hne. apply INR_eq. lra.
Qed.


(* ------------------------------------------------------------------------------------------------ *)
(* ROUNDING theorems: the binary64 instance (FOps) of the estimators under uniform weights.          *)
(* FR x = real value of the float x, ffin x = x is finite, u64 = 2^-53, eta64 = 2^-1075.             *)
(* ------------------------------------------------------------------------------------------------ *)
From Coq Require Import Floats.
From SC Require Import Base.FloatUtil Base.FloatError C04.ProofsFloat.

(* KNNRegressor::predict_for_row after the search, uniform weights, binary64: for ANY neighbour list sr
   (k = |sr| < 2^53 pairs (index, distance)) the model computes w_sum = k exactly, r = fl(1/k) and the
   recursive float sum of the k products fl(y_i * r) (`rinv k` is that r).  If the prediction is finite
   then the k targets are finite and the prediction differs from the exact mean (sum y_i)/k by at most
   ((1+u)^(k+1) - 1) * ((sum |y_i|)/k + k eta) + k eta   (k+1 roundings per term at most: the division,
   the product, k-1 additions; eta per product for underflow). *)
Theorem C04_regressor_uniform_mean_float_error :
  forall (y : list PrimFloat.float) (sr : list (nat * PrimFloat.float)),
  let k := length sr in
  let ys := map (fun p : nat * PrimFloat.float => nth (fst p) y 0%float) sr in
  (Z.of_nat k < 2 ^ 53)%Z -> ffin (reg_mean FOps y Uniform sr) ->
  Forall ffin ys /\
  reg_mean FOps y Uniform sr = fsum (map (fun v => PrimFloat.mul v (rinv k)) ys) /\
  (Rabs (FR (reg_mean FOps y Uniform sr) - Rsuml (map FR ys) / INR k) <=
     ((1 + u64) ^ (k + 1) - 1) * (Rsumabs (map FR ys) / INR k + INR k * eta64) + INR k * eta64)%R.
Proof. exact regressor_uniform_mean_float_error. Qed.

(* the normalising constant: the float sum of k ones is k exactly (k <= 2^53), and r = fl(1/k) is finite,
   in [2^-53, 1], with relative error u *)
Theorem C04_uniform_weight_float :
  forall k : nat, 0 < k -> (Z.of_nat k <= 2 ^ 53)%Z ->
  ffin (osum FOps (repeat 1%float k)) /\ FR (osum FOps (repeat 1%float k)) = INR k /\
  rinv k = PrimFloat.div 1%float (osum FOps (repeat 1%float k)) /\
  ffin (rinv k) /\ (u64 <= FR (rinv k) <= 1)%R /\ (Rabs (FR (rinv k) - / INR k) <= u64 * / INR k)%R.
Proof.
  intros k Hk Hb. destruct (wsum_uniform k Hb) as [A B]. destruct (rinv_spec k Hk Hb) as (C & D & E).
  repeat split; try assumption; apply D.
Qed.

(* KNNClassifier::predict_for_row after the search, uniform weights, binary64, k = |sr| <= 2^51: the score
   of a class after m votes is the m-fold float sum r + .. + r, one function g of the COUNT for all
   classes, strictly increasing on 0..k; so the float vote IS the integer vote `vote_count` (same loop on
   counters: same winner, same tie-breaking) ... *)
Theorem C04_classifier_uniform_vote_float_count :
  forall ncl (y : list nat) (sr : list (nat * PrimFloat.float)),
  (Z.of_nat (length sr) <= 2 ^ 51)%Z ->
  clf_vote FOps ncl y Uniform sr = vote_count ncl y (map fst sr).
Proof. exact classifier_uniform_vote_float_count. Qed.

(* ... hence (labels in range) the predicted class index has the maximal number of votes among the
   neighbours' labels, it is THE plurality class whenever the plurality is strict, and it equals the
   exact-arithmetic (ROps) vote on every real neighbour list with the same indices in the same order. *)
Theorem C04_classifier_uniform_vote_float :
  forall ncl (y : list nat) (sr : list (nat * PrimFloat.float)),
  (Z.of_nat (length sr) <= 2 ^ 51)%Z ->
  (forall p, In p sr -> nth (fst p) y 0 < ncl) ->
  let c := clf_vote FOps ncl y Uniform sr in
  let labels := labels_of y (map fst sr) in
  (forall j, count_occ Nat.eq_dec labels j <= count_occ Nat.eq_dec labels c) /\
  (forall cs, (forall j, j <> cs -> count_occ Nat.eq_dec labels j < count_occ Nat.eq_dec labels cs) -> c = cs) /\
  (forall srR : list (nat * R), map fst srR = map fst sr -> clf_vote ROps ncl y Uniform srR = c).
Proof. exact classifier_uniform_vote_float. Qed.

(* the exact vote under uniform weights is the integer vote too (every k) *)
Theorem C04_classifier_uniform_vote_exact :
  forall ncl (y : list nat) (sr : list (nat * R)),
  clf_vote ROps ncl y Uniform sr = vote_count ncl y (map fst sr).
Proof. exact classifier_uniform_vote_exact. Qed.

(* non-vacuity: three neighbours with targets 0.1, 2.5, -0.3 (the mean 23/30 is not a binary64 number) *)
Example C04_regressor_float_instance :
  let y := [0x1.999999999999ap-4; 7; 2.5; -0x1.3333333333333p-2]%float in
  let sr := [(0, 1.5%float); (2, 0.25%float); (3, 3%float)] in
  (Z.of_nat (length sr) < 2 ^ 53)%Z /\ ffin (reg_mean FOps y Uniform sr) /\
  reg_mean FOps y Uniform sr = 0x1.8888888888888p-1%float /\
  rinv 3 = 0x1.5555555555555p-2%float.
Proof. cbv zeta. repeat split; vm_compute; reflexivity. Qed.

(* non-vacuity: five neighbours, labels 2,0,2,1,2 -> class 2 (strict plurality); a tie 1,2 -> the class
   that reached the maximum first *)
Example C04_classifier_float_instance :
  let y := [2; 0; 1; 2; 2; 1] in
  let sr := [(0, 1.5%float); (1, 0.25%float); (3, 3%float); (2, 0.5%float); (4, 0.75%float)] in
  (Z.of_nat (length sr) <= 2 ^ 51)%Z /\ (forall p, In p sr -> nth (fst p) y 0 < 3) /\
  clf_vote FOps 3 y Uniform sr = 2 /\ vote_count 3 y (map fst sr) = 2 /\
  (forall j, j <> 2 -> count_occ Nat.eq_dec (labels_of y (map fst sr)) j < count_occ Nat.eq_dec (labels_of y (map fst sr)) 2) /\
  clf_vote FOps 3 y Uniform [(2, 1%float); (0, 2%float)] = 1.
Proof.
  cbv zeta. split; [vm_compute; discriminate|]. split.
  - intros p [<-|[<-|[<-|[<-|[<-|[]]]]]]; cbn; lia.
  - repeat split; try (vm_compute; reflexivity).
    intros j Hj. destruct j as [|[|[|j]]]; vm_compute; lia.
Qed.


(* ------------------------------------------------------------------------------------------------ *)
(* The exhaustive scan in binary64 for GENERAL k.                                                    *)
(* ------------------------------------------------------------------------------------------------ *)
From SC Require Import C04.ProofsFloatScan.

(* LinearKNNSearch::find only compares distances: it commutes with every comparison-preserving map f of
   the distance type (heap machinery - sort, sift_down, heapify - included; axiom-free).  This is the
   "order embedding" step: the float scan is the image of a scan over a totally preordered key type. *)
Theorem C04_linear_find_order_embedding :
  forall (D1 D2 : Type) (lt1 le1 : D1 -> D1 -> bool) (lt2 le2 : D2 -> D2 -> bool) (f : D1 -> D2) (dinf : D1),
  (forall a b, lt2 (f a) (f b) = lt1 a b) -> (forall a b, le2 (f a) (f b) = le1 a b) ->
  forall (dq : nat -> D1) n k,
  linear_find lt2 le2 (f dinf) (fun i => f (dq i)) n k =
  option_map (map (fun p : nat * D1 => (fst p, f (snd p)))) (linear_find lt1 le1 dinf dq n k).
Proof. intros D1 D2 lt1 le1 lt2 le2 f dinf. exact (linear_find_map lt1 le1 lt2 le2 f dinf). Qed.

(* a k-nearest set (is_knn: what C04_linear_find_exact guarantees) for an order that strictly separates
   S from its complement is S (axiom-free) *)
Theorem C04_knn_set_unique :
  forall (D : Type) (leb : D -> D -> bool) (dq : nat -> D) n k res (S : list nat),
  is_knn leb dq n k res -> NoDup S -> length S = k -> (forall s, In s S -> s < n) ->
  (forall s j, In s S -> j < n -> ~ In j S -> leb (dq j) (dq s) = false) ->
  Permutation S (map fst res).
Proof. intros D. exact (@knn_set_unique D). Qed.

(* binary64, sentinel +infinity, ANY metric, ANY 1 <= k: dq i = computed distance from the query to point
   i (finite for i < n), R_ i = the exact distance, e i = a bound on its rounding error, S = any list of k
   distinct indices.  If every point of S is closer than every other point by more than the two error
   bounds, the float scan (the model's HeapSelection included) succeeds and returns exactly the index set
   S, each index with its computed distance - and so does the exact scan over the reals: same INDEX SET
   (the order inside the result may differ). *)
Theorem C04_knn_set_float_robust :
  forall (dq : nat -> PrimFloat.float) (R_ e : nat -> R) (n k : nat) (S : list nat),
  NoDup S -> length S = k -> 1 <= k -> (forall s, In s S -> s < n) ->
  (forall i, i < n -> ffin (dq i) /\ (Rabs (FR (dq i) - R_ i) <= e i)%R) ->
  (forall s j, In s S -> j < n -> ~ In j S -> (e s + e j < R_ j - R_ s)%R) ->
  (exists resF, linear_find PrimFloat.ltb PrimFloat.leb infinity dq n k = Some resF /\
                Permutation S (map fst resF) /\ (forall i d, In (i, d) resF -> d = dq i)) /\
  (forall dinfR, (forall i, i < n -> (R_ i < dinfR)%R) ->
     exists resR, linear_find Rltb Rleb dinfR R_ n k = Some resR /\
                  Permutation S (map fst resR) /\ (forall i d, In (i, d) resR -> d = R_ i)).
Proof. exact knn_set_float_robust. Qed.

(* non-vacuity: computed distances 3, 1, 4, 2, 9, exact distances larger by 1/8, error bound 1/4, k = 2 *)
Example C04_knn_set_float_instance :
  let zs := [3; 1; 4; 2; 9]%Z in
  let dq := fun i => float_of_Z (nth i zs 0%Z) in
  let R_ := fun i => (IZR (nth i zs 0%Z) + / 8)%R in
  let e := fun _ : nat => (/ 4)%R in
  let S := [1; 3] in
  NoDup S /\ length S = 2 /\ (forall s, In s S -> s < 5) /\
  (forall i, i < 5 -> ffin (dq i) /\ (Rabs (FR (dq i) - R_ i) <= e i)%R) /\
  (forall s j, In s S -> j < 5 -> ~ In j S -> (e s + e j < R_ j - R_ s)%R) /\
  linear_find PrimFloat.ltb PrimFloat.leb infinity dq 5 2 = Some [(3, 2%float); (1, 1%float)].
Proof.
  cbv zeta. split; [repeat constructor; cbn [In]; lia|]. split; [reflexivity|]. split.
  { intros s [<-|[<-|[]]]; lia. }
  split; [|split; [|vm_compute; reflexivity]].
  - assert (G : forall z, (0 <= z < 2 ^ 53)%Z ->
                ffin (float_of_Z z) /\ (Rabs (FR (float_of_Z z) - (IZR z + / 8)) <= / 4)%R).
    { intros z Hz. destruct (float_of_Z_exact z Hz) as [F E]. split; [exact F|]. rewrite E.
      replace (IZR z - (IZR z + / 8))%R with (- / 8)%R by ring. rewrite Rabs_Ropp, Rabs_pos_eq; lra. }
    intros i Hi. apply G. do 5 (destruct i as [|i]; [cbn [nth]; lia|]). lia.
  - intros s j Hs Hj Hn. destruct Hs as [<-|[<-|[]]];
      (do 5 (destruct j as [|j]; [try (exfalso; apply Hn; cbn [In]; tauto); cbn [nth]; lra|])); exfalso; lia.
Qed.


(* ------------------------------------------------------------------------------------------------ *)
(* binary64 estimators END TO END on the exhaustive scan (uniform weights): search + mean / vote.    *)
(* ------------------------------------------------------------------------------------------------ *)
From SC Require Import C04.ProofsFloatE2E.

(* KNNRegressor (LinearSearch, uniform weights) in binary64, one query row: under the separation margin of
   C04_knn_set_float_robust the prediction succeeds, and if it is finite the targets of the true k nearest
   rows S are finite and the prediction is within the bound of C04_regressor_uniform_mean_float_error of
   their exact mean (the heap order of the result does not matter: the bound is symmetric in S). *)
Theorem C04_knn_regressor_float_end_to_end :
  forall (dq : nat -> PrimFloat.float) (R_ e : nat -> R) (n k : nat) (S : list nat)
         (y : list PrimFloat.float) (dmax : PrimFloat.float),
  NoDup S -> length S = k -> 1 <= k -> (Z.of_nat k < 2 ^ 53)%Z -> (forall s, In s S -> s < n) ->
  (forall i, i < n -> ffin (dq i) /\ (Rabs (FR (dq i) - R_ i) <= e i)%R) ->
  (forall s j, In s S -> j < n -> ~ In j S -> (e s + e j < R_ j - R_ s)%R) ->
  exists v, reg_predict_row FOps dmax infinity (SLinear n) y Uniform k dq = Some v /\
    (ffin v ->
     let ys := map (fun s => FR (nth s y 0%float)) S in
     Forall (fun s => ffin (nth s y 0%float)) S /\
     (Rabs (FR v - Rsuml ys / INR k) <=
        ((1 + u64) ^ (k + 1) - 1) * (Rsumabs ys / INR k + INR k * eta64) + INR k * eta64)%R).
Proof. exact knn_regressor_float_end_to_end. Qed.

(* KNNClassifier (LinearSearch, uniform weights) in binary64, one query row, k <= 2^51: under the same
   margin the predicted class index has the maximal number of votes among the labels of the true k nearest
   rows S; if one class has strictly more votes than every other, the binary64 classifier and the exact
   classifier (ROps on the exact distances) both predict it. *)
Theorem C04_knn_classifier_float_end_to_end :
  forall (dq : nat -> PrimFloat.float) (R_ e : nat -> R) (n k : nat) (S : list nat)
         (classes : list PrimFloat.float) (y : list nat) (dmax : PrimFloat.float),
  NoDup S -> length S = k -> 1 <= k -> (Z.of_nat k <= 2 ^ 51)%Z -> (forall s, In s S -> s < n) ->
  (forall s, In s S -> nth s y 0 < length classes) ->
  (forall i, i < n -> ffin (dq i) /\ (Rabs (FR (dq i) - R_ i) <= e i)%R) ->
  (forall s j, In s S -> j < n -> ~ In j S -> (e s + e j < R_ j - R_ s)%R) ->
  let labels := labels_of y S in
  exists c, clf_predict_row FOps dmax infinity (SLinear n) classes y Uniform k dq = Some (nth c classes 0%float) /\
    (forall j, count_occ Nat.eq_dec labels j <= count_occ Nat.eq_dec labels c) /\
    (forall cs, (forall j, j <> cs -> count_occ Nat.eq_dec labels j < count_occ Nat.eq_dec labels cs) ->
       c = cs /\
       forall (classesR : list R) (dmaxR dinfR : R), length classesR = length classes ->
         (forall i, i < n -> (R_ i < dinfR)%R) ->
         clf_predict_row ROps dmaxR dinfR (SLinear n) classesR y Uniform k R_ = Some (nth cs classesR 0%R)).
Proof. exact knn_classifier_float_end_to_end. Qed.

(* non-vacuity on the data of C04_knn_set_float_instance (its hypotheses are the search hypotheses here):
   targets 0.1 and -0.3 at rows 1 and 3 -> finite mean (-0.1 up to rounding); labels 1,1 at rows 1,3 -> class 1 *)
Example C04_knn_float_end_to_end_instance :
  let zs := [3; 1; 4; 2; 9]%Z in
  let dq := fun i => float_of_Z (nth i zs 0%Z) in
  let yr := [7; 0x1.999999999999ap-4; 2.5; -0x1.3333333333333p-2; 1]%float in
  let yc := [0; 1; 2; 1; 0] in
  (Z.of_nat 2 < 2 ^ 53)%Z /\ (Z.of_nat 2 <= 2 ^ 51)%Z /\ (forall s, In s [1; 3] -> nth s yc 0 < 3) /\
  reg_predict_row FOps 0%float infinity (SLinear 5) yr Uniform 2 dq = Some (-0x1.9999999999999p-4)%float /\
  ffin (-0x1.9999999999999p-4)%float /\
  clf_predict_row FOps 0%float infinity (SLinear 5) [10; 20; 30]%float yc Uniform 2 dq = Some 20%float /\
  (forall j, j <> 1 -> count_occ Nat.eq_dec (labels_of yc [1; 3]) j < count_occ Nat.eq_dec (labels_of yc [1; 3]) 1).
Proof.
  cbv zeta. split; [vm_compute; reflexivity|]. split; [vm_compute; discriminate|]. split.
  { intros s [<-|[<-|[]]]; cbn; lia. }
  split; [vm_compute; reflexivity|]. split; [reflexivity|]. split; [vm_compute; reflexivity|].
  intros j Hj. destruct j as [|[|j]]; vm_compute; lia.
Qed.


(* ------------------------------------------------------------------------------------------------ *)
(* The exhaustive scan in binary64, general k, Euclidean metric (error bounds from C17 / C12).       *)
(* ------------------------------------------------------------------------------------------------ *)
From SC Require C17.ProofsFloat.
From SC Require Import C12.ProofsFloatKnn C04.ProofsFloatEuclid.

(* Euclidian::distance in binary64 (euclidF = sqrt of the float squared-distance fold) against the exact
   Euclidean distance of the same float points (euclidR): rows of the query's length p, finite computed
   distances, no underflow in the squared differences (diff_normal_b).  If the k points of S are closer
   than all others with relative margin (1+u)^(p+3) - 1 on the sum of the two distances, the float scan
   and the exact scan return the index set S.  Generalises C12_knn1_euclid_float_robust to every k. *)
Theorem C04_knn_set_euclid_float_robust :
  forall (data : list (list PrimFloat.float)) (q : list PrimFloat.float) (k : nat) (S : list nat),
  let n := length data in
  let p := length q in
  let dq := fun i => euclidF q (nth i data []) in
  let R_ := fun i => euclidR (map FR q) (map FR (nth i data [])) in
  NoDup S -> length S = k -> 1 <= k -> (forall s, In s S -> s < n) ->
  (forall i, i < n -> length (nth i data []) = p /\ ffin (dq i) /\
                      C17.ProofsFloat.diff_normal_b q (nth i data []) = true) ->
  (forall s j, In s S -> j < n -> ~ In j S -> (Eu (p + 3) * (R_ s + R_ j) < R_ j - R_ s)%R) ->
  (exists resF, linear_find PrimFloat.ltb PrimFloat.leb infinity dq n k = Some resF /\
                Permutation S (map fst resF) /\ (forall i d, In (i, d) resF -> d = dq i)) /\
  (forall dinfR, (forall i, i < n -> (R_ i < dinfR)%R) ->
     exists resR, linear_find Rltb Rleb dinfR R_ n k = Some resR /\
                  Permutation S (map fst resR) /\ (forall i d, In (i, d) resR -> d = R_ i)).
Proof. exact knn_set_euclid_float_robust. Qed.

(* non-vacuity: data points (0.1, 0.2), (5.3, 4.1), (-3.7, 6.9), query (5.1, 4.4), k = 2, S = {0, 1} *)
Example C04_knn_set_euclid_float_instance :
  let n := length knn_data in
  let p := length knn_q in
  let dq := fun i => euclidF knn_q (nth i knn_data []) in
  let R_ := fun i => euclidR (map FR knn_q) (map FR (nth i knn_data [])) in
  let S := [0; 1] in
  NoDup S /\ length S = 2 /\ (forall s, In s S -> s < n) /\
  (forall i, i < n -> length (nth i knn_data []) = p /\ ffin (dq i) /\
                      C17.ProofsFloat.diff_normal_b knn_q (nth i knn_data []) = true) /\
  (forall s j, In s S -> j < n -> ~ In j S -> (Eu (p + 3) * (R_ s + R_ j) < R_ j - R_ s)%R) /\
  map fst (match linear_find PrimFloat.ltb PrimFloat.leb infinity dq n 2 with Some r => r | None => [] end) = [0; 1].
Proof.
  cbv zeta. split; [repeat constructor; cbn [In]; lia|]. split; [reflexivity|]. split.
  { intros s [<-|[<-|[]]]; cbn; lia. }
  split; [|split; [|vm_compute; reflexivity]].
  - intros i Hi. destruct i as [|[|[|i]]]; [| | |cbn in Hi; lia]; repeat split; vm_compute; reflexivity.
  - intros s j Hs Hj Hn. destruct Hs as [<-|[<-|[]]];
      (destruct j as [|[|[|j]]]; [exfalso; apply Hn; cbn [In]; tauto | exfalso; apply Hn; cbn [In]; tauto | | cbn in Hj; lia]);
      knn_goal.
Qed.
