(* placeholder while the proofs are being written *)
From Coq Require Import List Arith Bool.
From SC Require Import C04.Model.
Theorem C04_placeholder : with_capacity (A:=nat) 3 = mkHeap 3 0 false nil.
Proof. reflexivity. Qed.
