(* C16 — data splitting never leaks.  Property theorems only; statements are about the executable
   model SC.C16.Model (F32.v for the single-precision size), which the correspondence check ties to
   src/model_selection/{kfold,mod}.rs and `take` of src/linalg/mod.rs.
   `indices` is the index vector after the (optional) shuffle: theorems hold for EVERY rearrangement
   of 0..n-1, the unshuffled case is `indices = seq 0 n`.  `mem i l` is membership as a boolean.
   The estimator (`fit`, `predict`, `score`) is universally quantified.
   The binary32 size theorems (C16_tts_size_within_n, C16_tts_returns_below_2p24,
   C16_tts_size_vs_exact_product; proofs in C16/ProofsF32Bound.v) speak about real numbers:
   `BinarySingleNaN.B2R` is Flocq's real value of a binary32 number, `Raux.Zfloor` / `Raux.Zceil`
   Flocq's integer floor / ceiling of a real, `IZR` the injection of Z into R. *)
From Coq Require Import List Arith Bool Permutation ZArith.
From Coq Require Import Reals.
From Flocq Require Core IEEE754.BinarySingleNaN.
From SC Require Import C16.Model C16.F32 C16.Proofs C16.ProofsTTS C16.ProofsCV C16.ProofsF32 C16.ProofsExt
  C16.ProofsF32Bound.
Import ListNotations.

(* k-fold, every n, every k >= 2, every permutation: exactly k (train, test) pairs; the test sets
   partition 0..n-1; their sizes differ by at most one; each train set is exactly the complement of
   its test set (listed in increasing order). *)
Theorem C16_kfold_partition : forall n k indices, 2 <= k -> Permutation indices (seq 0 n) ->
  exists folds, kfold_split n k indices = Some folds /\
    length folds = k /\
    Permutation (concat (map snd folds)) (seq 0 n) /\
    (forall f g, In f folds -> In g folds -> length (snd f) <= S (length (snd g))) /\
    (forall tr te, In (tr, te) folds -> tr = filter (fun i => negb (mem i te)) (seq 0 n)).
Proof. exact kfold_partition. Qed.

(* n_splits < 2 is rejected (the implementation panics) *)
Theorem C16_kfold_rejects_small_k : forall n k indices, k < 2 -> kfold_split n k indices = None.
Proof. exact kfold_split_small. Qed.

(* without shuffling the test sets are consecutive blocks in order: block j starts at
   j*(n/k) + min(j, n mod k) and has n/k (+1 for the first n mod k folds) elements; concatenated
   in fold order they are 0,1,..,n-1 *)
Theorem C16_kfold_blocks_unshuffled : forall n k, 2 <= k ->
  exists folds, kfold_split n k (seq 0 n) = Some folds /\
    length folds = k /\
    concat (map snd folds) = seq 0 n /\
    forall j, j < k ->
      snd (nth j folds ([], [])) =
      seq (j * (n / k) + Nat.min j (n mod k)) (n / k + (if j <? n mod k then 1 else 0)).
Proof. exact kfold_blocks_unshuffled. Qed.

(* with shuffling the same structure follows the permutation: test set j is exactly (as a set, listed
   in increasing order) the j-th block indices[start_j .. start_j + size_j) of the permuted index
   vector, start_j = j*(n/k) + min(j, n mod k), size_j = n/k (+1 for j < n mod k); for k <= n no
   test set is empty *)
Theorem C16_kfold_tests_follow_permutation : forall n k indices,
  2 <= k -> Permutation indices (seq 0 n) ->
  exists folds, kfold_split n k indices = Some folds /\
    forall j, j < k ->
      Permutation (snd (nth j folds ([], []))) (firstn (fold_size n k j) (skipn (fold_start n k j) indices)) /\
      length (snd (nth j folds ([], []))) = fold_size n k j /\
      (k <= n -> 1 <= fold_size n k j).
Proof. exact kfold_tests_follow_permutation. Qed.

(* train_test_split, any row type, any target type, every permutation, every admissible size:
   the index vector is cut into test = first n_test entries and train = the rest (so the two parts
   are disjoint and together all rows), every returned row/target is the input row/target of its
   index (targets stay attached), and the (row, target) pairs of test ++ train are a permutation
   of the input pairs. *)
Theorem C16_tts_permutation : forall {R T} (dx : R) (dy : T) (x : list R) (y : list T) n_test indices,
  length x = length y -> Permutation indices (seq 0 (length y)) -> 1 <= n_test <= length y ->
  exists te tr x_train x_test y_train y_test,
    train_test_split x y true n_test indices = Some (x_train, x_test, y_train, y_test) /\
    te ++ tr = indices /\ length te = n_test /\ length tr = length y - n_test /\
    NoDup (te ++ tr) /\
    x_test = map (fun i => nth i x dx) te /\ y_test = map (fun i => nth i y dy) te /\
    x_train = map (fun i => nth i x dx) tr /\ y_train = map (fun i => nth i y dy) tr /\
    Permutation (combine x_test y_test ++ combine x_train y_train) (combine x y).
Proof. intros R T. exact (@tts_permutation R T). Qed.

(* shuffling off: the test part is the leading n_test rows in original order, train the rest *)
Theorem C16_tts_unshuffled : forall {R T} (x : list R) (y : list T) n_test,
  length x = length y -> 1 <= n_test <= length y ->
  train_test_split x y true n_test (seq 0 (length y)) =
  Some (skipn n_test x, firstn n_test x, skipn n_test y, firstn n_test y).
Proof. intros R T. exact (@tts_unshuffled R T). Qed.

(* the size: whenever train_test_split (with the binary32 arithmetic of F32.v, test_size given by
   its bit pattern) returns, test_size passed the range test, the test part has exactly
   trunc((n as f32) * test_size) rows (binary32 product, round to nearest even), which is between 1
   and n, and the train part has the rest *)
Theorem C16_tts_size : forall {R T} (x : list R) (y : list T) bits indices x_train x_test y_train y_test,
  Permutation indices (seq 0 (length y)) ->
  train_test_split_f32 x y bits indices = Some (x_train, x_test, y_train, y_test) ->
  let nt := n_test_f32 (length y) (f32_of_bits bits) in
  ts_ok_f32 (f32_of_bits bits) = true /\ length x = length y /\ 1 <= nt <= length y /\
  length x_test = nt /\ length y_test = nt /\
  length x_train = length y - nt /\ length y_train = length y - nt.
Proof. intros R T. exact (@tts_size R T). Qed.

(* FINDING (reported): test_size in (0,1] does not guarantee n_test <= n.  For n = 16777219 > 2^24
   `n as f32` rounds up to 16777220, and with test_size = 1.0 the model (and the implementation:
   `indices[n_test..n]`) fails instead of returning a split. *)
Theorem C16_tts_size_overshoot_witness :
  exists (n : N) (bits : Z),
    ts_ok_f32 (f32_of_bits bits) = true /\
    (Z.of_N n < n_test_f32_Z (Z.of_N n) (f32_of_bits bits))%Z.
Proof. exact tts_size_overshoot_witness. Qed.

(* Below 2^24 rows the overshoot cannot happen: for every n <= 2^24 (n as f32 is then exact) and
   EVERY bit pattern of test_size that passes the range test (including NaN, which passes both
   comparisons and yields size 0) the single-precision size is at most n.  Proved from Flocq's
   specification of binary32 (binary_normalize_correct, Bmult_correct, Btrunc_correct, Bleb/Bltb_correct,
   monotonicity of rounding, integers up to 2^24 are in the format) — no enumeration. *)
Theorem C16_tts_size_within_n : forall (n : nat) (bits : Z), (Z.of_nat n <= 2 ^ 24)%Z ->
    ts_ok_f32 (f32_of_bits bits) = true -> n_test_f32 n (f32_of_bits bits) <= n.
Proof. exact tts_size_within_n. Qed.

(* Consequently, up to 2^24 rows the binary32 model of train_test_split returns (never None, i.e.
   the implementation's `indices[n_test..n]` start > end panic is impossible) exactly when x and y
   have the same number of rows, test_size passes the range test and trunc((n as f32)*test_size) >= 1:
   the known finding tts-size-overshoot-above-2p24 can only occur above 2^24 rows. *)
Theorem C16_tts_returns_below_2p24 : forall {R T} (x : list R) (y : list T) bits indices,
  Permutation indices (seq 0 (length y)) -> (Z.of_nat (length y) <= 2 ^ 24)%Z ->
  ((exists r, train_test_split_f32 x y bits indices = Some r) <->
   (length x = length y /\ ts_ok_f32 (f32_of_bits bits) = true /\
    1 <= n_test_f32 (length y) (f32_of_bits bits))).
Proof. intros R T. exact (@tts_f32_returns_iff R T). Qed.

(* The single-precision size against the EXACT real product p = n * test_size (B2R = the real value
   of the binary32 number; 0 for NaN), n <= 2^24, every accepted bit pattern:
     floor(p) <= n_test <= ceil(p)
   so the size is the mathematically intended floor(n*test_size) or that plus one, it is exact
   whenever p is an integer, and it can be floor(p)+1 only if p lies within a relative 2^-24 below
   that integer, (n_test - p) * 2^24 <= n_test (the binary32 product was rounded up to it). *)
Theorem C16_tts_size_vs_exact_product : forall (n : nat) (bits : Z), (Z.of_nat n <= 2 ^ 24)%Z ->
  ts_ok_f32 (f32_of_bits bits) = true ->
  let p := (IZR (Z.of_nat n) * BinarySingleNaN.B2R (f32_of_bits bits))%R in
  let nt := Z.of_nat (n_test_f32 n (f32_of_bits bits)) in
  (Raux.Zfloor p <= nt <= Raux.Zceil p)%Z /\ ((IZR nt - p) * IZR (2 ^ 24) <= IZR nt)%R.
Proof. exact tts_size_vs_exact_product. Qed.

(* ... and the upper bound is attained (so "floor(n*test_size)" alone would be false):
   n = 10, test_size = 0.7f32 = 0.699999988..., p = 6.99999988..., n_test = 7 = floor(p) + 1 *)
Theorem C16_tts_size_rounds_up_witness :
  exists (n : nat) (bits : Z), (Z.of_nat n <= 2 ^ 24)%Z /\ ts_ok_f32 (f32_of_bits bits) = true /\
    Z.of_nat (n_test_f32 n (f32_of_bits bits)) =
    (Raux.Zfloor (IZR (Z.of_nat n) * BinarySingleNaN.B2R (f32_of_bits bits))%R + 1)%Z.
Proof. exact tts_size_rounds_up_witness. Qed.

(* cross_val_predict, every estimator, every permutation: whenever it returns, the result has one
   entry per sample, and for every sample i there is exactly the fold (tr, te) whose test set holds
   i (at position pos): the model m that produced the value stored at position i was fitted on
   `take x tr`, `take y tr` with i NOT in tr, was asked to predict `take x te`, and the stored value
   is its pos-th prediction — no sample is predicted by a model that has seen it, and every
   held-out prediction lands at the sample's original position. *)
Theorem C16_cv_predict_no_leakage :
  forall {R T M : Type} (zero : T) (fit : list R -> list T -> option M)
         (predict : M -> list R -> option (list T))
         n k indices (x : list R) (y : list T) out,
    2 <= k -> length x = n -> Permutation indices (seq 0 n) ->
    cross_val_predict zero fit predict k indices x y = Some out ->
    exists folds, kfold_split n k indices = Some folds /\
      length out = length y /\
      forall i, i < n ->
        exists tr te m preds pos,
          In (tr, te) folds /\ nth_error te pos = Some i /\ ~ In i tr /\
          fold_run fit predict x y tr te m preds /\
          exists v, nth_error preds pos = Some v /\ nth_error out i = Some v.
Proof. intros R T M. exact (@cv_predict_no_leakage R T M). Qed.

(* cross_validate: k test scores and k train scores; score j comes from one model fitted on exactly
   the training rows of fold j and scored on exactly its held-out rows (resp. its training rows);
   the two row sets of a fold are disjoint. *)
Theorem C16_cv_scores_out_of_fold :
  forall {R T M Sc : Type} (fit : list R -> list T -> option M)
         (predict : M -> list R -> option (list T)) (score : list T -> list T -> Sc)
         n k indices (x : list R) (y : list T) test_score train_score,
    2 <= k -> length x = n -> Permutation indices (seq 0 n) ->
    cross_validate fit predict score k indices x y = Some (test_score, train_score) ->
    exists folds, kfold_split n k indices = Some folds /\
      length test_score = k /\ length train_score = k /\
      forall j tr te, nth_error folds j = Some (tr, te) ->
        (forall i, In i te -> ~ In i tr) /\
        exists s_train s_test,
          nth_error train_score j = Some s_train /\ nth_error test_score j = Some s_test /\
          fold_scores fit predict score x y tr te s_train s_test.
Proof. intros R T M Sc. exact (@cv_scores_out_of_fold R T M Sc). Qed.

(* ---------- the hypotheses are satisfiable / the functions do return on real instances ---------- *)
Example C16_kfold_instance :
  kfold_split 7 3 [3; 1; 6; 0; 2; 5; 4] =
  Some [([0; 2; 4; 5], [1; 3; 6]); ([1; 3; 4; 5; 6], [0; 2]); ([0; 1; 2; 3; 6], [4; 5])]
  /\ Permutation [3; 1; 6; 0; 2; 5; 4] (seq 0 7).
Proof. split; [reflexivity|]. apply perm_check_sound. reflexivity. Qed.

Example C16_tts_instance :
  train_test_split_f32 [10; 11; 12; 13; 14] [20; 21; 22; 23; 24] 0x3F000000 (* 0.5 *) [4; 2; 0; 1; 3]
  = Some ([10; 11; 13], [14; 12], [20; 21; 23], [24; 22])
  /\ Permutation [4; 2; 0; 1; 3] (seq 0 5).
Proof. split; [vm_compute; reflexivity|]. apply perm_check_sound. reflexivity. Qed.

Example C16_tts_size_instance :
  n_test_f32 123 (f32_of_bits 0x3E4CCCCD) = 24 /\ ts_ok_f32 (f32_of_bits 0x3E4CCCCD) = true /\
  n_test_f32 10 (f32_of_bits 0x3F333333) = 7.
Proof. exact tts_size_instance. Qed.

(* an estimator that remembers its training rows and predicts (sum of training rows + row):
   cross_val_predict and cross_validate return on it *)
Example C16_cv_instance :
  let fit := fun (rows : list nat) (ys : list nat) => Some (list_sum rows + list_sum ys) in
  let predict := fun (m : nat) (rows : list nat) => Some (map (fun r => m + r) rows) in
  let score := fun (a b : list nat) => list_sum a + list_sum b in
  cross_val_predict 0 fit predict 2 [2; 0; 3; 1; 4] [0; 1; 2; 3; 4] [10; 10; 10; 10; 10]
    = Some [25; 36; 27; 28; 39] /\
  cross_validate fit predict score 2 [2; 0; 3; 1; 4] [0; 1; 2; 3; 4] [10; 10; 10; 10; 10]
    = Some ([110; 95], [75; 140]).
Proof. split; vm_compute; reflexivity. Qed.

(* hypotheses of C16_tts_size_within_n / C16_tts_size_vs_exact_product at the boundary n = 2^24
   (Z version of the size: a unary nat of that magnitude is not computable), test_size = 1.0 and
   the largest binary32 below 1.0 *)
Example C16_tts_size_boundary_instance :
  (16777216 <= 2 ^ 24)%Z /\ ts_ok_f32 (f32_of_bits 0x3F800000) = true /\
  n_test_f32_Z 16777216 (f32_of_bits 0x3F800000) = 16777216%Z /\
  ts_ok_f32 (f32_of_bits 0x3F7FFFFF) = true /\
  n_test_f32_Z 16777216 (f32_of_bits 0x3F7FFFFF) = 16777215%Z.
Proof. repeat split; vm_compute; try reflexivity; discriminate. Qed.

(* the right-hand side of C16_tts_returns_below_2p24 on the instance above *)
Example C16_tts_returns_instance :
  Permutation [4; 2; 0; 1; 3] (seq 0 (length [20; 21; 22; 23; 24])) /\
  (Z.of_nat (length [20; 21; 22; 23; 24]) <= 2 ^ 24)%Z /\
  length [10; 11; 12; 13; 14] = length [20; 21; 22; 23; 24] /\
  ts_ok_f32 (f32_of_bits 0x3F000000) = true /\
  1 <= n_test_f32 (length [20; 21; 22; 23; 24]) (f32_of_bits 0x3F000000).
Proof.
  split; [apply perm_check_sound; reflexivity|].
  split; [vm_compute; discriminate|]. split; [reflexivity|]. split; vm_compute; [reflexivity|].
  apply le_S, le_n.
Qed.
