(* C16 — data splitting never leaks.  Property theorems only; statements are about the executable
   model SC.C16.Model (F32.v for the single-precision size), which the correspondence check ties to
   src/model_selection/{kfold,mod}.rs and `take` of src/linalg/mod.rs.
   `indices` is the index vector after the (optional) shuffle: theorems hold for EVERY rearrangement
   of 0..n-1, the unshuffled case is `indices = seq 0 n`.  `mem i l` is membership as a boolean. *)
From Coq Require Import List Arith Bool Permutation.
From SC Require Import C16.Model C16.Proofs.
Import ListNotations.

(* k-fold: exactly k (train, test) pairs; the test sets partition 0..n-1; their sizes differ by at
   most one; each train set is exactly the complement of its test set (in increasing order). *)
Theorem C16_kfold_partition : forall n k indices, 2 <= k -> Permutation indices (seq 0 n) ->
  exists folds, kfold_split n k indices = Some folds /\
    length folds = k /\
    Permutation (concat (map snd folds)) (seq 0 n) /\
    (forall f g, In f folds -> In g folds -> length (snd f) <= S (length (snd g))) /\
    (forall tr te, In (tr, te) folds -> tr = filter (fun i => negb (mem i te)) (seq 0 n)).
Proof. exact kfold_partition. Qed.

Example C16_kfold_instance :
  kfold_split 7 3 [3; 1; 6; 0; 2; 5; 4] =
  Some [([0; 2; 4; 5], [1; 3; 6]); ([1; 3; 4; 5; 6], [0; 2]); ([0; 1; 2; 3; 6], [4; 5])]
  /\ Permutation [3; 1; 6; 0; 2; 5; 4] (seq 0 7).
Proof. split; [reflexivity|]. apply perm_check_sound. reflexivity. Qed.
