(* C10 — SVM (SVC and SVR).  Property theorems only; each is closed by the lemma proved in
   SC.C10.Proofs*.  Statements are about the real-number instance (ROps) of the executable model
   SC.C10.Model, which the correspondence check ties to src/svm/{svc,svr,mod}.rs by replaying the
   implementation's own hook traces / visiting orders / serde state through the binary64 instance.

   Vocabulary (definitions in C10/ProofsSVC.v, C10/ProofsSVR.v):
     svc_inv c xs ys l   every support vector v of l is training row `sv_index v` (x = xs[index]),
                         its box (cmin,cmax) is (0,c) if ys[index] > 0 and (-c,0) otherwise,
                         cmin <= alpha <= cmax, and the alphas sum to zero;
     svr_inv c l         0 <= alpha0, alpha1 <= c for every vector and sum (alpha1 - alpha0) = 0;
     ginv K eps ys l     grad0 = eps + y - f0(x) and grad1 = eps - y + f0(x) for every vector,
                         where f0(x) = sum_u (alpha1_u - alpha0_u) K(x_u, x);
     expansion K inst w x = sum_i w_i K(x, inst_i);  rsum h l = sum of h over l. *)
From Coq Require Import List ZArith Reals Lra Lia Bool Arith Floats.
From SC Require Import Base.Num C10.Model C10.ProofsSVC C10.ProofsSVR C10.ProofsKernel.
Import ListNotations.
Local Open Scope R_scope.

(* ---------------------------------------------------------------------------------------------- *)
(* SVC                                                                                            *)
(* ---------------------------------------------------------------------------------------------- *)

(* The clipped step itself: whatever raw step the heuristics propose, the clipped one keeps both
   coefficients of the pair inside their boxes. *)
Theorem C10_svc_clip_feasible : forall a1 lo1 hi1 a2 lo2 hi2 raw,
  lo1 <= a1 <= hi1 -> lo2 <= a2 <= hi2 ->
  let s := smo_clip ROps a1 lo1 hi1 a2 lo2 hi2 raw in
  lo1 <= a1 - s <= hi1 /\ lo2 <= a2 + s <= hi2.
Proof. exact smo_clip_feasible. Qed.

(* svc_step_feasible: for EVERY pair of positions (also v1 = v2) and EVERY raw step, the update of
   `smo` (alpha[v1] -= step, alpha[v2] += step with the clipped step) keeps the invariant. *)
Theorem C10_svc_step_feasible : forall c xs ys l v1 v2 s1 s2 raw,
  svc_inv c xs ys l -> nth_error l v1 = Some s1 -> nth_error l v2 = Some s2 ->
  svc_inv c xs ys
    (update_alpha ROps v1 v2
       (smo_clip ROps s1.(sv_alpha) s1.(sv_cmin) s1.(sv_cmax) s2.(sv_alpha) s2.(sv_cmin) s2.(sv_cmax) raw) l).
Proof. exact update_alpha_inv. Qed.

(* svc_run_feasible, abstract form: ANY sequence of the optimizer's operations — insert a training
   row with alpha = 0, a clipped pair update on any pair with any raw step, a gradient update, a
   removal of any vectors with alpha = 0 — keeps the invariant.  Every visiting order and every
   outcome of the pair selection is such a sequence. *)
Theorem C10_svc_run_feasible : forall K c xs ys, 0 <= c -> forall ops l,
  Forall (op_ok xs ys) ops -> svc_inv c xs ys l ->
  svc_inv c xs ys (fold_left (fun l o => apply_op K c o l) ops l).
Proof. exact run_ops_inv. Qed.

(* svc_run_feasible on the transliterated optimizer: for EVERY visiting order drawn by initialize
   (perm0) and by each epoch (perms), every kernel, tolerance and fuel: whenever `optimize` returns,
   its support vectors satisfy the invariant. *)
Theorem C10_svc_optimize_feasible : forall K tau big nbig c tol xs ys, 0 <= c ->
  forall fuel perm0 perms st b,
  optimize ROps K tau big nbig c tol xs ys fuel perm0 perms = Some (st, b) ->
  svc_inv c xs ys (st_sv st).
Proof. exact optimize_inv. Qed.

(* The fitted classifier (classes, instances, w, b) of `SVC::fit`, for every schedule: the
   coefficients sum to zero, every support vector is a training row, and its coefficient lies
   between 0 and C in the direction of its own sample's class (the smaller class value c0 is the
   negative class).  [svc_sv_are_training_rows + feasibility] *)
Theorem C10_svc_fit_feasible : forall K tau big nbig c tol fuel xs y perm0 perms c0 c1 inst w b,
  0 <= c ->
  svc_fit ROps K tau big nbig c tol fuel xs y perm0 perms = Some (c0, c1, inst, w, b) ->
  length inst = length w /\
  rsum (fun a => a) w = 0 /\
  forall k s wk, nth_error inst k = Some s -> nth_error w k = Some wk ->
    exists i yi, nth_error xs i = Some s /\ nth_error y i = Some yi /\
                 (yi <> c0 -> 0 <= wk <= c) /\ (yi = c0 -> - c <= wk <= 0).
Proof. exact svc_fit_feasible. Qed.

(* decision_function = b + sum_i w_i K(x, sv_i) *)
Theorem C10_svc_decision_expansion : forall K inst w b x,
  decision ROps K inst w b x = b + expansion K inst w x.
Proof. exact decision_expansion. Qed.

(* the predicted label is the larger class value exactly when the decision value is positive *)
Theorem C10_svc_predict_sign : forall K c0 c1 inst w b x,
  (0 < b + expansion K inst w x -> svc_predict ROps K c0 c1 inst w b x = c1) /\
  (b + expansion K inst w x <= 0 -> svc_predict ROps K c0 c1 inst w b x = c0).
Proof. exact predict_sign. Qed.

(* ---------------------------------------------------------------------------------------------- *)
(* SVR                                                                                            *)
(* ---------------------------------------------------------------------------------------------- *)

(* svr_step_feasible, scalar form: both clipping branches, every delta. *)
Theorem C10_svr_clip_feasible : forall c ai aj d, 0 <= ai <= c -> 0 <= aj <= c ->
  (0 <= fst (svr_clip_ne ROps c ai aj d) <= c /\ 0 <= snd (svr_clip_ne ROps c ai aj d) <= c /\
   fst (svr_clip_ne ROps c ai aj d) - snd (svr_clip_ne ROps c ai aj d) = ai - aj) /\
  (0 <= fst (svr_clip_eq ROps c ai aj d) <= c /\ 0 <= snd (svr_clip_eq ROps c ai aj d) <= c /\
   fst (svr_clip_eq ROps c ai aj d) + snd (svr_clip_eq ROps c ai aj d) = ai + aj).
Proof.
  intros c ai aj d H1 H2. split.
  - exact (svr_clip_ne_feasible c ai aj d H1 H2).
  - exact (svr_clip_eq_feasible c ai aj d H1 H2).
Qed.

(* svr_step_feasible, state form: one iteration on ANY pair of distinct coefficients ((v1,i),(v2,j))
   with ANY unclipped step keeps 0 <= alpha <= C everywhere and sum w = 0. *)
Theorem C10_svr_step_feasible : forall K c l l' v1 i v2 j delta,
  (i < 2)%nat -> (j < 2)%nat ->
  svr_step ROps K c v1 i v2 j delta l = Some l' -> svr_inv c l -> svr_inv c l'.
Proof.
  intros K c l l' v1 i v2 j delta Hi Hj Hs Hinv.
  exact (proj1 (svr_step_inv K c 0 [] l l' v1 i v2 j delta Hi Hj Hs Hinv)).
Qed.

(* svr_gradient_invariant: the same iteration keeps grad = eps +- (y - f0(x)), i.e. the code's
   incremental gradient maintenance is exact for every pair and every step. *)
Theorem C10_svr_gradient_invariant : forall K c eps ys l l' v1 i v2 j delta,
  (i < 2)%nat -> (j < 2)%nat ->
  svr_step ROps K c v1 i v2 j delta l = Some l' -> svr_inv c l ->
  ginv K eps ys l -> ginv K eps ys l'.
Proof.
  intros K c eps ys l l' v1 i v2 j delta Hi Hj Hs Hinv.
  exact (proj1 (proj2 (svr_step_inv K c eps ys l l' v1 i v2 j delta Hi Hj Hs Hinv))).
Qed.

(* svr_exit_kkt: for every training set, symmetric kernel, C > 0, eps >= 0, tolerance and fuel:
   whenever the transliterated `Optimizer::smo` returns, the state is feasible, holds one vector per
   training row in order, and every training point satisfies its epsilon-insensitive optimality
   condition within tol/2 with respect to the model (instances, w, b) that `fit` returns:
   zero weight -> inside the tube; 0 < |w| < C -> on its boundary (on the side of the weight's
   sign); |w| = C -> on or outside it. *)
Theorem C10_svr_exit_kkt : forall K tau big nbig c tol eps xs ys,
  0 < c -> length xs = length ys -> (forall x y, K x y = K y x) -> 0 <= eps ->
  forall fuel l m,
  svr_smo ROps K tau big nbig c tol fuel eps xs ys = Some (l, m) ->
  svr_inv c l /\
  map (r_index (T:=R)) l = seq 0 (length xs) /\
  forall v, In v l ->
    exists y, nth_error xs (r_index v) = Some (r_x v) /\ nth_error ys (r_index v) = Some y /\
    let res := y - decision ROps K (svr_instances ROps l) (svr_weights ROps l) (svr_b ROps m) (r_x v) in
    let w := svr_w ROps v in
    (w = 0 -> - eps - tol / 2 <= res <= eps + tol / 2) /\
    (0 < w < c -> eps - tol / 2 <= res <= eps + tol / 2) /\
    (- c < w < 0 -> - eps - tol / 2 <= res <= - eps + tol / 2) /\
    (w = c -> eps - tol / 2 <= res) /\
    (w = - c -> res <= - eps + tol / 2).
Proof. exact svr_smo_kkt. Qed.

(* svr_expansion: the regressor's prediction on its returned (instances, w, b) — only vectors with
   alpha0 <> alpha1 are kept — equals b + sum over ALL training rows of (alpha1 - alpha0) K(x_u, x). *)
Theorem C10_svr_expansion : forall K, (forall x y, K x y = K y x) -> forall l b x,
  decision ROps K (svr_instances ROps l) (svr_weights ROps l) b x = b + f0 K l x.
Proof. intros K Hs l b x. rewrite decision_expansion, (expansion_all K Hs). reflexivity. Qed.

(* ---------------------------------------------------------------------------------------------- *)
(* Kernels                                                                                        *)
(* ---------------------------------------------------------------------------------------------- *)
Theorem C10_kernel_closed_forms : forall gamma coef0 degree n th x y,
  k_linear ROps x y = rdot x y /\
  k_rbf ROps gamma x y = exp (- gamma * rsqdist x y) /\
  k_poly ROps (fun b _ => opown ROps b n) degree gamma coef0 x y = (gamma * rdot x y + coef0) ^ n /\
  k_sigmoid ROps th gamma coef0 x y = th (gamma * rdot x y + coef0) /\
  (forall z, otanh ROps z = tanh z).
Proof.
  intros. split; [apply k_linear_closed|]. split; [apply k_rbf_closed|]. split; [apply k_poly_closed|].
  split; [apply k_sigmoid_closed | exact otanh_tanh].
Qed.

Theorem C10_kernel_symmetric : forall gamma coef0 degree pw th x y,
  k_linear ROps x y = k_linear ROps y x /\
  k_rbf ROps gamma x y = k_rbf ROps gamma y x /\
  k_poly ROps pw degree gamma coef0 x y = k_poly ROps pw degree gamma coef0 y x /\
  k_sigmoid ROps th gamma coef0 x y = k_sigmoid ROps th gamma coef0 y x.
Proof.
  intros. split; [apply k_linear_sym|]. split; [apply k_rbf_sym|]. split; [apply k_poly_sym | apply k_sigmoid_sym].
Qed.

(* linear Gram matrices are positive semi-definite: for every finite family of (coefficient, row)
   pairs, sum_a sum_b c_a c_b <x_a, x_b> >= 0 (it is a sum of squares) *)
Theorem C10_linear_gram_psd : forall cxs : list (R * list R),
  0 <= rsum (fun a => rsum (fun b => fst a * fst b * k_linear ROps (snd a) (snd b)) cxs) cxs.
Proof. exact linear_gram_psd. Qed.

(* ---------------------------------------------------------------------------------------------- *)
(* Not proved (searched on every run): stated here so that the gap stays visible.                  *)
(* ---------------------------------------------------------------------------------------------- *)
(* SVR termination: for a positive semi-definite kernel some amount of fuel suffices. *)
Definition C10_svr_terminates_full_statement : Prop :=
  forall K tau big nbig c tol eps xs ys,
    0 < c -> 0 < tol -> 0 < tau -> nbig < 0 < big -> length xs = length ys ->
    (forall x y, K x y = K y x) ->
    (forall cxs : list (R * list R), 0 <= rsum (fun a => rsum (fun b => fst a * fst b * K (snd a) (snd b)) cxs) cxs) ->
    exists fuel, svr_smo ROps K tau big nbig c tol fuel eps xs ys <> None.
(* RBF Gram matrices are positive semi-definite. *)
Definition C10_rbf_gram_psd_full_statement : Prop :=
  forall gamma (cxs : list (R * list R)), 0 <= gamma ->
    0 <= rsum (fun a => rsum (fun b => fst a * fst b * k_rbf ROps gamma (snd a) (snd b)) cxs) cxs.
(* what is proved of it: unit diagonal and entries in (0,1], hence every 2x2 RBF Gram matrix is PSD *)
Theorem C10_rbf_gram_psd_partial : forall gamma x y c1 c2, 0 <= gamma ->
  k_rbf ROps gamma x x = 1 /\ 0 < k_rbf ROps gamma x y <= 1 /\
  0 <= c1 * c1 * k_rbf ROps gamma x x + c1 * c2 * k_rbf ROps gamma x y
       + c2 * c1 * k_rbf ROps gamma y x + c2 * c2 * k_rbf ROps gamma y y.
Proof. exact rbf_two_point_psd. Qed.

(* ---------------------------------------------------------------------------------------------- *)
(* The hypotheses are satisfiable                                                                  *)
(* ---------------------------------------------------------------------------------------------- *)
(* a feasible two-vector state (C = 1, one vector of each class), and a clipped step on it *)
Example C10_svc_inv_instance :
  let xs := [[1]; [-1]] in let ys := [1; -1] in
  let l := [mkSV 0 [1] (1/2) 0 0 1 1; mkSV 1 [-1] (-1/2) 0 (-1) 0 1] in
  svc_inv 1 xs ys l /\
  svc_inv 1 xs ys (update_alpha ROps 1 0 (smo_clip ROps (-1/2) (-1) 0 (1/2) 0 1 5) l).
Proof.
  cbv zeta.
  assert (H : svc_inv 1 [[1]; [-1]] [1; -1] [mkSV 0 [1] (1/2) 0 0 1 1; mkSV 1 [-1] (-1/2) 0 (-1) 0 1]).
  { split.
    - constructor; [|constructor; [|constructor]]; unfold sv_ok; cbn.
      + split; [lra|]. split; [reflexivity|]. exists 1. split; [reflexivity|]. left. lra.
      + split; [lra|]. split; [reflexivity|]. exists (-1). split; [reflexivity|]. right. lra.
    - cbn. lra. }
  split; [exact H|].
  exact (update_alpha_inv 1 _ _ _ 1%nat 0%nat _ _ 5 H eq_refl eq_refl).
Qed.

(* a feasible regression state with exact gradients: two rows, weights +1/2 and -1/2 *)
Example C10_svr_inv_instance :
  svr_inv 1 [mkRSV 0 [1] 0 (1/2) 0 0 1; mkRSV 1 [2] (1/2) 0 0 0 4].
Proof.
  split.
  - constructor; [|constructor; [|constructor]]; unfold r_box; cbn; lra.
  - cbn. unfold wR; cbn. lra.
Qed.

(* the transliterated optimizers do return (binary64 instance, executed): a four-row classifier fit on
   the identity visiting orders and a four-row regression fit *)
Example C10_svc_fit_returns :
  exists r, svc_fit FOps (k_linear FOps) 0x1.19799812dea11p-40%float 0x1.fffffffffffffp+1023%float
              (-0x1.fffffffffffffp+1023)%float 1%float 0x1.0624dd2f1a9fcp-10%float 1000
              [[1]; [2]; [-1]; [-3]]%float [1; 1; 0; 0]%float [0; 1; 2; 3]%nat [[3; 1; 0; 2]]%nat = Some r.
Proof. eexists. vm_compute. reflexivity. Qed.

Example C10_svr_smo_returns :
  exists r, svr_smo FOps (k_linear FOps) 0x1.19799812dea11p-40%float 0x1.fffffffffffffp+1023%float
              (-0x1.fffffffffffffp+1023)%float 1%float 0x1.0624dd2f1a9fcp-10%float 1000 0x1p-3%float
              [[1]; [2]; [-1]; [-3]]%float [1; 2.5; -1; -2]%float = Some r.
Proof. eexists. vm_compute. reflexivity. Qed.
