(* C10 — SVM (SVC and SVR).  Property theorems only; each is closed by the lemma proved in
   SC.C10.Proofs*.  Statements are about the real-number instance (ROps) of the executable model
   SC.C10.Model, which the correspondence check ties to src/svm/{svc,svr,mod}.rs by replaying the
   implementation's own hook traces / visiting orders / serde state through the binary64 instance.

   Vocabulary (definitions in C10/ProofsSVC.v, C10/ProofsSVR.v):
     svc_inv c xs ys l   every support vector v of l is training row `sv_index v` (x = xs[index]),
                         its box (cmin,cmax) is (0,c) if ys[index] > 0 and (-c,0) otherwise,
                         cmin <= alpha <= cmax, and the alphas sum to zero;
     svr_inv c l         0 <= alpha0, alpha1 <= c for every vector and sum (alpha1 - alpha0) = 0;
     ginv K eps ys l     grad0 = eps + y - f0(x) and grad1 = eps - y + f0(x) for every vector,
                         where f0(x) = sum_u (alpha1_u - alpha0_u) K(x_u, x);
     expansion K inst w x = sum_i w_i K(x, inst_i);  rsum h l = sum of h over l.
   (C10/ProofsSVR.v, C10/ProofsSVRDescent.v:)
     loop_inv K c eps ys l m   svr_inv c l, ginv K eps ys l, and the min/max record m is consistent with l
                         (coefficient kinds < 2, gmin/gmax bound the gradients of the movable coefficients);
     xk_ok K xs v        r_x v is a training row (In xs) and the cached r_k v = K(r_x v, r_x v);
     clip c i j oi oj d  the clipped pair of `svr_step` (svr_clip_eq if i = j, svr_clip_ne otherwise);
     svr_dual K eps ys l the epsilon-insensitive dual objective, written out in C10_svr_dual_objective_form.
   Gram-matrix statements are written out: for a list cxs of (coefficient, row) pairs the quadratic form
   is  sum_a sum_b c_a c_b K(x_a, x_b). *)
From Coq Require Import List ZArith Reals Lra Lia Bool Arith Floats.
From SC Require Import Base.Num C10.Model C10.ProofsSVC C10.ProofsSVR C10.ProofsKernel C10.ProofsPSD C10.ProofsSVRPSD C10.ProofsSVRDescent.
Import ListNotations.
Local Open Scope R_scope.

(* ---------------------------------------------------------------------------------------------- *)
(* SVC                                                                                            *)
(* ---------------------------------------------------------------------------------------------- *)

(* The clipped step itself: whatever raw step the heuristics propose, the clipped one keeps both
   coefficients of the pair inside their boxes. *)
Theorem C10_svc_clip_feasible : forall a1 lo1 hi1 a2 lo2 hi2 raw,
  lo1 <= a1 <= hi1 -> lo2 <= a2 <= hi2 ->
  let s := smo_clip ROps a1 lo1 hi1 a2 lo2 hi2 raw in
  lo1 <= a1 - s <= hi1 /\ lo2 <= a2 + s <= hi2.
Proof. exact smo_clip_feasible. Qed.

(* svc_step_feasible: for EVERY pair of positions (also v1 = v2) and EVERY raw step, the update of
   `smo` (alpha[v1] -= step, alpha[v2] += step with the clipped step) keeps the invariant. *)
Theorem C10_svc_step_feasible : forall c xs ys l v1 v2 s1 s2 raw,
  svc_inv c xs ys l -> nth_error l v1 = Some s1 -> nth_error l v2 = Some s2 ->
  svc_inv c xs ys
    (update_alpha ROps v1 v2
       (smo_clip ROps s1.(sv_alpha) s1.(sv_cmin) s1.(sv_cmax) s2.(sv_alpha) s2.(sv_cmin) s2.(sv_cmax) raw) l).
Proof. exact update_alpha_inv. Qed.

(* svc_run_feasible, abstract form: ANY sequence of the optimizer's operations — insert a training
   row with alpha = 0, a clipped pair update on any pair with any raw step, a gradient update, a
   removal of any vectors with alpha = 0 — keeps the invariant.  Every visiting order and every
   outcome of the pair selection is such a sequence. *)
Theorem C10_svc_run_feasible : forall K c xs ys, 0 <= c -> forall ops l,
  Forall (op_ok xs ys) ops -> svc_inv c xs ys l ->
  svc_inv c xs ys (fold_left (fun l o => apply_op K c o l) ops l).
Proof. exact run_ops_inv. Qed.

(* svc_run_feasible on the transliterated optimizer: for EVERY visiting order drawn by initialize
   (perm0) and by each epoch (perms), every kernel, tolerance and fuel: whenever `optimize` returns,
   its support vectors satisfy the invariant. *)
Theorem C10_svc_optimize_feasible : forall K tau big nbig c tol xs ys, 0 <= c ->
  forall fuel perm0 perms st b,
  optimize ROps K tau big nbig c tol xs ys fuel perm0 perms = Some (st, b) ->
  svc_inv c xs ys (st_sv st).
Proof. exact optimize_inv. Qed.

(* The fitted classifier (classes, instances, w, b) of `SVC::fit`, for every schedule: the
   coefficients sum to zero, every support vector is a training row, and its coefficient lies
   between 0 and C in the direction of its own sample's class (the smaller class value c0 is the
   negative class).  [svc_sv_are_training_rows + feasibility] *)
Theorem C10_svc_fit_feasible : forall K tau big nbig c tol fuel xs y perm0 perms c0 c1 inst w b,
  0 <= c ->
  svc_fit ROps K tau big nbig c tol fuel xs y perm0 perms = Some (c0, c1, inst, w, b) ->
  length inst = length w /\
  rsum (fun a => a) w = 0 /\
  forall k s wk, nth_error inst k = Some s -> nth_error w k = Some wk ->
    exists i yi, nth_error xs i = Some s /\ nth_error y i = Some yi /\
                 (yi <> c0 -> 0 <= wk <= c) /\ (yi = c0 -> - c <= wk <= 0).
Proof. exact svc_fit_feasible. Qed.

(* decision_function = b + sum_i w_i K(x, sv_i) *)
Theorem C10_svc_decision_expansion : forall K inst w b x,
  decision ROps K inst w b x = b + expansion K inst w x.
Proof. exact decision_expansion. Qed.

(* the predicted label is the larger class value exactly when the decision value is positive *)
Theorem C10_svc_predict_sign : forall K c0 c1 inst w b x,
  (0 < b + expansion K inst w x -> svc_predict ROps K c0 c1 inst w b x = c1) /\
  (b + expansion K inst w x <= 0 -> svc_predict ROps K c0 c1 inst w b x = c0).
Proof. exact predict_sign. Qed.

(* ---------------------------------------------------------------------------------------------- *)
(* SVR                                                                                            *)
(* ---------------------------------------------------------------------------------------------- *)

(* svr_step_feasible, scalar form: both clipping branches, every delta. *)
Theorem C10_svr_clip_feasible : forall c ai aj d, 0 <= ai <= c -> 0 <= aj <= c ->
  (0 <= fst (svr_clip_ne ROps c ai aj d) <= c /\ 0 <= snd (svr_clip_ne ROps c ai aj d) <= c /\
   fst (svr_clip_ne ROps c ai aj d) - snd (svr_clip_ne ROps c ai aj d) = ai - aj) /\
  (0 <= fst (svr_clip_eq ROps c ai aj d) <= c /\ 0 <= snd (svr_clip_eq ROps c ai aj d) <= c /\
   fst (svr_clip_eq ROps c ai aj d) + snd (svr_clip_eq ROps c ai aj d) = ai + aj).
Proof.
  intros c ai aj d H1 H2. split.
  - exact (svr_clip_ne_feasible c ai aj d H1 H2).
  - exact (svr_clip_eq_feasible c ai aj d H1 H2).
Qed.

(* svr_step_feasible, state form: one iteration on ANY pair of distinct coefficients ((v1,i),(v2,j))
   with ANY unclipped step keeps 0 <= alpha <= C everywhere and sum w = 0. *)
Theorem C10_svr_step_feasible : forall K c l l' v1 i v2 j delta,
  (i < 2)%nat -> (j < 2)%nat ->
  svr_step ROps K c v1 i v2 j delta l = Some l' -> svr_inv c l -> svr_inv c l'.
Proof.
  intros K c l l' v1 i v2 j delta Hi Hj Hs Hinv.
  exact (proj1 (svr_step_inv K c 0 [] l l' v1 i v2 j delta Hi Hj Hs Hinv)).
Qed.

(* svr_gradient_invariant: the same iteration keeps grad = eps +- (y - f0(x)), i.e. the code's
   incremental gradient maintenance is exact for every pair and every step. *)
Theorem C10_svr_gradient_invariant : forall K c eps ys l l' v1 i v2 j delta,
  (i < 2)%nat -> (j < 2)%nat ->
  svr_step ROps K c v1 i v2 j delta l = Some l' -> svr_inv c l ->
  ginv K eps ys l -> ginv K eps ys l'.
Proof.
  intros K c eps ys l l' v1 i v2 j delta Hi Hj Hs Hinv.
  exact (proj1 (proj2 (svr_step_inv K c eps ys l l' v1 i v2 j delta Hi Hj Hs Hinv))).
Qed.

(* svr_exit_kkt: for every training set, symmetric kernel, C > 0, eps >= 0, tolerance and fuel:
   whenever the transliterated `Optimizer::smo` returns, the state is feasible, holds one vector per
   training row in order, and every training point satisfies its epsilon-insensitive optimality
   condition within tol/2 with respect to the model (instances, w, b) that `fit` returns:
   zero weight -> inside the tube; 0 < |w| < C -> on its boundary (on the side of the weight's
   sign); |w| = C -> on or outside it. *)
Theorem C10_svr_exit_kkt : forall K tau big nbig c tol eps xs ys,
  0 < c -> length xs = length ys -> (forall x y, K x y = K y x) -> 0 <= eps ->
  forall fuel l m,
  svr_smo ROps K tau big nbig c tol fuel eps xs ys = Some (l, m) ->
  svr_inv c l /\
  map (r_index (T:=R)) l = seq 0 (length xs) /\
  forall v, In v l ->
    exists y, nth_error xs (r_index v) = Some (r_x v) /\ nth_error ys (r_index v) = Some y /\
    let res := y - decision ROps K (svr_instances ROps l) (svr_weights ROps l) (svr_b ROps m) (r_x v) in
    let w := svr_w ROps v in
    (w = 0 -> - eps - tol / 2 <= res <= eps + tol / 2) /\
    (0 < w < c -> eps - tol / 2 <= res <= eps + tol / 2) /\
    (- c < w < 0 -> - eps - tol / 2 <= res <= - eps + tol / 2) /\
    (w = c -> eps - tol / 2 <= res) /\
    (w = - c -> res <= - eps + tol / 2).
Proof. exact svr_smo_kkt. Qed.

(* svr_expansion: the regressor's prediction on its returned (instances, w, b) — only vectors with
   alpha0 <> alpha1 are kept — equals b + sum over ALL training rows of (alpha1 - alpha0) K(x_u, x). *)
Theorem C10_svr_expansion : forall K, (forall x y, K x y = K y x) -> forall l b x,
  decision ROps K (svr_instances ROps l) (svr_weights ROps l) b x = b + f0 K l x.
Proof. intros K Hs l b x. rewrite decision_expansion, (expansion_all K Hs). reflexivity. Qed.

(* ---------------------------------------------------------------------------------------------- *)
(* Kernels                                                                                        *)
(* ---------------------------------------------------------------------------------------------- *)
Theorem C10_kernel_closed_forms : forall gamma coef0 degree n th x y,
  k_linear ROps x y = rdot x y /\
  k_rbf ROps gamma x y = exp (- gamma * rsqdist x y) /\
  k_poly ROps (fun b _ => opown ROps b n) degree gamma coef0 x y = (gamma * rdot x y + coef0) ^ n /\
  k_sigmoid ROps th gamma coef0 x y = th (gamma * rdot x y + coef0) /\
  (forall z, otanh ROps z = tanh z).
Proof.
  intros. split; [apply k_linear_closed|]. split; [apply k_rbf_closed|]. split; [apply k_poly_closed|].
  split; [apply k_sigmoid_closed | exact otanh_tanh].
Qed.

Theorem C10_kernel_symmetric : forall gamma coef0 degree pw th x y,
  k_linear ROps x y = k_linear ROps y x /\
  k_rbf ROps gamma x y = k_rbf ROps gamma y x /\
  k_poly ROps pw degree gamma coef0 x y = k_poly ROps pw degree gamma coef0 y x /\
  k_sigmoid ROps th gamma coef0 x y = k_sigmoid ROps th gamma coef0 y x.
Proof.
  intros. split; [apply k_linear_sym|]. split; [apply k_rbf_sym|]. split; [apply k_poly_sym | apply k_sigmoid_sym].
Qed.

(* linear Gram matrices are positive semi-definite: for every finite family of (coefficient, row)
   pairs, sum_a sum_b c_a c_b <x_a, x_b> >= 0 (it is a sum of squares) *)
Theorem C10_linear_gram_psd : forall cxs : list (R * list R),
  0 <= rsum (fun a => rsum (fun b => fst a * fst b * k_linear ROps (snd a) (snd b)) cxs) cxs.
Proof. exact linear_gram_psd. Qed.

(* Schur product without spectral theory: if K1 is, on the rows at hand, an explicit finite sum of
   weighted rank-one terms  K1(x,y) = sum_k w_k f_k(x) f_k(y)  with w_k >= 0, and K2 is positive
   semi-definite, then the entrywise product K1*K2 is positive semi-definite
   (v^T (K1 o K2) v = sum_k w_k (f_k o v)^T K2 (f_k o v)). *)
Theorem C10_schur_rank_one_sum : forall (Ix : Type) (ks : list Ix) (w : Ix -> R) (f : Ix -> list R -> R)
    (K1 K2 : list R -> list R -> R) (cxs : list (R * list R)),
  (forall k, In k ks -> 0 <= w k) ->
  (forall a b, In a cxs -> In b cxs ->
     K1 (snd a) (snd b) = rsum (fun k => w k * (f k (snd a) * f k (snd b))) ks) ->
  (forall cxs' : list (R * list R),
     0 <= rsum (fun a => rsum (fun b => fst a * fst b * K2 (snd a) (snd b)) cxs') cxs') ->
  0 <= rsum (fun a => rsum (fun b => fst a * fst b * (K1 (snd a) (snd b) * K2 (snd a) (snd b))) cxs) cxs.
Proof. exact schur_rank_one_sum_plain. Qed.

(* polynomial Gram matrices are positive semi-definite: gamma >= 0, coef0 >= 0, every natural degree d
   (the power function of the model's kernel instantiated with the d-fold product, as in
   C10_kernel_closed_forms), every finite family of rows of any lengths, every coefficient vector.
   Induction on d by the Schur product; the degree-1 matrix is gamma X X^T + coef0 1 1^T. *)
Theorem C10_polynomial_gram_psd : forall gamma coef0 degree d (cxs : list (R * list R)),
  0 <= gamma -> 0 <= coef0 ->
  0 <= rsum (fun a => rsum (fun b => fst a * fst b *
                        k_poly ROps (fun b _ => opown ROps b d) degree gamma coef0 (snd a) (snd b)) cxs) cxs.
Proof. exact polynomial_gram_psd. Qed.

(* RBF Gram matrices are positive semi-definite: gamma >= 0, every finite family of rows of one common
   length n (every n), every coefficient vector.  exp(-g|x-y|^2) = exp(-g|x|^2) exp(-g|y|^2) exp(2g x.y);
   the last factor is the limit of the partial sums of the exponential series (Coq's exp is defined as
   that infinite sum), each of which is PSD by the polynomial case; limits of non-negative numbers are
   non-negative; conjugation by a positive diagonal keeps PSD.
   The common-length hypothesis is the domain of the Rust kernel (Vec::sub panics on a length mismatch);
   the model truncates the longer row instead, and on such ragged families the statement is FALSE
   (C10_rbf_gram_psd_ragged_refuted) — so this is the full-strength statement. *)
Theorem C10_rbf_gram_psd : forall gamma n (cxs : list (R * list R)), 0 <= gamma ->
  (forall a, In a cxs -> length (snd a) = n) ->
  0 <= rsum (fun a => rsum (fun b => fst a * fst b * k_rbf ROps gamma (snd a) (snd b)) cxs) cxs.
Proof. exact rbf_gram_psd. Qed.

(* the statement without the common-length hypothesis (the former C10_rbf_gram_psd_full_statement) is
   refuted in the model: rows [0], [], [10] (gamma = 1) with coefficients 1, -1, 1.  This is a fact about
   the model's truncation on inputs on which the Rust code panics, not a defect of the code. *)
Theorem C10_rbf_gram_psd_ragged_refuted :
  exists gamma (cxs : list (R * list R)), 0 <= gamma /\
    rsum (fun a => rsum (fun b => fst a * fst b * k_rbf ROps gamma (snd a) (snd b)) cxs) cxs < 0.
Proof. exact rbf_gram_ragged_not_psd. Qed.

(* for rows of ANY two lengths: unit diagonal and entries in (0,1], hence every 2x2 RBF Gram matrix is PSD *)
Theorem C10_rbf_gram_psd_partial : forall gamma x y c1 c2, 0 <= gamma ->
  k_rbf ROps gamma x x = 1 /\ 0 < k_rbf ROps gamma x y <= 1 /\
  0 <= c1 * c1 * k_rbf ROps gamma x x + c1 * c2 * k_rbf ROps gamma x y
       + c2 * c1 * k_rbf ROps gamma y x + c2 * c2 * k_rbf ROps gamma y y.
Proof. exact rbf_two_point_psd. Qed.

(* ---------------------------------------------------------------------------------------------- *)
(* SVR and the positive semi-definite kernels                                                     *)
(* ---------------------------------------------------------------------------------------------- *)
(* The kernel hypotheses of the SVR clauses (symmetry; PSD on every finite family of coefficients
   attached to training rows) hold for the three built-in kernels the property claims regressor
   optimality for, on training rows of one common length. *)
Theorem C10_svr_kernel_hypotheses_builtin : forall gamma coef0 degree d n (xs : list (list R)) (K : list R -> list R -> R),
  0 <= gamma -> 0 <= coef0 -> (forall x, In x xs -> length x = n) ->
  In K [k_linear ROps; k_rbf ROps gamma; k_poly ROps (fun b _ => opown ROps b d) degree gamma coef0] ->
  (forall x y, K x y = K y x) /\
  (forall cxs : list (R * list R), (forall a, In a cxs -> In (snd a) xs) ->
     0 <= rsum (fun a => rsum (fun b => fst a * fst b * K (snd a) (snd b)) cxs) cxs).
Proof. exact builtin_sym_psd. Qed.

(* curvature: for a symmetric kernel that is PSD on the training rows, the second-order term
   K_ii + K_jj - 2 K_ij of every pair step is non-negative; hence (tau > 0) the divisor `curv_of` used by
   the pair selection and by the step is positive, IS the true curvature whenever that is positive, and
   the code's tau fallback is reached only on pairs of curvature exactly zero (never hides a negative one). *)
Theorem C10_svr_curvature_psd : forall (K : list R -> list R -> R) tau (xs : list (list R)),
  0 < tau -> (forall x y, K x y = K y x) ->
  (forall cxs : list (R * list R), (forall a, In a cxs -> In (snd a) xs) ->
     0 <= rsum (fun a => rsum (fun b => fst a * fst b * K (snd a) (snd b)) cxs) cxs) ->
  forall x y, In x xs -> In y xs ->
  0 <= K x x + K y y - 2 * K x y /\
  0 < curv_of ROps tau (K x x) (K y y) (K x y) /\
  (0 < K x x + K y y - 2 * K x y -> curv_of ROps tau (K x x) (K y y) (K x y) = K x x + K y y - 2 * K x y) /\
  (K x x + K y y - 2 * K x y = 0 -> curv_of ROps tau (K x x) (K y y) (K x y) = tau).
Proof. exact svr_psd_curvature. Qed.

(* the same for the built-in kernels with the hypotheses discharged, for ALL rows (for RBF also rows of
   different lengths, by the two-point statement) *)
Theorem C10_builtin_curvature_nonneg : forall gamma coef0 degree d x y, 0 <= gamma -> 0 <= coef0 ->
  0 <= k_linear ROps x x + k_linear ROps y y - 2 * k_linear ROps x y /\
  0 <= k_rbf ROps gamma x x + k_rbf ROps gamma y y - 2 * k_rbf ROps gamma x y /\
  0 <= k_poly ROps (fun b _ => opown ROps b d) degree gamma coef0 x x
       + k_poly ROps (fun b _ => opown ROps b d) degree gamma coef0 y y
       - 2 * k_poly ROps (fun b _ => opown ROps b d) degree gamma coef0 x y.
Proof. exact builtin_curvature. Qed.

(* svr_exit_kkt for the built-in PSD kernels: no hypothesis about the kernel is left *)
Theorem C10_svr_exit_kkt_builtin : forall gamma coef0 degree d (K : list R -> list R -> R) tau big nbig c tol eps xs ys,
  0 <= gamma -> 0 <= coef0 ->
  In K [k_linear ROps; k_rbf ROps gamma; k_poly ROps (fun b _ => opown ROps b d) degree gamma coef0] ->
  0 < c -> length xs = length ys -> 0 <= eps ->
  forall fuel l m,
  svr_smo ROps K tau big nbig c tol fuel eps xs ys = Some (l, m) ->
  svr_inv c l /\
  map (r_index (T:=R)) l = seq 0 (length xs) /\
  forall v, In v l ->
    exists y, nth_error xs (r_index v) = Some (r_x v) /\ nth_error ys (r_index v) = Some y /\
    let res := y - decision ROps K (svr_instances ROps l) (svr_weights ROps l) (svr_b ROps m) (r_x v) in
    let w := svr_w ROps v in
    (w = 0 -> - eps - tol / 2 <= res <= eps + tol / 2) /\
    (0 < w < c -> eps - tol / 2 <= res <= eps + tol / 2) /\
    (- c < w < 0 -> - eps - tol / 2 <= res <= - eps + tol / 2) /\
    (w = c -> eps - tol / 2 <= res) /\
    (w = - c -> res <= - eps + tol / 2).
Proof. exact svr_smo_kkt_builtin. Qed.

(* ---- descent of the dual objective (the first half of a termination argument) ------------------ *)
(* svr_dual is the epsilon-insensitive dual objective (to be minimised), w_u = alpha1_u - alpha0_u *)
Theorem C10_svr_dual_objective_form : forall K eps ys (l : list (rsv (T:=R))),
  svr_dual K eps ys l
  = / 2 * rsum (fun u => rsum (fun v => wR u * wR v * K (r_x v) (r_x u)) l) l
    + eps * rsum (fun u => r_a0 u + r_a1 u) l
    - rsum (fun u => nth (r_index u) ys 0 * wR u) l.
Proof. exact svr_dual_form. Qed.

(* one iteration with the optimizer's own step (svr_delta: the Newton step of the pair with divisor
   curv_of) on ANY pair of distinct coefficients whose curvature is non-negative: the clipped update
   decreases the dual objective by at least 1/2 curv theta^2, theta being the clipped change of the
   first coefficient.  Needs: symmetric kernel, tau > 0, feasible state with exact gradients, and the
   cached diagonal entries r_k = K(x,x). *)
Theorem C10_svr_step_descent : forall K tau c eps ys, (forall x y, K x y = K y x) -> 0 < tau ->
  forall l l' v1 i v2 j s1 s2, (i < 2)%nat -> (j < 2)%nat ->
  svr_inv c l -> ginv K eps ys l ->
  nth_error l v1 = Some s1 -> nth_error l v2 = Some s2 ->
  r_k s1 = K (r_x s1) (r_x s1) -> r_k s2 = K (r_x s2) (r_x s2) ->
  0 <= K (r_x s1) (r_x s1) + K (r_x s2) (r_x s2) - 2 * K (r_x s1) (r_x s2) ->
  svr_step ROps K c v1 i v2 j (svr_delta ROps K tau s1 s2 i j) l = Some l' ->
  let th := fst (clip c i j (r_alpha s1 i) (r_alpha s2 j) (svr_delta ROps K tau s1 s2 i j)) - r_alpha s1 i in
  svr_dual K eps ys l' <= svr_dual K eps ys l
                 - / 2 * curv_of ROps tau (K (r_x s1) (r_x s1)) (K (r_x s2) (r_x s2)) (K (r_x s1) (r_x s2)) * (th * th).
Proof. exact svr_step_descent. Qed.

(* the transliterated loop, any number of iterations, from any state satisfying the loop invariant
   (loop_inv: feasible, exact gradients, min/max record consistent) whose vectors carry training rows and
   their diagonal kernel entries (xk_ok): for a symmetric kernel that is PSD on the training rows the
   dual objective at exit is not larger than at entry. *)
Theorem C10_svr_loop_descent : forall K tau big nbig c tol eps xs ys,
  (forall x y, K x y = K y x) -> 0 < tau ->
  (forall cxs : list (R * list R), (forall a, In a cxs -> In (snd a) xs) ->
     0 <= rsum (fun a => rsum (fun b => fst a * fst b * K (snd a) (snd b)) cxs) cxs) ->
  forall fuel l m l' m',
  loop_inv K c eps ys l m -> Forall (xk_ok K xs) l ->
  svr_loop ROps K tau big nbig c tol fuel l m = Some (l', m') ->
  svr_dual K eps ys l' <= svr_dual K eps ys l.
Proof. exact svr_loop_descent_psd. Qed.

(* hence: whenever `Optimizer::smo` returns, the dual objective of its coefficients is <= 0, the value
   of the all-zero start *)
Theorem C10_svr_smo_dual_nonpos : forall K tau big nbig c tol eps xs ys,
  (forall x y, K x y = K y x) -> 0 < tau ->
  (forall cxs : list (R * list R), (forall a, In a cxs -> In (snd a) xs) ->
     0 <= rsum (fun a => rsum (fun b => fst a * fst b * K (snd a) (snd b)) cxs) cxs) ->
  0 < c -> length xs = length ys ->
  forall fuel l m,
  svr_smo ROps K tau big nbig c tol fuel eps xs ys = Some (l, m) -> svr_dual K eps ys l <= 0.
Proof. exact svr_smo_dual_nonpos_psd. Qed.

(* the dual objective is bounded below on the feasible box for a kernel that is PSD on the training
   rows: W >= - C sum_u |y_u|.  With C10_svr_step_descent: over any run of the optimizer the decreases
   1/2 curv theta^2 of all iterations sum to at most W(start) + C sum |y|. *)
Theorem C10_svr_dual_lower_bound : forall K c eps xs ys (l : list (rsv (T:=R))),
  (forall x y, K x y = K y x) ->
  (forall cxs : list (R * list R), (forall a, In a cxs -> In (snd a) xs) ->
     0 <= rsum (fun a => rsum (fun b => fst a * fst b * K (snd a) (snd b)) cxs) cxs) ->
  0 <= eps -> svr_inv c l -> Forall (fun v => In (r_x v) xs) l ->
  - c * rsum (fun u => Rabs (nth (r_index u) ys 0)) l <= svr_dual K eps ys l.
Proof. exact svr_dual_lower_bound. Qed.

(* ---------------------------------------------------------------------------------------------- *)
(* Not proved (searched on every run): stated here so that the gap stays visible.                  *)
(* ---------------------------------------------------------------------------------------------- *)
(* SVR termination: for a kernel that is symmetric and positive semi-definite on the training rows some
   amount of fuel suffices.  NOT a target of the proof effort.  What is proved towards it: every iteration
   decreases the dual objective by 1/2 curv theta^2 (C10_svr_step_descent), and the objective is bounded below
   (C10_svr_dual_lower_bound), so the decreases are summable.  What is missing: a uniform
   positive lower bound on the decrease while gmax - gmin > tol (theta can be cut arbitrarily short by
   the box, which is where the classical finite-termination proofs of SMO need a separate argument);
   termination is searched under a watchdog on every run.  The PSD hypothesis is stated on
   families of training rows, so that by C10_svr_kernel_hypotheses_builtin it is satisfied by the linear,
   RBF and integer-degree polynomial kernels on rows of one common length (stated over ALL row lists it
   would be unsatisfiable for RBF: C10_rbf_gram_psd_ragged_refuted). *)
Definition C10_svr_terminates_full_statement : Prop :=
  forall K tau big nbig c tol eps xs ys,
    0 < c -> 0 < tol -> 0 < tau -> nbig < 0 < big -> length xs = length ys ->
    (forall x y, K x y = K y x) ->
    (forall cxs : list (R * list R), (forall a, In a cxs -> In (snd a) xs) ->
       0 <= rsum (fun a => rsum (fun b => fst a * fst b * K (snd a) (snd b)) cxs) cxs) ->
    exists fuel, svr_smo ROps K tau big nbig c tol fuel eps xs ys <> None.

(* ---------------------------------------------------------------------------------------------- *)
(* The hypotheses are satisfiable                                                                  *)
(* ---------------------------------------------------------------------------------------------- *)
(* a feasible two-vector state (C = 1, one vector of each class), and a clipped step on it *)
Example C10_svc_inv_instance :
  let xs := [[1]; [-1]] in let ys := [1; -1] in
  let l := [mkSV 0 [1] (1/2) 0 0 1 1; mkSV 1 [-1] (-1/2) 0 (-1) 0 1] in
  svc_inv 1 xs ys l /\
  svc_inv 1 xs ys (update_alpha ROps 1 0 (smo_clip ROps (-1/2) (-1) 0 (1/2) 0 1 5) l).
Proof.
  cbv zeta.
  assert (H : svc_inv 1 [[1]; [-1]] [1; -1] [mkSV 0 [1] (1/2) 0 0 1 1; mkSV 1 [-1] (-1/2) 0 (-1) 0 1]).
  { split.
    - constructor; [|constructor; [|constructor]]; unfold sv_ok; cbn.
      + split; [lra|]. split; [reflexivity|]. exists 1. split; [reflexivity|]. left. lra.
      + split; [lra|]. split; [reflexivity|]. exists (-1). split; [reflexivity|]. right. lra.
    - cbn. lra. }
  split; [exact H|].
  exact (update_alpha_inv 1 _ _ _ 1%nat 0%nat _ _ 5 H eq_refl eq_refl).
Qed.

(* a feasible regression state with exact gradients: two rows, weights +1/2 and -1/2 *)
Example C10_svr_inv_instance :
  svr_inv 1 [mkRSV 0 [1] 0 (1/2) 0 0 1; mkRSV 1 [2] (1/2) 0 0 0 4].
Proof.
  split.
  - constructor; [|constructor; [|constructor]]; unfold r_box; cbn; lra.
  - cbn. unfold wR; cbn. lra.
Qed.

(* the transliterated optimizers do return (binary64 instance, executed): a four-row classifier fit on
   the identity visiting orders and a four-row regression fit *)
Example C10_svc_fit_returns :
  exists r, svc_fit FOps (k_linear FOps) 0x1.19799812dea11p-40%float 0x1.fffffffffffffp+1023%float
              (-0x1.fffffffffffffp+1023)%float 1%float 0x1.0624dd2f1a9fcp-10%float 1000
              [[1]; [2]; [-1]; [-3]]%float [1; 1; 0; 0]%float [0; 1; 2; 3]%nat [[3; 1; 0; 2]]%nat = Some r.
Proof. eexists. vm_compute. reflexivity. Qed.

Example C10_svr_smo_returns :
  exists r, svr_smo FOps (k_linear FOps) 0x1.19799812dea11p-40%float 0x1.fffffffffffffp+1023%float
              (-0x1.fffffffffffffp+1023)%float 1%float 0x1.0624dd2f1a9fcp-10%float 1000 0x1p-3%float
              [[1]; [2]; [-1]; [-3]]%float [1; 2.5; -1; -2]%float = Some r.
Proof. eexists. vm_compute. reflexivity. Qed.

(* the hypotheses of the Gram-matrix theorems are satisfiable on non-trivial instances *)
(* three rows of common length 2 with mixed-sign coefficients (C10_rbf_gram_psd, gamma = 1/2) *)
Example C10_rbf_gram_psd_instance :
  let cxs := [(1, [0; 1]); (-2, [3; 4]); (1/2, [-1; 2])] in
  (forall a, In a cxs -> length (snd a) = 2%nat) /\
  0 <= rsum (fun a => rsum (fun b => fst a * fst b * k_rbf ROps (1/2) (snd a) (snd b)) cxs) cxs.
Proof.
  cbv zeta. assert (H : forall a : R * list R, In a [(1, [0; 1]); (-2, [3; 4]); (1/2, [-1; 2])] -> length (snd a) = 2%nat).
  { intros a [<-|[<-|[<-|[]]]]; reflexivity. }
  split; [exact H|]. apply (rbf_gram_psd (1/2) 2); [lra | exact H].
Qed.

(* Schur product: K1 = 2 x.y + 3 on two rows of length 1 is the weighted rank-one sum with index set
   [None; Some 0] (weights 3, 2; f_None = 1, f_(Some 0) = first coordinate); K2 = the linear kernel *)
Example C10_schur_rank_one_sum_instance :
  let cxs := [(1, [2]); (-1, [5])] in
  let ks := [None; Some 0%nat] in
  let w := fun k : option nat => match k with None => 3 | Some _ => 2 end in
  let f := fun (k : option nat) (x : list R) => match k with None => 1 | Some i => nth i x 0 end in
  (forall k, In k ks -> 0 <= w k) /\
  (forall a b, In a cxs -> In b cxs ->
     2 * k_linear ROps (snd a) (snd b) + 3 = rsum (fun k => w k * (f k (snd a) * f k (snd b))) ks) /\
  (forall cxs' : list (R * list R),
     0 <= rsum (fun a => rsum (fun b => fst a * fst b * k_linear ROps (snd a) (snd b)) cxs') cxs').
Proof.
  cbv zeta. split; [|split].
  - intros k [<-|[<-|[]]]; lra.
  - intros a b [<-|[<-|[]]] [<-|[<-|[]]]; rewrite k_linear_closed; cbn; lra.
  - exact linear_gram_psd.
Qed.

(* the kernel hypotheses of the SVR clauses on a concrete training set (rows of length 2, RBF gamma = 1/4) *)
Example C10_svr_kernel_hypotheses_instance :
  let xs := [[1; 0]; [2; -1]; [0; 3]] in
  (forall x, In x xs -> length x = 2%nat) /\
  In (k_rbf ROps (1/4)) [k_linear ROps; k_rbf ROps (1/4); k_poly ROps (fun b _ => opown ROps b 3) 3 (1/4) 1] /\
  (forall cxs : list (R * list R), (forall a, In a cxs -> In (snd a) xs) ->
     0 <= rsum (fun a => rsum (fun b => fst a * fst b * k_rbf ROps (1/4) (snd a) (snd b)) cxs) cxs).
Proof.
  cbv zeta.
  assert (H : forall x : list R, In x [[1; 0]; [2; -1]; [0; 3]] -> length x = 2%nat).
  { intros x [<-|[<-|[<-|[]]]]; reflexivity. }
  split; [exact H|]. split; [right; left; reflexivity|].
  apply (builtin_sym_psd (1/4) 1 3 3 2 _ _); try lra; [exact H | right; left; reflexivity].
Qed.

(* every hypothesis of C10_svr_step_descent holds on a concrete state: the initial state of a two-row
   problem (linear kernel, C = 1, eps = 1/4, tau = 1/1000), pair ((1,1),(0,0)) *)
Example C10_svr_step_descent_instance :
  let K := k_linear ROps in
  let l := svr_init ROps K (1/4) 0 [[1]; [2]] [1; 3] in
  exists s1 s2 l',
    svr_inv 1 l /\ ginv K (1/4) [1; 3] l /\
    nth_error l 1 = Some s1 /\ nth_error l 0 = Some s2 /\
    r_k s1 = K (r_x s1) (r_x s1) /\ r_k s2 = K (r_x s2) (r_x s2) /\
    0 <= K (r_x s1) (r_x s1) + K (r_x s2) (r_x s2) - 2 * K (r_x s1) (r_x s2) /\
    svr_step ROps K 1 1 1 0 0 (svr_delta ROps K (1/1000) s1 s2 1 0) l = Some l'.
Proof. exact svr_step_descent_instance. Qed.

(* the hypotheses of C10_svr_dual_lower_bound on a concrete feasible state (weights +1/2, -1/2 on the
   training rows [1], [2]; linear kernel) *)
Example C10_svr_dual_lower_bound_instance :
  let l := [mkRSV 0 [1] 0 (1/2) 0 0 1; mkRSV 1 [2] (1/2) 0 0 0 4] in
  svr_inv 1 l /\ Forall (fun v => In (r_x v) [[1]; [2]]) l /\
  (forall cxs : list (R * list R), (forall a, In a cxs -> In (snd a) [[1]; [2]]) ->
     0 <= rsum (fun a => rsum (fun b => fst a * fst b * k_linear ROps (snd a) (snd b)) cxs) cxs).
Proof.
  cbv zeta. split; [exact C10_svr_inv_instance|]. split.
  - constructor; [left; reflexivity | constructor; [right; left; reflexivity | constructor]].
  - intros cxs _. apply linear_gram_psd.
Qed.

(* ---------------- rounding: the kernels and the decision function in binary64 ----------------
   Everything above is about exact real arithmetic (ROps).  The theorems below are about the binary64
   instance (FOps, Coq primitive floats) of the SAME model definitions — the instance the per-run
   correspondence executes against src/svm/{mod,svc,svr}.rs — proved through Flocq's primitive-float
   bridge (SC.Base.FloatError, SC.C17.ProofsFloat, SC.C10.ProofsFloat); extra assumptions: the
   FloatAxioms / Uint63 specification axioms of Coq's standard library that give primitive floats their
   meaning.  Only the STRAIGHT-LINE parts are covered: the arithmetic of the kernels and the decision
   function / label rule.  Training (SMO) is iterative: no rounding theorem.  exp (RBF), powf
   (polynomial) and tanh (sigmoid) are library routines in Rust and software routines in the binary64
   instance: no bound is proved for them, only for the arithmetic that produces their ARGUMENT.
   Vocabulary: `FR d` = the real value of the float d (0 for infinities and NaN); `map FR x` the real
   vector of a float vector; u64 = 2^-53, eta64 = 2^-1075; rdot / rsqdist = the plain recursive sums
   sum x_i y_i and sum (x_i - y_i)^2 (C10/ProofsKernel.v).  The only no-overflow hypothesis is that the
   RESULT is finite: non-finite values are absorbing for addition, subtraction and multiplication, so
   all inputs and intermediates are then finite and nothing overflowed. *)
From SC Require Import Base.FloatUtil Base.FloatError C10.ProofsFloat C10.ProofsFloatEx.
From SC Require C17.Model.

(* the linear kernel of two float rows of p coordinates is the dot-product loop (p products, p additions
   starting from 0, the first one exact): error (1+u)^p - 1 relative to the sum of the magnitudes
   sum |x_i y_i| (written as the linear kernel of the rows of absolute values), plus p underflow terms *)
Theorem C10_linear_kernel_float_error : forall x y : list PrimFloat.float,
  length x = length y -> PrimFloat.is_finite (k_linear FOps x y) = true ->
  let p := length x in
  let xr := map FR x in let yr := map FR y in
  Forall (fun a => PrimFloat.is_finite a = true) x /\ Forall (fun a => PrimFloat.is_finite a = true) y /\
  k_linear ROps xr yr = rdot xr yr /\
  Rabs (FR (k_linear FOps x y) - k_linear ROps xr yr) <=
    ((1 + u64) ^ p - 1) * (k_linear ROps (map Rabs xr) (map Rabs yr) + INR p * eta64) + INR p * eta64.
Proof. exact linear_kernel_float_error. Qed.

(* gamma * <x,y> + coef0 — the value handed to powf (polynomial kernel) resp. tanh (sigmoid kernel):
   with e = the dot-product bound above, g = |gamma|, c = |coef0|, D = |<x,y>|, A = sum |x_i y_i| *)
Theorem C10_kernel_affine_float_error : forall (gamma coef0 : PrimFloat.float) (x y : list PrimFloat.float),
  PrimFloat.is_finite (PrimFloat.add (PrimFloat.mul gamma (dot FOps x y)) coef0) = true ->
  let p := Nat.min (length x) (length y) in
  let d := rdot (map FR x) (map FR y) in
  let A := rdot (map (fun a => Rabs (FR a)) x) (map (fun a => Rabs (FR a)) y) in
  let e := ((1 + u64) ^ p - 1) * (A + INR p * eta64) + INR p * eta64 in
  let g := Rabs (FR gamma) in
  Rabs (FR (PrimFloat.add (PrimFloat.mul gamma (dot FOps x y)) coef0) - (FR gamma * d + FR coef0)) <=
    ((1 + u64) ^ 2 - 1) * (g * (Rabs d + e)) + g * e + u64 * Rabs (FR coef0) + (1 + u64) * eta64.
Proof. exact kernel_affine_float_error. Qed.

Theorem C10_kernel_affine_is_model : forall (pw : PrimFloat.float -> PrimFloat.float -> PrimFloat.float)
    (th : PrimFloat.float -> PrimFloat.float) (degree gamma coef0 : PrimFloat.float) (x y : list PrimFloat.float),
  k_poly FOps pw degree gamma coef0 x y = pw (PrimFloat.add (PrimFloat.mul gamma (dot FOps x y)) coef0) degree /\
  k_sigmoid FOps th gamma coef0 x y = th (PrimFloat.add (PrimFloat.mul gamma (dot FOps x y)) coef0).
Proof. intros. split; reflexivity. Qed.

(* RBF, the squared-distance half: the model's sqdist is the same left fold as C17's squared_distance
   (C10_sqdist_same_fold), so C17's bound holds for it: (1+u)^(p+2) - 1 relative to the exact squared
   distance D plus p underflow terms; purely relative when no difference is a non-zero number below
   2^-510.  exp itself is NOT covered. *)
Theorem C10_sqdist_same_fold : forall (T : Type) (O : Ops T) (x y : list T),
  sqdist O x y = C17.Model.sq_dist_loop O x y.
Proof. exact @sqdist_is_C17. Qed.

Theorem C10_rbf_argument_float_error : forall x y : list PrimFloat.float,
  length x = length y -> PrimFloat.is_finite (sqdist FOps x y) = true ->
  let p := length x in
  let D := rsqdist (map FR x) (map FR y) in
  sqdist ROps (map FR x) (map FR y) = D /\
  Forall (fun a => PrimFloat.is_finite a = true) x /\ Forall (fun a => PrimFloat.is_finite a = true) y /\
  0 <= D /\ 0 <= FR (sqdist FOps x y) /\
  Rabs (FR (sqdist FOps x y) - D) <= ((1 + u64) ^ (p + 2) - 1) * (D + INR p * eta64) + INR p * eta64 /\
  ((forall a b, In (a, b) (combine x y) -> FR a = FR b \/ / 2 ^ 510 <= Rabs (FR a - FR b)) ->
   Rabs (FR (sqdist FOps x y) - D) <= ((1 + u64) ^ (p + 2) - 1) * D).
Proof. exact rbf_argument_float_error. Qed.

(* the argument handed to exp, (-gamma) * sqdist: the negation is exact, the product one more rounding *)
Theorem C10_rbf_exponent_float_error : forall (gamma : PrimFloat.float) (x y : list PrimFloat.float),
  length x = length y -> PrimFloat.is_finite (PrimFloat.mul (PrimFloat.opp gamma) (sqdist FOps x y)) = true ->
  let p := length x in
  let D := rsqdist (map FR x) (map FR y) in
  let e := ((1 + u64) ^ (p + 2) - 1) * (D + INR p * eta64) + INR p * eta64 in
  k_rbf FOps gamma x y = oexp FOps (PrimFloat.mul (PrimFloat.opp gamma) (sqdist FOps x y)) /\
  PrimFloat.is_finite gamma = true /\ PrimFloat.is_finite (sqdist FOps x y) = true /\
  Rabs (FR (PrimFloat.mul (PrimFloat.opp gamma) (sqdist FOps x y)) - (- FR gamma * D)) <=
    Rabs (FR gamma) * (u64 * D + (1 + u64) * e) + eta64.
Proof. intros gamma x y L H. split; [reflexivity | exact (rbf_exponent_float_error gamma x y L H)]. Qed.

(* the decision function f = b + w_1 K(x,s_1) + ... + w_n K(x,s_n), accumulated in this order starting
   from b (SVC::predict_for_row, SVR::predict_for_row), for ANY float kernel K: if every computed kernel
   value that is finite is within err(s_i) of an exact kernel KR on the real values, then the computed
   decision value, if finite, is within
       ((1+u)^(n+1) - 1) * S + ((1+u)^n - 1) * (|b| + n eta) + n eta + E
   of the exact-arithmetic decision value of the model, where
       S = sum |w_i| (|KR(x,s_i)| + err s_i),   E = sum |w_i| err s_i
   (n products, n inexact additions; the kernel errors enter once, amplified by the weights). *)
Theorem C10_decision_function_float_error :
  forall (K : list PrimFloat.float -> list PrimFloat.float -> PrimFloat.float) (KR : list R -> list R -> R)
         (err : list PrimFloat.float -> R) (x : list PrimFloat.float)
         (inst : list (list PrimFloat.float)) (w : list PrimFloat.float) (b : PrimFloat.float),
  (forall s, In s inst -> PrimFloat.is_finite (K x s) = true ->
             Rabs (FR (K x s) - KR (map FR x) (map FR s)) <= err s) ->
  PrimFloat.is_finite (decision FOps K inst w b x) = true ->
  let L := combine inst w in
  let n := length L in
  let A := Rsuml (map (fun sw => FR (snd sw) * KR (map FR x) (map FR (fst sw))) L) in
  let S := Rsuml (map (fun sw => Rabs (FR (snd sw)) * (Rabs (KR (map FR x) (map FR (fst sw))) + err (fst sw))) L) in
  let E := Rsuml (map (fun sw => Rabs (FR (snd sw)) * err (fst sw)) L) in
  let fR := decision ROps KR (map (map FR) inst) (map FR w) (FR b) (map FR x) in
  fR = FR b + A /\ PrimFloat.is_finite b = true /\
  Rabs (FR (decision FOps K inst w b x) - fR) <=
    ((1 + u64) ^ (n + 1) - 1) * S + ((1 + u64) ^ n - 1) * (Rabs (FR b) + INR n * eta64) + INR n * eta64 + E.
Proof.
  intros K KR err x inst w b Hc Hf.
  destruct (decision_function_float_error K KR err x inst w b Hc Hf) as (H1 & H2 & _ & _ & H3).
  split; [exact H1|]. split; [exact H2 | exact H3].
Qed.

(* the label rule (larger class c1 iff decision > 0): if the exact decision value exceeds that bound in
   magnitude, the binary64 classifier returns the label of the exact-arithmetic classifier *)
Theorem C10_predict_sign_float_robust :
  forall (K : list PrimFloat.float -> list PrimFloat.float -> PrimFloat.float) (KR : list R -> list R -> R)
         (err : list PrimFloat.float -> R) (x : list PrimFloat.float) (c0 c1 : PrimFloat.float)
         (inst : list (list PrimFloat.float)) (w : list PrimFloat.float) (b : PrimFloat.float),
  (forall s, In s inst -> PrimFloat.is_finite (K x s) = true ->
             Rabs (FR (K x s) - KR (map FR x) (map FR s)) <= err s) ->
  PrimFloat.is_finite (decision FOps K inst w b x) = true ->
  let L := combine inst w in
  let n := length L in
  let S := Rsuml (map (fun sw => Rabs (FR (snd sw)) * (Rabs (KR (map FR x) (map FR (fst sw))) + err (fst sw))) L) in
  let E := Rsuml (map (fun sw => Rabs (FR (snd sw)) * err (fst sw)) L) in
  let fR := decision ROps KR (map (map FR) inst) (map FR w) (FR b) (map FR x) in
  ((1 + u64) ^ (n + 1) - 1) * S + ((1 + u64) ^ n - 1) * (Rabs (FR b) + INR n * eta64) + INR n * eta64 + E < Rabs fR ->
  (0 < fR -> svc_predict FOps K c0 c1 inst w b x = c1) /\
  (fR < 0 -> svc_predict FOps K c0 c1 inst w b x = c0) /\
  FR (svc_predict FOps K c0 c1 inst w b x) =
    svc_predict ROps KR (FR c0) (FR c1) (map (map FR) inst) (map FR w) (FR b) (map FR x).
Proof. exact predict_sign_float_robust. Qed.

(* the linear-kernel classifier end to end: the kernel hypothesis is discharged by
   C10_linear_kernel_float_error, err(s) = the dot-product bound of x and s *)
Theorem C10_predict_sign_linear_float_robust :
  forall (c0 c1 : PrimFloat.float) (inst : list (list PrimFloat.float)) (w : list PrimFloat.float)
         (b : PrimFloat.float) (x : list PrimFloat.float),
  PrimFloat.is_finite (decision FOps (k_linear FOps) inst w b x) = true ->
  let err := fun s : list PrimFloat.float =>
    let p := Nat.min (length x) (length s) in
    ((1 + u64) ^ p - 1) * (rdot (map (fun a => Rabs (FR a)) x) (map (fun a => Rabs (FR a)) s) + INR p * eta64)
    + INR p * eta64 in
  let KR := k_linear ROps in
  let L := combine inst w in
  let n := length L in
  let S := Rsuml (map (fun sw => Rabs (FR (snd sw)) * (Rabs (KR (map FR x) (map FR (fst sw))) + err (fst sw))) L) in
  let E := Rsuml (map (fun sw => Rabs (FR (snd sw)) * err (fst sw)) L) in
  let fR := decision ROps KR (map (map FR) inst) (map FR w) (FR b) (map FR x) in
  let bound := ((1 + u64) ^ (n + 1) - 1) * S + ((1 + u64) ^ n - 1) * (Rabs (FR b) + INR n * eta64) + INR n * eta64 + E in
  Rabs (FR (decision FOps (k_linear FOps) inst w b x) - fR) <= bound /\
  (bound < Rabs fR ->
   FR (svc_predict FOps (k_linear FOps) c0 c1 inst w b x) =
     svc_predict ROps KR (FR c0) (FR c1) (map (map FR) inst) (map FR w) (FR b) (map FR x) /\
   svc_predict FOps (k_linear FOps) c0 c1 inst w b x = (if Rlt_dec 0 fR then c1 else c0)).
Proof.
  intros c0 c1 inst w b x Hf. split.
  - exact (decision_function_linear_float_error inst w b x Hf).
  - exact (predict_sign_linear_float_robust c0 c1 inst w b x Hf).
Qed.

(* the hypotheses are satisfiable on inexact data: a linear-kernel classifier with support vectors
   (0.3,0.7), (5.3,4.1), (-3.7,6.9), weights 0.3, -0.1, 0.2, intercept 0.1 and the row (0.1,0.2): the
   computed decision value is finite, the bound of C10_predict_sign_linear_float_robust is below 2^-50
   and below the exact decision value (about 0.218), and the binary64 label is the larger class *)
Example C10_predict_sign_float_robust_instance :
  let inst := [[0x1.3333333333333p-2; 0x1.6666666666666p-1]; [0x1.5333333333333p+2; 0x1.0666666666666p+2];
               [-0x1.d99999999999ap+1; 0x1.b99999999999ap+2]]%float in
  let w := [0x1.3333333333333p-2; -0x1.999999999999ap-4; 0x1.999999999999ap-3]%float in
  let b := 0x1.999999999999ap-4%float in
  let x := [0x1.999999999999ap-4; 0x1.999999999999ap-3]%float in
  let err := fun s : list PrimFloat.float =>
    let p := Nat.min (length x) (length s) in
    ((1 + u64) ^ p - 1) * (rdot (map (fun a => Rabs (FR a)) x) (map (fun a => Rabs (FR a)) s) + INR p * eta64)
    + INR p * eta64 in
  let KR := k_linear ROps in
  let L := combine inst w in
  let n := length L in
  let S := Rsuml (map (fun sw => Rabs (FR (snd sw)) * (Rabs (KR (map FR x) (map FR (fst sw))) + err (fst sw))) L) in
  let E := Rsuml (map (fun sw => Rabs (FR (snd sw)) * err (fst sw)) L) in
  let fR := decision ROps KR (map (map FR) inst) (map FR w) (FR b) (map FR x) in
  let bound := ((1 + u64) ^ (n + 1) - 1) * S + ((1 + u64) ^ n - 1) * (Rabs (FR b) + INR n * eta64) + INR n * eta64 + E in
  PrimFloat.is_finite (decision FOps (k_linear FOps) inst w b x) = true /\
  (bound < Rabs fR /\ bound <= / 2 ^ 50 /\ 0 < fR) /\
  svc_predict FOps (k_linear FOps) (-1)%float 1%float inst w b x = 1%float.
Proof. exact ex_decision_robust. Qed.

(* THE MARGIN IS NEEDED.  x = (1), three support vectors (1), weights 2^53, 1, -2^53, b = 0, linear kernel:
   every kernel value and every product is exact and everything is finite; the exact decision value is 1,
   the computed one ((0 + 2^53) + 1) - 2^53 = 0 (2^53 + 1 is a tie, rounded to even), and the binary64
   classifier returns the smaller class although the exact-arithmetic one returns the larger *)
Theorem C10_predict_sign_float_margin_needed_refuted :
  let inst := [[1]; [1]; [1]]%float in
  let w := [0x1p+53; 1; -0x1p+53]%float in
  PrimFloat.is_finite (decision FOps (k_linear FOps) inst w 0%float [1%float]) = true /\
  decision ROps (k_linear ROps) (map (map FR) inst) (map FR w) (FR 0%float) (map FR [1%float]) = 1 /\
  FR (decision FOps (k_linear FOps) inst w 0%float [1%float]) = 0 /\
  svc_predict FOps (k_linear FOps) (-1)%float 1%float inst w 0%float [1%float] = (-1)%float /\
  svc_predict ROps (k_linear ROps) (FR (-1)%float) (FR 1%float) (map (map FR) inst) (map FR w) (FR 0%float)
              (map FR [1%float]) = FR 1%float.
Proof. exact ex_margin_needed. Qed.

(* the hypotheses of the kernel theorems on 3-dimensional inexact rows (gamma = 0.5 / coef0 = 1 for the
   affine part, gamma = 0.2 for the RBF exponent) *)
Example C10_kernel_float_instances :
  let x := [0x1.999999999999ap-4; 0x1.999999999999ap-3; 0x1.3333333333333p-2]%float in
  let y := [0x1.3333333333333p-2; (-0x1.999999999999ap-4); 0x1.6666666666666p-1]%float in
  length x = length y /\
  PrimFloat.is_finite (k_linear FOps x y) = true /\
  PrimFloat.is_finite (PrimFloat.add (PrimFloat.mul 0x1p-1%float (dot FOps x y)) 1%float) = true /\
  PrimFloat.is_finite (sqdist FOps x y) = true /\
  PrimFloat.is_finite (PrimFloat.mul (PrimFloat.opp 0x1.999999999999ap-3%float) (sqdist FOps x y)) = true /\
  (forall a b, In (a, b) (combine x y) -> FR a = FR b \/ / 2 ^ 510 <= Rabs (FR a - FR b)).
Proof. exact ex_kernels. Qed.

(* the RBF kernel VALUE, CONDITIONAL on the accuracy of exp.  Nothing is proved about the exp routine
   (libm in Rust, Base/Elem.v in the binary64 instance).  IF on the argument t = (-gamma) * sqdist at hand
   its result is within relative error delta of exp(t) — an ASSUMPTION of this theorem — THEN the computed
   kernel value is within ((exp ea - 1) + delta exp ea) * K of the exact K = exp(-gamma |x-y|^2), where ea is
   the proved bound of C10_rbf_exponent_float_error on the argument.  This is the per-support-vector
   hypothesis of C10_decision_function_float_error for the RBF kernel, with err = that bound. *)
From SC Require Import C10.ProofsFloatRbf C10.ProofsFloatRbfEx.

Theorem C10_rbf_kernel_float_error_given_exp :
  forall (delta : R) (gamma : PrimFloat.float) (x y : list PrimFloat.float),
  length x = length y -> 0 <= delta ->
  let t := PrimFloat.mul (PrimFloat.opp gamma) (sqdist FOps x y) in
  PrimFloat.is_finite t = true ->
  Rabs (FR (oexp FOps t) - exp (FR t)) <= delta * exp (FR t) ->
  let p := length x in
  let D := rsqdist (map FR x) (map FR y) in
  let e := ((1 + u64) ^ (p + 2) - 1) * (D + INR p * eta64) + INR p * eta64 in
  let ea := Rabs (FR gamma) * (u64 * D + (1 + u64) * e) + eta64 in
  k_rbf ROps (FR gamma) (map FR x) (map FR y) = exp (- FR gamma * D) /\
  Rabs (FR (k_rbf FOps gamma x y) - k_rbf ROps (FR gamma) (map FR x) (map FR y)) <=
    ((exp ea - 1) + delta * exp ea) * exp (- FR gamma * D).
Proof. exact rbf_kernel_float_error_given_exp. Qed.

(* the hypotheses, including the assumed accuracy of exp with delta = 2^-40, hold on the rows of
   C10_kernel_float_instances with gamma = 0.2 (the software exp of the binary64 instance evaluated by
   vm_compute, the real exp enclosed by interval arithmetic) *)
Example C10_rbf_kernel_float_instance :
  let x := [0x1.999999999999ap-4; 0x1.999999999999ap-3; 0x1.3333333333333p-2]%float in
  let y := [0x1.3333333333333p-2; (-0x1.999999999999ap-4); 0x1.6666666666666p-1]%float in
  let t := PrimFloat.mul (PrimFloat.opp 0x1.999999999999ap-3%float) (sqdist FOps x y) in
  length x = length y /\ PrimFloat.is_finite t = true /\
  Rabs (FR (oexp FOps t) - exp (FR t)) <= / 2 ^ 40 * exp (FR t).
Proof. exact ex_rbf_exp. Qed.
