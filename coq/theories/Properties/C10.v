(* C10 — SVM (SVC and SVR).  Property theorems only; each is closed by the lemma proved in
   SC.C10.Proofs*.  Statements are about the real-number instance (ROps) of the executable model
   SC.C10.Model, which the correspondence check ties to src/svm/{svc,svr,mod}.rs by replaying the
   implementation's own hook traces / visiting orders / serde state through the binary64 instance.

   Vocabulary (definitions in C10/ProofsSVC.v, C10/ProofsSVR.v):
     svc_inv c xs ys l   every support vector v of l is training row `sv_index v` (x = xs[index]),
                         its box (cmin,cmax) is (0,c) if ys[index] > 0 and (-c,0) otherwise,
                         cmin <= alpha <= cmax, and the alphas sum to zero;
     svr_inv c l         0 <= alpha0, alpha1 <= c for every vector and sum (alpha1 - alpha0) = 0;
     ginv K eps ys l     grad0 = eps + y - f0(x) and grad1 = eps - y + f0(x) for every vector,
                         where f0(x) = sum_u (alpha1_u - alpha0_u) K(x_u, x);
     expansion K inst w x = sum_i w_i K(x, inst_i);  rsum h l = sum of h over l.
   (C10/ProofsSVR.v, C10/ProofsSVRDescent.v:)
     loop_inv K c eps ys l m   svr_inv c l, ginv K eps ys l, and the min/max record m is consistent with l
                         (coefficient kinds < 2, gmin/gmax bound the gradients of the movable coefficients);
     xk_ok K xs v        r_x v is a training row (In xs) and the cached r_k v = K(r_x v, r_x v);
     clip c i j oi oj d  the clipped pair of `svr_step` (svr_clip_eq if i = j, svr_clip_ne otherwise);
     svr_dual K eps ys l the epsilon-insensitive dual objective, written out in C10_svr_dual_objective_form.
   Gram-matrix statements are written out: for a list cxs of (coefficient, row) pairs the quadratic form
   is  sum_a sum_b c_a c_b K(x_a, x_b). *)
From Coq Require Import List ZArith Reals Lra Lia Bool Arith Floats.
From SC Require Import Base.Num C10.Model C10.ProofsSVC C10.ProofsSVR C10.ProofsKernel C10.ProofsPSD C10.ProofsSVRPSD C10.ProofsSVRDescent.
Import ListNotations.
Local Open Scope R_scope.

(* ---------------------------------------------------------------------------------------------- *)
(* SVC                                                                                            *)
(* ---------------------------------------------------------------------------------------------- *)

(* The clipped step itself: whatever raw step the heuristics propose, the clipped one keeps both
   coefficients of the pair inside their boxes. *)
Theorem C10_svc_clip_feasible : forall a1 lo1 hi1 a2 lo2 hi2 raw,
  lo1 <= a1 <= hi1 -> lo2 <= a2 <= hi2 ->
  let s := smo_clip ROps a1 lo1 hi1 a2 lo2 hi2 raw in
  lo1 <= a1 - s <= hi1 /\ lo2 <= a2 + s <= hi2.
Proof. exact smo_clip_feasible. Qed.

(* svc_step_feasible: for EVERY pair of positions (also v1 = v2) and EVERY raw step, the update of
   `smo` (alpha[v1] -= step, alpha[v2] += step with the clipped step) keeps the invariant. *)
Theorem C10_svc_step_feasible : forall c xs ys l v1 v2 s1 s2 raw,
  svc_inv c xs ys l -> nth_error l v1 = Some s1 -> nth_error l v2 = Some s2 ->
  svc_inv c xs ys
    (update_alpha ROps v1 v2
       (smo_clip ROps s1.(sv_alpha) s1.(sv_cmin) s1.(sv_cmax) s2.(sv_alpha) s2.(sv_cmin) s2.(sv_cmax) raw) l).
Proof. exact update_alpha_inv. Qed.

(* svc_run_feasible, abstract form: ANY sequence of the optimizer's operations — insert a training
   row with alpha = 0, a clipped pair update on any pair with any raw step, a gradient update, a
   removal of any vectors with alpha = 0 — keeps the invariant.  Every visiting order and every
   outcome of the pair selection is such a sequence. *)
Theorem C10_svc_run_feasible : forall K c xs ys, 0 <= c -> forall ops l,
  Forall (op_ok xs ys) ops -> svc_inv c xs ys l ->
  svc_inv c xs ys (fold_left (fun l o => apply_op K c o l) ops l).
Proof. exact run_ops_inv. Qed.

(* svc_run_feasible on the transliterated optimizer: for EVERY visiting order drawn by initialize
   (perm0) and by each epoch (perms), every kernel, tolerance and fuel: whenever `optimize` returns,
   its support vectors satisfy the invariant. *)
Theorem C10_svc_optimize_feasible : forall K tau big nbig c tol xs ys, 0 <= c ->
  forall fuel perm0 perms st b,
  optimize ROps K tau big nbig c tol xs ys fuel perm0 perms = Some (st, b) ->
  svc_inv c xs ys (st_sv st).
Proof. exact optimize_inv. Qed.

(* The fitted classifier (classes, instances, w, b) of `SVC::fit`, for every schedule: the
   coefficients sum to zero, every support vector is a training row, and its coefficient lies
   between 0 and C in the direction of its own sample's class (the smaller class value c0 is the
   negative class).  [svc_sv_are_training_rows + feasibility] *)
Theorem C10_svc_fit_feasible : forall K tau big nbig c tol fuel xs y perm0 perms c0 c1 inst w b,
  0 <= c ->
  svc_fit ROps K tau big nbig c tol fuel xs y perm0 perms = Some (c0, c1, inst, w, b) ->
  length inst = length w /\
  rsum (fun a => a) w = 0 /\
  forall k s wk, nth_error inst k = Some s -> nth_error w k = Some wk ->
    exists i yi, nth_error xs i = Some s /\ nth_error y i = Some yi /\
                 (yi <> c0 -> 0 <= wk <= c) /\ (yi = c0 -> - c <= wk <= 0).
Proof. exact svc_fit_feasible. Qed.

(* decision_function = b + sum_i w_i K(x, sv_i) *)
Theorem C10_svc_decision_expansion : forall K inst w b x,
  decision ROps K inst w b x = b + expansion K inst w x.
Proof. exact decision_expansion. Qed.

(* the predicted label is the larger class value exactly when the decision value is positive *)
Theorem C10_svc_predict_sign : forall K c0 c1 inst w b x,
  (0 < b + expansion K inst w x -> svc_predict ROps K c0 c1 inst w b x = c1) /\
  (b + expansion K inst w x <= 0 -> svc_predict ROps K c0 c1 inst w b x = c0).
Proof. exact predict_sign. Qed.

(* ---------------------------------------------------------------------------------------------- *)
(* SVR                                                                                            *)
(* ---------------------------------------------------------------------------------------------- *)

(* svr_step_feasible, scalar form: both clipping branches, every delta. *)
Theorem C10_svr_clip_feasible : forall c ai aj d, 0 <= ai <= c -> 0 <= aj <= c ->
  (0 <= fst (svr_clip_ne ROps c ai aj d) <= c /\ 0 <= snd (svr_clip_ne ROps c ai aj d) <= c /\
   fst (svr_clip_ne ROps c ai aj d) - snd (svr_clip_ne ROps c ai aj d) = ai - aj) /\
  (0 <= fst (svr_clip_eq ROps c ai aj d) <= c /\ 0 <= snd (svr_clip_eq ROps c ai aj d) <= c /\
   fst (svr_clip_eq ROps c ai aj d) + snd (svr_clip_eq ROps c ai aj d) = ai + aj).
Proof.
  intros c ai aj d H1 H2. split.
  - exact (svr_clip_ne_feasible c ai aj d H1 H2).
  - exact (svr_clip_eq_feasible c ai aj d H1 H2).
Qed.

(* svr_step_feasible, state form: one iteration on ANY pair of distinct coefficients ((v1,i),(v2,j))
   with ANY unclipped step keeps 0 <= alpha <= C everywhere and sum w = 0. *)
Theorem C10_svr_step_feasible : forall K c l l' v1 i v2 j delta,
  (i < 2)%nat -> (j < 2)%nat ->
  svr_step ROps K c v1 i v2 j delta l = Some l' -> svr_inv c l -> svr_inv c l'.
Proof.
  intros K c l l' v1 i v2 j delta Hi Hj Hs Hinv.
  exact (proj1 (svr_step_inv K c 0 [] l l' v1 i v2 j delta Hi Hj Hs Hinv)).
Qed.

(* svr_gradient_invariant: the same iteration keeps grad = eps +- (y - f0(x)), i.e. the code's
   incremental gradient maintenance is exact for every pair and every step. *)
Theorem C10_svr_gradient_invariant : forall K c eps ys l l' v1 i v2 j delta,
  (i < 2)%nat -> (j < 2)%nat ->
  svr_step ROps K c v1 i v2 j delta l = Some l' -> svr_inv c l ->
  ginv K eps ys l -> ginv K eps ys l'.
Proof.
  intros K c eps ys l l' v1 i v2 j delta Hi Hj Hs Hinv.
  exact (proj1 (proj2 (svr_step_inv K c eps ys l l' v1 i v2 j delta Hi Hj Hs Hinv))).
Qed.

(* svr_exit_kkt: for every training set, symmetric kernel, C > 0, eps >= 0, tolerance and fuel:
   whenever the transliterated `Optimizer::smo` returns, the state is feasible, holds one vector per
   training row in order, and every training point satisfies its epsilon-insensitive optimality
   condition within tol/2 with respect to the model (instances, w, b) that `fit` returns:
   zero weight -> inside the tube; 0 < |w| < C -> on its boundary (on the side of the weight's
   sign); |w| = C -> on or outside it. *)
Theorem C10_svr_exit_kkt : forall K tau big nbig c tol eps xs ys,
  0 < c -> length xs = length ys -> (forall x y, K x y = K y x) -> 0 <= eps ->
  forall fuel l m,
  svr_smo ROps K tau big nbig c tol fuel eps xs ys = Some (l, m) ->
  svr_inv c l /\
  map (r_index (T:=R)) l = seq 0 (length xs) /\
  forall v, In v l ->
    exists y, nth_error xs (r_index v) = Some (r_x v) /\ nth_error ys (r_index v) = Some y /\
    let res := y - decision ROps K (svr_instances ROps l) (svr_weights ROps l) (svr_b ROps m) (r_x v) in
    let w := svr_w ROps v in
    (w = 0 -> - eps - tol / 2 <= res <= eps + tol / 2) /\
    (0 < w < c -> eps - tol / 2 <= res <= eps + tol / 2) /\
    (- c < w < 0 -> - eps - tol / 2 <= res <= - eps + tol / 2) /\
    (w = c -> eps - tol / 2 <= res) /\
    (w = - c -> res <= - eps + tol / 2).
Proof. exact svr_smo_kkt. Qed.

(* svr_expansion: the regressor's prediction on its returned (instances, w, b) — only vectors with
   alpha0 <> alpha1 are kept — equals b + sum over ALL training rows of (alpha1 - alpha0) K(x_u, x). *)
Theorem C10_svr_expansion : forall K, (forall x y, K x y = K y x) -> forall l b x,
  decision ROps K (svr_instances ROps l) (svr_weights ROps l) b x = b + f0 K l x.
Proof. intros K Hs l b x. rewrite decision_expansion, (expansion_all K Hs). reflexivity. Qed.

(* ---------------------------------------------------------------------------------------------- *)
(* Kernels                                                                                        *)
(* ---------------------------------------------------------------------------------------------- *)
Theorem C10_kernel_closed_forms : forall gamma coef0 degree n th x y,
  k_linear ROps x y = rdot x y /\
  k_rbf ROps gamma x y = exp (- gamma * rsqdist x y) /\
  k_poly ROps (fun b _ => opown ROps b n) degree gamma coef0 x y = (gamma * rdot x y + coef0) ^ n /\
  k_sigmoid ROps th gamma coef0 x y = th (gamma * rdot x y + coef0) /\
  (forall z, otanh ROps z = tanh z).
Proof.
  intros. split; [apply k_linear_closed|]. split; [apply k_rbf_closed|]. split; [apply k_poly_closed|].
  split; [apply k_sigmoid_closed | exact otanh_tanh].
Qed.

Theorem C10_kernel_symmetric : forall gamma coef0 degree pw th x y,
  k_linear ROps x y = k_linear ROps y x /\
  k_rbf ROps gamma x y = k_rbf ROps gamma y x /\
  k_poly ROps pw degree gamma coef0 x y = k_poly ROps pw degree gamma coef0 y x /\
  k_sigmoid ROps th gamma coef0 x y = k_sigmoid ROps th gamma coef0 y x.
Proof.
  intros. split; [apply k_linear_sym|]. split; [apply k_rbf_sym|]. split; [apply k_poly_sym | apply k_sigmoid_sym].
Qed.

(* linear Gram matrices are positive semi-definite: for every finite family of (coefficient, row)
   pairs, sum_a sum_b c_a c_b <x_a, x_b> >= 0 (it is a sum of squares) *)
Theorem C10_linear_gram_psd : forall cxs : list (R * list R),
  0 <= rsum (fun a => rsum (fun b => fst a * fst b * k_linear ROps (snd a) (snd b)) cxs) cxs.
Proof. exact linear_gram_psd. Qed.

(* Schur product without spectral theory: if K1 is, on the rows at hand, an explicit finite sum of
   weighted rank-one terms  K1(x,y) = sum_k w_k f_k(x) f_k(y)  with w_k >= 0, and K2 is positive
   semi-definite, then the entrywise product K1*K2 is positive semi-definite
   (v^T (K1 o K2) v = sum_k w_k (f_k o v)^T K2 (f_k o v)). *)
Theorem C10_schur_rank_one_sum : forall (Ix : Type) (ks : list Ix) (w : Ix -> R) (f : Ix -> list R -> R)
    (K1 K2 : list R -> list R -> R) (cxs : list (R * list R)),
  (forall k, In k ks -> 0 <= w k) ->
  (forall a b, In a cxs -> In b cxs ->
     K1 (snd a) (snd b) = rsum (fun k => w k * (f k (snd a) * f k (snd b))) ks) ->
  (forall cxs' : list (R * list R),
     0 <= rsum (fun a => rsum (fun b => fst a * fst b * K2 (snd a) (snd b)) cxs') cxs') ->
  0 <= rsum (fun a => rsum (fun b => fst a * fst b * (K1 (snd a) (snd b) * K2 (snd a) (snd b))) cxs) cxs.
Proof. exact schur_rank_one_sum_plain. Qed.

(* polynomial Gram matrices are positive semi-definite: gamma >= 0, coef0 >= 0, every natural degree d
   (the power function of the model's kernel instantiated with the d-fold product, as in
   C10_kernel_closed_forms), every finite family of rows of any lengths, every coefficient vector.
   Induction on d by the Schur product; the degree-1 matrix is gamma X X^T + coef0 1 1^T. *)
Theorem C10_polynomial_gram_psd : forall gamma coef0 degree d (cxs : list (R * list R)),
  0 <= gamma -> 0 <= coef0 ->
  0 <= rsum (fun a => rsum (fun b => fst a * fst b *
                        k_poly ROps (fun b _ => opown ROps b d) degree gamma coef0 (snd a) (snd b)) cxs) cxs.
Proof. exact polynomial_gram_psd. Qed.

(* RBF Gram matrices are positive semi-definite: gamma >= 0, every finite family of rows of one common
   length n (every n), every coefficient vector.  exp(-g|x-y|^2) = exp(-g|x|^2) exp(-g|y|^2) exp(2g x.y);
   the last factor is the limit of the partial sums of the exponential series (Coq's exp is defined as
   that infinite sum), each of which is PSD by the polynomial case; limits of non-negative numbers are
   non-negative; conjugation by a positive diagonal keeps PSD.
   The common-length hypothesis is the domain of the Rust kernel (Vec::sub panics on a length mismatch);
   the model truncates the longer row instead, and on such ragged families the statement is FALSE
   (C10_rbf_gram_psd_ragged_refuted) — so this is the full-strength statement. *)
Theorem C10_rbf_gram_psd : forall gamma n (cxs : list (R * list R)), 0 <= gamma ->
  (forall a, In a cxs -> length (snd a) = n) ->
  0 <= rsum (fun a => rsum (fun b => fst a * fst b * k_rbf ROps gamma (snd a) (snd b)) cxs) cxs.
Proof. exact rbf_gram_psd. Qed.

(* the statement without the common-length hypothesis (the former C10_rbf_gram_psd_full_statement) is
   refuted in the model: rows [0], [], [10] (gamma = 1) with coefficients 1, -1, 1.  This is a fact about
   the model's truncation on inputs on which the Rust code panics, not a defect of the code. *)
Theorem C10_rbf_gram_psd_ragged_refuted :
  exists gamma (cxs : list (R * list R)), 0 <= gamma /\
    rsum (fun a => rsum (fun b => fst a * fst b * k_rbf ROps gamma (snd a) (snd b)) cxs) cxs < 0.
Proof. exact rbf_gram_ragged_not_psd. Qed.

(* for rows of ANY two lengths: unit diagonal and entries in (0,1], hence every 2x2 RBF Gram matrix is PSD *)
Theorem C10_rbf_gram_psd_partial : forall gamma x y c1 c2, 0 <= gamma ->
  k_rbf ROps gamma x x = 1 /\ 0 < k_rbf ROps gamma x y <= 1 /\
  0 <= c1 * c1 * k_rbf ROps gamma x x + c1 * c2 * k_rbf ROps gamma x y
       + c2 * c1 * k_rbf ROps gamma y x + c2 * c2 * k_rbf ROps gamma y y.
Proof. exact rbf_two_point_psd. Qed.

(* ---------------------------------------------------------------------------------------------- *)
(* SVR and the positive semi-definite kernels                                                     *)
(* ---------------------------------------------------------------------------------------------- *)
(* The kernel hypotheses of the SVR clauses (symmetry; PSD on every finite family of coefficients
   attached to training rows) hold for the three built-in kernels the property claims regressor
   optimality for, on training rows of one common length. *)
Theorem C10_svr_kernel_hypotheses_builtin : forall gamma coef0 degree d n (xs : list (list R)) (K : list R -> list R -> R),
  0 <= gamma -> 0 <= coef0 -> (forall x, In x xs -> length x = n) ->
  In K [k_linear ROps; k_rbf ROps gamma; k_poly ROps (fun b _ => opown ROps b d) degree gamma coef0] ->
  (forall x y, K x y = K y x) /\
  (forall cxs : list (R * list R), (forall a, In a cxs -> In (snd a) xs) ->
     0 <= rsum (fun a => rsum (fun b => fst a * fst b * K (snd a) (snd b)) cxs) cxs).
Proof. exact builtin_sym_psd. Qed.

(* curvature: for a symmetric kernel that is PSD on the training rows, the second-order term
   K_ii + K_jj - 2 K_ij of every pair step is non-negative; hence (tau > 0) the divisor `curv_of` used by
   the pair selection and by the step is positive, IS the true curvature whenever that is positive, and
   the code's tau fallback is reached only on pairs of curvature exactly zero (never hides a negative one). *)
Theorem C10_svr_curvature_psd : forall (K : list R -> list R -> R) tau (xs : list (list R)),
  0 < tau -> (forall x y, K x y = K y x) ->
  (forall cxs : list (R * list R), (forall a, In a cxs -> In (snd a) xs) ->
     0 <= rsum (fun a => rsum (fun b => fst a * fst b * K (snd a) (snd b)) cxs) cxs) ->
  forall x y, In x xs -> In y xs ->
  0 <= K x x + K y y - 2 * K x y /\
  0 < curv_of ROps tau (K x x) (K y y) (K x y) /\
  (0 < K x x + K y y - 2 * K x y -> curv_of ROps tau (K x x) (K y y) (K x y) = K x x + K y y - 2 * K x y) /\
  (K x x + K y y - 2 * K x y = 0 -> curv_of ROps tau (K x x) (K y y) (K x y) = tau).
Proof. exact svr_psd_curvature. Qed.

(* the same for the built-in kernels with the hypotheses discharged, for ALL rows (for RBF also rows of
   different lengths, by the two-point statement) *)
Theorem C10_builtin_curvature_nonneg : forall gamma coef0 degree d x y, 0 <= gamma -> 0 <= coef0 ->
  0 <= k_linear ROps x x + k_linear ROps y y - 2 * k_linear ROps x y /\
  0 <= k_rbf ROps gamma x x + k_rbf ROps gamma y y - 2 * k_rbf ROps gamma x y /\
  0 <= k_poly ROps (fun b _ => opown ROps b d) degree gamma coef0 x x
       + k_poly ROps (fun b _ => opown ROps b d) degree gamma coef0 y y
       - 2 * k_poly ROps (fun b _ => opown ROps b d) degree gamma coef0 x y.
Proof. exact builtin_curvature. Qed.

(* svr_exit_kkt for the built-in PSD kernels: no hypothesis about the kernel is left *)
Theorem C10_svr_exit_kkt_builtin : forall gamma coef0 degree d (K : list R -> list R -> R) tau big nbig c tol eps xs ys,
  0 <= gamma -> 0 <= coef0 ->
  In K [k_linear ROps; k_rbf ROps gamma; k_poly ROps (fun b _ => opown ROps b d) degree gamma coef0] ->
  0 < c -> length xs = length ys -> 0 <= eps ->
  forall fuel l m,
  svr_smo ROps K tau big nbig c tol fuel eps xs ys = Some (l, m) ->
  svr_inv c l /\
  map (r_index (T:=R)) l = seq 0 (length xs) /\
  forall v, In v l ->
    exists y, nth_error xs (r_index v) = Some (r_x v) /\ nth_error ys (r_index v) = Some y /\
    let res := y - decision ROps K (svr_instances ROps l) (svr_weights ROps l) (svr_b ROps m) (r_x v) in
    let w := svr_w ROps v in
    (w = 0 -> - eps - tol / 2 <= res <= eps + tol / 2) /\
    (0 < w < c -> eps - tol / 2 <= res <= eps + tol / 2) /\
    (- c < w < 0 -> - eps - tol / 2 <= res <= - eps + tol / 2) /\
    (w = c -> eps - tol / 2 <= res) /\
    (w = - c -> res <= - eps + tol / 2).
Proof. exact svr_smo_kkt_builtin. Qed.

(* ---- descent of the dual objective (the first half of a termination argument) ------------------ *)
(* svr_dual is the epsilon-insensitive dual objective (to be minimised), w_u = alpha1_u - alpha0_u *)
Theorem C10_svr_dual_objective_form : forall K eps ys (l : list (rsv (T:=R))),
  svr_dual K eps ys l
  = / 2 * rsum (fun u => rsum (fun v => wR u * wR v * K (r_x v) (r_x u)) l) l
    + eps * rsum (fun u => r_a0 u + r_a1 u) l
    - rsum (fun u => nth (r_index u) ys 0 * wR u) l.
Proof. exact svr_dual_form. Qed.

(* one iteration with the optimizer's own step (svr_delta: the Newton step of the pair with divisor
   curv_of) on ANY pair of distinct coefficients whose curvature is non-negative: the clipped update
   decreases the dual objective by at least 1/2 curv theta^2, theta being the clipped change of the
   first coefficient.  Needs: symmetric kernel, tau > 0, feasible state with exact gradients, and the
   cached diagonal entries r_k = K(x,x). *)
Theorem C10_svr_step_descent : forall K tau c eps ys, (forall x y, K x y = K y x) -> 0 < tau ->
  forall l l' v1 i v2 j s1 s2, (i < 2)%nat -> (j < 2)%nat ->
  svr_inv c l -> ginv K eps ys l ->
  nth_error l v1 = Some s1 -> nth_error l v2 = Some s2 ->
  r_k s1 = K (r_x s1) (r_x s1) -> r_k s2 = K (r_x s2) (r_x s2) ->
  0 <= K (r_x s1) (r_x s1) + K (r_x s2) (r_x s2) - 2 * K (r_x s1) (r_x s2) ->
  svr_step ROps K c v1 i v2 j (svr_delta ROps K tau s1 s2 i j) l = Some l' ->
  let th := fst (clip c i j (r_alpha s1 i) (r_alpha s2 j) (svr_delta ROps K tau s1 s2 i j)) - r_alpha s1 i in
  svr_dual K eps ys l' <= svr_dual K eps ys l
                 - / 2 * curv_of ROps tau (K (r_x s1) (r_x s1)) (K (r_x s2) (r_x s2)) (K (r_x s1) (r_x s2)) * (th * th).
Proof. exact svr_step_descent. Qed.

(* the transliterated loop, any number of iterations, from any state satisfying the loop invariant
   (loop_inv: feasible, exact gradients, min/max record consistent) whose vectors carry training rows and
   their diagonal kernel entries (xk_ok): for a symmetric kernel that is PSD on the training rows the
   dual objective at exit is not larger than at entry. *)
Theorem C10_svr_loop_descent : forall K tau big nbig c tol eps xs ys,
  (forall x y, K x y = K y x) -> 0 < tau ->
  (forall cxs : list (R * list R), (forall a, In a cxs -> In (snd a) xs) ->
     0 <= rsum (fun a => rsum (fun b => fst a * fst b * K (snd a) (snd b)) cxs) cxs) ->
  forall fuel l m l' m',
  loop_inv K c eps ys l m -> Forall (xk_ok K xs) l ->
  svr_loop ROps K tau big nbig c tol fuel l m = Some (l', m') ->
  svr_dual K eps ys l' <= svr_dual K eps ys l.
Proof. exact svr_loop_descent_psd. Qed.

(* hence: whenever `Optimizer::smo` returns, the dual objective of its coefficients is <= 0, the value
   of the all-zero start *)
Theorem C10_svr_smo_dual_nonpos : forall K tau big nbig c tol eps xs ys,
  (forall x y, K x y = K y x) -> 0 < tau ->
  (forall cxs : list (R * list R), (forall a, In a cxs -> In (snd a) xs) ->
     0 <= rsum (fun a => rsum (fun b => fst a * fst b * K (snd a) (snd b)) cxs) cxs) ->
  0 < c -> length xs = length ys ->
  forall fuel l m,
  svr_smo ROps K tau big nbig c tol fuel eps xs ys = Some (l, m) -> svr_dual K eps ys l <= 0.
Proof. exact svr_smo_dual_nonpos_psd. Qed.

(* the dual objective is bounded below on the feasible box for a kernel that is PSD on the training
   rows: W >= - C sum_u |y_u|.  With C10_svr_step_descent: over any run of the optimizer the decreases
   1/2 curv theta^2 of all iterations sum to at most W(start) + C sum |y|. *)
Theorem C10_svr_dual_lower_bound : forall K c eps xs ys (l : list (rsv (T:=R))),
  (forall x y, K x y = K y x) ->
  (forall cxs : list (R * list R), (forall a, In a cxs -> In (snd a) xs) ->
     0 <= rsum (fun a => rsum (fun b => fst a * fst b * K (snd a) (snd b)) cxs) cxs) ->
  0 <= eps -> svr_inv c l -> Forall (fun v => In (r_x v) xs) l ->
  - c * rsum (fun u => Rabs (nth (r_index u) ys 0)) l <= svr_dual K eps ys l.
Proof. exact svr_dual_lower_bound. Qed.

(* ---------------------------------------------------------------------------------------------- *)
(* Not proved (searched on every run): stated here so that the gap stays visible.                  *)
(* ---------------------------------------------------------------------------------------------- *)
(* SVR termination: for a kernel that is symmetric and positive semi-definite on the training rows some
   amount of fuel suffices.  NOT a target of the proof effort.  What is proved towards it: every iteration
   decreases the dual objective by 1/2 curv theta^2 (C10_svr_step_descent), and the objective is bounded below
   (C10_svr_dual_lower_bound), so the decreases are summable.  What is missing: a uniform
   positive lower bound on the decrease while gmax - gmin > tol (theta can be cut arbitrarily short by
   the box, which is where the classical finite-termination proofs of SMO need a separate argument);
   termination is searched under a watchdog on every run.  The PSD hypothesis is stated on
   families of training rows, so that by C10_svr_kernel_hypotheses_builtin it is satisfied by the linear,
   RBF and integer-degree polynomial kernels on rows of one common length (stated over ALL row lists it
   would be unsatisfiable for RBF: C10_rbf_gram_psd_ragged_refuted). *)
Definition C10_svr_terminates_full_statement : Prop :=
  forall K tau big nbig c tol eps xs ys,
    0 < c -> 0 < tol -> 0 < tau -> nbig < 0 < big -> length xs = length ys ->
    (forall x y, K x y = K y x) ->
    (forall cxs : list (R * list R), (forall a, In a cxs -> In (snd a) xs) ->
       0 <= rsum (fun a => rsum (fun b => fst a * fst b * K (snd a) (snd b)) cxs) cxs) ->
    exists fuel, svr_smo ROps K tau big nbig c tol fuel eps xs ys <> None.

(* ---------------------------------------------------------------------------------------------- *)
(* The hypotheses are satisfiable                                                                  *)
(* ---------------------------------------------------------------------------------------------- *)
(* a feasible two-vector state (C = 1, one vector of each class), and a clipped step on it *)
Example C10_svc_inv_instance :
  let xs := [[1]; [-1]] in let ys := [1; -1] in
  let l := [mkSV 0 [1] (1/2) 0 0 1 1; mkSV 1 [-1] (-1/2) 0 (-1) 0 1] in
  svc_inv 1 xs ys l /\
  svc_inv 1 xs ys (update_alpha ROps 1 0 (smo_clip ROps (-1/2) (-1) 0 (1/2) 0 1 5) l).
Proof.
  cbv zeta.
  assert (H : svc_inv 1 [[1]; [-1]] [1; -1] [mkSV 0 [1] (1/2) 0 0 1 1; mkSV 1 [-1] (-1/2) 0 (-1) 0 1]).
  { split.
    - constructor; [|constructor; [|constructor]]; unfold sv_ok; cbn.
      + split; [lra|]. split; [reflexivity|]. exists 1. split; [reflexivity|]. left. lra.
      + split; [lra|]. split; [reflexivity|]. exists (-1). split; [reflexivity|]. right. lra.
    - cbn. lra. }
  split; [exact H|].
  exact (update_alpha_inv 1 _ _ _ 1%nat 0%nat _ _ 5 H eq_refl eq_refl).
Qed.

(* a feasible regression state with exact gradients: two rows, weights +1/2 and -1/2 *)
Example C10_svr_inv_instance :
  svr_inv 1 [mkRSV 0 [1] 0 (1/2) 0 0 1; mkRSV 1 [2] (1/2) 0 0 0 4].
Proof.
  split.
  - constructor; [|constructor; [|constructor]]; unfold r_box; cbn; lra.
  - cbn. unfold wR; cbn. lra.
Qed.

(* the transliterated optimizers do return (binary64 instance, executed): a four-row classifier fit on
   the identity visiting orders and a four-row regression fit *)
Example C10_svc_fit_returns :
  exists r, svc_fit FOps (k_linear FOps) 0x1.19799812dea11p-40%float 0x1.fffffffffffffp+1023%float
              (-0x1.fffffffffffffp+1023)%float 1%float 0x1.0624dd2f1a9fcp-10%float 1000
              [[1]; [2]; [-1]; [-3]]%float [1; 1; 0; 0]%float [0; 1; 2; 3]%nat [[3; 1; 0; 2]]%nat = Some r.
Proof. eexists. vm_compute. reflexivity. Qed.

Example C10_svr_smo_returns :
  exists r, svr_smo FOps (k_linear FOps) 0x1.19799812dea11p-40%float 0x1.fffffffffffffp+1023%float
              (-0x1.fffffffffffffp+1023)%float 1%float 0x1.0624dd2f1a9fcp-10%float 1000 0x1p-3%float
              [[1]; [2]; [-1]; [-3]]%float [1; 2.5; -1; -2]%float = Some r.
Proof. eexists. vm_compute. reflexivity. Qed.

(* the hypotheses of the Gram-matrix theorems are satisfiable on non-trivial instances *)
(* three rows of common length 2 with mixed-sign coefficients (C10_rbf_gram_psd, gamma = 1/2) *)
Example C10_rbf_gram_psd_instance :
  let cxs := [(1, [0; 1]); (-2, [3; 4]); (1/2, [-1; 2])] in
  (forall a, In a cxs -> length (snd a) = 2%nat) /\
  0 <= rsum (fun a => rsum (fun b => fst a * fst b * k_rbf ROps (1/2) (snd a) (snd b)) cxs) cxs.
Proof.
  cbv zeta. assert (H : forall a : R * list R, In a [(1, [0; 1]); (-2, [3; 4]); (1/2, [-1; 2])] -> length (snd a) = 2%nat).
  { intros a [<-|[<-|[<-|[]]]]; reflexivity. }
  split; [exact H|]. apply (rbf_gram_psd (1/2) 2); [lra | exact H].
Qed.

(* Schur product: K1 = 2 x.y + 3 on two rows of length 1 is the weighted rank-one sum with index set
   [None; Some 0] (weights 3, 2; f_None = 1, f_(Some 0) = first coordinate); K2 = the linear kernel *)
Example C10_schur_rank_one_sum_instance :
  let cxs := [(1, [2]); (-1, [5])] in
  let ks := [None; Some 0%nat] in
  let w := fun k : option nat => match k with None => 3 | Some _ => 2 end in
  let f := fun (k : option nat) (x : list R) => match k with None => 1 | Some i => nth i x 0 end in
  (forall k, In k ks -> 0 <= w k) /\
  (forall a b, In a cxs -> In b cxs ->
     2 * k_linear ROps (snd a) (snd b) + 3 = rsum (fun k => w k * (f k (snd a) * f k (snd b))) ks) /\
  (forall cxs' : list (R * list R),
     0 <= rsum (fun a => rsum (fun b => fst a * fst b * k_linear ROps (snd a) (snd b)) cxs') cxs').
Proof.
  cbv zeta. split; [|split].
  - intros k [<-|[<-|[]]]; lra.
  - intros a b [<-|[<-|[]]] [<-|[<-|[]]]; rewrite k_linear_closed; cbn; lra.
  - exact linear_gram_psd.
Qed.

(* the kernel hypotheses of the SVR clauses on a concrete training set (rows of length 2, RBF gamma = 1/4) *)
Example C10_svr_kernel_hypotheses_instance :
  let xs := [[1; 0]; [2; -1]; [0; 3]] in
  (forall x, In x xs -> length x = 2%nat) /\
  In (k_rbf ROps (1/4)) [k_linear ROps; k_rbf ROps (1/4); k_poly ROps (fun b _ => opown ROps b 3) 3 (1/4) 1] /\
  (forall cxs : list (R * list R), (forall a, In a cxs -> In (snd a) xs) ->
     0 <= rsum (fun a => rsum (fun b => fst a * fst b * k_rbf ROps (1/4) (snd a) (snd b)) cxs) cxs).
Proof.
  cbv zeta.
  assert (H : forall x : list R, In x [[1; 0]; [2; -1]; [0; 3]] -> length x = 2%nat).
  { intros x [<-|[<-|[<-|[]]]]; reflexivity. }
  split; [exact H|]. split; [right; left; reflexivity|].
  apply (builtin_sym_psd (1/4) 1 3 3 2 _ _); try lra; [exact H | right; left; reflexivity].
Qed.

(* every hypothesis of C10_svr_step_descent holds on a concrete state: the initial state of a two-row
   problem (linear kernel, C = 1, eps = 1/4, tau = 1/1000), pair ((1,1),(0,0)) *)
Example C10_svr_step_descent_instance :
  let K := k_linear ROps in
  let l := svr_init ROps K (1/4) 0 [[1]; [2]] [1; 3] in
  exists s1 s2 l',
    svr_inv 1 l /\ ginv K (1/4) [1; 3] l /\
    nth_error l 1 = Some s1 /\ nth_error l 0 = Some s2 /\
    r_k s1 = K (r_x s1) (r_x s1) /\ r_k s2 = K (r_x s2) (r_x s2) /\
    0 <= K (r_x s1) (r_x s1) + K (r_x s2) (r_x s2) - 2 * K (r_x s1) (r_x s2) /\
    svr_step ROps K 1 1 1 0 0 (svr_delta ROps K (1/1000) s1 s2 1 0) l = Some l'.
Proof. exact svr_step_descent_instance. Qed.

(* the hypotheses of C10_svr_dual_lower_bound on a concrete feasible state (weights +1/2, -1/2 on the
   training rows [1], [2]; linear kernel) *)
Example C10_svr_dual_lower_bound_instance :
  let l := [mkRSV 0 [1] 0 (1/2) 0 0 1; mkRSV 1 [2] (1/2) 0 0 0 4] in
  svr_inv 1 l /\ Forall (fun v => In (r_x v) [[1]; [2]]) l /\
  (forall cxs : list (R * list R), (forall a, In a cxs -> In (snd a) [[1]; [2]]) ->
     0 <= rsum (fun a => rsum (fun b => fst a * fst b * k_linear ROps (snd a) (snd b)) cxs) cxs).
Proof.
  cbv zeta. split; [exact C10_svr_inv_instance|]. split.
  - constructor; [left; reflexivity | constructor; [right; left; reflexivity | constructor]].
  - intros cxs _. apply linear_gram_psd.
Qed.
