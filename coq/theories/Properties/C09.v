(* C09 — logistic regression and L-BFGS.  Property theorems only; statements are about the executable
   model SC.C09.Model (a transliteration of src/linear/logistic_regression.rs, src/optimization/
   first_order/lbfgs.rs, src/optimization/line_search.rs, src/math/num.rs), which the correspondence
   check ties to the code on every run. *)
From Coq Require Import List ZArith Bool Reals Lra Lia.
From Coquelicot Require Import Coquelicot.
From SC Require Import Base.Num C09.Model C09.ProofsSearch C09.ProofsGrad C09.ProofsGradMulti C09.ProofsStable C09.ProofsConvex C09.ProofsConvexMulti C09.ProofsFit C09.ProofsFitEx C09.ProofsStrict C09.ProofsPredict C09.ProofsExamples.
Import ListNotations.
Local Open Scope R_scope.

(* Backtracking::search (after repair 78b374f it never panics), over ANY scalar arithmetic (binary64 included),
   every objective, every parameter setting and both interpolation orders: it returns, and what it returns is
   either a step at which the loop's own test `f(a) > f0 + c1*a*df0` is false together with the objective value
   at exactly that step, or -- iteration budget exhausted -- the zero step together with the value f0. *)
Theorem C09_backtracking_always_returns :
  forall (T : Type) (O : Ops T) (P : bt_params) (phi : T -> T) (alpha f0 df0 : T),
  exists a fx, bt_search O P phi alpha f0 df0 = Some (a, fx).
Proof. exact @bt_search_total. Qed.

Theorem C09_backtracking_exit_test_any_arithmetic :
  forall (T : Type) (O : Ops T) (P : bt_params) (phi : T -> T) (alpha f0 df0 a fx : T),
  bt_search O P phi alpha f0 df0 = Some (a, fx) ->
  (oltb O (oadd O f0 (omul O (omul O (bt_c1 P) a) df0)) fx = false /\ fx = phi a) \/
  (a = o0 O /\ fx = f0).
Proof. exact @bt_search_exit. Qed.

(* Over the reals, both exits: a positive step that satisfies the sufficient-decrease (Armijo) inequality, or the
   zero step with the value f0; either way the returned value never exceeds f0 along a non-ascent direction. *)
Theorem C09_backtracking_armijo :
  forall (P : bt_params) (phi : R -> R) (alpha f0 df0 a fx : R),
  0 < alpha -> 0 < bt_plo P ->
  bt_search ROps P phi alpha f0 df0 = Some (a, fx) ->
  ((0 < a /\ fx = phi a /\ fx <= f0 + bt_c1 P * a * df0) \/ (a = 0 /\ fx = f0)) /\
  (0 <= bt_c1 P -> df0 <= 0 -> fx <= f0).
Proof. exact backtracking_armijo. Qed.

(* satisfiable, both exits: a line search that needs one interpolation, and one that has to give up *)
Example C09_backtracking_armijo_sat :
  bt_search ROps ex_bt (fun a => (a - 1/4) * (a - 1/4)) 1 (1/16) (-1/2) = Some (1/4, 0)
  /\ bt_search ROps ex_bt (fun _ => 1) 1 0 (-1) = Some (0, 0)
  /\ 0 < 1 /\ 0 < bt_plo ex_bt.
Proof. split; [exact ex_line_search|]. split; [exact ex_line_search_gives_up|]. cbn. lra. Qed.

(* the zero-step exit is taken exactly when it has to be: if no positive step passes the test, the search
   (whatever its budget) answers (0, f0) *)
Theorem C09_backtracking_gives_up_when_no_step_qualifies :
  forall (P : bt_params) (phi : R -> R) (alpha f0 df0 : R),
  0 < alpha -> 0 < bt_plo P -> (forall a, 0 < a -> f0 + bt_c1 P * a * df0 < phi a) ->
  bt_search ROps P phi alpha f0 df0 = Some (0, f0).
Proof. exact bt_search_gives_up. Qed.

(* LBFGS::optimize for EVERY objective f and "gradient" df (no smoothness, no convexity assumed; df only has to
   map vectors of the problem's dimension n to vectors of dimension n), every parameter setting with m > 0,
   every start of dimension n: if it returns, the returned point has dimension n and the recorded trace
   (f before, df0, alpha, f after) is a chain from f(x0) to f(returned x) whose links (see `link`) start at
   some x, go along some s with df0 = <df x, s>, and either satisfy the Armijo inequality at a positive step
   or stay at x (the line search gave up); hence along any run in which every step that moved went along a
   non-ascent direction the objective never increases and the returned point is no worse than the start. *)
Theorem C09_lbfgs_monotone :
  forall (f : list R -> R) (df : list R -> list R) (L : lb_params) (B : bt_params),
  0 <= bt_c1 B -> 0 < bt_plo B -> (0 < lb_m L)%nat ->
  forall n, (forall x, length x = n -> length (df x) = n) ->
  forall x0 st tr conv, length x0 = n ->
  optimize ROps f df L B x0 = Some (st, tr, conv) ->
  trace_mono f df B n (f x0) tr (f (st_x st)) /\ length (st_x st) = n /\
  (descent_trace tr -> f (st_x st) <= f x0).
Proof. exact lbfgs_monotone. Qed.

(* The convex route: if f lies above its tangents with slope df on dimension n (a convex function and its
   gradient) and c1 < 1, the descent hypothesis is not needed -- an Armijo-accepted positive step can only have
   been taken along a non-ascent direction, whatever the two-loop recursion produced from its (possibly
   indefinite) curvature pairs -- so EVERY returned run is monotone and ends no higher than it started. *)
Theorem C09_lbfgs_monotone_convex :
  forall (f : list R -> R) (df : list R -> list R) (L : lb_params) (B : bt_params),
  0 <= bt_c1 B -> 0 < bt_plo B -> (0 < lb_m L)%nat ->
  forall n, (forall x, length x = n -> length (df x) = n) ->
  bt_c1 B < 1 ->
  (forall x s a, length x = n -> length s = n -> f x + a * vdot ROps (df x) s <= f (vadd ROps x (vscale ROps s a))) ->
  forall x0 st tr conv, length x0 = n ->
  optimize ROps f df L B x0 = Some (st, tr, conv) ->
  descent_trace tr /\ length (st_x st) = n /\ f (st_x st) <= f x0.
Proof. exact lbfgs_monotone_convex. Qed.

Example C09_lbfgs_monotone_convex_sat :
  (forall x : list R, length x = 3%nat -> length ((fun v => v) x) = 3%nat) /\
  (forall x s a, length x = 3%nat -> length s = 3%nat ->
     ex_sq x + a * vdot ROps ((fun v => v) x) s <= ex_sq (vadd ROps x (vscale ROps s a))) /\
  0 <= bt_c1 ex_bt < 1 /\ 0 < bt_plo ex_bt.
Proof.
  split; [intros x H; exact H|]. split; [intros x s a Hx Hs; apply ex_sq_tangent; lia|]. cbn. lra.
Qed.

(* Convexity of the coded objectives: each lies above its tangents, the CODED gradient being the slope, for all
   points and directions of the right dimension and every step a (softplus / log-sum-exp via Jensen for exp;
   the inner product with the coded gradient is computed algebraically, no differentiation needed). *)
Theorem C09_binary_objective_above_its_tangents :
  forall p (x : list (list R)) (y : list nat) (alpha : R), List.Forall (fun r => length r = p) x ->
  forall w s a, length w = S p -> length s = S p ->
  binary_f_gen ROps lse_exact p x y alpha w + a * vdot ROps (binary_df_gen ROps sig_exact p x y alpha w) s
  <= binary_f_gen ROps lse_exact p x y alpha (vadd ROps w (vscale ROps s a)).
Proof. exact binary_tangent. Qed.

Theorem C09_multiclass_objective_above_its_tangents :
  forall p k (x : list (list R)) (y : list nat) (alpha : R),
  List.Forall (fun r => length r = p) x -> List.Forall (fun c => (c < k)%nat) y ->
  forall w s a, length w = (k * S p)%nat -> length s = (k * S p)%nat ->
  multi_f_gen ROps softmax_def p k x y alpha w + a * vdot ROps (multi_df_gen ROps softmax_def p k x y alpha w) s
  <= multi_f_gen ROps softmax_def p k x y alpha (vadd ROps w (vscale ROps s a)).
Proof. exact multi_tangent. Qed.

(* The monotonicity clause of the property as an exact-arithmetic theorem about the model of
   LogisticRegression::fit (`lr_fit` = `lr_fit_gen ln_1pe sigmoid softmax`; here with the exact forms of the
   three scalar functions): for every data set whose rows have p features, every label vector (arbitrary real
   label values), every alpha, every L-BFGS / line-search parameter setting with 0 <= c1 < 1, plo > 0, m > 0 --
   if fit returns a model M, then M has k >= 2 classes (k = number of distinct labels) and the objective at its
   weights is <= the objective at the all-zero start.  No hypothesis on the two-loop directions. *)
Theorem C09_logistic_fit_never_increases :
  forall (L : lb_params (T := R)) (B : bt_params (T := R)) p (x : list (list R)) (y : list R) alpha M,
  0 <= bt_c1 B < 1 -> 0 < bt_plo B -> (0 < lb_m L)%nat -> List.Forall (fun r => length r = p) x ->
  lr_fit_gen ROps lse_exact sig_exact softmax_def L B p x y alpha = Some M ->
  let k := length (unique ROps y) in
  let yi := lr_class_indices y in
  lr_k M = k /\ (2 <= k)%nat /\
  lr_objective p k x yi alpha (lr_weights M)
  <= lr_objective p k x yi alpha (zeros ROps (if Nat.eqb k 2 then S p else k * S p)%nat).
Proof. exact logistic_fit_never_increases. Qed.

(* satisfiable: a fit that returns (two rows [1] with labels 0 and 1: the gradient at the all-zero start is exactly
   zero, so the optimiser stops before its first iteration), with admissible parameters *)
Example C09_logistic_fit_never_increases_sat :
  (exists M, lr_fit_gen ROps lse_exact sig_exact softmax_def (ex_L (1/100000000)) ex_bt 1 [[1]; [1]] [0; 1] 0 = Some M) /\
  0 <= bt_c1 ex_bt < 1 /\ 0 < bt_plo ex_bt /\ (0 < lb_m (ex_L (1/100000000)))%nat /\
  List.Forall (fun r : list R => length r = 1%nat) [[1]; [1]].
Proof.
  split; [apply ex_fit_returns; lra|]. split; [cbn; lra|]. split; [cbn; lra|]. split; [cbn; lia|]. repeat constructor.
Qed.

Example C09_objectives_above_their_tangents_sat :
  List.Forall (fun r : list R => length r = 2%nat) [[1; 2]; [-3; 1/2]; [0; 4]] /\
  List.Forall (fun c => (c < 3)%nat) [0%nat; 2%nat; 1%nat] /\
  length [1/2; -1/4; 3; 0; 1; 2; -1; -1; 0] = (3 * 3)%nat /\ length [1/2; -1/4; 3] = 3%nat /\ 0 < 1/2.
Proof. repeat split; repeat constructor; lra. Qed.

(* Strong convexity in the weights for alpha > 0: the tangent inequality gains alpha/2 * a^2 * (squared length of
   the weight part of s); hence any two stationary points of the penalised objective have the SAME weights.
   (Nothing is claimed about the intercepts: for k >= 3 adding one constant to all intercepts leaves the
   multinomial objective unchanged, so the optimum is unique only up to that flat direction.) *)
Theorem C09_multiclass_penalised_optimum_unique_in_the_weights :
  forall p k (x : list (list R)) (y : list nat) (alpha : R),
  List.Forall (fun r => length r = p) x -> List.Forall (fun c => (c < k)%nat) y -> 0 < alpha ->
  (forall w s a, length w = (k * S p)%nat -> length s = (k * S p)%nat ->
     multi_f_gen ROps softmax_def p k x y alpha w + a * vdot ROps (multi_df_gen ROps softmax_def p k x y alpha w) s
     + alpha / 2 * (a * a) * psum p k s s
     <= multi_f_gen ROps softmax_def p k x y alpha (vadd ROps w (vscale ROps s a))) /\
  (forall w w', length w = (k * S p)%nat -> length w' = (k * S p)%nat ->
     (forall s, vdot ROps (multi_df_gen ROps softmax_def p k x y alpha w) s = 0) ->
     (forall s, vdot ROps (multi_df_gen ROps softmax_def p k x y alpha w') s = 0) ->
     forall i j, (i < k)%nat -> (j < p)%nat -> nth (i * S p + j) w' 0 = nth (i * S p + j) w 0).
Proof.
  intros p k x y alpha Hx Hy Ha. split.
  - exact (multi_tangent_strong p k x y alpha Hx Hy Ha).
  - exact (multi_stationary_same_weights p k x y alpha Hx Hy Ha).
Qed.

Theorem C09_binary_penalised_optimum_unique_in_the_weights :
  forall p (x : list (list R)) (y : list nat) (alpha : R),
  List.Forall (fun r => length r = p) x -> 0 < alpha ->
  (forall w s a, length w = S p -> length s = S p ->
     binary_f_gen ROps lse_exact p x y alpha w + a * vdot ROps (binary_df_gen ROps sig_exact p x y alpha w) s
     + alpha / 2 * (a * a) * sumsq (firstn p s)
     <= binary_f_gen ROps lse_exact p x y alpha (vadd ROps w (vscale ROps s a))) /\
  (forall w w', length w = S p -> length w' = S p ->
     (forall s, vdot ROps (binary_df_gen ROps sig_exact p x y alpha w) s = 0) ->
     (forall s, vdot ROps (binary_df_gen ROps sig_exact p x y alpha w') s = 0) ->
     forall j, (j < p)%nat -> nth j w' 0 = nth j w 0).
Proof.
  intros p x y alpha Hx Ha. split.
  - exact (binary_tangent_strong p x y alpha Hx Ha).
  - exact (binary_stationary_same_weights p x y alpha Hx Ha).
Qed.

(* The first L-BFGS direction is steepest descent, a strict descent direction unless the gradient is zero. *)
Theorem C09_two_loop_first_step_is_steepest_descent :
  forall m g rho dxh dgh al,
  let s := fst (two_loops ROps m 0 g rho dxh dgh al) in
  s = map Ropp g /\ vdot ROps g s = - vdot ROps g g /\ vdot ROps g s <= 0 /\
  ((exists x, In x g /\ x <> 0) -> vdot ROps g s < 0).
Proof. exact first_step_descent. Qed.

(* The coded gradient of the two-class objective IS the gradient of the coded objective: for every data set with
   p features per row, every label vector, every alpha and every point w (p weights then the bias), the partial
   derivative of `BinaryObjectiveFunction::f` with respect to coordinate j <= p is entry j of
   `BinaryObjectiveFunction::df` -- in particular the penalty contributes alpha*w_j for the weights (j < p)
   and nothing for the bias (j = p).  Over R, with ln(1+e^x) and 1/(1+e^-x) for the overflow-safe forms
   (C09_stable_forms bounds the difference). *)
Theorem C09_binary_df_is_gradient :
  forall p (x : list (list R)) (y : list nat) alpha (w : list R) j,
  length w = S p -> List.Forall (fun r => length r = p) x -> (j <= p)%nat ->
  is_derive (fun t => binary_f_gen ROps lse_exact p x y alpha (upd w j t)) (nth j w 0)
            (binary_df_entry ROps sig_exact p x y alpha w j).
Proof. exact binary_df_is_gradient. Qed.

Example C09_binary_df_is_gradient_sat :
  length [1/2; -1/4; 3] = 3%nat /\ List.Forall (fun r : list R => length r = 2%nat) [[1; 2]; [-3; 1/2]; [0; 4]] /\ (2 <= 2)%nat.
Proof. repeat split; repeat constructor. Qed.

(* The multinomial counterpart: for k classes, weights laid out class by class (p weights then the bias of the
   class), labels < k, every coordinate q = j*(p+1) + l: the partial derivative of `MultiClassObjectiveFunction::f`
   is entry q of `MultiClassObjectiveFunction::df` -- sum over rows of (softmax_j - [y = j]) * x_l (or * 1 for a
   bias), plus alpha*w_q for the weights only.  Over R with the shift-free softmax (C09_stable_softmax shows
   the coded shifted softmax equals it). *)
Theorem C09_multiclass_df_is_gradient :
  forall p k (x : list (list R)) (y : list nat) alpha (w : list R) q,
  length w = (k * S p)%nat -> List.Forall (fun r => length r = p) x -> List.Forall (fun c => (c < k)%nat) y ->
  (q < k * S p)%nat ->
  is_derive (fun t => multi_f_gen ROps softmax_def p k x y alpha (upd w q t)) (nth q w 0)
            (multi_df_entry ROps softmax_def p k x y alpha w q).
Proof. exact multiclass_df_is_gradient. Qed.

Example C09_multiclass_df_is_gradient_sat :
  length [1/2; -1/4; 3; 0; 1; 2; -1; -1; 0] = (3 * 3)%nat /\
  List.Forall (fun r : list R => length r = 2%nat) [[1; 2]; [-3; 1/2]; [0; 4]] /\
  List.Forall (fun c => (c < 3)%nat) [0%nat; 2%nat; 1%nat] /\ (5 < 3 * 3)%nat.
Proof. repeat split; repeat constructor. Qed.

(* The overflow-safe scalar forms equal their definitions over R: sigmoid exactly on [-40,40] and within e^-40
   everywhere; ln_1pe exactly up to 15 and, above, the shortcut `x` is below ln(1+e^x) by at most e^-15;
   softmax with the shift by the row maximum is exp(x_i)/sum_j exp(x_j) exactly. *)
Theorem C09_stable_sigmoid :
  forall x : R, (- 40 <= x <= 40 -> sigmoid ROps x = sig_def x) /\ Rabs (sigmoid ROps x - sig_def x) <= exp (- 40).
Proof. exact sigmoid_stable. Qed.

Theorem C09_stable_ln_1pe :
  forall x : R, (x <= 15 -> ln_1pe ROps x = lse_def x) /\ 0 <= lse_def x - ln_1pe ROps x <= exp (- 15).
Proof. exact ln_1pe_stable. Qed.

Theorem C09_stable_softmax :
  forall l : list R, l <> [] -> softmax ROps l = softmax_def l.
Proof. exact softmax_stable. Qed.

(* predict: two classes -- index 1 (the larger label) exactly when the linear score is positive; otherwise the
   index is the FIRST position at which the row of linear scores attains its maximum. *)
Theorem C09_predict_is_argmax :
  forall (M : lr_model (T := R)) (row : list R),
  (lr_k M = 2%nat ->
     let z := vdot ROps row (nth 0 (lr_coef M) []) + nth 0 (lr_intercept M) 0 in
     (0 < z /\ predict_index ROps M row = 1%nat) \/ (z <= 0 /\ predict_index ROps M row = 0%nat)) /\
  (lr_k M <> 2%nat -> lr_scores M row <> [] ->
     let i := predict_index ROps M row in
     (i < length (lr_scores M row))%nat /\
     (forall j, (j < length (lr_scores M row))%nat -> nth j (lr_scores M row) 0 <= nth i (lr_scores M row) 0) /\
     (forall j, (j < i)%nat -> nth j (lr_scores M row) 0 < nth i (lr_scores M row) 0)).
Proof. exact predict_is_argmax. Qed.

Example C09_predict_is_argmax_sat :
  lr_k ex_lr2 = 2%nat /\ lr_k ex_lr3 <> 2%nat /\ lr_scores ex_lr3 [1; 2] <> [].
Proof. repeat split; cbn; congruence. Qed.

(* Predicted labels are the stored class values at the predicted index, hence original label values. *)
Theorem C09_predict_labels_are_class_values :
  forall (M : lr_model (T := R)) (x : list (list R)),
  lr_predict ROps M x = map (fun row => nth (predict_index ROps M row) (lr_classes M) 0) x /\
  (forall row, (predict_index ROps M row < length (lr_classes M))%nat ->
               In (nth (predict_index ROps M row) (lr_classes M) 0) (lr_classes M)).
Proof. exact predict_labels. Qed.
