(* C09 — logistic regression and L-BFGS.  Property theorems only; statements are about the executable
   model SC.C09.Model (a transliteration of src/linear/logistic_regression.rs, src/optimization/
   first_order/lbfgs.rs, src/optimization/line_search.rs, src/math/num.rs), which the correspondence
   check ties to the code on every run. *)
From Coq Require Import List ZArith Bool Reals Lra Lia Sorted.
From Coquelicot Require Import Coquelicot.
From SC Require Import Base.Num C09.Model C09.ProofsSearch C09.ProofsGrad C09.ProofsGradMulti C09.ProofsStable C09.ProofsConvex C09.ProofsConvexMulti C09.ProofsFit C09.ProofsFitEx C09.ProofsStrict C09.ProofsPredict C09.ProofsExamples
     C09.ProofsCoded C09.ProofsFitCoded C09.ProofsPredictFit C09.ProofsCodedEx C09.ProofsNearOpt C09.ProofsNearOptEx C09.ProofsScores.
Import ListNotations.
Local Open Scope R_scope.

(* Backtracking::search (after repair 78b374f it never panics), over ANY scalar arithmetic (binary64 included),
   every objective, every parameter setting and both interpolation orders: it returns, and what it returns is
   either a step at which the loop's own test `f(a) > f0 + c1*a*df0` is false together with the objective value
   at exactly that step, or -- iteration budget exhausted -- the zero step together with the value f0. *)
Theorem C09_backtracking_always_returns :
  forall (T : Type) (O : Ops T) (P : bt_params) (phi : T -> T) (alpha f0 df0 : T),
  exists a fx, bt_search O P phi alpha f0 df0 = Some (a, fx).
Proof. exact @bt_search_total. Qed.

Theorem C09_backtracking_exit_test_any_arithmetic :
  forall (T : Type) (O : Ops T) (P : bt_params) (phi : T -> T) (alpha f0 df0 a fx : T),
  bt_search O P phi alpha f0 df0 = Some (a, fx) ->
  (oltb O (oadd O f0 (omul O (omul O (bt_c1 P) a) df0)) fx = false /\ fx = phi a) \/
  (a = o0 O /\ fx = f0).
Proof. exact @bt_search_exit. Qed.

(* Over the reals, both exits: a positive step that satisfies the sufficient-decrease (Armijo) inequality, or the
   zero step with the value f0; either way the returned value never exceeds f0 along a non-ascent direction. *)
Theorem C09_backtracking_armijo :
  forall (P : bt_params) (phi : R -> R) (alpha f0 df0 a fx : R),
  0 < alpha -> 0 < bt_plo P ->
  bt_search ROps P phi alpha f0 df0 = Some (a, fx) ->
  ((0 < a /\ fx = phi a /\ fx <= f0 + bt_c1 P * a * df0) \/ (a = 0 /\ fx = f0)) /\
  (0 <= bt_c1 P -> df0 <= 0 -> fx <= f0).
Proof. exact backtracking_armijo. Qed.

(* satisfiable, both exits: a line search that needs one interpolation, and one that has to give up *)
Example C09_backtracking_armijo_sat :
  bt_search ROps ex_bt (fun a => (a - 1/4) * (a - 1/4)) 1 (1/16) (-1/2) = Some (1/4, 0)
  /\ bt_search ROps ex_bt (fun _ => 1) 1 0 (-1) = Some (0, 0)
  /\ 0 < 1 /\ 0 < bt_plo ex_bt.
Proof. split; [exact ex_line_search|]. split; [exact ex_line_search_gives_up|]. cbn. lra. Qed.

(* the zero-step exit is taken exactly when it has to be: if no positive step passes the test, the search
   (whatever its budget) answers (0, f0) *)
Theorem C09_backtracking_gives_up_when_no_step_qualifies :
  forall (P : bt_params) (phi : R -> R) (alpha f0 df0 : R),
  0 < alpha -> 0 < bt_plo P -> (forall a, 0 < a -> f0 + bt_c1 P * a * df0 < phi a) ->
  bt_search ROps P phi alpha f0 df0 = Some (0, f0).
Proof. exact bt_search_gives_up. Qed.

(* LBFGS::optimize for EVERY objective f and "gradient" df (no smoothness, no convexity assumed; df only has to
   map vectors of the problem's dimension n to vectors of dimension n), every parameter setting with m > 0,
   every start of dimension n: if it returns, the returned point has dimension n and the recorded trace
   (f before, df0, alpha, f after) is a chain from f(x0) to f(returned x) whose links (see `link`) start at
   some x, go along some s with df0 = <df x, s>, and either satisfy the Armijo inequality at a positive step
   or stay at x (the line search gave up); hence along any run in which every step that moved went along a
   non-ascent direction the objective never increases and the returned point is no worse than the start. *)
Theorem C09_lbfgs_monotone :
  forall (f : list R -> R) (df : list R -> list R) (L : lb_params) (B : bt_params),
  0 <= bt_c1 B -> 0 < bt_plo B -> (0 < lb_m L)%nat ->
  forall n, (forall x, length x = n -> length (df x) = n) ->
  forall x0 st tr conv, length x0 = n ->
  optimize ROps f df L B x0 = Some (st, tr, conv) ->
  trace_mono f df B n (f x0) tr (f (st_x st)) /\ length (st_x st) = n /\
  (descent_trace tr -> f (st_x st) <= f x0).
Proof. exact lbfgs_monotone. Qed.

(* The convex route: if f lies above its tangents with slope df on dimension n (a convex function and its
   gradient) and c1 < 1, the descent hypothesis is not needed -- an Armijo-accepted positive step can only have
   been taken along a non-ascent direction, whatever the two-loop recursion produced from its (possibly
   indefinite) curvature pairs -- so EVERY returned run is monotone and ends no higher than it started. *)
Theorem C09_lbfgs_monotone_convex :
  forall (f : list R -> R) (df : list R -> list R) (L : lb_params) (B : bt_params),
  0 <= bt_c1 B -> 0 < bt_plo B -> (0 < lb_m L)%nat ->
  forall n, (forall x, length x = n -> length (df x) = n) ->
  bt_c1 B < 1 ->
  (forall x s a, length x = n -> length s = n -> f x + a * vdot ROps (df x) s <= f (vadd ROps x (vscale ROps s a))) ->
  forall x0 st tr conv, length x0 = n ->
  optimize ROps f df L B x0 = Some (st, tr, conv) ->
  descent_trace tr /\ length (st_x st) = n /\ f (st_x st) <= f x0.
Proof. exact lbfgs_monotone_convex. Qed.

Example C09_lbfgs_monotone_convex_sat :
  (forall x : list R, length x = 3%nat -> length ((fun v => v) x) = 3%nat) /\
  (forall x s a, length x = 3%nat -> length s = 3%nat ->
     ex_sq x + a * vdot ROps ((fun v => v) x) s <= ex_sq (vadd ROps x (vscale ROps s a))) /\
  0 <= bt_c1 ex_bt < 1 /\ 0 < bt_plo ex_bt.
Proof.
  split; [intros x H; exact H|]. split; [intros x s a Hx Hs; apply ex_sq_tangent; lia|]. cbn. lra.
Qed.

(* Convexity of the coded objectives: each lies above its tangents, the CODED gradient being the slope, for all
   points and directions of the right dimension and every step a (softplus / log-sum-exp via Jensen for exp;
   the inner product with the coded gradient is computed algebraically, no differentiation needed). *)
Theorem C09_binary_objective_above_its_tangents :
  forall p (x : list (list R)) (y : list nat) (alpha : R), List.Forall (fun r => length r = p) x ->
  forall w s a, length w = S p -> length s = S p ->
  binary_f_gen ROps lse_exact p x y alpha w + a * vdot ROps (binary_df_gen ROps sig_exact p x y alpha w) s
  <= binary_f_gen ROps lse_exact p x y alpha (vadd ROps w (vscale ROps s a)).
Proof. exact binary_tangent. Qed.

Theorem C09_multiclass_objective_above_its_tangents :
  forall p k (x : list (list R)) (y : list nat) (alpha : R),
  List.Forall (fun r => length r = p) x -> List.Forall (fun c => (c < k)%nat) y ->
  forall w s a, length w = (k * S p)%nat -> length s = (k * S p)%nat ->
  multi_f_gen ROps softmax_def p k x y alpha w + a * vdot ROps (multi_df_gen ROps softmax_def p k x y alpha w) s
  <= multi_f_gen ROps softmax_def p k x y alpha (vadd ROps w (vscale ROps s a)).
Proof. exact multi_tangent. Qed.

(* The monotonicity clause of the property as an exact-arithmetic theorem about the model of
   LogisticRegression::fit (`lr_fit` = `lr_fit_gen ln_1pe sigmoid softmax`; here with the exact forms of the
   three scalar functions): for every data set whose rows have p features, every label vector (arbitrary real
   label values), every alpha, every L-BFGS / line-search parameter setting with 0 <= c1 < 1, plo > 0, m > 0 --
   if fit returns a model M, then M has k >= 2 classes (k = number of distinct labels) and the objective at its
   weights is <= the objective at the all-zero start.  No hypothesis on the two-loop directions. *)
Theorem C09_logistic_fit_never_increases :
  forall (L : lb_params (T := R)) (B : bt_params (T := R)) p (x : list (list R)) (y : list R) alpha M,
  0 <= bt_c1 B < 1 -> 0 < bt_plo B -> (0 < lb_m L)%nat -> List.Forall (fun r => length r = p) x ->
  lr_fit_gen ROps lse_exact sig_exact softmax_def L B p x y alpha = Some M ->
  let k := length (unique ROps y) in
  let yi := lr_class_indices y in
  lr_k M = k /\ (2 <= k)%nat /\
  lr_objective p k x yi alpha (lr_weights M)
  <= lr_objective p k x yi alpha (zeros ROps (if Nat.eqb k 2 then S p else k * S p)%nat).
Proof. exact logistic_fit_never_increases. Qed.

(* satisfiable: a fit that returns (two rows [1] with labels 0 and 1: the gradient at the all-zero start is exactly
   zero, so the optimiser stops before its first iteration), with admissible parameters *)
Example C09_logistic_fit_never_increases_sat :
  (exists M, lr_fit_gen ROps lse_exact sig_exact softmax_def (ex_L (1/100000000)) ex_bt 1 [[1]; [1]] [0; 1] 0 = Some M) /\
  0 <= bt_c1 ex_bt < 1 /\ 0 < bt_plo ex_bt /\ (0 < lb_m (ex_L (1/100000000)))%nat /\
  List.Forall (fun r : list R => length r = 1%nat) [[1]; [1]].
Proof.
  split; [apply ex_fit_returns; lra|]. split; [cbn; lra|]. split; [cbn; lra|]. split; [cbn; lia|]. repeat constructor.
Qed.

Example C09_objectives_above_their_tangents_sat :
  List.Forall (fun r : list R => length r = 2%nat) [[1; 2]; [-3; 1/2]; [0; 4]] /\
  List.Forall (fun c => (c < 3)%nat) [0%nat; 2%nat; 1%nat] /\
  length [1/2; -1/4; 3; 0; 1; 2; -1; -1; 0] = (3 * 3)%nat /\ length [1/2; -1/4; 3] = 3%nat /\ 0 < 1/2.
Proof. repeat split; repeat constructor; lra. Qed.

(* Strong convexity in the weights for alpha > 0: the tangent inequality gains alpha/2 * a^2 * (squared length of
   the weight part of s); hence any two stationary points of the penalised objective have the SAME weights.
   (Nothing is claimed about the intercepts: for k >= 3 adding one constant to all intercepts leaves the
   multinomial objective unchanged, so the optimum is unique only up to that flat direction.) *)
Theorem C09_multiclass_penalised_optimum_unique_in_the_weights :
  forall p k (x : list (list R)) (y : list nat) (alpha : R),
  List.Forall (fun r => length r = p) x -> List.Forall (fun c => (c < k)%nat) y -> 0 < alpha ->
  (forall w s a, length w = (k * S p)%nat -> length s = (k * S p)%nat ->
     multi_f_gen ROps softmax_def p k x y alpha w + a * vdot ROps (multi_df_gen ROps softmax_def p k x y alpha w) s
     + alpha / 2 * (a * a) * psum p k s s
     <= multi_f_gen ROps softmax_def p k x y alpha (vadd ROps w (vscale ROps s a))) /\
  (forall w w', length w = (k * S p)%nat -> length w' = (k * S p)%nat ->
     (forall s, vdot ROps (multi_df_gen ROps softmax_def p k x y alpha w) s = 0) ->
     (forall s, vdot ROps (multi_df_gen ROps softmax_def p k x y alpha w') s = 0) ->
     forall i j, (i < k)%nat -> (j < p)%nat -> nth (i * S p + j) w' 0 = nth (i * S p + j) w 0).
Proof.
  intros p k x y alpha Hx Hy Ha. split.
  - exact (multi_tangent_strong p k x y alpha Hx Hy Ha).
  - exact (multi_stationary_same_weights p k x y alpha Hx Hy Ha).
Qed.

Theorem C09_binary_penalised_optimum_unique_in_the_weights :
  forall p (x : list (list R)) (y : list nat) (alpha : R),
  List.Forall (fun r => length r = p) x -> 0 < alpha ->
  (forall w s a, length w = S p -> length s = S p ->
     binary_f_gen ROps lse_exact p x y alpha w + a * vdot ROps (binary_df_gen ROps sig_exact p x y alpha w) s
     + alpha / 2 * (a * a) * sumsq (firstn p s)
     <= binary_f_gen ROps lse_exact p x y alpha (vadd ROps w (vscale ROps s a))) /\
  (forall w w', length w = S p -> length w' = S p ->
     (forall s, vdot ROps (binary_df_gen ROps sig_exact p x y alpha w) s = 0) ->
     (forall s, vdot ROps (binary_df_gen ROps sig_exact p x y alpha w') s = 0) ->
     forall j, (j < p)%nat -> nth j w' 0 = nth j w 0).
Proof.
  intros p x y alpha Hx Ha. split.
  - exact (binary_tangent_strong p x y alpha Hx Ha).
  - exact (binary_stationary_same_weights p x y alpha Hx Ha).
Qed.

(* The first L-BFGS direction is steepest descent, a strict descent direction unless the gradient is zero. *)
Theorem C09_two_loop_first_step_is_steepest_descent :
  forall m g rho dxh dgh al,
  let s := fst (two_loops ROps m 0 g rho dxh dgh al) in
  s = map Ropp g /\ vdot ROps g s = - vdot ROps g g /\ vdot ROps g s <= 0 /\
  ((exists x, In x g /\ x <> 0) -> vdot ROps g s < 0).
Proof. exact first_step_descent. Qed.

(* The coded gradient of the two-class objective IS the gradient of the coded objective: for every data set with
   p features per row, every label vector, every alpha and every point w (p weights then the bias), the partial
   derivative of `BinaryObjectiveFunction::f` with respect to coordinate j <= p is entry j of
   `BinaryObjectiveFunction::df` -- in particular the penalty contributes alpha*w_j for the weights (j < p)
   and nothing for the bias (j = p).  Over R, with ln(1+e^x) and 1/(1+e^-x) for the overflow-safe forms
   (C09_stable_forms bounds the difference). *)
Theorem C09_binary_df_is_gradient :
  forall p (x : list (list R)) (y : list nat) alpha (w : list R) j,
  length w = S p -> List.Forall (fun r => length r = p) x -> (j <= p)%nat ->
  is_derive (fun t => binary_f_gen ROps lse_exact p x y alpha (upd w j t)) (nth j w 0)
            (binary_df_entry ROps sig_exact p x y alpha w j).
Proof. exact binary_df_is_gradient. Qed.

Example C09_binary_df_is_gradient_sat :
  length [1/2; -1/4; 3] = 3%nat /\ List.Forall (fun r : list R => length r = 2%nat) [[1; 2]; [-3; 1/2]; [0; 4]] /\ (2 <= 2)%nat.
Proof. repeat split; repeat constructor. Qed.

(* The multinomial counterpart: for k classes, weights laid out class by class (p weights then the bias of the
   class), labels < k, every coordinate q = j*(p+1) + l: the partial derivative of `MultiClassObjectiveFunction::f`
   is entry q of `MultiClassObjectiveFunction::df` -- sum over rows of (softmax_j - [y = j]) * x_l (or * 1 for a
   bias), plus alpha*w_q for the weights only.  Over R with the shift-free softmax (C09_stable_softmax shows
   the coded shifted softmax equals it). *)
Theorem C09_multiclass_df_is_gradient :
  forall p k (x : list (list R)) (y : list nat) alpha (w : list R) q,
  length w = (k * S p)%nat -> List.Forall (fun r => length r = p) x -> List.Forall (fun c => (c < k)%nat) y ->
  (q < k * S p)%nat ->
  is_derive (fun t => multi_f_gen ROps softmax_def p k x y alpha (upd w q t)) (nth q w 0)
            (multi_df_entry ROps softmax_def p k x y alpha w q).
Proof. exact multiclass_df_is_gradient. Qed.

Example C09_multiclass_df_is_gradient_sat :
  length [1/2; -1/4; 3; 0; 1; 2; -1; -1; 0] = (3 * 3)%nat /\
  List.Forall (fun r : list R => length r = 2%nat) [[1; 2]; [-3; 1/2]; [0; 4]] /\
  List.Forall (fun c => (c < 3)%nat) [0%nat; 2%nat; 1%nat] /\ (5 < 3 * 3)%nat.
Proof. repeat split; repeat constructor. Qed.

(* The overflow-safe scalar forms equal their definitions over R: sigmoid exactly on [-40,40] and within e^-40
   everywhere; ln_1pe exactly up to 15 and, above, the shortcut `x` is below ln(1+e^x) by at most e^-15;
   softmax with the shift by the row maximum is exp(x_i)/sum_j exp(x_j) exactly. *)
Theorem C09_stable_sigmoid :
  forall x : R, (- 40 <= x <= 40 -> sigmoid ROps x = sig_def x) /\ Rabs (sigmoid ROps x - sig_def x) <= exp (- 40).
Proof. exact sigmoid_stable. Qed.

Theorem C09_stable_ln_1pe :
  forall x : R, (x <= 15 -> ln_1pe ROps x = lse_def x) /\ 0 <= lse_def x - ln_1pe ROps x <= exp (- 15).
Proof. exact ln_1pe_stable. Qed.

Theorem C09_stable_softmax :
  forall l : list R, l <> [] -> softmax ROps l = softmax_def l.
Proof. exact softmax_stable. Qed.

(* predict: two classes -- index 1 (the larger label) exactly when the linear score is positive; otherwise the
   index is the FIRST position at which the row of linear scores attains its maximum. *)
Theorem C09_predict_is_argmax :
  forall (M : lr_model (T := R)) (row : list R),
  (lr_k M = 2%nat ->
     let z := vdot ROps row (nth 0 (lr_coef M) []) + nth 0 (lr_intercept M) 0 in
     (0 < z /\ predict_index ROps M row = 1%nat) \/ (z <= 0 /\ predict_index ROps M row = 0%nat)) /\
  (lr_k M <> 2%nat -> lr_scores M row <> [] ->
     let i := predict_index ROps M row in
     (i < length (lr_scores M row))%nat /\
     (forall j, (j < length (lr_scores M row))%nat -> nth j (lr_scores M row) 0 <= nth i (lr_scores M row) 0) /\
     (forall j, (j < i)%nat -> nth j (lr_scores M row) 0 < nth i (lr_scores M row) 0)).
Proof. exact predict_is_argmax. Qed.

Example C09_predict_is_argmax_sat :
  lr_k ex_lr2 = 2%nat /\ lr_k ex_lr3 <> 2%nat /\ lr_scores ex_lr3 [1; 2] <> [].
Proof. repeat split; cbn; congruence. Qed.

(* Predicted labels are the stored class values at the predicted index, hence original label values. *)
Theorem C09_predict_labels_are_class_values :
  forall (M : lr_model (T := R)) (x : list (list R)),
  lr_predict ROps M x = map (fun row => nth (predict_index ROps M row) (lr_classes M) 0) x /\
  (forall row, (predict_index ROps M row < length (lr_classes M))%nat ->
               In (nth (predict_index ROps M row) (lr_classes M) 0) (lr_classes M)).
Proof. exact predict_labels. Qed.

(* ====================================================================================================
   The CODED names.  `binary_f`, `binary_df`, `multi_f`, `multi_df` and `lr_fit` are what the correspondence
   executes: the `_gen` forms instantiated with the code's overflow-safe `ln_1pe`, `sigmoid`, `softmax`.  The
   theorems above are about the `_gen` forms instantiated with the exact functions; the theorems below say how the
   two are related, so that every executed definition is reached by a theorem.
   ==================================================================================================== *)

(* Multinomial: over R the coded objective and gradient ARE the exact ones (as functions: the shift by the row
   maximum in softmax_mut cancels), so C09_multiclass_* above are statements about `multi_f ROps`, `multi_df ROps`. *)
Theorem C09_coded_multiclass_objective_is_the_exact_one :
  multi_f ROps = multi_f_gen ROps softmax_def /\ multi_df ROps = multi_df_gen ROps softmax_def /\
  (forall l : list R, softmax ROps l = softmax_def l) /\
  (forall p k x y alpha (w : list R) q, (q < k * S p)%nat ->
     nth q (multi_df ROps p k x y alpha w) 0 = multi_df_entry ROps softmax_def p k x y alpha w q).
Proof.
  split; [exact multi_f_coded_fun|]. split; [exact multi_df_coded_fun|]. split; [exact softmax_coded|].
  intros p k x y alpha w q Hq. exact (proj2 (proj2 (multi_objective_coded_is_exact p k x y alpha w)) q Hq).
Qed.

(* Two-class: the coded objective equals the exact one at every point whose linear scores w.x_i + b are <= 15, the
   coded gradient equals the exact one where they lie in [-40, 40]; at ALL points the coded objective is below the
   exact one by at most (rows) * e^-15 and gradient entry j is off by at most e^-40 * sum_i |x_ij| (|1| for the
   bias entry j = p). *)
Theorem C09_coded_binary_objective_is_the_exact_one_within_the_cutoffs :
  forall p (x : list (list R)) (y : list nat) (alpha : R) (w : list R),
  (List.Forall (fun row => score w row <= 15) x ->
     binary_f ROps p x y alpha w = binary_f_gen ROps lse_exact p x y alpha w) /\
  (List.Forall (fun row => - 40 <= score w row <= 40) x ->
     binary_df ROps p x y alpha w = binary_df_gen ROps sig_exact p x y alpha w) /\
  0 <= binary_f_gen ROps lse_exact p x y alpha w - binary_f ROps p x y alpha w <= INR (length (combine x y)) * exp (- 15) /\
  (forall j, (j <= p)%nat ->
     Rabs (nth j (binary_df ROps p x y alpha w) 0 - nth j (binary_df_gen ROps sig_exact p x y alpha w) 0)
     <= exp (- 40) * lsum (fun ry => Rabs (ecoef p j (fst ry))) (combine x y)).
Proof.
  intros p x y alpha w. split; [apply binary_f_coded_in_range|]. split; [apply binary_df_coded_in_range|].
  split; [apply binary_f_coded_close|]. intros j Hj. unfold binary_df. rewrite !nth_binary_df by exact Hj.
  apply binary_df_entry_coded_close.
Qed.

Example C09_coded_binary_within_the_cutoffs_sat :
  List.Forall (fun row => score ex_w3 row <= 15) ex_x3 /\ List.Forall (fun row => - 40 <= score ex_w3 row <= 40) ex_x3.
Proof. split; (eapply Forall_impl; [|exact ex_scores_in_range]); cbv beta; intros; lra. Qed.

(* C09_gradient_is_derivative, with the coded names: `multi_df` is the gradient of `multi_f` at every point;
   `binary_df` is the gradient of `binary_f` at every point whose scores lie in [-40, 15).  (This is what makes
   'gradient negligible' mean 'near-stationary'.)  Outside that range the two-class statement is not claimed and is
   false as it stands: for a score above 15 the coded objective has slope exactly 1 in that score (the ln_1pe
   shortcut) while the coded gradient uses 1/(1+e^-score); the difference is below e^-15 per row.  For the exact
   forms the statement holds everywhere: C09_binary_df_is_gradient, C09_multiclass_df_is_gradient. *)
Theorem C09_gradient_is_derivative :
  (forall p (x : list (list R)) (y : list nat) alpha (w : list R) j,
     length w = S p -> List.Forall (fun r => length r = p) x -> (j <= p)%nat ->
     List.Forall (fun row => - 40 <= score w row < 15) x ->
     is_derive (fun t => binary_f ROps p x y alpha (upd w j t)) (nth j w 0) (nth j (binary_df ROps p x y alpha w) 0)) /\
  (forall p k (x : list (list R)) (y : list nat) alpha (w : list R) q,
     length w = (k * S p)%nat -> List.Forall (fun r => length r = p) x -> List.Forall (fun c => (c < k)%nat) y ->
     (q < k * S p)%nat ->
     is_derive (fun t => multi_f ROps p k x y alpha (upd w q t)) (nth q w 0) (nth q (multi_df ROps p k x y alpha w) 0)).
Proof. split; [exact binary_coded_df_is_gradient | exact multi_coded_df_is_gradient]. Qed.

Example C09_gradient_is_derivative_sat :
  length ex_w3 = 3%nat /\ List.Forall (fun r : list R => length r = 2%nat) ex_x3 /\ (1 <= 2)%nat /\
  List.Forall (fun row => - 40 <= score ex_w3 row < 15) ex_x3 /\
  length [1/2; -1/4; 3; 0; 1; 2; -1; -1; 0] = (3 * 3)%nat /\ List.Forall (fun c => (c < 3)%nat) [0%nat; 2%nat; 1%nat].
Proof. split; [reflexivity|]. split; [repeat constructor|]. split; [lia|]. split; [exact ex_scores_in_range|]. repeat split; repeat constructor. Qed.

(* Tangent inequalities with the coded names: multinomial everywhere; two-class between two points inside the
   cut-offs, and for all points up to (rows) * e^-15 (with the exact gradient as slope). *)
Theorem C09_coded_objectives_above_their_tangents :
  (forall p k (x : list (list R)) (y : list nat) (alpha : R),
     List.Forall (fun r => length r = p) x -> List.Forall (fun c => (c < k)%nat) y ->
     forall w s a, length w = (k * S p)%nat -> length s = (k * S p)%nat ->
     multi_f ROps p k x y alpha w + a * vdot ROps (multi_df ROps p k x y alpha w) s
     <= multi_f ROps p k x y alpha (vadd ROps w (vscale ROps s a))) /\
  (forall p (x : list (list R)) (y : list nat) (alpha : R), List.Forall (fun r => length r = p) x ->
     forall w s a, length w = S p -> length s = S p ->
     (List.Forall (fun row => - 40 <= score w row <= 15) x ->
      List.Forall (fun row => score (vadd ROps w (vscale ROps s a)) row <= 15) x ->
      binary_f ROps p x y alpha w + a * vdot ROps (binary_df ROps p x y alpha w) s
      <= binary_f ROps p x y alpha (vadd ROps w (vscale ROps s a))) /\
     binary_f ROps p x y alpha w + a * vdot ROps (binary_df_gen ROps sig_exact p x y alpha w) s
     <= binary_f ROps p x y alpha (vadd ROps w (vscale ROps s a)) + INR (length (combine x y)) * exp (- 15)).
Proof.
  split; [exact multi_coded_tangent|]. intros p x y alpha Hx w s a Hw Hs. split.
  - apply binary_coded_tangent_in_range; assumption.
  - apply binary_coded_tangent_approx; assumption.
Qed.

Example C09_coded_objectives_above_their_tangents_sat :
  List.Forall (fun r : list R => length r = 2%nat) ex_x3 /\ length ex_w3 = 3%nat /\ length [1; 1; -2] = 3%nat /\
  List.Forall (fun row => - 40 <= score ex_w3 row <= 15) ex_x3 /\
  List.Forall (fun row => score (vadd ROps ex_w3 (vscale ROps [1; 1; -2] (1/2))) row <= 15) ex_x3.
Proof.
  split; [repeat constructor|]. split; [reflexivity|]. split; [reflexivity|].
  split; [exact ex_scores_in_range_le | exact ex_scores_after_step].
Qed.

(* `lr_fit` IS the composition the end-to-end theorem speaks of.  If it returns M on (x, y, alpha):
   (1) class mapping: classes = the distinct label values in strictly increasing order, exactly the values that
       occur in y; every label y_i is replaced by the index of its value (classes[yi_i] = y_i, yi_i < k);
   (2) objective construction: the coded `binary_f`/`binary_df` (k = 2) or `multi_f`/`multi_df` (k >= 3) on x and
       those indices (`lr_coded_f`, `lr_coded_df`);
   (3) driver: `optimize` = LBFGS::optimize on that pair from the all-zero vector of dimension p+1 resp. k(p+1);
   (4) reshaping: M = `lr_reshape` of the returned point (k = 2: one coefficient row = first p entries, intercept =
       entry p; k >= 3: k blocks of p weights and one intercept), from which the flat vector is recovered
       (`lr_weights`) whenever it has the right dimension. *)
Theorem C09_lr_fit_is_composition :
  forall (L : lb_params (T := R)) (B : bt_params (T := R)) p (x : list (list R)) (y : list R) alpha M,
  lr_fit ROps L B p x y alpha = Some M ->
  let classes := unique ROps y in
  let k := length classes in
  let yi := lr_class_indices y in
  (length x = length y /\ (2 <= k)%nat) /\
  (StronglySorted Rlt classes /\ (forall u, In u classes <-> In u y) /\ length yi = length y /\
   forall i, (i < length y)%nat -> (nth i yi 0 < k)%nat /\ nth (nth i yi 0%nat) classes 0 = nth i y 0) /\
  (exists st tr conv,
     optimize ROps (lr_coded_f p k x yi alpha) (lr_coded_df p k x yi alpha) L B (zeros ROps (lr_dim p k)) = Some (st, tr, conv) /\
     M = lr_reshape p k classes (st_x st) /\
     (length (st_x st) = lr_dim p k -> lr_weights M = st_x st)).
Proof.
  intros L B p x y alpha M HM. cbv zeta.
  destruct (lr_fit_is_composition L B p x y alpha M HM) as [Hl [Hk [st [tr [conv [E HMe]]]]]].
  split; [split; assumption|]. split; [exact (class_mapping y)|]. exists st, tr, conv. split; [exact E|].
  split; [exact HMe|]. intros Hlen. rewrite HMe. apply lr_weights_reshape. exact Hlen.
Qed.

(* What the optimiser theorems give for `lr_fit` with the code's own scalar functions: for both variants the
   recorded trace is an Armijo chain (C09_lbfgs_monotone's `trace_mono`) for the CODED objective and gradient from
   the value at the all-zero start to the value at the returned weights, so the objective does not increase along
   any run whose moving steps are non-ascent; for k >= 3 (coded = exact, convex) EVERY returned run is such a run
   and the objective at the returned weights is <= the one at the start, and `lr_fit` is the very function
   C09_logistic_fit_never_increases is about.  For k = 2 the unconditional clause is proved for the exact forms
   only (C09_logistic_fit_never_increases): `ln_1pe` drops by ln(1+e^-15) at 15, the coded objective is not convex
   there and the convex route does not apply; the defect is bounded by (rows) * e^-15
   (C09_coded_objectives_above_their_tangents). *)
Theorem C09_lr_fit_coded_never_increases :
  forall (L : lb_params (T := R)) (B : bt_params (T := R)) p (x : list (list R)) (y : list R) alpha M,
  0 <= bt_c1 B -> 0 < bt_plo B -> (0 < lb_m L)%nat ->
  lr_fit ROps L B p x y alpha = Some M ->
  let k := length (unique ROps y) in
  let yi := lr_class_indices y in
  let n := lr_dim p k in
  let f := lr_coded_f p k x yi alpha in
  let df := lr_coded_df p k x yi alpha in
  (exists st tr conv,
     optimize ROps f df L B (zeros ROps n) = Some (st, tr, conv) /\
     lr_weights M = st_x st /\ length (lr_weights M) = n /\
     trace_mono f df B n (f (zeros ROps n)) tr (f (lr_weights M)) /\
     (descent_trace tr -> f (lr_weights M) <= f (zeros ROps n)) /\
     (k <> 2%nat -> bt_c1 B < 1 -> List.Forall (fun r => length r = p) x ->
        descent_trace tr /\
        multi_f ROps p k x yi alpha (lr_weights M) <= multi_f ROps p k x yi alpha (zeros ROps (k * S p)))) /\
  (k <> 2%nat -> lr_fit ROps L B p x y alpha = lr_fit_gen ROps lse_exact sig_exact softmax_def L B p x y alpha).
Proof.
  intros L B p x y alpha M Hc0 Hplo Hm HM. cbv zeta. split.
  - exact (lr_fit_coded_chain L B p x y alpha M Hc0 Hplo Hm HM).
  - intros Hk. apply lr_fit_multiclass_is_exact. exact Hk.
Qed.

(* satisfiable: a three-class fit that returns (zero iteration budget: both exits of the optimiser are returns) and a
   two-class fit that returns (gradient exactly zero at the start), with admissible parameters *)
Example C09_lr_fit_sat :
  ((exists M, lr_fit ROps ex_L0 ex_bt 1 [[1]; [2]; [-1]] [0; 1; 2] (1/2) = Some M) /\
   length (unique ROps [0; 1; 2]) <> 2%nat) /\
  (exists M, lr_fit ROps (ex_L (1/100000000)) ex_bt 1 [[1]; [1]] [0; 1] 0 = Some M) /\
  0 <= bt_c1 ex_bt < 1 /\ 0 < bt_plo ex_bt /\ (0 < lb_m ex_L0)%nat /\ (0 < lb_m (ex_L (1/100000000)))%nat /\
  List.Forall (fun r : list R => length r = 1%nat) [[1]; [2]; [-1]].
Proof.
  split; [exact ex_fit3_returns|]. split; [apply ex_fit_coded_returns; lra|].
  split; [cbn; lra|]. split; [cbn; lra|]. split; [cbn; lia|]. split; [cbn; lia|]. repeat constructor.
Qed.

(* C09_predict_is_argmax_of_scores: predict on a model RETURNED BY FIT.  The stored classes are the distinct labels
   of y in increasing order; for every query row the predicted index i is < k, the predicted label classes[i] is
   one of the ORIGINAL label values of y, and i is: for k = 2 the sign of the single linear score (index 1, the
   larger label, iff the score is positive); for k >= 3 the FIRST position at which the k linear scores attain
   their maximum.  `lr_predict` maps exactly this over the query rows.  (The model-level statements for arbitrary
   lr_model values are C09_predict_is_argmax, C09_predict_labels_are_class_values; here their side conditions are
   discharged from the shape fit produces.) *)
Theorem C09_predict_is_argmax_of_scores :
  forall (L : lb_params (T := R)) (B : bt_params (T := R)) p (x : list (list R)) (y : list R) alpha M,
  lr_fit ROps L B p x y alpha = Some M ->
  let classes := unique ROps y in
  let k := length classes in
  lr_classes M = classes /\ lr_k M = k /\ (2 <= k)%nat /\
  StronglySorted Rlt classes /\ (forall u, In u classes <-> In u y) /\
  (forall row,
     let i := predict_index ROps M row in
     (i < k)%nat /\ In (nth i classes 0) y /\
     (k = 2%nat ->
        let z := vdot ROps row (nth 0 (lr_coef M) []) + nth 0 (lr_intercept M) 0 in
        (0 < z /\ i = 1%nat) \/ (z <= 0 /\ i = 0%nat)) /\
     (k <> 2%nat ->
        length (lr_scores M row) = k /\
        (forall j, (j < k)%nat -> nth j (lr_scores M row) 0 <= nth i (lr_scores M row) 0) /\
        (forall j, (j < i)%nat -> nth j (lr_scores M row) 0 < nth i (lr_scores M row) 0))) /\
  (forall X, lr_predict ROps M X = map (fun row => nth (predict_index ROps M row) classes 0) X /\
             List.Forall (fun v => In v y) (lr_predict ROps M X)).
Proof. exact fit_predict_spec. Qed.

(* What a negligible gradient means (alpha > 0).  Let wopt be a stationary point of the penalised objective (gradient
   orthogonal to every direction).  For EVERY point w of the right dimension, with d = wopt - w and g = the gradient at
   w:  the objective at wopt is the minimum,  f(w) - f(wopt) <= -<g, d>,  and  alpha * |weight part of d|^2 <= -<g, d>
   -- so a point whose gradient is small is close to the optimum in objective value and in its weights (the
   intercepts are not claimed: flat direction for k >= 3).  Multinomial: with the coded names; two-class: exact forms. *)
Theorem C09_negligible_gradient_means_near_optimal :
  (forall p k (x : list (list R)) (y : list nat) alpha,
     List.Forall (fun r => length r = p) x -> List.Forall (fun c => (c < k)%nat) y -> 0 < alpha ->
     forall w wopt, length w = (k * S p)%nat -> length wopt = (k * S p)%nat ->
     (forall s, vdot ROps (multi_df ROps p k x y alpha wopt) s = 0) ->
     let d := vsub ROps wopt w in
     let g := multi_df ROps p k x y alpha w in
     multi_f ROps p k x y alpha wopt <= multi_f ROps p k x y alpha w /\
     multi_f ROps p k x y alpha w - multi_f ROps p k x y alpha wopt <= - vdot ROps g d /\
     alpha * psum p k d d <= - vdot ROps g d) /\
  (forall p (x : list (list R)) (y : list nat) alpha,
     List.Forall (fun r => length r = p) x -> 0 < alpha ->
     forall w wopt, length w = S p -> length wopt = S p ->
     (forall s, vdot ROps (binary_df_gen ROps sig_exact p x y alpha wopt) s = 0) ->
     let d := vsub ROps wopt w in
     let g := binary_df_gen ROps sig_exact p x y alpha w in
     binary_f_gen ROps lse_exact p x y alpha wopt <= binary_f_gen ROps lse_exact p x y alpha w /\
     binary_f_gen ROps lse_exact p x y alpha w - binary_f_gen ROps lse_exact p x y alpha wopt <= - vdot ROps g d /\
     alpha * sumsq (firstn p d) <= - vdot ROps g d).
Proof. split; [exact multi_near_optimum | exact binary_near_optimum]. Qed.

(* satisfiable: penalised objectives (alpha = 1) with an exactly stationary point, three classes and two classes *)
Example C09_negligible_gradient_means_near_optimal_sat :
  (forall s, vdot ROps (multi_df ROps 1 3 [[1]; [1]; [1]] [0%nat; 1%nat; 2%nat] 1 (zeros ROps 6)) s = 0) /\
  (forall s, vdot ROps (binary_df_gen ROps sig_exact 1 [[1]; [1]] [0%nat; 1%nat] 1 (zeros ROps 2)) s = 0) /\
  List.Forall (fun r : list R => length r = 1%nat) [[1]; [1]; [1]] /\ List.Forall (fun c => (c < 3)%nat) [0%nat; 1%nat; 2%nat] /\
  0 < 1 /\ length (zeros ROps 6) = (3 * 2)%nat /\ length (zeros ROps 2) = 2%nat.
Proof.
  split; [exact ex_multi_stationary|]. split; [exact ex_binary_stationary|].
  split; [repeat constructor|]. split; [repeat constructor|]. split; [lra|]. split; reflexivity.
Qed.

(* predict and the objective speak about the same linear model: on a model returned by fit, for every query row with p
   features, the linear scores predict computes from the stored coefficient rows and intercepts (<row, coef_j> +
   intercept_j) are the scores the objective uses at the returned flat weight vector (`partial_dot` at offset j(p+1));
   so the predicted class is the arg-max (k = 2: sign) of the scores of the very model whose penalised likelihood fit
   minimised. *)
Theorem C09_predict_scores_are_the_objective_scores :
  forall (L : lb_params (T := R)) (B : bt_params (T := R)) p (x : list (list R)) (y : list R) alpha M,
  0 <= bt_c1 B -> 0 < bt_plo B -> (0 < lb_m L)%nat ->
  lr_fit ROps L B p x y alpha = Some M ->
  let k := length (unique ROps y) in
  forall row, length row = p ->
  (k = 2%nat -> vdot ROps row (nth 0 (lr_coef M) []) + nth 0 (lr_intercept M) 0 = partial_dot ROps (lr_weights M) row 0) /\
  (k <> 2%nat -> lr_scores M row = scores ROps p k (lr_weights M) row).
Proof. exact fit_scores_are_objective_scores. Qed.

Example C09_predict_scores_are_the_objective_scores_sat :
  (exists M, lr_fit ROps ex_L0 ex_bt 1 [[1]; [2]; [-1]] [0; 1; 2] (1/2) = Some M) /\
  0 <= bt_c1 ex_bt /\ 0 < bt_plo ex_bt /\ (0 < lb_m ex_L0)%nat /\ length [3 : R] = 1%nat.
Proof. split; [exact (proj1 ex_fit3_returns)|]. split; [cbn; lra|]. split; [cbn; lra|]. split; [cbn; lia | reflexivity]. Qed.

(* ================= ROUNDING: predict in binary64 (FOps = Coq primitive floats, the instance the correspondence
   executes against the Rust code) against predict in exact arithmetic (ROps) on the real values of the same
   stored coefficients, intercepts, class values and query rows.  Fitting is iterative: no rounding theorem.
   FR x = real value of a float, u64 = 2^-53, eta64 = 2^-1075 (Base/FloatError.v).  The only no-overflow
   hypothesis is that the computed score is finite. ================= *)
From Coq Require Import Floats.
From SC Require Import Base.FloatUtil Base.FloatError C09.ProofsFloat C09.ProofsFloatEx.

(* one score = vdot row c + b: p products and p additions from 0 (the first exact), the intercept is added
   LAST (one more rounding), as in `y_hat_i + intercept` / `y_hat.get(r,c) + intercept.get(c,0)` *)
Theorem C09_score_float_error :
  forall (row c : list PrimFloat.float) (b : PrimFloat.float),
  PrimFloat.is_finite (PrimFloat.add (vdot FOps row c) b) = true ->
  let p := Nat.min (length row) (length c) in
  let A := vdot ROps (map (fun a => Rabs (FR a)) row) (map (fun a => Rabs (FR a)) c) in
  List.Forall (fun a => PrimFloat.is_finite a = true) (firstn p row) /\
  List.Forall (fun a => PrimFloat.is_finite a = true) (firstn p c) /\
  PrimFloat.is_finite b = true /\
  Rabs (FR (PrimFloat.add (vdot FOps row c) b) - (vdot ROps (map FR row) (map FR c) + FR b)) <=
    ((1 + u64) ^ (p + 1) - 1) * (A + Rabs (FR b) + INR p * eta64) + INR p * eta64.
Proof. exact score_float_error. Qed.

(* all class scores of a stored model: entry j of the binary64 score row is within the bound of class j of
   entry j of the exact score row (lr_scores, the list C09_predict_is_argmax speaks about) *)
Theorem C09_scores_float_error :
  forall (M : lr_model (T := PrimFloat.float)) (row : list PrimFloat.float),
  let MR := mkLr (map (map FR) (lr_coef M)) (map FR (lr_intercept M)) (map FR (lr_classes M)) (lr_k M) in
  let S := map2 (fun c b => PrimFloat.add (vdot FOps row c) b) (lr_coef M) (lr_intercept M) in
  let E := map2 (fun c b =>
                   let p := Nat.min (length row) (length c) in
                   let A := vdot ROps (map (fun a => Rabs (FR a)) row) (map (fun a => Rabs (FR a)) c) in
                   ((1 + u64) ^ (p + 1) - 1) * (A + Rabs (FR b) + INR p * eta64) + INR p * eta64)
                (lr_coef M) (lr_intercept M) in
  List.Forall (fun s => PrimFloat.is_finite s = true) S ->
  length (lr_scores MR (map FR row)) = length S /\ length E = length S /\
  forall j, (j < length S)%nat ->
    0 <= nth j E 0 /\ Rabs (FR (nth j S 0%float) - nth j (lr_scores MR (map FR row)) 0) <= nth j E 0.
Proof. exact scores_float_error. Qed.

(* two classes, the part that needs nothing about exp: an exact score larger in magnitude than its bound
   has the sign of the computed score *)
Theorem C09_score_sign_float_robust :
  forall (row c : list PrimFloat.float) (b : PrimFloat.float),
  let s := PrimFloat.add (vdot FOps row c) b in
  let sR := vdot ROps (map FR row) (map FR c) + FR b in
  let p := Nat.min (length row) (length c) in
  let A := vdot ROps (map (fun a => Rabs (FR a)) row) (map (fun a => Rabs (FR a)) c) in
  PrimFloat.is_finite s = true ->
  ((1 + u64) ^ (p + 1) - 1) * (A + Rabs (FR b) + INR p * eta64) + INR p * eta64 < Rabs sR ->
  PrimFloat.ltb 0%float s = Rltb 0 sR /\ (0 < sR -> 0 < FR s) /\ (sR < 0 -> FR s < 0).
Proof. exact score_sign_float_robust. Qed.

(* two classes, the label.  The code does not test the sign of the score but `sigmoid(score) > 0.5`, and
   sigmoid calls exp for |score| <= 40.  Hypothesis (S): on the COMPUTED score s the binary64 sigmoid is on
   the correct side of 1/2, i.e. (0.5 < sigmoid s) = (0 < s) -- a closed boolean fact about the exp routine
   at one argument (Base/Elem.v in the binary64 instance, libm in Rust; no accuracy theorem exists for either).
   Under (S) and the margin, the binary64 prediction is the exact-arithmetic one: same index, same ORIGINAL
   label value. (S) cannot be dropped: C09_predict_binary_float_needs_sigmoid_side_refuted. *)
Theorem C09_predict_binary_float_robust :
  forall (M : lr_model (T := PrimFloat.float)) (row : list PrimFloat.float),
  lr_k M = 2%nat ->
  let MR := mkLr (map (map FR) (lr_coef M)) (map FR (lr_intercept M)) (map FR (lr_classes M)) (lr_k M) in
  let c := nth 0 (lr_coef M) [] in
  let b := nth 0 (lr_intercept M) 0%float in
  let s := PrimFloat.add (vdot FOps row c) b in
  let sR := vdot ROps (map FR row) (map FR c) + FR b in
  let p := Nat.min (length row) (length c) in
  let A := vdot ROps (map (fun a => Rabs (FR a)) row) (map (fun a => Rabs (FR a)) c) in
  PrimFloat.is_finite s = true ->
  PrimFloat.ltb (half FOps) (sigmoid FOps s) = PrimFloat.ltb 0%float s ->
  ((1 + u64) ^ (p + 1) - 1) * (A + Rabs (FR b) + INR p * eta64) + INR p * eta64 < Rabs sR ->
  predict_index FOps M row = predict_index ROps MR (map FR row) /\
  predict_index FOps M row = (if Rlt_dec 0 sR then 1%nat else 0%nat) /\
  FR (nth (predict_index FOps M row) (lr_classes M) 0%float) =
    nth (predict_index ROps MR (map FR row)) (lr_classes MR) 0.
Proof. exact predict_binary_float_robust. Qed.

(* (S) holds unconditionally beyond the cut-offs of sigmoid, where exp is not called *)
Theorem C09_sigmoid_side_beyond_cutoffs :
  forall s : PrimFloat.float, PrimFloat.is_finite s = true -> 40 < Rabs (FR s) ->
  PrimFloat.ltb (half FOps) (sigmoid FOps s) = PrimFloat.ltb 0%float s.
Proof. exact sigmoid_sign_ok_large. Qed.

(* every row of a query matrix *)
Theorem C09_predict_binary_rows_float_robust :
  forall (M : lr_model (T := PrimFloat.float)) (X : list (list PrimFloat.float)),
  lr_k M = 2%nat ->
  let MR := mkLr (map (map FR) (lr_coef M)) (map FR (lr_intercept M)) (map FR (lr_classes M)) (lr_k M) in
  let c := nth 0 (lr_coef M) [] in
  let b := nth 0 (lr_intercept M) 0%float in
  List.Forall (fun row =>
            let s := PrimFloat.add (vdot FOps row c) b in
            let sR := vdot ROps (map FR row) (map FR c) + FR b in
            let p := Nat.min (length row) (length c) in
            let A := vdot ROps (map (fun a => Rabs (FR a)) row) (map (fun a => Rabs (FR a)) c) in
            PrimFloat.is_finite s = true /\
            PrimFloat.ltb (half FOps) (sigmoid FOps s) = PrimFloat.ltb 0%float s /\
            ((1 + u64) ^ (p + 1) - 1) * (A + Rabs (FR b) + INR p * eta64) + INR p * eta64 < Rabs sR) X ->
  map FR (lr_predict FOps M X) = lr_predict ROps MR (map (map FR) X).
Proof. exact predict_binary_rows_float_robust. Qed.

(* satisfiable on inexact data: weights (0.3, -0.1), intercept 0.1, labels 3 and 7, row (0.1, 0.2): the score
   is finite, (S) holds for the binary64 instance's exp, the bound is below 2^-50 and below the exact score
   (about 0.11), and the binary64 label is 7 *)
Example C09_predict_binary_float_robust_instance :
  let M := mkLr [[0x1.3333333333333p-2; -0x1.999999999999ap-4]%float] [0x1.999999999999ap-4%float] [3; 7]%float 2 in
  let row := [0x1.999999999999ap-4; 0x1.999999999999ap-3]%float in
  let c := nth 0 (lr_coef M) [] in
  let b := nth 0 (lr_intercept M) 0%float in
  let s := PrimFloat.add (vdot FOps row c) b in
  let sR := vdot ROps (map FR row) (map FR c) + FR b in
  let p := Nat.min (length row) (length c) in
  let A := vdot ROps (map (fun a => Rabs (FR a)) row) (map (fun a => Rabs (FR a)) c) in
  let bound := ((1 + u64) ^ (p + 1) - 1) * (A + Rabs (FR b) + INR p * eta64) + INR p * eta64 in
  lr_k M = 2%nat /\ PrimFloat.is_finite s = true /\
  PrimFloat.ltb (half FOps) (sigmoid FOps s) = PrimFloat.ltb 0%float s /\
  bound < Rabs sR /\ bound <= / 2 ^ 50 /\ 0 < sR /\
  nth (predict_index FOps M row) (lr_classes M) 0%float = 7%float.
Proof. exact ex_binary_robust. Qed.

(* THE SCORE MARGIN ALONE DOES NOT DECIDE THE TWO-CLASS LABEL IN BINARY64 (a finding about the code's
   `sigmoid(score) > 0.5`): weight 1, intercept 0, row (2^-70).  Every operation is exact: the computed score
   IS the exact score 2^-70 > 0, far above its error bound.  But exp(-2^-70) rounds to 1, the binary64 sigmoid is
   exactly 0.5, `0.5 > 0.5` is false: the binary64 model answers class 0, the exact-arithmetic model class 1.
   (With a correctly rounded exp the same happens for every score in (0, 1.5 * 2^-53).) *)
Theorem C09_predict_binary_float_needs_sigmoid_side_refuted :
  let M := mkLr [[1%float]] [0%float] [0; 1]%float 2 in
  let MR := mkLr (map (map FR) (lr_coef M)) (map FR (lr_intercept M)) (map FR (lr_classes M)) (lr_k M) in
  let row := [0x1p-70%float] in
  let c := nth 0 (lr_coef M) [] in
  let b := nth 0 (lr_intercept M) 0%float in
  let s := PrimFloat.add (vdot FOps row c) b in
  let sR := vdot ROps (map FR row) (map FR c) + FR b in
  let p := Nat.min (length row) (length c) in
  let A := vdot ROps (map (fun a => Rabs (FR a)) row) (map (fun a => Rabs (FR a)) c) in
  lr_k M = 2%nat /\ PrimFloat.is_finite s = true /\ FR s = sR /\ sR = / 2 ^ 70 /\
  ((1 + u64) ^ (p + 1) - 1) * (A + Rabs (FR b) + INR p * eta64) + INR p * eta64 < Rabs sR /\
  sigmoid FOps s = 0x1p-1%float /\
  predict_index FOps M row = 0%nat /\ predict_index ROps MR (map FR row) = 1%nat.
Proof. exact ex_binary_tiny_score. Qed.

(* k <> 2 classes: if class i's exact score exceeds every other exact score by more than the sum of the two
   classes' bounds, the binary64 first-arg-max is i, and so is the exact-arithmetic one: same ORIGINAL label *)
Theorem C09_predict_multiclass_float_robust :
  forall (M : lr_model (T := PrimFloat.float)) (row : list PrimFloat.float) (i : nat),
  lr_k M <> 2%nat ->
  let MR := mkLr (map (map FR) (lr_coef M)) (map FR (lr_intercept M)) (map FR (lr_classes M)) (lr_k M) in
  let S := map2 (fun c b => PrimFloat.add (vdot FOps row c) b) (lr_coef M) (lr_intercept M) in
  let SR := lr_scores MR (map FR row) in
  let E := map2 (fun c b =>
                   let p := Nat.min (length row) (length c) in
                   let A := vdot ROps (map (fun a => Rabs (FR a)) row) (map (fun a => Rabs (FR a)) c) in
                   ((1 + u64) ^ (p + 1) - 1) * (A + Rabs (FR b) + INR p * eta64) + INR p * eta64)
                (lr_coef M) (lr_intercept M) in
  List.Forall (fun s => PrimFloat.is_finite s = true) S ->
  (i < length S)%nat ->
  (forall j, (j < length S)%nat -> j <> i -> nth j SR 0 + nth j E 0 + nth i E 0 < nth i SR 0) ->
  predict_index FOps M row = i /\ predict_index ROps MR (map FR row) = i /\
  FR (nth (predict_index FOps M row) (lr_classes M) 0%float) =
    nth (predict_index ROps MR (map FR row)) (lr_classes MR) 0.
Proof.
  intros M row i Hk MR S SR E HF Hi Hm.
  exact (predict_multiclass_float_robust M row i Hk HF (conj Hi Hm)).
Qed.

(* every row of a query matrix: predict in binary64 = predict in exact arithmetic, label for label *)
Theorem C09_predict_multiclass_rows_float_robust :
  forall (M : lr_model (T := PrimFloat.float)) (X : list (list PrimFloat.float)),
  lr_k M <> 2%nat ->
  let MR := mkLr (map (map FR) (lr_coef M)) (map FR (lr_intercept M)) (map FR (lr_classes M)) (lr_k M) in
  List.Forall (fun row =>
            let S := map2 (fun c b => PrimFloat.add (vdot FOps row c) b) (lr_coef M) (lr_intercept M) in
            let SR := lr_scores MR (map FR row) in
            let E := map2 (fun c b =>
                             let p := Nat.min (length row) (length c) in
                             let A := vdot ROps (map (fun a => Rabs (FR a)) row) (map (fun a => Rabs (FR a)) c) in
                             ((1 + u64) ^ (p + 1) - 1) * (A + Rabs (FR b) + INR p * eta64) + INR p * eta64)
                          (lr_coef M) (lr_intercept M) in
            List.Forall (fun s => PrimFloat.is_finite s = true) S /\
            exists i, (i < length S)%nat /\
              forall j, (j < length S)%nat -> j <> i -> nth j SR 0 + nth j E 0 + nth i E 0 < nth i SR 0) X ->
  map FR (lr_predict FOps M X) = lr_predict ROps MR (map (map FR) X).
Proof. exact predict_multiclass_rows_float_robust. Qed.

(* satisfiable on inexact data: three classes with labels 3, 5, 8, two features, row (0.1, 0.2); exact scores
   0.11, -0.04, 0.33; every bound is below 2^-50; the binary64 label is 8 *)
Example C09_predict_multiclass_float_robust_instance :
  let M := mkLr [[0x1.3333333333333p-2; -0x1.999999999999ap-4]; [0x1.999999999999ap-3; 0x1.6666666666666p-1];
                 [-0x1p-1; 0x1.999999999999ap-2]]%float
                [0x1.999999999999ap-4; -0x1.999999999999ap-3; 0x1.3333333333333p-2]%float [3; 5; 8]%float 3 in
  let MR := mkLr (map (map FR) (lr_coef M)) (map FR (lr_intercept M)) (map FR (lr_classes M)) (lr_k M) in
  let row := [0x1.999999999999ap-4; 0x1.999999999999ap-3]%float in
  let S := map2 (fun c b => PrimFloat.add (vdot FOps row c) b) (lr_coef M) (lr_intercept M) in
  let SR := lr_scores MR (map FR row) in
  let E := map2 (fun c b =>
                   let p := Nat.min (length row) (length c) in
                   let A := vdot ROps (map (fun a => Rabs (FR a)) row) (map (fun a => Rabs (FR a)) c) in
                   ((1 + u64) ^ (p + 1) - 1) * (A + Rabs (FR b) + INR p * eta64) + INR p * eta64)
                (lr_coef M) (lr_intercept M) in
  lr_k M <> 2%nat /\ List.Forall (fun s => PrimFloat.is_finite s = true) S /\
  ((2 < length S)%nat /\
   forall j, (j < length S)%nat -> j <> 2%nat -> nth j SR 0 + nth j E 0 + nth 2 E 0 < nth 2 SR 0) /\
  (forall j, (j < 3)%nat -> nth j E 0 <= / 2 ^ 50) /\
  lr_predict FOps M [row] = [8%float].
Proof.
  destruct ex_multiclass_robust as (H1 & H2 & H3 & H4 & _ & H6).
  split; [exact H1|]. split; [exact H2|]. split; [exact H3|]. split; [exact H4 | exact H6].
Qed.

(* THE MARGIN IS NEEDED for k >= 3: row (1,1,1); class 0 has weights 2^53, 1, -2^53 and intercept 0, class 1
   weights 0 and intercept 0.5, class 2 all zero.  Everything is finite and every product exact; the exact
   scores are 1, 0.5, 0 (class 0), the computed ones ((0+2^53)+1)-2^53 = 0, 0.5, 0 (2^53+1 is a tie and
   rounds to even): the binary64 arg-max is class 1 *)
Theorem C09_predict_multiclass_float_margin_needed_refuted :
  let M := mkLr [[0x1p+53; 1; -0x1p+53]; [0; 0; 0]; [0; 0; 0]]%float [0; 0x1p-1; 0]%float [0; 1; 2]%float 3 in
  let MR := mkLr (map (map FR) (lr_coef M)) (map FR (lr_intercept M)) (map FR (lr_classes M)) (lr_k M) in
  let row := [1; 1; 1]%float in
  let S := map2 (fun c b => PrimFloat.add (vdot FOps row c) b) (lr_coef M) (lr_intercept M) in
  lr_k M <> 2%nat /\ List.Forall (fun s => PrimFloat.is_finite s = true) S /\
  lr_scores MR (map FR row) = [1; / 2; 0] /\ map FR S = [0; / 2; 0] /\
  predict_index FOps M row = 1%nat /\ predict_index ROps MR (map FR row) = 0%nat.
Proof. exact ex_multiclass_margin_needed. Qed.

(* WHAT (S) NEEDS FROM exp.  The addition 1 + e and the division 1 / (1 + e) of sigmoid analysed exactly, for ANY
   binary64 value e handed back by an exp routine (Base/Elem.v or libm): e in [0, 1 - 2^-52] puts the quotient
   strictly above one half, e in [1, 2^1000] at or below one half. *)
From SC Require Import C09.ProofsFloatSig.
Theorem C09_sigmoid_quotient_float :
  forall e : PrimFloat.float, PrimFloat.is_finite e = true ->
  let q := PrimFloat.div 1 (PrimFloat.add 1 e) in
  (0 <= FR e <= 1 - / 2 ^ 52 -> PrimFloat.is_finite q = true /\ / 2 < FR q) /\
  (1 <= FR e <= 2 ^ 1000 -> PrimFloat.is_finite q = true /\ FR q <= / 2).
Proof.
  intros e He q. split; intros H; [exact (recip_above_half e He H) | exact (recip_at_most_half e He H)].
Qed.

(* hence (S) at a finite score s follows from a condition on the single value e = exp(-s) (nothing is needed
   beyond the cut-offs |s| > 40): s > 0 needs e <= 1 - 2^-52, s <= 0 needs 1 <= e <= 2^1000 *)
Theorem C09_sigmoid_side_from_exp :
  forall s : PrimFloat.float, PrimFloat.is_finite s = true ->
  let e := oexp FOps (PrimFloat.opp s) in
  PrimFloat.is_finite e = true ->
  (0 < FR s -> 0 <= FR e <= 1 - / 2 ^ 52) ->
  (FR s <= 0 -> 1 <= FR e <= 2 ^ 1000) ->
  PrimFloat.ltb (half FOps) (sigmoid FOps s) = PrimFloat.ltb 0%float s.
Proof. intros s Hs e He H1 H2. exact (sigmoid_sign_ok_of_exp s Hs (conj He (conj H1 H2))). Qed.

(* the positive side is sharp: e = 1 - 2^-53 (what a correctly rounded exp returns for s around 2^-53) gives
   1 + e = 2 (a tie, rounded to even) and a quotient of exactly one half; and the condition holds for the
   binary64 instance's exp at the score of C09_predict_binary_float_robust_instance and at its opposite *)
Example C09_sigmoid_side_from_exp_instance :
  (PrimFloat.div 1 (PrimFloat.add 1 0x1.fffffffffffffp-1) = 0x1p-1%float /\
   FR 0x1.fffffffffffffp-1%float = 1 - / 2 ^ 53) /\
  let M := mkLr [[0x1.3333333333333p-2; -0x1.999999999999ap-4]%float] [0x1.999999999999ap-4%float] [3; 7]%float 2 in
  let row := [0x1.999999999999ap-4; 0x1.999999999999ap-3]%float in
  let s := PrimFloat.add (vdot FOps row (nth 0 (lr_coef M) [])) (nth 0 (lr_intercept M) 0%float) in
  let e := oexp FOps (PrimFloat.opp s) in
  let e' := oexp FOps (PrimFloat.opp (PrimFloat.opp s)) in
  PrimFloat.is_finite s = true /\
  (PrimFloat.is_finite e = true /\ (0 < FR s -> 0 <= FR e <= 1 - / 2 ^ 52) /\ (FR s <= 0 -> 1 <= FR e <= 2 ^ 1000)) /\
  PrimFloat.is_finite (PrimFloat.opp s) = true /\
  (PrimFloat.is_finite e' = true /\ (0 < FR (PrimFloat.opp s) -> 0 <= FR e' <= 1 - / 2 ^ 52) /\
   (FR (PrimFloat.opp s) <= 0 -> 1 <= FR e' <= 2 ^ 1000)).
Proof. split; [exact recip_sharp | exact ex_exp_side_ok]. Qed.
