(* C09 — logistic regression and L-BFGS.  Property theorems only; statements are about the executable
   model SC.C09.Model (a transliteration of src/linear/logistic_regression.rs, src/optimization/
   first_order/lbfgs.rs, src/optimization/line_search.rs, src/math/num.rs), which the correspondence
   check ties to the code on every run. *)
From Coq Require Import List ZArith Bool Reals Lra.
From SC Require Import Base.Num C09.Model C09.ProofsSearch C09.ProofsExamples.
Import ListNotations.
Local Open Scope R_scope.

(* Backtracking::search, over ANY scalar arithmetic (binary64 included), every objective, every parameter
   setting and both interpolation orders: a normal return hands back a step at which the loop's own test
   `f(a) > f0 + c1*a*df0` is false, together with the objective value at exactly that step. *)
Theorem C09_backtracking_exit_test_any_arithmetic :
  forall (T : Type) (O : Ops T) (P : bt_params) (phi : T -> T) (alpha f0 df0 a fx : T),
  bt_search O P phi alpha f0 df0 = Some (a, fx) ->
  oltb O (oadd O f0 (omul O (omul O (bt_c1 P) a) df0)) fx = false /\ fx = phi a.
Proof. exact @bt_search_exit. Qed.

(* Over the reals: the returned step is positive, satisfies the sufficient-decrease (Armijo) inequality,
   and therefore never increases the objective along a non-ascent direction. *)
Theorem C09_backtracking_armijo :
  forall (P : bt_params) (phi : R -> R) (alpha f0 df0 a fx : R),
  0 < alpha -> 0 < bt_plo P ->
  bt_search ROps P phi alpha f0 df0 = Some (a, fx) ->
  fx = phi a /\ 0 < a /\ fx <= f0 + bt_c1 P * a * df0 /\ (0 <= bt_c1 P -> df0 <= 0 -> fx <= f0).
Proof. exact backtracking_armijo. Qed.

(* satisfiable: a line search that needs one interpolation *)
Example C09_backtracking_armijo_sat :
  bt_search ROps ex_bt (fun a => (a - 1/4) * (a - 1/4)) 1 (1/16) (-1/2) = Some (1/4, 0)
  /\ 0 < 1 /\ 0 < bt_plo ex_bt.
Proof. split; [exact ex_line_search|]. cbn. lra. Qed.

(* LBFGS::optimize for EVERY objective f and "gradient" df (no smoothness, no convexity assumed), every
   parameter setting, every start: if it returns, the recorded trace (f before, df0, alpha, f after) is a
   chain from f(x0) to f(returned x) whose links satisfy the Armijo inequality at a positive step; hence
   along any run in which every direction was a descent direction the objective never increases and the
   returned point is no worse than the start. *)
Theorem C09_lbfgs_monotone :
  forall (f : list R -> R) (df : list R -> list R) (L : lb_params) (B : bt_params),
  0 <= bt_c1 B -> 0 < bt_plo B ->
  forall x0 st tr conv,
  optimize ROps f df L B x0 = Some (st, tr, conv) ->
  trace_mono B (f x0) tr (f (st_x st)) /\ (descent_trace tr -> f (st_x st) <= f x0).
Proof. exact lbfgs_monotone. Qed.

(* The first L-BFGS direction is steepest descent, a strict descent direction unless the gradient is zero. *)
Theorem C09_two_loop_first_step_is_steepest_descent :
  forall m g rho dxh dgh al,
  let s := fst (two_loops ROps m 0 g rho dxh dgh al) in
  s = map Ropp g /\ vdot ROps g s = - vdot ROps g g /\ vdot ROps g s <= 0 /\
  ((exists x, In x g /\ x <> 0) -> vdot ROps g s < 0).
Proof. exact first_step_descent. Qed.
