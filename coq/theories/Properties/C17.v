(* C17 — distance functions are metrics and equal their closed forms.  Property theorems only: each
   is closed by assembling lemmas of SC.C17.Proofs*, and its assumptions are printed by the check.
   Statements are about the executable model SC.C17.Model instantiated at the real numbers (`ROps`);
   the correspondence check ties the same generic definitions, instantiated at binary64 / binary32,
   to src/math/distance/*.rs.  `None` is the implementation's panic.
   Vocabulary (SC.C17.Spec): `sigma n f` = sum_{i<n} f i, `comp x i` = i-th component,
   `metric_laws d` = whenever d is defined on (x,y), (y,z), (x,z): 0 <= d x y, d y x = d x y,
   d x x = 0, d x z <= d x y + d y z;  `qform n S w` = sum_j sum_i S_ij w_i w_j;  `psd n S` = qform >= 0. *)
From Coq Require Import List Arith ZArith Bool Reals Lra Lia.
From SC Require Import Base.Num C17.Model C17.Spec C17.ProofsSum C17.ProofsQuad C17.ProofsDist
     C17.ProofsHamming C17.ProofsMinkowski C17.ProofsInverse C17.ProofsCov C17.ProofsDefinite.
Import ListNotations.
Local Open Scope R_scope.

(* ---------------- closed forms (and: defined exactly on equal lengths) ---------------- *)
Theorem C17_euclidian_closed_form : forall x y d,
  euclidian ROps x y = Some d <->
  length x = length y /\
  d = sqrt (sigma (length x) (fun i => (comp x i - comp y i) * (comp x i - comp y i))).
Proof. exact euclidian_some. Qed.

Theorem C17_manhattan_closed_form : forall x y d,
  manhattan ROps x y = Some d <->
  length x = length y /\ d = sigma (length x) (fun i => Rabs (comp x i - comp y i)).
Proof. exact manhattan_some. Qed.

(* the value is THE non-negative p-th root of sum |x_i - y_i|^p *)
Theorem C17_minkowski_closed_form : forall p x y d,
  minkowski ROps p x y = Some d ->
  length x = length y /\ (1 <= p)%nat /\
  0 <= d /\ d ^ p = sigma (length x) (fun i => Rabs (comp x i - comp y i) ^ p) /\
  (forall r, 0 <= r -> r ^ p = sigma (length x) (fun i => Rabs (comp x i - comp y i) ^ p) -> r = d).
Proof.
  intros p x y d H. destruct (minkowski_closed_form p x y d H) as [P Q].
  apply minkowski_some in H as (L & Hp & _). repeat split; auto.
  intros r Hr Er. apply (pow_root_unique r d p); auto. congruence.
Qed.
Theorem C17_minkowski_defined : forall p x y,
  length x = length y -> (1 <= p)%nat -> exists d, minkowski ROps p x y = Some d.
Proof. intros p x y L Hp. eexists. apply minkowski_some. repeat split; auto. Qed.

(* fraction of differing positions, for elements of any type with a boolean `!=` *)
Theorem C17_hamming_closed_form : forall (A : Type) (neqb : A -> A -> bool) x y d,
  hamming ROps neqb x y = Some d <->
  length x = length y /\ d = INR (diff_count neqb x y) / INR (length x).
Proof. exact @hamming_some. Qed.

(* on the stored inverse S (n = number of rows of sigma): sqrt((x-y)^T S (x-y)) *)
Theorem C17_mahalanobis_closed_form : forall n S x y d,
  mahalanobis ROps n S x y = Some d <->
  length x = n /\ length y = n /\ d = sqrt (qform n S (fun i => comp x i - comp y i)).
Proof. exact mahalanobis_some. Qed.

(* ---------------- metric laws ---------------- *)
Theorem C17_euclidian_metric : metric_laws (euclidian ROps).
Proof. exact euclidian_metric. Qed.

Theorem C17_manhattan_metric : metric_laws (manhattan ROps).
Proof. exact manhattan_metric. Qed.

(* every integer order p >= 1 (p = 0 is rejected): includes Minkowski's inequality *)
Theorem C17_minkowski_metric : forall p, metric_laws (minkowski ROps p).
Proof. exact minkowski_metric. Qed.

Theorem C17_hamming_metric : forall (A : Type) (neqb : A -> A -> bool),
  (forall a b, neqb a b = false <-> a = b) -> metric_laws (hamming ROps neqb).
Proof. exact @hamming_metric. Qed.

(* for every positive semi-definite stored inverse (symmetry is not needed: only the symmetric part
   of S enters the quadratic form); one Cauchy–Schwarz lemma serves this and the Euclidian case *)
Theorem C17_mahalanobis_metric : forall n S, psd n S -> metric_laws (mahalanobis ROps n S).
Proof. exact mahalanobis_metric. Qed.

(* Hamming is definite: distance 0 only between equal vectors *)
Theorem C17_hamming_definite : forall (A : Type) (neqb : A -> A -> bool),
  (forall a b, neqb a b = false <-> a = b) ->
  forall x y, (0 < length x)%nat -> hamming ROps neqb x y = Some 0 -> x = y.
Proof. exact @hamming_zero_iff_equal. Qed.

(* Minkowski of every order, Manhattan and Euclidian are definite as well *)
Theorem C17_definite : forall x y,
  (forall p, minkowski ROps p x y = Some 0 -> x = y) /\
  (manhattan ROps x y = Some 0 -> x = y) /\ (euclidian ROps x y = Some 0 -> x = y).
Proof.
  intros x y. split; [|split].
  - intros p. apply minkowski_zero_equal.
  - apply manhattan_zero_equal.
  - apply euclidian_zero_equal.
Qed.

(* ---------------- from the covariance to the metric (Mahalanobis::new / new_from_covariance) ------- *)
(* the sigma stored by Mahalanobis::new (model of DenseMatrix::cov): column means, centred cross
   products over m - 1, symmetric, and positive semi-definite as soon as there are two rows *)
Theorem C17_covariance_closed_form_psd : forall ncols rows C,
  cov ROps ncols rows = Some C ->
  let mu := column_mean ROps ncols rows in
  let m := length rows in
  (forall c, (c < ncols)%nat -> nth c mu 0 = sigma m (fun k => nth c (nth k rows []) 0) / INR m) /\
  (forall a b, (a < ncols)%nat -> (b < ncols)%nat ->
     entry C a b = sigma m (fun k => centred rows mu k a * centred rows mu k b) / (INR m - 1) /\
     entry C a b = entry C b a) /\
  ((2 <= m)%nat -> psd ncols C).
Proof.
  intros ncols rows C H mu m. split; [|split].
  - intros c Hc. apply column_mean_R. exact Hc.
  - intros a b Ha Hb. split; [apply (cov_entry_form ncols rows C H) | apply (cov_symmetric ncols rows C H)]; assumption.
  - apply (cov_psd ncols rows C H).
Qed.

(* a right inverse of a positive semi-definite matrix is positive semi-definite (what the LU
   inversion is asked to deliver; the search checks S * sigmaInv = I numerically on every object) *)
Theorem C17_inverse_of_psd_is_psd : forall n S T, psd n S -> right_inverse n S T -> psd n T.
Proof. exact psd_right_inverse. Qed.

(* hence: Mahalanobis built from data with >= 2 rows, or from any positive semi-definite
   covariance, on an exact inverse, satisfies the metric laws *)
Theorem C17_mahalanobis_from_data_metric : forall ncols rows C T,
  cov ROps ncols rows = Some C -> (2 <= length rows)%nat -> right_inverse ncols C T ->
  metric_laws (mahalanobis ROps ncols T).
Proof.
  intros ncols rows C T H Hm Hinv. apply mahalanobis_metric.
  apply (psd_right_inverse ncols C T); [apply (cov_psd ncols rows C H Hm) | exact Hinv].
Qed.
Theorem C17_mahalanobis_from_covariance_metric : forall n S T,
  psd n S -> right_inverse n S T -> metric_laws (mahalanobis ROps n T).
Proof. intros n S T HS Hinv. apply mahalanobis_metric. exact (psd_right_inverse n S T HS Hinv). Qed.

(* ---------------- coincidences ---------------- *)
Theorem C17_minkowski_1_is_manhattan : forall x y, minkowski ROps 1 x y = manhattan ROps x y.
Proof. exact minkowski_1_manhattan. Qed.

Theorem C17_minkowski_2_is_euclidean : forall x y, minkowski ROps 2 x y = euclidian ROps x y.
Proof. exact minkowski_2_euclidian. Qed.

Theorem C17_mahalanobis_identity_is_euclidean : forall n x y, length x = n ->
  mahalanobis ROps n (identity_matrix n) x y = euclidian ROps x y.
Proof. exact mahalanobis_identity. Qed.

(* ---------------- rejection ---------------- *)
Theorem C17_length_mismatch_rejected : forall (x y : list R),
  (length x <> length y ->
     euclidian ROps x y = None /\ manhattan ROps x y = None /\
     (forall p, minkowski ROps p x y = None) /\
     (forall neqb, hamming ROps neqb x y = None)) /\
  (forall n S, (length x <> n \/ length y <> n) -> mahalanobis ROps n S x y = None) /\
  minkowski ROps 0 x y = None.
Proof.
  intros x y. split; [|split].
  - intros H. repeat split.
    + apply euclidian_none; exact H.
    + apply manhattan_none; exact H.
    + intros p. apply minkowski_none. left; exact H.
    + intros neqb. apply hamming_none; exact H.
  - intros n S H. apply mahalanobis_none. exact H.
  - apply minkowski_none. right; reflexivity.
Qed.

(* ---------------- the hypotheses are satisfiable (non-trivial instances) ---------------- *)
Example C17_euclid_instance : euclidian ROps [1; 2; 3] [4; 5; 6] = Some (sqrt 27).
Proof.
  apply euclidian_some. split; [reflexivity|]. f_equal.
  unfold sigma, comp. cbn [length seq map Rsum fold_right nth]. ring.
Qed.
Example C17_manhattan_triple_instance :
  manhattan ROps [1; 2] [3; 5] = Some 5 /\ manhattan ROps [3; 5] [0; 1] = Some 7 /\
  manhattan ROps [1; 2] [0; 1] = Some 2.
Proof.
  repeat split; apply manhattan_some; (split; [reflexivity|]);
    unfold sigma, comp; cbn [length seq map Rsum fold_right nth].
  - rewrite (Rabs_left (1 - 3)), (Rabs_left (2 - 5)) by lra. lra.
  - rewrite (Rabs_right (3 - 0)), (Rabs_right (5 - 1)) by lra. lra.
  - rewrite (Rabs_right (1 - 0)), (Rabs_right (2 - 1)) by lra. lra.
Qed.
Example C17_minkowski_instance :
  exists d, minkowski ROps 3 [1; 2] [3; 5] = Some d /\ 0 <= d /\ d ^ 3 = 35.
Proof.
  destruct (C17_minkowski_defined 3 [1; 2] [3; 5] eq_refl) as [d H]; [lia|].
  exists d. split; [exact H|].
  destruct (minkowski_closed_form _ _ _ _ H) as [P Q]. split; [exact P|]. rewrite Q.
  unfold sigma, comp. cbn [length seq map Rsum fold_right nth].
  rewrite (Rabs_left (1 - 3)), (Rabs_left (2 - 5)) by lra. ring.
Qed.
Example C17_hamming_instance :
  hamming ROps (fun a b => negb (Nat.eqb a b)) [1; 0; 0; 1]%nat [1; 1; 0; 0]%nat = Some (2 / 4) /\
  (forall a b : nat, negb (Nat.eqb a b) = false <-> a = b).
Proof.
  split.
  - apply hamming_some. split; [reflexivity|]. cbn [diff_count Nat.eqb negb Nat.add length INR]. lra.
  - intros a b. rewrite negb_false_iff. apply Nat.eqb_eq.
Qed.
(* a positive semi-definite matrix that is not the identity, and a distance under it *)
Example C17_psd_instance :
  psd 2 [[2; -1]; [-1; 2]] /\ mahalanobis ROps 2 [[2; -1]; [-1; 2]] [1; 0] [0; 1] = Some (sqrt 6).
Proof.
  split.
  - intros w. unfold qform, sigma, entry. cbn [seq map Rsum fold_right nth].
    assert (0 <= (w 0%nat - w 1%nat) * (w 0%nat - w 1%nat)) by exact (Rle_0_sqr _).
    assert (0 <= w 0%nat * w 0%nat) by exact (Rle_0_sqr _).
    assert (0 <= w 1%nat * w 1%nat) by exact (Rle_0_sqr _). lra.
  - apply mahalanobis_some. repeat split. f_equal.
    unfold qform, sigma, entry, comp. cbn [seq map Rsum fold_right nth]. ring.
Qed.
Example C17_psd_identity_instance : forall n, psd n (identity_matrix n).
Proof. exact psd_identity. Qed.

(* a covariance, its inverse, and data with two or more rows *)
Example C17_right_inverse_instance :
  right_inverse 2 [[2; 1]; [1; 1]] [[1; -1]; [-1; 2]] /\ psd 2 [[2; 1]; [1; 1]].
Proof.
  split.
  - intros i j Hi Hj. unfold sigma, entry. cbn [seq map Rsum fold_right].
    destruct i as [|[|i]]; destruct j as [|[|j]]; try lia; cbn [nth Nat.eqb]; lra.
  - intros w. unfold qform, sigma, entry. cbn [seq map Rsum fold_right nth].
    assert (0 <= (w 0%nat + w 1%nat) * (w 0%nat + w 1%nat)) by exact (Rle_0_sqr _).
    assert (0 <= w 0%nat * w 0%nat) by exact (Rle_0_sqr _). lra.
Qed.
Example C17_cov_instance :
  exists C, cov ROps 2 [[1; 2]; [3; 1]; [2; 6]] = Some C /\ (2 <= length [[1; 2]; [3; 1]; [2; 6]])%nat.
Proof. eexists. split; [reflexivity | cbn; lia]. Qed.
