(* C17 — distance functions are metrics and equal their closed forms.  Property theorems only: each
   is closed by assembling lemmas of SC.C17.Proofs*, and its assumptions are printed by the check.
   Statements are about the executable model SC.C17.Model instantiated at the real numbers (`ROps`);
   the correspondence check ties the same generic definitions, instantiated at binary64 / binary32,
   to src/math/distance/*.rs.  `None` is the implementation's panic.
   Vocabulary (SC.C17.Spec): `sigma n f` = sum_{i<n} f i, `comp x i` = i-th component,
   `metric_laws d` = whenever d is defined on (x,y), (y,z), (x,z): 0 <= d x y, d y x = d x y,
   d x x = 0, d x z <= d x y + d y z;  `qform n S w` = sum_j sum_i S_ij w_i w_j;  `psd n S` = qform >= 0. *)
From Coq Require Import List Arith ZArith Bool Reals Lra Lia.
From SC Require Import Base.Num C17.Model C17.Spec C17.ProofsSum C17.ProofsQuad C17.ProofsDist
     C17.ProofsHamming C17.ProofsMinkowski C17.ProofsInverse C17.ProofsCov C17.ProofsDefinite.
Import ListNotations.
Local Open Scope R_scope.

(* ---------------- closed forms (and: defined exactly on equal lengths) ---------------- *)
Theorem C17_euclidian_closed_form : forall x y d,
  euclidian ROps x y = Some d <->
  length x = length y /\
  d = sqrt (sigma (length x) (fun i => (comp x i - comp y i) * (comp x i - comp y i))).
Proof. exact euclidian_some. Qed.

Theorem C17_manhattan_closed_form : forall x y d,
  manhattan ROps x y = Some d <->
  length x = length y /\ d = sigma (length x) (fun i => Rabs (comp x i - comp y i)).
Proof. exact manhattan_some. Qed.

(* the value is THE non-negative p-th root of sum |x_i - y_i|^p *)
Theorem C17_minkowski_closed_form : forall p x y d,
  minkowski ROps p x y = Some d ->
  length x = length y /\ (1 <= p)%nat /\
  0 <= d /\ d ^ p = sigma (length x) (fun i => Rabs (comp x i - comp y i) ^ p) /\
  (forall r, 0 <= r -> r ^ p = sigma (length x) (fun i => Rabs (comp x i - comp y i) ^ p) -> r = d).
Proof.
  intros p x y d H. destruct (minkowski_closed_form p x y d H) as [P Q].
  apply minkowski_some in H as (L & Hp & _). repeat split; auto.
  intros r Hr Er. apply (pow_root_unique r d p); auto. congruence.
Qed.
Theorem C17_minkowski_defined : forall p x y,
  length x = length y -> (1 <= p)%nat -> exists d, minkowski ROps p x y = Some d.
Proof. intros p x y L Hp. eexists. apply minkowski_some. repeat split; auto. Qed.

(* fraction of differing positions, for elements of any type with a boolean `!=` *)
Theorem C17_hamming_closed_form : forall (A : Type) (neqb : A -> A -> bool) x y d,
  hamming ROps neqb x y = Some d <->
  length x = length y /\ d = INR (diff_count neqb x y) / INR (length x).
Proof. exact @hamming_some. Qed.

(* on the stored inverse S (n = number of rows of sigma): sqrt((x-y)^T S (x-y)) *)
Theorem C17_mahalanobis_closed_form : forall n S x y d,
  mahalanobis ROps n S x y = Some d <->
  length x = n /\ length y = n /\ d = sqrt (qform n S (fun i => comp x i - comp y i)).
Proof. exact mahalanobis_some. Qed.

(* ---------------- metric laws ---------------- *)
Theorem C17_euclidian_metric : metric_laws (euclidian ROps).
Proof. exact euclidian_metric. Qed.

Theorem C17_manhattan_metric : metric_laws (manhattan ROps).
Proof. exact manhattan_metric. Qed.

(* every integer order p >= 1 (p = 0 is rejected): includes Minkowski's inequality *)
Theorem C17_minkowski_metric : forall p, metric_laws (minkowski ROps p).
Proof. exact minkowski_metric. Qed.

Theorem C17_hamming_metric : forall (A : Type) (neqb : A -> A -> bool),
  (forall a b, neqb a b = false <-> a = b) -> metric_laws (hamming ROps neqb).
Proof. exact @hamming_metric. Qed.

(* for every positive semi-definite stored inverse (symmetry is not needed: only the symmetric part
   of S enters the quadratic form); one Cauchy–Schwarz lemma serves this and the Euclidian case *)
Theorem C17_mahalanobis_metric : forall n S, psd n S -> metric_laws (mahalanobis ROps n S).
Proof. exact mahalanobis_metric. Qed.

(* Hamming is definite: distance 0 only between equal vectors *)
Theorem C17_hamming_definite : forall (A : Type) (neqb : A -> A -> bool),
  (forall a b, neqb a b = false <-> a = b) ->
  forall x y, (0 < length x)%nat -> hamming ROps neqb x y = Some 0 -> x = y.
Proof. exact @hamming_zero_iff_equal. Qed.

(* Minkowski of every order, Manhattan and Euclidian are definite as well *)
Theorem C17_definite : forall x y,
  (forall p, minkowski ROps p x y = Some 0 -> x = y) /\
  (manhattan ROps x y = Some 0 -> x = y) /\ (euclidian ROps x y = Some 0 -> x = y).
Proof.
  intros x y. split; [|split].
  - intros p. apply minkowski_zero_equal.
  - apply manhattan_zero_equal.
  - apply euclidian_zero_equal.
Qed.

(* ---------------- from the covariance to the metric (Mahalanobis::new / new_from_covariance) ------- *)
(* the sigma stored by Mahalanobis::new (model of DenseMatrix::cov): column means, centred cross
   products over m - 1, symmetric, and positive semi-definite as soon as there are two rows *)
Theorem C17_covariance_closed_form_psd : forall ncols rows C,
  cov ROps ncols rows = Some C ->
  let mu := column_mean ROps ncols rows in
  let m := length rows in
  (forall c, (c < ncols)%nat -> nth c mu 0 = sigma m (fun k => nth c (nth k rows []) 0) / INR m) /\
  (forall a b, (a < ncols)%nat -> (b < ncols)%nat ->
     entry C a b = sigma m (fun k => centred rows mu k a * centred rows mu k b) / (INR m - 1) /\
     entry C a b = entry C b a) /\
  ((2 <= m)%nat -> psd ncols C).
Proof.
  intros ncols rows C H mu m. split; [|split].
  - intros c Hc. apply column_mean_R. exact Hc.
  - intros a b Ha Hb. split; [apply (cov_entry_form ncols rows C H) | apply (cov_symmetric ncols rows C H)]; assumption.
  - apply (cov_psd ncols rows C H).
Qed.

(* a right inverse of a positive semi-definite matrix is positive semi-definite (what the LU
   inversion is asked to deliver; the search checks S * sigmaInv = I numerically on every object) *)
Theorem C17_inverse_of_psd_is_psd : forall n S T, psd n S -> right_inverse n S T -> psd n T.
Proof. exact psd_right_inverse. Qed.

(* hence: Mahalanobis built from data with >= 2 rows, or from any positive semi-definite
   covariance, on an exact inverse, satisfies the metric laws *)
Theorem C17_mahalanobis_from_data_metric : forall ncols rows C T,
  cov ROps ncols rows = Some C -> (2 <= length rows)%nat -> right_inverse ncols C T ->
  metric_laws (mahalanobis ROps ncols T).
Proof.
  intros ncols rows C T H Hm Hinv. apply mahalanobis_metric.
  apply (psd_right_inverse ncols C T); [apply (cov_psd ncols rows C H Hm) | exact Hinv].
Qed.
Theorem C17_mahalanobis_from_covariance_metric : forall n S T,
  psd n S -> right_inverse n S T -> metric_laws (mahalanobis ROps n T).
Proof. intros n S T HS Hinv. apply mahalanobis_metric. exact (psd_right_inverse n S T HS Hinv). Qed.

(* ---------------- coincidences ---------------- *)
Theorem C17_minkowski_1_is_manhattan : forall x y, minkowski ROps 1 x y = manhattan ROps x y.
Proof. exact minkowski_1_manhattan. Qed.

Theorem C17_minkowski_2_is_euclidean : forall x y, minkowski ROps 2 x y = euclidian ROps x y.
Proof. exact minkowski_2_euclidian. Qed.

Theorem C17_mahalanobis_identity_is_euclidean : forall n x y, length x = n ->
  mahalanobis ROps n (identity_matrix n) x y = euclidian ROps x y.
Proof. exact mahalanobis_identity. Qed.

(* ---------------- rejection ---------------- *)
Theorem C17_length_mismatch_rejected : forall (x y : list R),
  (length x <> length y ->
     euclidian ROps x y = None /\ manhattan ROps x y = None /\
     (forall p, minkowski ROps p x y = None) /\
     (forall neqb, hamming ROps neqb x y = None)) /\
  (forall n S, (length x <> n \/ length y <> n) -> mahalanobis ROps n S x y = None) /\
  minkowski ROps 0 x y = None.
Proof.
  intros x y. split; [|split].
  - intros H. repeat split.
    + apply euclidian_none; exact H.
    + apply manhattan_none; exact H.
    + intros p. apply minkowski_none. left; exact H.
    + intros neqb. apply hamming_none; exact H.
  - intros n S H. apply mahalanobis_none. exact H.
  - apply minkowski_none. right; reflexivity.
Qed.

(* ---------------- the hypotheses are satisfiable (non-trivial instances) ---------------- *)
Example C17_euclid_instance : euclidian ROps [1; 2; 3] [4; 5; 6] = Some (sqrt 27).
Proof.
  apply euclidian_some. split; [reflexivity|]. f_equal.
  unfold sigma, comp. cbn [length seq map Rsum fold_right nth]. ring.
Qed.
Example C17_manhattan_triple_instance :
  manhattan ROps [1; 2] [3; 5] = Some 5 /\ manhattan ROps [3; 5] [0; 1] = Some 7 /\
  manhattan ROps [1; 2] [0; 1] = Some 2.
Proof.
  repeat split; apply manhattan_some; (split; [reflexivity|]);
    unfold sigma, comp; cbn [length seq map Rsum fold_right nth].
  - rewrite (Rabs_left (1 - 3)), (Rabs_left (2 - 5)) by lra. lra.
  - rewrite (Rabs_right (3 - 0)), (Rabs_right (5 - 1)) by lra. lra.
  - rewrite (Rabs_right (1 - 0)), (Rabs_right (2 - 1)) by lra. lra.
Qed.
Example C17_minkowski_instance :
  exists d, minkowski ROps 3 [1; 2] [3; 5] = Some d /\ 0 <= d /\ d ^ 3 = 35.
Proof.
  destruct (C17_minkowski_defined 3 [1; 2] [3; 5] eq_refl) as [d H]; [lia|].
  exists d. split; [exact H|].
  destruct (minkowski_closed_form _ _ _ _ H) as [P Q]. split; [exact P|]. rewrite Q.
  unfold sigma, comp. cbn [length seq map Rsum fold_right nth].
  rewrite (Rabs_left (1 - 3)), (Rabs_left (2 - 5)) by lra. ring.
Qed.
Example C17_hamming_instance :
  hamming ROps (fun a b => negb (Nat.eqb a b)) [1; 0; 0; 1]%nat [1; 1; 0; 0]%nat = Some (2 / 4) /\
  (forall a b : nat, negb (Nat.eqb a b) = false <-> a = b).
Proof.
  split.
  - apply hamming_some. split; [reflexivity|]. cbn [diff_count Nat.eqb negb Nat.add length INR]. lra.
  - intros a b. rewrite negb_false_iff. apply Nat.eqb_eq.
Qed.
(* a positive semi-definite matrix that is not the identity, and a distance under it *)
Example C17_psd_instance :
  psd 2 [[2; -1]; [-1; 2]] /\ mahalanobis ROps 2 [[2; -1]; [-1; 2]] [1; 0] [0; 1] = Some (sqrt 6).
Proof.
  split.
  - intros w. unfold qform, sigma, entry. cbn [seq map Rsum fold_right nth].
    assert (0 <= (w 0%nat - w 1%nat) * (w 0%nat - w 1%nat)) by exact (Rle_0_sqr _).
    assert (0 <= w 0%nat * w 0%nat) by exact (Rle_0_sqr _).
    assert (0 <= w 1%nat * w 1%nat) by exact (Rle_0_sqr _). lra.
  - apply mahalanobis_some. repeat split. f_equal.
    unfold qform, sigma, entry, comp. cbn [seq map Rsum fold_right nth]. ring.
Qed.
Example C17_psd_identity_instance : forall n, psd n (identity_matrix n).
Proof. exact psd_identity. Qed.

(* a covariance, its inverse, and data with two or more rows *)
Example C17_right_inverse_instance :
  right_inverse 2 [[2; 1]; [1; 1]] [[1; -1]; [-1; 2]] /\ psd 2 [[2; 1]; [1; 1]].
Proof.
  split.
  - intros i j Hi Hj. unfold sigma, entry. cbn [seq map Rsum fold_right].
    destruct i as [|[|i]]; destruct j as [|[|j]]; try lia; cbn [nth Nat.eqb]; lra.
  - intros w. unfold qform, sigma, entry. cbn [seq map Rsum fold_right nth].
    assert (0 <= (w 0%nat + w 1%nat) * (w 0%nat + w 1%nat)) by exact (Rle_0_sqr _).
    assert (0 <= w 0%nat * w 0%nat) by exact (Rle_0_sqr _). lra.
Qed.
Example C17_cov_instance :
  exists C, cov ROps 2 [[1; 2]; [3; 1]; [2; 6]] = Some C /\ (2 <= length [[1; 2]; [3; 1]; [2; 6]])%nat.
Proof. eexists. split; [reflexivity | cbn; lia]. Qed.

(* ======================================================================================================
   Rounding: the binary64 instance (FOps, Coq primitive floats) of the SAME model definitions — the
   ones the correspondence check executes bit for bit against the Rust code — is within a stated
   number of roundings of the exact value.  Proved through Flocq's primitive-float bridge
   (SC.Base.FloatError, SC.C17.ProofsFloat); extra assumptions: the FloatAxioms / Uint63 specification
   axioms of Coq's standard library that give primitive floats and integers their meaning.
   Vocabulary (SC.Base.FloatError): `FR d` = the real value of the float d;  `RV x` = map FR x;
   u64 = 2^-53 (unit roundoff), eta64 = 2^-1075 (half the smallest subnormal), `rnd64 r` = r rounded to
   nearest-even binary64.  The only no-overflow hypothesis is `is_finite d = true` for the RESULT d:
   infinities and NaN are absorbing, so finite result => all inputs and intermediates finite.
   ====================================================================================================== *)
From Coq Require Import Floats.
From SC Require Import Base.FloatUtil Base.FloatError C17.ProofsFloat.

(* what the constants and the value function are *)
Theorem C17_float_constants :
  u64 = / 2 ^ 53 /\ eta64 = / 2 ^ 1075 /\ FR 0%float = 0 /\
  (forall z, (0 <= z < 2 ^ 53)%Z -> FR (float_of_Z z) = IZR z) /\
  (forall x, FR (PrimFloat.abs x) = Rabs (FR x)).
Proof.
  split; [exact u64_eq|]. split; [exact eta64_eq|]. split; [exact FR_zero|].
  split; [exact FR_int | exact fabs_exact].
Qed.

(* one operation: finite result => finite operands and the result is the correctly rounded exact
   result; + and - have relative error u64 even in the subnormal range, * has relative error u64 plus
   the underflow term eta64, sqrt has relative error u64 *)
Theorem C17_float_operation_errors : forall x y : PrimFloat.float,
  (PrimFloat.is_finite (x + y)%float = true ->
     PrimFloat.is_finite x = true /\ PrimFloat.is_finite y = true /\
     FR (x + y)%float = rnd64 (FR x + FR y) /\
     Rabs (FR (x + y)%float - (FR x + FR y)) <= u64 * Rabs (FR x + FR y)) /\
  (PrimFloat.is_finite (x - y)%float = true ->
     PrimFloat.is_finite x = true /\ PrimFloat.is_finite y = true /\
     FR (x - y)%float = rnd64 (FR x - FR y) /\
     Rabs (FR (x - y)%float - (FR x - FR y)) <= u64 * Rabs (FR x - FR y)) /\
  (PrimFloat.is_finite (x * y)%float = true ->
     PrimFloat.is_finite x = true /\ PrimFloat.is_finite y = true /\
     FR (x * y)%float = rnd64 (FR x * FR y) /\
     Rabs (FR (x * y)%float - FR x * FR y) <= u64 * Rabs (FR x * FR y) + eta64) /\
  (PrimFloat.is_finite (PrimFloat.sqrt x) = true ->
     PrimFloat.is_finite x = true /\ 0 <= FR x /\
     FR (PrimFloat.sqrt x) = rnd64 (R_sqrt.sqrt (FR x)) /\
     Rabs (FR (PrimFloat.sqrt x) - R_sqrt.sqrt (FR x)) <= u64 * R_sqrt.sqrt (FR x)).
Proof.
  intros x y. split; [|split; [|split]].
  - intros H. destruct (fadd_finite x y H) as (A & B & C). repeat split; auto. apply fadd_error, H.
  - intros H. destruct (fsub_finite x y H) as (A & B & C). repeat split; auto. apply fsub_error, H.
  - intros H. destruct (fmul_finite x y H) as (A & B & C). repeat split; auto. apply fmul_error, H.
  - intros H. destruct (fsqrt_finite x H) as (A & B). destruct (fsqrt_error x H) as (C & D).
    repeat split; auto.
Qed.

(* recursive summation s_0 = 0, s_{i+1} = fl(s_i + t_i) of non-negative binary64 numbers, as every
   left fold of the models runs it: relative error (1+u)^(n-1) - 1 (the first addition is exact) *)
Theorem C17_float_recursive_sum_error : forall l : list PrimFloat.float,
  Forall (fun t => 0 <= FR t) l ->
  PrimFloat.is_finite (fold_left PrimFloat.add l 0%float) = true ->
  let s := FR (fold_left PrimFloat.add l 0%float) in
  let S := fold_right Rplus 0 (map FR l) in
  Forall (fun t => PrimFloat.is_finite t = true) l /\
  0 <= s /\ Rabs (s - S) <= ((1 + u64) ^ (length l - 1) - 1) * S.
Proof.
  intros l Hl Hfin. cbv zeta. split.
  - exact (proj2 (fold_fadd_finite_acc l _ Hfin)).
  - exact (fsum_nonneg_error l Hl Hfin).
Qed.

(* Manhattan: n subtractions, n-1 inexact additions => relative error (1+u)^n - 1 *)
Theorem C17_manhattan_float_error : forall (x y : list PrimFloat.float) (d : PrimFloat.float),
  manhattan FOps x y = Some d -> PrimFloat.is_finite d = true ->
  let D := sigma (length x) (fun i => Rabs (comp (RV x) i - comp (RV y) i)) in
  manhattan ROps (RV x) (RV y) = Some D /\ 0 <= D /\ 0 <= FR d /\
  Rabs (FR d - D) <= ((1 + u64) ^ length x - 1) * D.
Proof. exact manhattan_float_error. Qed.

(* squared Euclidian: relative error (1+u)^(n+2) - 1 plus n underflow terms; without the underflow
   terms when every coordinate difference is zero or at least 2^-510 in magnitude *)
Theorem C17_squared_euclidean_float_error : forall (x y : list PrimFloat.float) (d : PrimFloat.float),
  squared_distance FOps x y = Some d -> PrimFloat.is_finite d = true ->
  let n := length x in
  let D := sigma n (fun i => (comp (RV x) i - comp (RV y) i) * (comp (RV x) i - comp (RV y) i)) in
  squared_distance ROps (RV x) (RV y) = Some D /\ 0 <= D /\ 0 <= FR d /\
  Rabs (FR d - D) <= ((1 + u64) ^ (n + 2) - 1) * (D + INR n * eta64) + INR n * eta64 /\
  ((forall a b, In (a, b) (combine x y) -> FR a = FR b \/ / 2 ^ 510 <= Rabs (FR a - FR b)) ->
   Rabs (FR d - D) <= ((1 + u64) ^ (n + 2) - 1) * D).
Proof.
  intros x y d H Hfin n D.
  destruct (squared_distance_float_error x y d H Hfin) as (A & B & C & E & F).
  repeat split; auto. intros Hno. apply F, diff_normal_intro, Hno.
Qed.

(* Euclidian: one more rounding (the square root never under- or overflows) *)
Theorem C17_euclidean_float_error : forall (x y : list PrimFloat.float) (r : PrimFloat.float),
  euclidian FOps x y = Some r -> PrimFloat.is_finite r = true ->
  (forall a b, In (a, b) (combine x y) -> FR a = FR b \/ / 2 ^ 510 <= Rabs (FR a - FR b)) ->
  let D := sigma (length x) (fun i => (comp (RV x) i - comp (RV y) i) * (comp (RV x) i - comp (RV y) i)) in
  euclidian ROps (RV x) (RV y) = Some (R_sqrt.sqrt D) /\ 0 <= FR r /\
  Rabs (FR r - R_sqrt.sqrt D) <= ((1 + u64) ^ (length x + 3) - 1) * R_sqrt.sqrt D.
Proof.
  intros x y r H Hfin Hno. apply (euclidian_float_error x y r H Hfin). apply diff_normal_intro, Hno.
Qed.

(* Hamming (any element type): the count is exact, both conversions are exact, the result is the
   correctly rounded quotient — one rounding; 0 when no position differs *)
Theorem C17_hamming_float_exact : forall (A : Type) (neqb : A -> A -> bool) (x y : list A) (d : PrimFloat.float),
  hamming FOps neqb x y = Some d -> (0 < length x)%nat -> (Z.of_nat (length x) < 2 ^ 53)%Z ->
  let q := INR (diff_count neqb x y) / INR (length x) in
  hamming ROps neqb x y = Some q /\ PrimFloat.is_finite d = true /\ FR d = rnd64 q /\
  Rabs (FR d - q) <= u64 * q /\ (diff_count neqb x y = 0%nat -> FR d = 0).
Proof. exact @hamming_float_error. Qed.

(* ---------------- the hypotheses are satisfiable ---------------- *)
(* exact arithmetic *)
Example C17_manhattan_float_instance :
  manhattan FOps [1; 2.5; -3]%float [0.5; 4; 1]%float = Some 6%float /\ PrimFloat.is_finite 6%float = true.
Proof. split; vm_compute; reflexivity. Qed.
(* inputs 0.1, 0.2, 0.3 / 0.3, 0.1, 0.7 (nearest binary64 numbers): every operation rounds *)
Example C17_manhattan_float_instance_inexact :
  exists d, manhattan FOps [0x1.999999999999ap-4; 0x1.999999999999ap-3; 0x1.3333333333333p-2]%float
                           [0x1.3333333333333p-2; 0x1.999999999999ap-4; 0x1.6666666666666p-1]%float = Some d /\
            PrimFloat.is_finite d = true.
Proof. eexists. split; vm_compute; reflexivity. Qed.
Example C17_euclid_float_instance :
  euclidian FOps [1; 2; 3]%float [4; 6; 3]%float = Some 5%float /\ PrimFloat.is_finite 5%float = true /\
  (forall a b, In (a, b) (combine [1; 2; 3]%float [4; 6; 3]%float) ->
     FR a = FR b \/ / 2 ^ 510 <= Rabs (FR a - FR b)).
Proof.
  split; [vm_compute; reflexivity|]. split; [vm_compute; reflexivity|].
  assert (Hsmall : / 2 ^ 510 <= 1).
  { assert (1 <= 2 ^ 510) by (apply pow_R1_Rle; lra).
    apply (Rmult_le_reg_r (2 ^ 510)); [lra|]. rewrite Rinv_l by lra. lra. }
  intros a b [E|[E|[E|[]]]]; injection E as <- <-.
  - right. change 1%float with (float_of_Z 1). change 4%float with (float_of_Z 4).
    rewrite !FR_int by lia. rewrite Rabs_left; lra.
  - right. change 2%float with (float_of_Z 2). change 6%float with (float_of_Z 6).
    rewrite !FR_int by lia. rewrite Rabs_left; lra.
  - left. reflexivity.
Qed.
Example C17_hamming_float_instance :
  hamming FOps (fun a b => negb (Nat.eqb a b)) [1; 0; 0; 1]%nat [1; 1; 0; 0]%nat = Some 0.5%float /\
  (0 < length [1; 0; 0; 1]%nat)%nat /\ (Z.of_nat (length [1; 0; 0; 1]%nat) < 2 ^ 53)%Z.
Proof. split; [vm_compute; reflexivity|]. split; [cbn; lia | vm_compute; reflexivity]. Qed.
(* what the hypotheses exclude: overflow of a square (the result is not finite) and underflow of a
   square (a non-zero difference below 2^-510: the computed distance is 0) *)
Example C17_euclid_float_overflow_and_underflow :
  euclidian FOps [0x1p600]%float [0]%float = Some infinity /\ PrimFloat.is_finite infinity = false /\
  euclidian FOps [0x1p-600]%float [0]%float = Some 0%float.
Proof. repeat split; vm_compute; reflexivity. Qed.

(* the same with the no-underflow hypothesis in DECIDABLE form (evaluate `diff_normal_b x y` with
   vm_compute): every computed |x_i - y_i| is 0 or at least 2^-509 *)
Theorem C17_euclidean_float_error_checked : forall (x y : list PrimFloat.float) (r : PrimFloat.float),
  euclidian FOps x y = Some r -> PrimFloat.is_finite r = true -> diff_normal_b x y = true ->
  let D := sigma (length x) (fun i => (comp (RV x) i - comp (RV y) i) * (comp (RV x) i - comp (RV y) i)) in
  euclidian ROps (RV x) (RV y) = Some (R_sqrt.sqrt D) /\ 0 <= FR r /\
  Rabs (FR r - R_sqrt.sqrt D) <= ((1 + u64) ^ (length x + 3) - 1) * R_sqrt.sqrt D.
Proof. exact euclidian_float_error_checked. Qed.

(* inputs 0.1, 0.2, 0.3 / 0.3, 0.1, 0.7: every operation rounds; all three hypotheses by computation *)
Example C17_euclid_float_instance_inexact :
  let x := [0x1.999999999999ap-4; 0x1.999999999999ap-3; 0x1.3333333333333p-2]%float in
  let y := [0x1.3333333333333p-2; 0x1.999999999999ap-4; 0x1.6666666666666p-1]%float in
  exists r, euclidian FOps x y = Some r /\ PrimFloat.is_finite r = true /\ diff_normal_b x y = true.
Proof. eexists. repeat split; vm_compute; reflexivity. Qed.

(* ======================================================================================================
   Rounding, SINGLE PRECISION: the binary32 instance (F32Ops of SC.C17.F32: Flocq's IEEE754.Bits
   b32_plus / b32_minus / b32_mult / b32_div / b32_sqrt in mode_NE and b32_abs on `binary_float 24 128`)
   of the SAME model definitions — the ones the correspondence check executes bit for bit against
   the f32 code paths.  Proved on Flocq's binary32 directly (SC.C17.FloatError32, SC.C17.ProofsFloat32):
   no primitive-float bridge, so no FloatAxioms are involved.
   Vocabulary (SC.C17.FloatError32): `FR32 d` = the real value of d (Binary.B2R 24 128 d);
   `RV32 x` = map FR32 x;  u32 = 2^-24 (unit roundoff), eta32 = 2^-150 (half the smallest subnormal),
   `rnd32 r` = r rounded to nearest-even binary32.  The only no-overflow hypothesis is
   `Binary.is_finite 24 128 d = true` for the RESULT d.
   ====================================================================================================== *)
From Flocq Require BinarySingleNaN Binary Bits.
From SC Require Import C17.F32 C17.FloatError32 C17.ProofsFloat32.

(* what the operations, the constants and the value function are *)
Theorem C17_float_constants_f32 :
  (oadd F32Ops = Bits.b32_plus BinarySingleNaN.mode_NE /\ osub F32Ops = Bits.b32_minus BinarySingleNaN.mode_NE /\
   omul F32Ops = Bits.b32_mult BinarySingleNaN.mode_NE /\ odiv F32Ops = Bits.b32_div BinarySingleNaN.mode_NE /\
   osqrt F32Ops = Bits.b32_sqrt BinarySingleNaN.mode_NE /\ oabs F32Ops = Bits.b32_abs) /\
  (forall x, FR32 x = Binary.B2R 24 128 x) /\
  u32 = / 2 ^ 24 /\ eta32 = / 2 ^ 150 /\ FR32 (o0 F32Ops) = 0 /\
  (forall z, (0 <= z < 2 ^ 24)%Z -> FR32 (oofZ F32Ops z) = IZR z) /\
  (forall x, FR32 (oabs F32Ops x) = Rabs (FR32 x)).
Proof.
  split; [repeat split|]. split; [reflexivity|]. split; [exact u32_eq|]. split; [exact eta32_eq|].
  split; [exact FR32_zero|]. split; [exact FR32_int | exact f32abs_exact].
Qed.

(* one operation: finite result => finite operands and the result is the correctly rounded exact
   result; + and - relative error u32 even in the subnormal range, * relative error u32 plus the
   underflow term eta32, sqrt relative error u32 *)
Theorem C17_float_operation_errors_f32 : forall x y : f32,
  let fin := fun z : f32 => Binary.is_finite 24 128 z = true in
  (fin (oadd F32Ops x y) ->
     fin x /\ fin y /\ FR32 (oadd F32Ops x y) = rnd32 (FR32 x + FR32 y) /\
     Rabs (FR32 (oadd F32Ops x y) - (FR32 x + FR32 y)) <= u32 * Rabs (FR32 x + FR32 y)) /\
  (fin (osub F32Ops x y) ->
     fin x /\ fin y /\ FR32 (osub F32Ops x y) = rnd32 (FR32 x - FR32 y) /\
     Rabs (FR32 (osub F32Ops x y) - (FR32 x - FR32 y)) <= u32 * Rabs (FR32 x - FR32 y)) /\
  (fin (omul F32Ops x y) ->
     fin x /\ fin y /\ FR32 (omul F32Ops x y) = rnd32 (FR32 x * FR32 y) /\
     Rabs (FR32 (omul F32Ops x y) - FR32 x * FR32 y) <= u32 * Rabs (FR32 x * FR32 y) + eta32) /\
  (fin (osqrt F32Ops x) ->
     fin x /\ 0 <= FR32 x /\ FR32 (osqrt F32Ops x) = rnd32 (R_sqrt.sqrt (FR32 x)) /\
     Rabs (FR32 (osqrt F32Ops x) - R_sqrt.sqrt (FR32 x)) <= u32 * R_sqrt.sqrt (FR32 x)).
Proof.
  intros x y fin. split; [|split; [|split]].
  - intros H. destruct (f32add_finite x y H) as (A & B & C). repeat split; auto. apply f32add_error, H.
  - intros H. destruct (f32sub_finite x y H) as (A & B & C). repeat split; auto. apply f32sub_error, H.
  - intros H. destruct (f32mul_finite x y H) as (A & B & C). repeat split; auto. apply f32mul_error, H.
  - intros H. destruct (f32sqrt_finite x H) as (A & B). destruct (f32sqrt_error x H) as (C & D).
    repeat split; auto.
Qed.

(* recursive summation of non-negative binary32 numbers: relative error (1+u32)^(n-1) - 1 *)
Theorem C17_float_recursive_sum_error_f32 : forall l : list f32,
  Forall (fun t => 0 <= FR32 t) l ->
  Binary.is_finite 24 128 (fold_left (oadd F32Ops) l (o0 F32Ops)) = true ->
  let s := FR32 (fold_left (oadd F32Ops) l (o0 F32Ops)) in
  let S := fold_right Rplus 0 (map FR32 l) in
  Forall (fun t => Binary.is_finite 24 128 t = true) l /\
  0 <= s /\ Rabs (s - S) <= ((1 + u32) ^ (length l - 1) - 1) * S.
Proof.
  intros l Hl Hfin. cbv zeta. split.
  - exact (proj2 (fold_f32add_finite_acc l _ Hfin)).
  - exact (fsum32_nonneg_error l Hl Hfin).
Qed.

(* Manhattan: relative error (1+u32)^n - 1 *)
Theorem C17_manhattan_float_error_f32 : forall (x y : list f32) (d : f32),
  manhattan F32Ops x y = Some d -> Binary.is_finite 24 128 d = true ->
  let D := sigma (length x) (fun i => Rabs (comp (RV32 x) i - comp (RV32 y) i)) in
  manhattan ROps (RV32 x) (RV32 y) = Some D /\ 0 <= D /\ 0 <= FR32 d /\
  Rabs (FR32 d - D) <= ((1 + u32) ^ length x - 1) * D.
Proof. exact manhattan_float_error32. Qed.

(* squared Euclidian: relative error (1+u32)^(n+2) - 1 plus n underflow terms; without the underflow
   terms when every coordinate difference is zero or at least 2^-62 in magnitude *)
Theorem C17_squared_euclidean_float_error_f32 : forall (x y : list f32) (d : f32),
  squared_distance F32Ops x y = Some d -> Binary.is_finite 24 128 d = true ->
  let n := length x in
  let D := sigma n (fun i => (comp (RV32 x) i - comp (RV32 y) i) * (comp (RV32 x) i - comp (RV32 y) i)) in
  squared_distance ROps (RV32 x) (RV32 y) = Some D /\ 0 <= D /\ 0 <= FR32 d /\
  Rabs (FR32 d - D) <= ((1 + u32) ^ (n + 2) - 1) * (D + INR n * eta32) + INR n * eta32 /\
  ((forall a b, In (a, b) (combine x y) -> FR32 a = FR32 b \/ / 2 ^ 62 <= Rabs (FR32 a - FR32 b)) ->
   Rabs (FR32 d - D) <= ((1 + u32) ^ (n + 2) - 1) * D).
Proof.
  intros x y d H Hfin n D.
  destruct (squared_distance_float_error32 x y d H Hfin) as (A & B & C & E & F).
  repeat split; auto. intros Hno. apply F, diff_normal32_intro, Hno.
Qed.

(* Euclidian: one more rounding (the square root never under- or overflows) *)
Theorem C17_euclidean_float_error_f32 : forall (x y : list f32) (r : f32),
  euclidian F32Ops x y = Some r -> Binary.is_finite 24 128 r = true ->
  (forall a b, In (a, b) (combine x y) -> FR32 a = FR32 b \/ / 2 ^ 62 <= Rabs (FR32 a - FR32 b)) ->
  let D := sigma (length x) (fun i => (comp (RV32 x) i - comp (RV32 y) i) * (comp (RV32 x) i - comp (RV32 y) i)) in
  euclidian ROps (RV32 x) (RV32 y) = Some (R_sqrt.sqrt D) /\ 0 <= FR32 r /\
  Rabs (FR32 r - R_sqrt.sqrt D) <= ((1 + u32) ^ (length x + 3) - 1) * R_sqrt.sqrt D.
Proof.
  intros x y r H Hfin Hno. apply (euclidian_float_error32 x y r H Hfin). apply diff_normal32_intro, Hno.
Qed.

(* the same with the no-underflow hypothesis in DECIDABLE form (evaluate `diff_normal_b32 x y` with
   vm_compute): every computed |x_i - y_i| is 0 or at least 2^-61 *)
Theorem C17_euclidean_float_error_checked_f32 : forall (x y : list f32) (r : f32),
  euclidian F32Ops x y = Some r -> Binary.is_finite 24 128 r = true -> diff_normal_b32 x y = true ->
  let D := sigma (length x) (fun i => (comp (RV32 x) i - comp (RV32 y) i) * (comp (RV32 x) i - comp (RV32 y) i)) in
  euclidian ROps (RV32 x) (RV32 y) = Some (R_sqrt.sqrt D) /\ 0 <= FR32 r /\
  Rabs (FR32 r - R_sqrt.sqrt D) <= ((1 + u32) ^ (length x + 3) - 1) * R_sqrt.sqrt D.
Proof. exact euclidian_float_error32_checked. Qed.

(* Hamming (any element type, 0 < n < 2^24): the count and both conversions are exact, the result is
   the correctly rounded quotient — one rounding; 0 when no position differs *)
Theorem C17_hamming_float_exact_f32 : forall (A : Type) (neqb : A -> A -> bool) (x y : list A) (d : f32),
  hamming F32Ops neqb x y = Some d -> (0 < length x)%nat -> (Z.of_nat (length x) < 2 ^ 24)%Z ->
  let q := INR (diff_count neqb x y) / INR (length x) in
  hamming ROps neqb x y = Some q /\ Binary.is_finite 24 128 d = true /\ FR32 d = rnd32 q /\
  Rabs (FR32 d - q) <= u32 * q /\ (diff_count neqb x y = 0%nat -> FR32 d = 0).
Proof. exact @hamming_float_error32. Qed.

(* ---------------- the hypotheses are satisfiable (single precision) ---------------- *)
(* exact arithmetic: [1; 2.5; -3] vs [0.5; 4; 1] (bit patterns of the f32 values), distance 6 = 0x40C00000 *)
Example C17_manhattan_float_instance_f32 :
  exists d, manhattan F32Ops (map f32_of_bits [1065353216; 1075838976; 3225419776]%Z)
                             (map f32_of_bits [1056964608; 1082130432; 1065353216]%Z) = Some d /\
            Binary.is_finite 24 128 d = true /\ f32_bits d = 1086324736%Z.
Proof. apply f32_result_intro. vm_compute. reflexivity. Qed.
(* inputs 0.1f, 0.2f, 0.3f / 0.3f, 0.1f, 0.7f (0x3DCCCCCD, 0x3E4CCCCD, 0x3E99999A, 0x3F333333): the
   operations round; the result is 0x3F333333 *)
Example C17_manhattan_float_instance_inexact_f32 :
  exists d, manhattan F32Ops (map f32_of_bits [1036831949; 1045220557; 1050253722]%Z)
                             (map f32_of_bits [1050253722; 1036831949; 1060320051]%Z) = Some d /\
            Binary.is_finite 24 128 d = true /\ f32_bits d = 1060320051%Z.
Proof. apply f32_result_intro. vm_compute. reflexivity. Qed.
Example C17_euclid_float_instance_f32 :
  let x := map f32_of_Z [1; 2; 3]%Z in let y := map f32_of_Z [4; 6; 3]%Z in
  (exists r, euclidian F32Ops x y = Some r /\ Binary.is_finite 24 128 r = true /\
             f32_bits r = 1084227584%Z (* 5.0f *)) /\
  (forall a b, In (a, b) (combine x y) -> FR32 a = FR32 b \/ / 2 ^ 62 <= Rabs (FR32 a - FR32 b)).
Proof.
  split; [apply f32_result_intro; vm_compute; reflexivity|].
  assert (Hsmall : / 2 ^ 62 <= 1).
  { assert (1 <= 2 ^ 62) by (apply pow_R1_Rle; lra).
    apply (Rmult_le_reg_r (2 ^ 62)); [lra|]. rewrite Rinv_l by lra. lra. }
  cbn [map combine].
  intros a b [E|[E|[E|[]]]]; injection E as <- <-.
  - right. rewrite !FR32_int by lia. rewrite Rabs_left; lra.
  - right. rewrite !FR32_int by lia. rewrite Rabs_left; lra.
  - left. reflexivity.
Qed.
(* inputs 0.1f, 0.2f, 0.3f / 0.3f, 0.1f, 0.7f: all three hypotheses of the checked form by computation *)
Example C17_euclid_float_instance_inexact_f32 :
  let x := map f32_of_bits [1036831949; 1045220557; 1050253722]%Z in
  let y := map f32_of_bits [1050253722; 1036831949; 1060320051]%Z in
  (exists r, euclidian F32Ops x y = Some r /\ Binary.is_finite 24 128 r = true /\
             f32_bits r = 1055563964%Z) /\ diff_normal_b32 x y = true.
Proof. split; [apply f32_result_intro; vm_compute; reflexivity | vm_compute; reflexivity]. Qed.
Example C17_hamming_float_instance_f32 :
  (exists d, hamming F32Ops (fun a b => negb (Nat.eqb a b)) [1; 0; 0; 1]%nat [1; 1; 0; 0]%nat = Some d /\
             Binary.is_finite 24 128 d = true /\ f32_bits d = 1056964608%Z (* 0.5f *)) /\
  (0 < length [1; 0; 0; 1]%nat)%nat /\ (Z.of_nat (length [1; 0; 0; 1]%nat) < 2 ^ 24)%Z.
Proof. split; [apply f32_result_intro; vm_compute; reflexivity|]. split; [cbn; lia | vm_compute; reflexivity]. Qed.
(* what the hypotheses exclude in single precision: overflow of a square ([2^100] vs [0]: the result
   is +infinity, not finite) and underflow of a square ([2^-100] vs [0], a non-zero difference below
   2^-62: the computed distance is 0); 2^100 = bits 0x71800000, 2^-100 = bits 0x0D800000 *)
Example C17_euclid_float_overflow_and_underflow_f32 :
  euclidian F32Ops [f32_of_bits 1904214016] [f32_of_Z 0] = Some (Binary.B754_infinity 24 128 false) /\
  Binary.is_finite 24 128 (Binary.B754_infinity 24 128 false) = false /\
  euclidian F32Ops [f32_of_bits 226492416] [f32_of_Z 0] = Some (Binary.B754_zero 24 128 false) /\
  FR32 (f32_of_bits 226492416) <> 0 /\
  diff_normal_b32 [f32_of_bits 226492416] [f32_of_Z 0] = false.
Proof.
  split; [vm_compute; reflexivity|]. split; [reflexivity|]. split; [vm_compute; reflexivity|].
  split; [|vm_compute; reflexivity].
  unfold FR32. set (c := f32_of_bits 226492416). vm_compute in c. subst c.
  cbn [Binary.B2R]. apply Rgt_not_eq, Rlt_gt. apply Flocq.Core.Float_prop.F2R_gt_0. reflexivity.
Qed.

(* ======================================================================================================
   Rounding, Mahalanobis::distance on the STORED inverse covariance matrix M (binary64; SC.C17.ProofsFloatMaha).
   The constructor's LU inversion is not covered (no rounding theorem; C01's business) — these theorems
   take the stored matrix of floats as given and bound the straight-line part, in the model's (= the
   code's) loop order:  z_i = fl(x_i - y_i) once;  s = 0; for j { for i { s = fl(s + fl(fl(M_ij z_i) z_j)) } };
   d = fl(sqrt s).  So the quadratic form is ONE recursive sum of n*n terms with 4 roundings each:
   accumulated relative error (1+u)^(n*n+3) - 1 with respect to A = sum_ij |M_ij z_i z_j| (a bound
   relative to z^T M z itself cannot exist: cancellation), z_i = x_i - y_i the REAL differences.
   `RM M` = the matrix of real values of M.  Underflow of the 2 n^2 products contributes n*n*e with
   e = eta64 (1 + (1+u)^2 sum_j |z_j|)  (the inner product's underflow error is multiplied by z_j).
   ====================================================================================================== *)
From SC Require Import C17.ProofsFloatMaha.

Theorem C17_mahalanobis_quadform_float_error :
  forall (n : nat) (M : list (list PrimFloat.float)) (x y : list PrimFloat.float),
  length x = n -> length y = n ->
  PrimFloat.is_finite (quadform FOps n M (vsub FOps x y)) = true ->
  let z := fun i => comp (RV x) i - comp (RV y) i in
  let Q := qform n (RM M) z in
  let A := sigma n (fun j => sigma n (fun i => Rabs (entry (RM M) i j * z i * z j))) in
  let e := eta64 * (1 + (1 + u64) ^ 2 * sigma n (fun j => Rabs (z j))) in
  quadform ROps n (RM M) (vsub ROps (RV x) (RV y)) = Q /\ Rabs Q <= A /\
  Rabs (FR (quadform FOps n M (vsub FOps x y)) - Q) <=
    ((1 + u64) ^ (n * n + 3) - 1) * (A + INR (n * n) * e) + INR (n * n) * e.
Proof. exact quadform_float_error. Qed.

(* the same with any bound Zm on the |z_j| in the underflow term (e.g. their maximum) *)
Theorem C17_mahalanobis_quadform_float_error_gen :
  forall (n : nat) (M : list (list PrimFloat.float)) (x y : list PrimFloat.float) (Zm : R),
  length x = n -> length y = n ->
  PrimFloat.is_finite (quadform FOps n M (vsub FOps x y)) = true ->
  let z := fun i => comp (RV x) i - comp (RV y) i in
  0 <= Zm -> (forall j, (j < n)%nat -> Rabs (z j) <= Zm) ->
  let Q := qform n (RM M) z in
  let A := sigma n (fun j => sigma n (fun i => Rabs (entry (RM M) i j * z i * z j))) in
  let e := eta64 * (1 + (1 + u64) ^ 2 * Zm) in
  quadform ROps n (RM M) (vsub ROps (RV x) (RV y)) = Q /\ Rabs Q <= A /\
  Rabs (FR (quadform FOps n M (vsub FOps x y)) - Q) <=
    ((1 + u64) ^ (n * n + 3) - 1) * (A + INR (n * n) * e) + INR (n * n) * e.
Proof. exact quadform_float_error_gen. Qed.

(* the distance: B = the absolute bound above on the quadratic form.  For Q >= 0 the error is at most
   u sqrt Q + (1+u) sqrt B; for Q > 0 also u sqrt Q + (1+u) B / sqrt Q (i.e. relative error about
   u + B/Q: the condition number A/Q of the form enters, as it must).  The real-number model on the
   real values of the inputs is defined and equals sqrt Q, the value the metric theorems are about. *)
Theorem C17_mahalanobis_float_error :
  forall (n : nat) (M : list (list PrimFloat.float)) (x y : list PrimFloat.float) (d : PrimFloat.float),
  mahalanobis FOps n M x y = Some d -> PrimFloat.is_finite d = true ->
  let z := fun i => comp (RV x) i - comp (RV y) i in
  let Q := qform n (RM M) z in
  let A := sigma n (fun j => sigma n (fun i => Rabs (entry (RM M) i j * z i * z j))) in
  let e := eta64 * (1 + (1 + u64) ^ 2 * sigma n (fun j => Rabs (z j))) in
  let B := ((1 + u64) ^ (n * n + 3) - 1) * (A + INR (n * n) * e) + INR (n * n) * e in
  mahalanobis ROps n (RM M) (RV x) (RV y) = Some (R_sqrt.sqrt Q) /\
  0 <= FR d /\ 0 <= B /\
  (0 <= Q -> Rabs (FR d - R_sqrt.sqrt Q) <= u64 * R_sqrt.sqrt Q + (1 + u64) * R_sqrt.sqrt B) /\
  (0 < Q -> Rabs (FR d - R_sqrt.sqrt Q) <= u64 * R_sqrt.sqrt Q + (1 + u64) * (B / R_sqrt.sqrt Q)).
Proof. exact mahalanobis_float_error. Qed.

(* symmetry in binary64, for ANY stored matrix (not necessarily symmetric: both calls visit the same
   (i, j) in the same order, only z changes sign): if d(x, y) is finite then d(y, x) is finite, has the
   same real value, and is the same float whenever that value is non-zero.  (Not literally "negate z":
   x_i - x_i is +0 in both directions, so zero terms may differ in sign; a zero RESULT is +0 or -0 and the
   theorem does not say which.  Non-finite results are outside the statement.) *)
Theorem C17_mahalanobis_float_symmetric :
  forall (n : nat) (M : list (list PrimFloat.float)) (x y : list PrimFloat.float) (d : PrimFloat.float),
  mahalanobis FOps n M x y = Some d -> PrimFloat.is_finite d = true ->
  exists d', mahalanobis FOps n M y x = Some d' /\ PrimFloat.is_finite d' = true /\
             FR d' = FR d /\ (FR d <> 0 -> d' = d).
Proof. exact mahalanobis_float_symmetric. Qed.

(* non-vacuity: an inexact, non-symmetric 2x2 matrix [[0.3, 0.1], [0.2, 0.7]] (nearest binary64 numbers),
   x = (0.1, 0.2), y = (0.3, 0.1): every operation rounds; the results of d(x, y) and d(y, x) are
   finite and bit-identical *)
Example C17_mahalanobis_float_instance_inexact :
  let M := [[0x1.3333333333333p-2; 0x1.999999999999ap-4]; [0x1.999999999999ap-3; 0x1.6666666666666p-1]]%float in
  let x := [0x1.999999999999ap-4; 0x1.999999999999ap-3]%float in
  let y := [0x1.3333333333333p-2; 0x1.999999999999ap-4]%float in
  length x = 2%nat /\ length y = 2%nat /\
  PrimFloat.is_finite (quadform FOps 2 M (vsub FOps x y)) = true /\
  exists d, mahalanobis FOps 2 M x y = Some d /\ PrimFloat.is_finite d = true /\
            mahalanobis FOps 2 M y x = Some d /\ PrimFloat.eqb d 0%float = false.
Proof. cbv zeta. split; [reflexivity|]. split; [reflexivity|]. split; [vm_compute; reflexivity|].
  eexists. repeat split; vm_compute; reflexivity. Qed.

(* non-vacuity of 0 < Q (and of the bound Zm): M = [[2, 1], [1, 2]], x = (1, 2), y = (0, 0): Q = 14 *)
Example C17_mahalanobis_float_instance_Q :
  let M := [[2; 1]; [1; 2]]%float in let x := [1; 2]%float in let y := [0; 0]%float in
  let z := fun i => comp (RV x) i - comp (RV y) i in
  qform 2 (RM M) z = 14 /\ 0 < qform 2 (RM M) z /\ 0 <= 2 /\ (forall j, (j < 2)%nat -> Rabs (z j) <= 2) /\
  exists d, mahalanobis FOps 2 M x y = Some d /\ PrimFloat.is_finite d = true.
Proof.
  cbv zeta.
  assert (E1 : FR 1%float = 1) by (change 1%float with (float_of_Z 1); apply FR_int; lia).
  assert (E2 : FR 2%float = 2) by (change 2%float with (float_of_Z 2); apply FR_int; lia).
  assert (EQ : qform 2 (RM [[2; 1]; [1; 2]]%float)
                 (fun i => comp (RV [1; 2]%float) i - comp (RV [0; 0]%float) i) = 14).
  { unfold qform, sigma, entry, RM, RV, comp, Rsum. cbn [seq map fold_right nth].
    rewrite E1, E2, FR_zero. lra. }
  split; [exact EQ|]. split; [rewrite EQ; lra|]. split; [lra|]. split.
  - intros j Hj. unfold RV, comp. destruct j as [|[|j]]; [| |lia]; cbn [map nth];
      rewrite ?E1, ?E2, FR_zero, Rminus_0_r, Rabs_pos_eq; lra.
  - eexists. split; vm_compute; reflexivity.
Qed.

(* ... and in fact BIT-IDENTICAL for every finite result, zero included: a float sum is -0 only if both
   operands are -0 and the accumulator starts at +0, so neither quadratic form is -0 *)
Theorem C17_mahalanobis_float_symmetric_bits :
  forall (n : nat) (M : list (list PrimFloat.float)) (x y : list PrimFloat.float) (d : PrimFloat.float),
  mahalanobis FOps n M x y = Some d -> PrimFloat.is_finite d = true -> mahalanobis FOps n M y x = Some d.
Proof. exact mahalanobis_float_symmetric_bits. Qed.
