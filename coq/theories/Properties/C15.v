(* C15 — evaluation metrics.  Property theorems only: statements are about the executable model
   SC.C15.Model instantiated at the real numbers (ROps); the correspondence check ties the same
   model, instantiated at binary64, to src/metrics/*.rs. *)
From Coq Require Import List ZArith Reals Bool Arith Lra.
From SC Require Import Base.Num C15.Model C15.ProofsBasic.
Import ListNotations.
Local Open Scope R_scope.

(* accuracy = (number of indices with equal entries) / n *)
Theorem C15_accuracy_definition : forall yt yp, length yt = length yp ->
  accuracy ROps yt yp = Some (INR (n_equal yt yp) / INR (length yt)).
Proof. exact accuracy_def. Qed.

(* precision = TP / (TP + FP), recall = TP / (TP + FN) on binary label vectors *)
Theorem C15_precision_recall_definition : forall yt yp, length yt = length yp -> binary yt -> binary yp ->
  precision ROps yt yp = Some (INR (n_tp yt yp) / INR (n_tp yt yp + n_fp yt yp)) /\
  recall ROps yt yp = Some (INR (n_tp yt yp) / INR (n_tp yt yp + n_fn yt yp)).
Proof. intros yt yp H Ht Hp. split; [exact (precision_def yt yp H Ht Hp) | exact (recall_def yt yp H Ht Hp)]. Qed.

(* F_beta = (1+b^2) P R / (b^2 P + R), and in confusion counts when TP > 0 *)
Theorem C15_fbeta_definition : forall beta yt yp, length yt = length yp -> binary yt -> binary yp ->
  let p := INR (n_tp yt yp) / INR (n_tp yt yp + n_fp yt yp) in
  let r := INR (n_tp yt yp) / INR (n_tp yt yp + n_fn yt yp) in
  f_beta ROps beta yt yp = Some ((1 + beta * beta) * (p * r) / (beta * beta * p + r)).
Proof. exact fbeta_def. Qed.

Theorem C15_fbeta_confusion_counts : forall beta yt yp,
  length yt = length yp -> binary yt -> binary yp -> (0 < n_tp yt yp)%nat ->
  let tp := INR (n_tp yt yp) in let fp := INR (n_fp yt yp) in let fn := INR (n_fn yt yp) in
  f_beta ROps beta yt yp = Some ((1 + beta * beta) * tp / ((1 + beta * beta) * tp + beta * beta * fn + fp)).
Proof. exact fbeta_counts. Qed.

(* MSE, MAE, R^2 from the residuals *)
Theorem C15_mse_definition : forall yt yp, length yt = length yp ->
  mean_squared_error ROps yt yp
  = Some (sum_idx (length yt) (fun i => (at_ yt i - at_ yp i) * (at_ yt i - at_ yp i)) / INR (length yt)).
Proof. exact mse_def. Qed.

Theorem C15_mae_definition : forall yt yp, length yt = length yp ->
  mean_absolute_error ROps yt yp
  = Some (sum_idx (length yt) (fun i => Rabs (at_ yt i - at_ yp i)) / INR (length yt)).
Proof. exact mae_def. Qed.

Theorem C15_r2_definition : forall yt yp, length yt = length yp ->
  r2 ROps yt yp
  = Some (1 - sum_idx (length yt) (fun i => (at_ yt i - at_ yp i) * (at_ yt i - at_ yp i))
              / sum_idx (length yt) (fun i => (at_ yt i - mean_of yt) * (at_ yt i - mean_of yt))).
Proof. exact r2_def. Qed.

(* the pairwise metrics reject vectors of different length — for every scalar instance, so also
   for the binary64 instance that is run against the code *)
Theorem C15_length_mismatch_rejected : forall (T : Type) (O : Ops T) (yt yp : list T),
  length yt <> length yp ->
  accuracy O yt yp = None /\ precision O yt yp = None /\ recall O yt yp = None /\
  (forall beta, f_beta O beta yt yp = None) /\
  mean_squared_error O yt yp = None /\ mean_absolute_error O yt yp = None /\ r2 O yt yp = None.
Proof. intros T O. exact (length_mismatch_any O). Qed.

(* labels other than 0 / 1 are rejected by precision, recall and F-beta *)
Theorem C15_non_binary_rejected : forall yt yp, length yt = length yp -> ~ (binary yt /\ binary yp) ->
  precision ROps yt yp = None /\ recall ROps yt yp = None /\ forall beta, f_beta ROps beta yt yp = None.
Proof. exact non_binary_rejected. Qed.
