(* C15 — evaluation metrics.  Property theorems only: statements are about the executable model
   SC.C15.Model instantiated at the real numbers (ROps); the correspondence check ties the same
   model, instantiated at binary64, to src/metrics/*.rs. *)
From Coq Require Import List ZArith Reals Bool Arith Lia Lra Permutation Sorted.
From SC Require Import Base.Num C15.Model C15.ProofsBasic C15.ProofsCM C15.ProofsAUC C15.ProofsAUC2 C15.ProofsHCV C15.ProofsHCV2 C15.ProofsHCV3.
Import ListNotations.
Local Open Scope R_scope.

(* accuracy = (number of indices with equal entries) / n *)
Theorem C15_accuracy_definition : forall yt yp, length yt = length yp ->
  accuracy ROps yt yp = Some (INR (n_equal yt yp) / INR (length yt)).
Proof. exact accuracy_def. Qed.

(* precision = TP / (TP + FP), recall = TP / (TP + FN) on binary label vectors *)
Theorem C15_precision_recall_definition : forall yt yp, length yt = length yp -> binary yt -> binary yp ->
  precision ROps yt yp = Some (INR (n_tp yt yp) / INR (n_tp yt yp + n_fp yt yp)) /\
  recall ROps yt yp = Some (INR (n_tp yt yp) / INR (n_tp yt yp + n_fn yt yp)).
Proof. intros yt yp H Ht Hp. split; [exact (precision_def yt yp H Ht Hp) | exact (recall_def yt yp H Ht Hp)]. Qed.

(* F_beta = (1+b^2) P R / (b^2 P + R), and in confusion counts when TP > 0 *)
Theorem C15_fbeta_definition : forall beta yt yp, length yt = length yp -> binary yt -> binary yp ->
  let p := INR (n_tp yt yp) / INR (n_tp yt yp + n_fp yt yp) in
  let r := INR (n_tp yt yp) / INR (n_tp yt yp + n_fn yt yp) in
  f_beta ROps beta yt yp = Some ((1 + beta * beta) * (p * r) / (beta * beta * p + r)).
Proof. exact fbeta_def. Qed.

Theorem C15_fbeta_confusion_counts : forall beta yt yp,
  length yt = length yp -> binary yt -> binary yp -> (0 < n_tp yt yp)%nat ->
  let tp := INR (n_tp yt yp) in let fp := INR (n_fp yt yp) in let fn := INR (n_fn yt yp) in
  f_beta ROps beta yt yp = Some ((1 + beta * beta) * tp / ((1 + beta * beta) * tp + beta * beta * fn + fp)).
Proof. exact fbeta_counts. Qed.

(* MSE, MAE, R^2 from the residuals *)
Theorem C15_mse_definition : forall yt yp, length yt = length yp ->
  mean_squared_error ROps yt yp
  = Some (sum_idx (length yt) (fun i => (at_ yt i - at_ yp i) * (at_ yt i - at_ yp i)) / INR (length yt)).
Proof. exact mse_def. Qed.

Theorem C15_mae_definition : forall yt yp, length yt = length yp ->
  mean_absolute_error ROps yt yp
  = Some (sum_idx (length yt) (fun i => Rabs (at_ yt i - at_ yp i)) / INR (length yt)).
Proof. exact mae_def. Qed.

Theorem C15_r2_definition : forall yt yp, length yt = length yp ->
  r2 ROps yt yp
  = Some (1 - sum_idx (length yt) (fun i => (at_ yt i - at_ yp i) * (at_ yt i - at_ yp i))
              / sum_idx (length yt) (fun i => (at_ yt i - mean_of yt) * (at_ yt i - mean_of yt))).
Proof. exact r2_def. Qed.

(* the pairwise metrics reject vectors of different length — for every scalar instance, so also
   for the binary64 instance that is run against the code *)
Theorem C15_length_mismatch_rejected : forall (T : Type) (O : Ops T) (yt yp : list T),
  length yt <> length yp ->
  accuracy O yt yp = None /\ precision O yt yp = None /\ recall O yt yp = None /\
  (forall beta, f_beta O beta yt yp = None) /\
  mean_squared_error O yt yp = None /\ mean_absolute_error O yt yp = None /\ r2 O yt yp = None.
Proof. intros T O. exact (length_mismatch_any O). Qed.

(* labels other than 0 / 1 are rejected by precision, recall and F-beta *)
Theorem C15_non_binary_rejected : forall yt yp, length yt = length yp -> ~ (binary yt /\ binary yp) ->
  precision ROps yt yp = None /\ recall ROps yt yp = None /\ forall beta, f_beta ROps beta yt yp = None.
Proof. exact non_binary_rejected. Qed.

(* ------------------------------------------------------------------------------------------------
   ROC-AUC.  `auc_with yt scores idx` is the code after the sort: idx is the index vector returned by
   quick_argsort_mut, the sorted scores are the scores read through idx.  For EVERY permutation idx of
   0..n-1 that sorts the scores (ties in any order) the rank-sum with mid-ranks equals the pairwise
   definition: sum over (positive i, negative j) of [s_i > s_j] + [s_i = s_j]/2, divided by pos*neg. *)
Theorem C15_auc_is_pairwise_probability : forall yt scores idx,
  length scores = length yt -> yt <> [] -> binary yt ->
  Permutation idx (seq 0 (length yt)) ->
  Sorted Rle (map (at_ scores) idx) ->
  auc_with ROps yt scores idx = Some (auc_pairwise yt scores).
Proof. exact auc_rank_sum. Qed.

(* with the model's own (insertion) sort: unconditional in the scores *)
Theorem C15_auc_definition : forall yt scores,
  length scores = length yt -> yt <> [] -> binary yt ->
  auc ROps yt scores = Some (auc_pairwise yt scores).
Proof. exact auc_def. Qed.

(* the boolean check that every correspondence case runs on the index vector returned by the
   implementation's quick_argsort (SC.C15.Corr.corr_auc) implies the hypotheses above *)
Theorem C15_auc_checked_permutation : forall yt scores idx,
  length scores = length yt -> yt <> [] -> binary yt -> sorting_perm_b ROps scores idx = true ->
  auc_with ROps yt scores idx = Some (auc_pairwise yt scores).
Proof. exact auc_checked. Qed.

(* the rank loop never runs out of fuel, for every scalar instance (also binary64, unsorted input) *)
Theorem C15_auc_rank_loop_fuel_sufficient : forall (T : Type) (O : Ops T) (i : nat) (ys : list T),
  exists r, ranks O (length ys) i ys = Some r.
Proof. intros T O i ys. exact (ranks_fuel O (length ys) i ys (le_n _)). Qed.

Theorem C15_auc_rejects_non_binary : forall yt scores idx,
  ~ binary yt -> auc_with ROps yt scores idx = None.
Proof. exact auc_non_binary. Qed.

(* ------------------------------------------------------------------------------------------------
   Model fidelity lemmas for the cluster helpers.  The increment loop of contingency_matrix
   (`m[class_idx[i]][cluster_idx[i]] += 1` on a zero table) equals the table of pair counts, and the
   indices never leave the table; over the reals the entropy loop gives the same value for every
   iteration order of the HashMap (the model iterates in key order). *)
Theorem C15_contingency_loop_closed_form : forall a b,
  contingency_matrix a b =
  if Nat.ltb (length b) (length a) then None
  else Some (map (fun r => map (fun c =>
                count_pair r c (combine (map (fun z => index_of z (usort a)) a)
                                        (map (fun z => index_of z (usort b)) b)))
                                   (seq 0 (length (usort b))))
                 (seq 0 (length (usort a)))).
Proof. exact contingency_matrix_closed. Qed.

Theorem C15_entropy_order_independent : forall cs cs', Permutation cs cs' ->
  entropy_of_counts ROps cs = entropy_of_counts ROps cs'.
Proof. exact entropy_order_independent. Qed.

(* ------------------------------------------------------------------------------------------------
   Cluster scores.  Labels are integers; `usort a` = the distinct labels of a, `na a u` = number of
   entries of a equal to u, `nab a b u w` = number of positions i with a_i = u and b_i = w (the
   contingency table), n = length a.
     Hlab a    = - sum_u  na(u)/n * (ln na(u) - ln n)                      entropy H(C)
     Hcond a b =   sum_{u,w : nab>0}  nab(u,w)/n * (ln nb(w) - ln nab(u,w))  conditional entropy H(C|K)
   The code computes mi = max(0, I) with I = H(C) - H(C|K) = H(K) - H(K|C), then
     h = mi / H(C)  (1 if H(C) = 0),  c = mi / H(K)  (1 if H(K) = 0),  v = 2hc/(h+c)  (0 if h+c = 0). *)
Theorem C15_hcv_definition : forall a b, length a = length b -> a <> [] ->
  hcv ROps a b = Some (hcv_of (clamp0 (Hlab a - Hcond a b)) (Hlab a) (Hlab b)) /\
  Hlab a - Hcond a b = Hlab b - Hcond b a.
Proof.
  intros a b Hl Hne. split.
  - rewrite (hcv_value_form a b Hl Hne), (mi_decomp a b Hl). reflexivity.
  - rewrite <- (mi_decomp a b Hl), <- (mi_decomp b a (eq_sym Hl)). symmetry. exact (MIraw_swap a b Hl).
Qed.

(* exchanging the arguments exchanges homogeneity and completeness and keeps the V-measure *)
Theorem C15_hcv_swap : forall a b h c v, length a = length b ->
  hcv ROps a b = Some (h, c, v) -> hcv ROps b a = Some (c, h, v).
Proof. exact hcv_swap_lemma. Qed.

(* invariance under injective renaming of the labels of either vector *)
Theorem C15_hcv_relabel_invariant : forall f g a b, length a = length b -> injective f -> injective g ->
  hcv ROps (map f a) (map g b) = hcv ROps a b.
Proof. exact hcv_relabel_lemma. Qed.

(* value 1 when the respective conditional entropy is zero (after the repair of D10 also when the
   entropy in the denominator is zero) *)
Theorem C15_hcv_one_when_conditional_entropy_zero : forall a b, length a = length b -> a <> [] ->
  (Hcond a b = 0 -> exists c v, hcv ROps a b = Some (1, c, v)) /\
  (Hcond b a = 0 -> exists h v, hcv ROps a b = Some (h, 1, v)).
Proof. intros a b Hl Hne. split; [exact (hom_one a b Hl Hne) | exact (com_one a b Hl Hne)]. Qed.

(* the conditional entropy is zero when every cluster lies inside one class (b_i = b_j -> a_i = a_j),
   in particular when the first labelling has a single class *)
Theorem C15_hcv_conditional_entropy_zero_cases : forall a b, length a = length b ->
  (determined_by a b -> Hcond a b = 0) /\
  ((forall x y, In x a -> In y a -> x = y) -> Hcond a b = 0).
Proof.
  intros a b Hl. split; [exact (Hcond_zero_when_determined a b Hl)|].
  intros H. exact (Hcond_zero_when_determined a b Hl (single_class_determined a b H)).
Qed.

(* single-class labellings: homogeneity 1 / completeness 1 *)
Theorem C15_hcv_single_class : forall a b, length a = length b -> a <> [] ->
  ((forall x y, In x a -> In y a -> x = y) -> exists c v, hcv ROps a b = Some (1, c, v)) /\
  ((forall x y, In x b -> In y b -> x = y) -> exists h v, hcv ROps a b = Some (h, 1, v)).
Proof.
  intros a b Hl Hne. split; intros H.
  - apply (hom_one a b Hl Hne). exact (Hcond_zero_when_determined a b Hl (single_class_determined a b H)).
  - apply (com_one a b Hl Hne). exact (Hcond_zero_when_determined b a (eq_sym Hl) (single_class_determined b a H)).
Qed.

(* extension: all three scores lie in [0,1] (the lower bound is the code's max(0, .), the upper bound
   is H(C|K) >= 0; Gibbs' inequality is not needed for the clamped value) *)
Theorem C15_hcv_in_unit_interval : forall a b h c v, length a = length b -> a <> [] ->
  hcv ROps a b = Some (h, c, v) -> 0 <= h <= 1 /\ 0 <= c <= 1 /\ 0 <= v <= 1.
Proof. exact hcv_unit_interval. Qed.

(* extension (Gibbs' inequality): the mutual information H(C) - H(C|K) is non-negative, so in exact
   arithmetic the code's max(0, .) is the identity and the scores are the textbook ones,
   h = 1 - H(C|K)/H(C) and c = 1 - H(K|C)/H(K) whenever the denominators are non-zero *)
Theorem C15_hcv_textbook : forall a b, length a = length b -> a <> [] ->
  hcv ROps a b = Some (hcv_of (Hlab a - Hcond a b) (Hlab a) (Hlab b)) /\
  0 <= Hlab a - Hcond a b.
Proof. exact hcv_textbook. Qed.

Theorem C15_hcv_textbook_ratios : forall a b h c v, length a = length b -> a <> [] ->
  hcv ROps a b = Some (h, c, v) ->
  (Hlab a <> 0 -> h = 1 - Hcond a b / Hlab a) /\ (Hlab b <> 0 -> c = 1 - Hcond b a / Hlab b).
Proof. exact hcv_textbook_ratios. Qed.

(* ------------------------------------------------------------------------------------------------
   hypotheses are satisfiable *)
Example C15_auc_hypotheses_instance :
  let yt := [1; 0; 1; 0]%R in let scores := [1; 1; 2; 0]%R in let idx := [3; 1; 0; 2]%nat in
  length scores = length yt /\ binary yt /\ Permutation idx (seq 0 (length yt)) /\
  Sorted Rle (map (at_ scores) idx).
Proof.
  cbn zeta. split; [reflexivity|]. split.
  - intros x Hx. cbn in Hx. intuition.
  - split.
    + apply NoDup_Permutation.
      * repeat constructor; cbn; intuition lia.
      * apply seq_NoDup.
      * intros x. cbn. intuition.
    + unfold at_. cbn [map nth]. repeat constructor; lra.
Qed.

Example C15_fbeta_hypotheses_instance :
  length [1%R] = length [1%R] /\ binary [1%R] /\ (0 < n_tp [1%R] [1%R])%nat.
Proof.
  split; [reflexivity|]. split; [intros x [Hx|[]]; right; symmetry; exact Hx|].
  unfold n_tp, count_idx, countb, at_. cbn [length seq filter nth].
  replace (Reqb 1 1) with true by (symmetry; apply Reqb_true; reflexivity). cbn. auto.
Qed.

Example C15_hcv_hypotheses_instance :
  let a := [0; 0; 1]%Z in let b := [5; 5; 7]%Z in
  length a = length b /\ a <> [] /\ determined_by a b /\ Hcond a b = 0 /\ injective Z.opp /\
  injective (fun z => (2 * z + 1)%Z).
Proof.
  cbn zeta.
  assert (D : determined_by [0; 0; 1]%Z [5; 5; 7]%Z).
  { intros p q Hp Hq. cbn in Hp, Hq.
    destruct Hp as [Hp|[Hp|[Hp|[]]]]; destruct Hq as [Hq|[Hq|[Hq|[]]]]; subst; cbn; congruence. }
  split; [reflexivity|]. split; [discriminate|]. split; [exact D|]. split.
  - exact (Hcond_zero_when_determined [0; 0; 1]%Z [5; 5; 7]%Z eq_refl D).
  - split; intros x y H; lia.
Qed.

(* ------------------------------------------------------------------------------------------
   Rounding error of the binary64 instance (the very definitions the correspondence executes against
   the Rust code), proved through Flocq's PrimFloat bridge.  FR x is the real value of a float,
   u64 = 2^-53, eta64 = 2^-1075 (Base/FloatError.v); the only no-overflow hypothesis is that the
   RESULT is finite.  MAE and MSE are C17's Manhattan / squared-Euclidean loops divided by n.
   ------------------------------------------------------------------------------------------ *)
From Coq Require Import Floats.
From SC Require Base.FloatUtil Base.FloatError C17.Spec C17.ProofsFloat C15.ProofsFloat.

Theorem C15_mae_float_error : forall (yt yp : list PrimFloat.float) (m : PrimFloat.float),
  mean_absolute_error FOps yt yp = Some m -> FloatError.ffin m -> (Z.of_nat (length yt) < 2 ^ 53)%Z ->
  let n := length yt in
  let D := C17.Spec.sigma n (fun i => Rabs (C17.Spec.comp (C17.ProofsFloat.RV yt) i - C17.Spec.comp (C17.ProofsFloat.RV yp) i)) in
  mean_absolute_error ROps (C17.ProofsFloat.RV yt) (C17.ProofsFloat.RV yp) = Some (D / INR n)%R /\ (0 < n)%nat /\ (0 <= D / INR n)%R /\
  (Rabs (FloatError.FR m - D / INR n) <= ((1 + FloatError.u64) ^ (n + 1) - 1) * (D / INR n) + FloatError.eta64)%R.
Proof. exact C15.ProofsFloat.mae_float_error. Qed.

Theorem C15_mse_float_error : forall (yt yp : list PrimFloat.float) (m : PrimFloat.float),
  mean_squared_error FOps yt yp = Some m -> FloatError.ffin m -> (Z.of_nat (length yt) < 2 ^ 53)%Z ->
  let n := length yt in
  let D := C17.Spec.sigma n (fun i => ((C17.Spec.comp (C17.ProofsFloat.RV yt) i - C17.Spec.comp (C17.ProofsFloat.RV yp) i) *
                                       (C17.Spec.comp (C17.ProofsFloat.RV yt) i - C17.Spec.comp (C17.ProofsFloat.RV yp) i))%R) in
  mean_squared_error ROps (C17.ProofsFloat.RV yt) (C17.ProofsFloat.RV yp) = Some (D / INR n)%R /\ (0 < n)%nat /\ (0 <= D / INR n)%R /\
  (Rabs (FloatError.FR m - D / INR n) <= ((1 + FloatError.u64) ^ (n + 3) - 1) * (D / INR n + FloatError.eta64) + 2 * FloatError.eta64)%R.
Proof. exact C15.ProofsFloat.mse_float_error. Qed.

Example C15_float_error_instance :
  exists m, mean_absolute_error FOps [0x1.999999999999ap-4; 0x1.999999999999ap-3]%float [0x1.3333333333333p-2; 0x1.999999999999ap-4]%float = Some m
            /\ FloatError.ffin m.
Proof. eexists. split; [vm_compute; reflexivity | vm_compute; reflexivity]. Qed.

(* ------------------------------------------------------------------------------------------
   More rounding theorems (C15/ProofsFloat2.v).  Count-based metrics: the counters are machine integers
   converted at the end, so for n < 2^53 the binary64 result is the CORRECTLY ROUNDED quotient of the
   exact counts (one rounding); it is NaN exactly when the denominator count is 0, so "the result is
   finite" is the only hypothesis.  For accuracy the count k is the number of positions where the
   code's float `==` holds; it is the real-number count n_equal when the entries are finite (a NaN
   entry never compares equal).
   ------------------------------------------------------------------------------------------ *)
From SC Require C15.ProofsFloat2.

Theorem C15_accuracy_float_exact : forall (yt yp : list PrimFloat.float) (a : PrimFloat.float),
  accuracy FOps yt yp = Some a -> FloatError.ffin a -> (Z.of_nat (length yt) < 2 ^ 53)%Z ->
  let n := length yt in
  let k := countb (fun p => PrimFloat.eqb (fst p) (snd p)) (combine yt yp) in
  let q := (INR k / INR n)%R in
  (0 < n)%nat /\ (k <= n)%nat /\ FloatError.FR a = FloatError.rnd64 q /\
  (Rabs (FloatError.FR a - q) <= FloatError.u64 * q)%R /\ (0 <= FloatError.FR a <= 1)%R /\
  (k = 0%nat -> FloatError.FR a = 0%R) /\
  (Forall FloatError.ffin yt -> Forall FloatError.ffin yp ->
     k = n_equal (C17.ProofsFloat.RV yt) (C17.ProofsFloat.RV yp) /\
     accuracy ROps (C17.ProofsFloat.RV yt) (C17.ProofsFloat.RV yp) = Some q).
Proof. exact C15.ProofsFloat2.accuracy_float_exact. Qed.

(* precision / recall: a finite result means binary labels (the code panics otherwise) and a non-zero
   denominator; the value is the correctly rounded TP/(TP+FP) resp. TP/(TP+FN) *)
Theorem C15_precision_float_exact : forall (yt yp : list PrimFloat.float) (p : PrimFloat.float),
  precision FOps yt yp = Some p -> FloatError.ffin p -> (Z.of_nat (length yt) < 2 ^ 53)%Z ->
  let tp := n_tp (C17.ProofsFloat.RV yt) (C17.ProofsFloat.RV yp) in
  let fp := n_fp (C17.ProofsFloat.RV yt) (C17.ProofsFloat.RV yp) in
  let q := (INR tp / INR (tp + fp))%R in
  binary (C17.ProofsFloat.RV yt) /\ binary (C17.ProofsFloat.RV yp) /\ (0 < tp + fp <= length yt)%nat /\
  precision ROps (C17.ProofsFloat.RV yt) (C17.ProofsFloat.RV yp) = Some q /\
  FloatError.FR p = FloatError.rnd64 q /\ (Rabs (FloatError.FR p - q) <= FloatError.u64 * q)%R /\
  (0 <= FloatError.FR p <= 1)%R /\ (tp = 0%nat -> FloatError.FR p = 0%R).
Proof. exact C15.ProofsFloat2.precision_float_exact. Qed.

Theorem C15_recall_float_exact : forall (yt yp : list PrimFloat.float) (r : PrimFloat.float),
  recall FOps yt yp = Some r -> FloatError.ffin r -> (Z.of_nat (length yt) < 2 ^ 53)%Z ->
  let tp := n_tp (C17.ProofsFloat.RV yt) (C17.ProofsFloat.RV yp) in
  let fn := n_fn (C17.ProofsFloat.RV yt) (C17.ProofsFloat.RV yp) in
  let q := (INR tp / INR (tp + fn))%R in
  binary (C17.ProofsFloat.RV yt) /\ binary (C17.ProofsFloat.RV yp) /\ (0 < tp + fn <= length yt)%nat /\
  recall ROps (C17.ProofsFloat.RV yt) (C17.ProofsFloat.RV yp) = Some q /\
  FloatError.FR r = FloatError.rnd64 q /\ (Rabs (FloatError.FR r - q) <= FloatError.u64 * q)%R /\
  (0 <= FloatError.FR r <= 1)%R /\ (tp = 0%nat -> FloatError.FR r = 0%R).
Proof. exact C15.ProofsFloat2.recall_float_exact. Qed.

(* F-beta = (1 + b^2) (P R) / (b^2 P + R) evaluated on the two rounded quotients, b = the float beta.
   A finite result means TP > 0 (no 0/0 guard in the code: TP = 0 gives NaN) and a finite beta; then no
   intermediate overflowed, and when beta is 0 or at least 2^-480 in magnitude (no underflow in beta^2 and
   beta^2 P) the relative error against the exact F-beta of the confusion counts is (1+u)^11 - 1:
   eleven roundings in sequence, all quantities non-negative, no cancellation. *)
Theorem C15_fbeta_float_error : forall (beta : PrimFloat.float) (yt yp : list PrimFloat.float) (f : PrimFloat.float),
  f_beta FOps beta yt yp = Some f -> FloatError.ffin f -> (Z.of_nat (length yt) < 2 ^ 53)%Z ->
  let b := FloatError.FR beta in
  let tp := n_tp (C17.ProofsFloat.RV yt) (C17.ProofsFloat.RV yp) in
  let fp := n_fp (C17.ProofsFloat.RV yt) (C17.ProofsFloat.RV yp) in
  let fn := n_fn (C17.ProofsFloat.RV yt) (C17.ProofsFloat.RV yp) in
  let p := (INR tp / INR (tp + fp))%R in let r := (INR tp / INR (tp + fn))%R in
  let F := ((1 + b * b) * (p * r) / (b * b * p + r))%R in
  binary (C17.ProofsFloat.RV yt) /\ binary (C17.ProofsFloat.RV yp) /\ (0 < tp)%nat /\ FloatError.ffin beta /\
  f_beta ROps b (C17.ProofsFloat.RV yt) (C17.ProofsFloat.RV yp) = Some F /\ (0 < F)%R /\
  ((b = 0 \/ / 2 ^ 480 <= Rabs b)%R ->
   (Rabs (FloatError.FR f - F) <= ((1 + FloatError.u64) ^ 11 - 1) * F)%R).
Proof. exact C15.ProofsFloat2.fbeta_float_error. Qed.

(* R^2 = 1 - ss_res / ss_tot.  r2_mean_F / r2_ss_tot_F / r2_ss_res_F are the three intermediate floats of
   the code (first conjunct); S and T are the exact sums of squares of the real values, T about the
   COMPUTED mean mu.  Hypotheses: the result and ss_tot are finite (an infinite ss_tot gives the finite
   result 1), the decidable no-underflow check of the squares (r2_normal_b, evaluate with vm_compute),
   n + 2 <= 2^50.  Each sum has relative error E = (1+u)^(n+2) - 1; the final subtraction cancels, so the
   bound on R^2 is absolute: u |R^2| + (1+u) ((3E + 2u) S/T + eta). *)
Theorem C15_r2_float_error : forall (yt yp : list PrimFloat.float) (r : PrimFloat.float),
  r2 FOps yt yp = Some r -> FloatError.ffin r -> FloatError.ffin (C15.ProofsFloat2.r2_ss_tot_F yt) ->
  C15.ProofsFloat2.r2_normal_b yt yp = true -> (Z.of_nat (length yt) + 2 <= 2 ^ 50)%Z ->
  let n := length yt in
  let mu := FloatError.FR (C15.ProofsFloat2.r2_mean_F yt) in
  let S := C17.Spec.sigma n (fun i => ((C17.Spec.comp (C17.ProofsFloat.RV yt) i - C17.Spec.comp (C17.ProofsFloat.RV yp) i) *
                                       (C17.Spec.comp (C17.ProofsFloat.RV yt) i - C17.Spec.comp (C17.ProofsFloat.RV yp) i))%R) in
  let T := C17.Spec.sigma n (fun i => ((C17.Spec.comp (C17.ProofsFloat.RV yt) i - mu) *
                                       (C17.Spec.comp (C17.ProofsFloat.RV yt) i - mu))%R) in
  let E := ((1 + FloatError.u64) ^ (n + 2) - 1)%R in
  r = (1 - C15.ProofsFloat2.r2_ss_res_F yt yp / C15.ProofsFloat2.r2_ss_tot_F yt)%float /\
  (0 <= S)%R /\ (0 < T)%R /\
  (Rabs (FloatError.FR (C15.ProofsFloat2.r2_ss_res_F yt yp) - S) <= E * S)%R /\
  (Rabs (FloatError.FR (C15.ProofsFloat2.r2_ss_tot_F yt) - T) <= E * T)%R /\
  (Rabs (FloatError.FR r - (1 - S / T)) <=
     FloatError.u64 * Rabs (1 - S / T) + (1 + FloatError.u64) * ((3 * E + 2 * FloatError.u64) * (S / T) + FloatError.eta64))%R.
Proof. exact C15.ProofsFloat2.r2_float_error. Qed.

(* the computed mean of R^2 (recursive sum, one division), and the effect of using ANY mu in place of the
   exact mean on the total sum of squares: T(mu) = T(mean) + n (mu - mean)^2 *)
Theorem C15_r2_mean_float_error : forall (yt : list PrimFloat.float),
  FloatError.ffin (C15.ProofsFloat2.r2_mean_F yt) -> (Z.of_nat (length yt) < 2 ^ 53)%Z ->
  let n := length yt in
  let ybar := (C17.Spec.sigma n (C17.Spec.comp (C17.ProofsFloat.RV yt)) / INR n)%R in
  let A := (C17.Spec.sigma n (fun i => Rabs (C17.Spec.comp (C17.ProofsFloat.RV yt) i)) / INR n)%R in
  (0 < n)%nat /\
  (Rabs (FloatError.FR (C15.ProofsFloat2.r2_mean_F yt) - ybar) <= ((1 + FloatError.u64) ^ n - 1) * A + FloatError.eta64)%R.
Proof. exact C15.ProofsFloat2.r2_mean_float_error. Qed.

Theorem C15_r2_total_sum_of_squares_shift : forall (x : list R) (mu : R), (0 < length x)%nat ->
  let n := length x in let ybar := (C17.Spec.sigma n (C17.Spec.comp x) / INR n)%R in
  C17.Spec.sigma n (fun i => ((C17.Spec.comp x i - mu) * (C17.Spec.comp x i - mu))%R) =
  (C17.Spec.sigma n (fun i => ((C17.Spec.comp x i - ybar) * (C17.Spec.comp x i - ybar))%R) +
   INR n * ((mu - ybar) * (mu - ybar)))%R.
Proof. exact C15.ProofsFloat2.ss_tot_shift. Qed.

(* the hypotheses are satisfiable; the excluded cases are what the code really returns *)
Example C15_count_metrics_float_instance :
  let yt := [1; 0; 1; 1; 0; 1]%float in let yp := [1; 1; 1; 0; 0; 1]%float in
  (exists a, accuracy FOps yt yp = Some a /\ FloatError.ffin a) /\
  (exists p, precision FOps yt yp = Some p /\ FloatError.ffin p) /\
  (exists r, recall FOps yt yp = Some r /\ FloatError.ffin r) /\
  (exists f, f_beta FOps 1%float yt yp = Some f /\ FloatError.ffin f) /\
  (Z.of_nat (length yt) < 2 ^ 53)%Z /\ (/ 2 ^ 480 <= Rabs (FloatError.FR 1%float))%R.
Proof.
  cbv zeta. repeat split; try (eexists; split; vm_compute; reflexivity).
  rewrite C15.ProofsFloat2.FR_one, Rabs_R1, <- Rinv_1 at 1.
  apply Rinv_le_contravar; [lra | apply pow_R1_Rle; lra].
Qed.
(* TP = 0 / no predicted positive: NaN, not a finite result *)
Example C15_count_metrics_float_nan :
  precision FOps [1; 0]%float [0; 0]%float = Some nan /\
  f_beta FOps 1%float [1; 0]%float [0; 1]%float = Some nan /\ PrimFloat.is_finite nan = false.
Proof. repeat split; vm_compute; reflexivity. Qed.
Example C15_r2_float_instance :
  let yt := [3; -0.5; 2; 7]%float in let yp := [2.5; 0; 2; 8]%float in
  (exists r, r2 FOps yt yp = Some r /\ FloatError.ffin r) /\
  FloatError.ffin (C15.ProofsFloat2.r2_ss_tot_F yt) /\ C15.ProofsFloat2.r2_normal_b yt yp = true /\
  (Z.of_nat (length yt) + 2 <= 2 ^ 50)%Z /\ FloatError.ffin (C15.ProofsFloat2.r2_mean_F yt).
Proof. cbv zeta. repeat split; try (eexists; split; vm_compute; reflexivity); vm_compute; try reflexivity; discriminate. Qed.

(* ------------------------------------------------------------------------------------------
   ROC-AUC in binary64 (C15/ProofsFloat3.v): for n^2 < 2^51 (n < 2^25.5) every operation before the final
   division is EXACT — the class counters (floats incremented by 1.0) are integers, the ranks integers or
   mid-ranks (half-integers), the rank sum, pos(pos+1)/2 and their difference half-integers below 2^52,
   pos*neg an integer — and the float comparisons of finite scores and of the labels agree with the real
   ones.  So the result is the correctly rounded value of the real-number model on the real values of
   the inputs, for EVERY index vector (first theorem); with the rank-sum theorem's hypotheses on idx it
   is the correctly rounded pairwise AUC (second).  A finite result means both classes are present.
   ------------------------------------------------------------------------------------------ *)
From SC Require C15.ProofsFloat3.

Theorem C15_auc_float_exact : forall (yt scores : list PrimFloat.float) (idx : list nat) (a : PrimFloat.float),
  auc_with FOps yt scores idx = Some a -> FloatError.ffin a -> Forall FloatError.ffin scores ->
  (Z.of_nat (length yt) * Z.of_nat (length yt) < 2 ^ 51)%Z ->
  length scores = length yt /\ length idx = length yt /\ (0 < length yt)%nat /\
  exists q, auc_with ROps (C17.ProofsFloat.RV yt) (C17.ProofsFloat.RV scores) idx = Some q /\
            binary (C17.ProofsFloat.RV yt) /\
            FloatError.FR a = FloatError.rnd64 q /\ (Rabs (FloatError.FR a - q) <= FloatError.u64 * Rabs q)%R.
Proof. exact C15.ProofsFloat3.auc_float_exact. Qed.

Theorem C15_auc_float_correctly_rounded : forall (yt scores : list PrimFloat.float) (idx : list nat) (a : PrimFloat.float),
  auc_with FOps yt scores idx = Some a -> FloatError.ffin a -> Forall FloatError.ffin scores ->
  (Z.of_nat (length yt) * Z.of_nat (length yt) < 2 ^ 51)%Z ->
  Permutation idx (seq 0 (length yt)) -> Sorted Rle (map (at_ (C17.ProofsFloat.RV scores)) idx) ->
  let A := auc_pairwise (C17.ProofsFloat.RV yt) (C17.ProofsFloat.RV scores) in
  binary (C17.ProofsFloat.RV yt) /\
  auc_with ROps (C17.ProofsFloat.RV yt) (C17.ProofsFloat.RV scores) idx = Some A /\
  FloatError.FR a = FloatError.rnd64 A /\ (Rabs (FloatError.FR a - A) <= FloatError.u64 * Rabs A)%R.
Proof. exact C15.ProofsFloat3.auc_float_pairwise. Qed.

Example C15_auc_float_instance :
  let yt := [1; 0; 1; 0]%float in let scores := [1; 1; 2; 0]%float in let idx := [3; 1; 0; 2]%nat in
  (exists a, auc_with FOps yt scores idx = Some a /\ FloatError.ffin a) /\
  Forall FloatError.ffin scores /\ (Z.of_nat (length yt) * Z.of_nat (length yt) < 2 ^ 51)%Z /\
  Permutation idx (seq 0 (length yt)) /\ Sorted Rle (map (at_ (C17.ProofsFloat.RV scores)) idx).
Proof.
  cbv zeta. split; [eexists; split; vm_compute; reflexivity|].
  split; [repeat constructor|]. split; [vm_compute; reflexivity|]. split.
  - apply NoDup_Permutation.
    + repeat constructor; cbn; intuition lia.
    + apply seq_NoDup.
    + intros x. cbn. intuition.
  - unfold at_, C17.ProofsFloat.RV. cbn [map nth].
    change 2%float with (FloatUtil.float_of_Z 2). change 1%float with (FloatUtil.float_of_Z 1). change 0%float with (FloatUtil.float_of_Z 0).
    rewrite !C17.ProofsFloat.FR_int by lia. repeat constructor; lra.
Qed.
(* a single class: 0/0, NaN *)
Example C15_auc_float_single_class :
  auc_with FOps [1; 1]%float [0.5; 0.25]%float [1; 0]%nat = Some nan.
Proof. vm_compute. reflexivity. Qed.

(* with the model's own (insertion) sort: on finite scores the float sort IS the real-number sort, so the
   statement is unconditional in the index vector *)
Theorem C15_auc_float_correctly_rounded_model_sort : forall (yt scores : list PrimFloat.float) (a : PrimFloat.float),
  auc FOps yt scores = Some a -> FloatError.ffin a -> Forall FloatError.ffin scores ->
  (Z.of_nat (length yt) * Z.of_nat (length yt) < 2 ^ 51)%Z ->
  let A := auc_pairwise (C17.ProofsFloat.RV yt) (C17.ProofsFloat.RV scores) in
  binary (C17.ProofsFloat.RV yt) /\ auc ROps (C17.ProofsFloat.RV yt) (C17.ProofsFloat.RV scores) = Some A /\
  FloatError.FR a = FloatError.rnd64 A /\ (Rabs (FloatError.FR a - A) <= FloatError.u64 * Rabs A)%R.
Proof. exact C15.ProofsFloat3.auc_float_model_sort. Qed.

Example C15_auc_float_model_sort_instance :
  exists a, auc FOps [1; 0; 1; 0; 1]%float [0.75; 0.5; 0.5; 0.125; 2]%float = Some a /\ FloatError.ffin a.
Proof. eexists. split; vm_compute; reflexivity. Qed.

(* R^2 against the real-number model (C15/ProofsFloat4.v): the same hypotheses as C15_r2_float_error; the
   model over the reals gives 1 - S/T0 with T0 about the exact mean, the code's total sum of squares is
   about the computed mean, T = T0 + n dm^2 with dm = computed mean - exact mean bounded below *)
From SC Require C15.ProofsFloat4.
Theorem C15_r2_float_error_against_real_model : forall (yt yp : list PrimFloat.float) (r : PrimFloat.float),
  r2 FOps yt yp = Some r -> FloatError.ffin r -> FloatError.ffin (C15.ProofsFloat2.r2_ss_tot_F yt) ->
  C15.ProofsFloat2.r2_normal_b yt yp = true -> (Z.of_nat (length yt) + 2 <= 2 ^ 50)%Z ->
  let n := length yt in
  let y := C17.Spec.comp (C17.ProofsFloat.RV yt) in let f := C17.Spec.comp (C17.ProofsFloat.RV yp) in
  let ybar := (C17.Spec.sigma n y / INR n)%R in
  let A := (C17.Spec.sigma n (fun i => Rabs (y i)) / INR n)%R in
  let dm := (FloatError.FR (C15.ProofsFloat2.r2_mean_F yt) - ybar)%R in
  let S := C17.Spec.sigma n (fun i => ((y i - f i) * (y i - f i))%R) in
  let T0 := C17.Spec.sigma n (fun i => ((y i - ybar) * (y i - ybar))%R) in
  let T := (T0 + INR n * (dm * dm))%R in
  let E := ((1 + FloatError.u64) ^ (n + 2) - 1)%R in
  (0 < n)%nat /\ r2 ROps (C17.ProofsFloat.RV yt) (C17.ProofsFloat.RV yp) = Some (1 - S / T0)%R /\
  (Rabs dm <= ((1 + FloatError.u64) ^ n - 1) * A + FloatError.eta64)%R /\ (0 <= S)%R /\ (0 <= T0)%R /\ (0 < T)%R /\
  (Rabs (FloatError.FR r - (1 - S / T)) <=
     FloatError.u64 * Rabs (1 - S / T) + (1 + FloatError.u64) * ((3 * E + 2 * FloatError.u64) * (S / T) + FloatError.eta64))%R.
Proof. exact C15.ProofsFloat4.r2_float_error_full. Qed.
