(* C18 — one-hot encoding.  Property theorems only: each is closed by `exact <lemma>` and its
   assumptions are printed by the check. Statements are about the executable model SC.C18.Model,
   which the correspondence check ties to src/preprocessing/{categorical,series_encoder}.rs. *)
From Coq Require Import List Arith Bool Permutation.
From SC Require Import C18.Model C18.Proofs C18.Layout C18.ProofsOneHot C18.ProofsWrites C18.ProofsShape.
Import ListNotations.

(* Index map of `find_new_idxs` for every p, every strictly increasing categorical index list
   (what `fit` stores: the sorted, duplicate-free user list) and every category count >= 1:
   p entries, column j moves right by the extra width of the categorical columns before it. *)
Theorem C18_new_idx_formula : forall p sizes idxs j,
  length idxs = length sizes -> sorted_lt 0 idxs -> (forall c, In c idxs -> c < p) ->
  Forall (fun k => 1 <= k) sizes -> j < p ->
  length (find_new_idxs p sizes idxs) = p /\
  nth j (find_new_idxs p sizes idxs) 0 = j + extra_before j (zip idxs sizes).
Proof.
  intros p sizes idxs j H1 H2 H3 H4 H5. split.
  - exact (find_new_idxs_length p sizes idxs H1 H2 H3).
  - exact (find_new_idxs_nth p sizes idxs j H1 H2 H3 H4 H5).
Qed.

(* A categorical column c with k categories occupies exactly k new columns: the next column
   starts k positions later (so blocks never overlap the following column). *)
Theorem C18_block_width : forall p sizes idxs c k,
  length idxs = length sizes -> sorted_lt 0 idxs -> (forall c, In c idxs -> c < p) ->
  Forall (fun k => 1 <= k) sizes -> In (c, k) (zip idxs sizes) -> S c < p ->
  nth (S c) (find_new_idxs p sizes idxs) 0 = nth c (find_new_idxs p sizes idxs) 0 + k.
Proof. exact new_idx_block_width. Qed.

(* Category mapper: indices are assigned in order of first appearance, without duplicates,
   and category->index / index->category are mutually inverse. *)
Theorem C18_mapper_inverse_laws : forall series,
  let cats := fit_to_iter series in
  NoDup cats /\
  (forall c, In c cats <-> In c series) /\
  (forall c i, get_num cats c = Some i -> get_cat cats i = Some c) /\
  (forall c i, get_cat cats i = Some c -> get_num cats c = Some i) /\
  (forall c, get_num cats c = None <-> ~ In c series).
Proof. exact mapper_laws. Qed.

(* One-hot / inverse-one-hot of the category mapper, for a mapper fitted on ANY list, any value type
   with a `one`, a `zero` and the test `== one` (is_one):
     1. every fitted category c has a one-hot vector of length k = number of categories, and
        invert_one_hot of it returns c;
     2. get_one_hot of a category not seen in fitting is None;
     3. conversely, a genuine one-hot vector (length k, entries one/zero only) accepted by
        invert_one_hot is reproduced by get_one_hot of the returned category;
     4. EXACT acceptance condition of invert_one_hot, as the Rust computes it: it returns c iff the
        vector has exactly one entry `== one`, at a position i, and i is the index of c
        (`categories[i]`; an out-of-range i is a panic in Rust, None here);
     5-7. hence it rejects the all-zero vector (no entry == one), every vector with two ones, and a
        vector whose single one lies beyond the categories.
   The code does NOT compare the length of the vector with k: see
   C18_invert_one_hot_length_not_checked below. *)
Theorem C18_one_hot_round_trip : forall (V : Type) (vzero vone : V) (is_one : V -> bool),
  is_one vone = true -> is_one vzero = false ->
  forall series,
  let cats := fit_to_iter series in
  (forall c, In c series ->
     exists oh, get_one_hot vzero vone cats c = Some oh /\ length oh = length cats /\
                invert_one_hot is_one cats oh = Some c) /\
  (forall c, ~ In c series -> get_one_hot vzero vone cats c = None) /\
  (forall v c, length v = length cats ->
     (forall j, j < length v -> nth j v vzero = if is_one (nth j v vzero) then vone else vzero) ->
     invert_one_hot is_one cats v = Some c -> get_one_hot vzero vone cats c = Some v) /\
  (forall v c, invert_one_hot is_one cats v = Some c <->
     exists i, i < length v /\ is_one (nth i v vzero) = true /\
               (forall j, j < length v -> is_one (nth j v vzero) = true -> j = i) /\
               nth_error cats i = Some c) /\
  (forall v, (forall j, j < length v -> is_one (nth j v vzero) = false) ->
     invert_one_hot is_one cats v = None) /\
  (forall v i j, i < length v -> j < length v -> i <> j ->
     is_one (nth i v vzero) = true -> is_one (nth j v vzero) = true ->
     invert_one_hot is_one cats v = None) /\
  (forall v i, i < length v -> is_one (nth i v vzero) = true -> length cats <= i ->
     invert_one_hot is_one cats v = None).
Proof. exact @fitted_one_hot_laws. Qed.

(* What the code does with a vector of the wrong length: nothing special.  A too short / too long
   vector, or one with entries other than 0 and 1, is accepted as long as exactly one entry == 1 and
   it lies inside the category range (witness over nat values, one = 1, categories [5;6;7]).
   So the clause "invert_one_hot rejects every vector that is not a one-hot vector of the right
   length" is refuted for wrong lengths by the faithful model (src/preprocessing/series_encoder.rs,
   `invert_one_hot`: only `s.len() == 1` is tested). *)
Theorem C18_invert_one_hot_length_not_checked :
  invert_one_hot (Nat.eqb 1) (fit_to_iter [5; 6; 7]) [1] = Some 5 /\
  invert_one_hot (Nat.eqb 1) (fit_to_iter [5; 6; 7]) [0; 1; 0; 0; 0] = Some 6 /\
  invert_one_hot (Nat.eqb 1) (fit_to_iter [5; 6; 7]) [2; 1; 3] = Some 6.
Proof. exact invert_one_hot_length_not_checked. Qed.

(* The layout clause for whole matrices: for EVERY non-empty matrix x (rows of any values), every
   duplicate-free list of categorical column indices < p given in ANY order, and whatever the value
   type and the cast to a category are: if `fit` succeeds then the stored indices are the sorted list,
   the mappers are the first-appearance category lists of the columns, `transform` of the same matrix
   succeeds, and every output row r_i of input row x_i satisfies `row_layout`:
     - it has p + sum_c (k_c - 1) entries,
     - plain column j sits unchanged at position ni j = j + sum_{categorical c<j}(k_c - 1)
       (so plain columns keep their relative order, by C18_new_idx_formula / monotonicity of ni),
     - categorical column c occupies positions ni c .. ni c + k_c - 1 and holds `vone` exactly at
       offset get_num(mapper_c)(category of x_i[c]) — the rank of first appearance — and `vzero`
       elsewhere in the block. *)
Theorem C18_onehot_layout : forall (V : Type) (vzero vone : V) (to_cat : V -> nat) (valid : V -> bool)
    (x : list (list V)) (idxs : list nat) (p : nat) enc,
  x <> [] -> NoDup idxs -> (forall c, In c idxs -> c < p) ->
  fit vzero to_cat valid x idxs = Some enc ->
  cat_cols enc = sort_nat idxs /\
  mappers enc = map (fun c => fit_to_iter (map to_cat (column vzero x c))) (sort_nat idxs) /\
  exists r, transform vzero vone to_cat enc p x = Some r /\
            Forall2 (row_layout vzero vone to_cat enc p) x r.
Proof. exact @onehot_layout. Qed.

(* `transform` as a list of block writes (second semantics of OneHotEncoder::transform), and the
   disjointness / coverage theorem — the strongest form of the layout clause.
   For EVERY encoder that is well formed for p columns (enc_wf: what `fit` returns — as many mappers
   as categorical columns, strictly increasing indices < p, every mapper non-empty; see
   C18_fit_transform_is_tiling_of_writes) and EVERY input row:
     - the row produced by the model's transform_row is `apply_writes` of the zero row of the
       expanded width with the list `row_writes`: one `cat_write` (position new_idx[c], the one-hot
       vector) per categorical column in ascending order, then the `plain_writes` singletons
       (None iff some category is unseen);
     - the writes correspond one to one (Forall2) to the input columns taken in the order
       `write_order` = categorical ascending ++ plain ascending, which is a permutation of 0..p-1;
       the write of column j starts at ni j = j + sum_{categorical c<j}(k_c-1), is width j long
       (k_j for a categorical column, 1 for a plain one) and holds the indicator vector of the row's
       category resp. the copied value (`write_of_col`);
     - there are exactly p writes, none reaches beyond the output width W, every output cell
       q < W lies in the range of EXACTLY ONE write (`in_range`), cells >= W in none;
     - hence every write survives in the final row (nothing is overwritten). *)
Theorem C18_transform_is_tiling_of_writes : forall (V : Type) (vzero vone : V) (to_cat : V -> nat)
    (enc : encoder) (p : nat) (xr : list V),
  enc_wf enc p ->
  transform_row vzero vone to_cat enc p xr =
    option_map (apply_writes (zero_row vzero enc p)) (row_writes vzero vone to_cat enc p xr) /\
  forall ws, row_writes vzero vone to_cat enc p xr = Some ws ->
    let W := expanded_width p (map (@length nat) (mappers enc)) in
    Forall2 (write_of_col vzero vone to_cat enc xr) ws (write_order (cat_cols enc) p) /\
    Permutation (write_order (cat_cols enc) p) (seq 0 p) /\
    length ws = p /\
    Forall (fun w => fst w + length (snd w) <= W) ws /\
    (forall q, q < W -> length (filter (in_range q) ws) = 1) /\
    (forall q, W <= q -> filter (in_range q) ws = []) /\
    (forall w t, In w ws -> t < length (snd w) ->
       nth (fst w + t) (apply_writes (zero_row vzero enc p) ws) vzero = nth t (snd w) vzero).
Proof. exact @transform_row_tiling. Qed.

(* ... for whole matrices after `fit` (any order of a duplicate-free index list): the encoder is
   well formed, transform of the fitted matrix succeeds and every output row is the tiling
   (`writes_tile` = the six clauses above) of its row's writes *)
Theorem C18_fit_transform_is_tiling_of_writes : forall (V : Type) (vzero vone : V) (to_cat : V -> nat)
    (valid : V -> bool) (x : list (list V)) (idxs : list nat) (p : nat) enc,
  x <> [] -> NoDup idxs -> (forall c, In c idxs -> c < p) ->
  fit vzero to_cat valid x idxs = Some enc ->
  enc_wf enc p /\
  exists r, transform vzero vone to_cat enc p x = Some r /\
    Forall2 (fun xr row => exists ws, row_writes vzero vone to_cat enc p xr = Some ws /\
                                      row = apply_writes (zero_row vzero enc p) ws /\
                                      writes_tile vzero vone to_cat enc p xr ws) x r.
Proof. exact @fit_transform_writes. Qed.

(* Shape: for an encoder fitted on x (p columns, duplicate-free indices in any order) and EVERY
   matrix x2 that transform accepts, the output has as many rows as x2 and every row has
   p - |cat_idx| + sum_c k_c entries, k_c = number of distinct categories of column c of x. *)
Theorem C18_transform_preserves_row_count_and_width : forall (V : Type) (vzero vone : V)
    (to_cat : V -> nat) (valid : V -> bool)
    (x : list (list V)) (idxs : list nat) (p : nat) enc (x2 r : list (list V)),
  x <> [] -> NoDup idxs -> (forall c, In c idxs -> c < p) ->
  fit vzero to_cat valid x idxs = Some enc ->
  transform vzero vone to_cat enc p x2 = Some r ->
  length (cat_cols enc) = length idxs /\
  map (@length nat) (mappers enc) =
    map (fun c => length (fit_to_iter (map to_cat (column vzero x c)))) (sort_nat idxs) /\
  length r = length x2 /\
  Forall (fun row => length row =
            p - length idxs + list_sum (map (@length nat) (mappers enc))) r.
Proof. exact @fit_transform_shape. Qed.

(* The layout clause cell by cell (`mget m i j` = m[i][j]): plain column j is found unchanged at
   column ni j, categorical column c is the indicator block at columns ni c .. ni c + k_c - 1. *)
Theorem C18_onehot_cells : forall (V : Type) (vzero vone : V) (to_cat : V -> nat) (valid : V -> bool)
    (x : list (list V)) (idxs : list nat) (p : nat) enc,
  x <> [] -> NoDup idxs -> (forall c, In c idxs -> c < p) ->
  fit vzero to_cat valid x idxs = Some enc ->
  let cats := zip (cat_cols enc) (map (@length nat) (mappers enc)) in
  exists r, transform vzero vone to_cat enc p x = Some r /\ length r = length x /\
    forall i, i < length x ->
      (forall j, j < p -> ~ In j (cat_cols enc) -> mget vzero r i (ni cats j) = mget vzero x i j) /\
      (forall pidx c k t, nth_error (cat_cols enc) pidx = Some c ->
         get_num (nth pidx (mappers enc) []) (to_cat (mget vzero x i c)) = Some k ->
         t < length (nth pidx (mappers enc) []) ->
         mget vzero r i (ni cats c + t) = if Nat.eqb t k then vone else vzero).
Proof. exact @onehot_cells. Qed.

(* fit rejects a categorical column holding a value that is not (within the margin) an integer code,
   and transform rejects a value whose category was not seen in fitting *)
Theorem C18_non_integer_error : forall (V : Type) (vzero : V) (to_cat : V -> nat) (valid : V -> bool)
    (x : list (list V)) (idxs : list nat) c xr,
  In c idxs -> In xr x -> valid (nth c xr vzero) = false -> fit vzero to_cat valid x idxs = None.
Proof. exact @fit_rejects_invalid. Qed.

Theorem C18_unseen_value_error : forall (V : Type) (vzero vone : V) (to_cat : V -> nat)
    (enc : encoder) (p : nat) (x : list (list V)) xr pidx c,
  In xr x -> nth_error (cat_cols enc) pidx = Some c -> length (mappers enc) = length (cat_cols enc) ->
  ~ In (to_cat (nth c xr vzero)) (nth pidx (mappers enc) []) ->
  transform vzero vone to_cat enc p x = None.
Proof. exact @transform_rejects_unseen. Qed.

(* hypotheses are satisfiable: categorical columns {1,4} of 6 with 3 and 2 categories *)
Example C18_formula_instance :
  find_new_idxs 6 [3; 2] [1; 4] = [0; 1; 4; 5; 6; 8] /\ sorted_lt 0 [1; 4].
Proof. split; [reflexivity | cbn; repeat split; auto with arith]. Qed.

(* ... and for the layout theorem: V = nat, columns {2,0} of 3 given in descending order *)
Example C18_layout_instance :
  exists enc, fit 0 (fun v => v) (fun _ => true) [[1;5;7];[2;5;8]] [2;0] = Some enc /\
              transform 0 1 (fun v => v) enc 3 [[1;5;7];[2;5;8]] = Some [[1;0;5;1;0];[0;1;5;0;1]].
Proof. eexists. split; reflexivity. Qed.

(* ... for the one-hot round trip: nat values, one = 1, zero = 0 (the binary64 instance used by the
   correspondence is ProofsOneHot.float_is_one_instance) *)
Example C18_one_hot_instance :
  Nat.eqb 1 1 = true /\ Nat.eqb 1 0 = false /\
  get_one_hot 0 1 (fit_to_iter [7; 3; 7; 9]) 3 = Some [0; 1; 0] /\
  invert_one_hot (Nat.eqb 1) (fit_to_iter [7; 3; 7; 9]) [0; 1; 0] = Some 3 /\
  get_one_hot 0 1 (fit_to_iter [7; 3; 7; 9]) 4 = None /\
  invert_one_hot (Nat.eqb 1) (fit_to_iter [7; 3; 7; 9]) [0; 0; 0] = None /\
  invert_one_hot (Nat.eqb 1) (fit_to_iter [7; 3; 7; 9]) [1; 1; 0] = None /\
  invert_one_hot (Nat.eqb 1) (fit_to_iter [7; 3; 7; 9]) [0; 0; 0; 1] = None.
Proof. repeat split. Qed.

(* ... for the writes / shape theorems: the encoder fitted above is well formed for p = 3; row
   [2;5;7] is written as the block [0;1] at 0, the block [1;0] at 3 and the value 5 at 2 *)
Example C18_writes_instance :
  let enc := {| mappers := [[1; 2]; [7; 8]]; cat_cols := [0; 2] |} in
  fit 0 (fun v => v) (fun _ => true) [[1;5;7];[2;5;8]] [2;0] = Some enc /\
  enc_wf enc 3 /\
  row_writes 0 1 (fun v => v) enc 3 [2;5;7] = Some [(0, [0; 1]); (3, [1; 0]); (2, [5])] /\
  write_order [0; 2] 3 = [0; 2; 1] /\
  transform_row 0 1 (fun v => v) enc 3 [2;5;7] = Some [0; 1; 5; 1; 0] /\
  3 - 2 + list_sum [2; 2] = 5.
Proof.
  cbv zeta. split; [reflexivity|]. split; [|repeat split].
  eapply (fit_wf 0 (fun v => v) (fun _ => true) [[1;5;7];[2;5;8]] [2;0]); try reflexivity.
  - discriminate.
  - repeat constructor; cbn; intuition discriminate.
  - intros c [<-|[<-|[]]]; auto with arith.
Qed.
