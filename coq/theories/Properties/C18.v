(* C18 — one-hot encoding.  Property theorems only: each is closed by `exact <lemma>` and its
   assumptions are printed by the check. Statements are about the executable model SC.C18.Model,
   which the correspondence check ties to src/preprocessing/{categorical,series_encoder}.rs. *)
From Coq Require Import List Arith Bool.
From SC Require Import C18.Model C18.Proofs.
Import ListNotations.

(* Index map of `find_new_idxs` for every p, every strictly increasing categorical index list
   (what `fit` stores: the sorted, duplicate-free user list) and every category count >= 1:
   p entries, column j moves right by the extra width of the categorical columns before it. *)
Theorem C18_new_idx_formula : forall p sizes idxs j,
  length idxs = length sizes -> sorted_lt 0 idxs -> (forall c, In c idxs -> c < p) ->
  Forall (fun k => 1 <= k) sizes -> j < p ->
  length (find_new_idxs p sizes idxs) = p /\
  nth j (find_new_idxs p sizes idxs) 0 = j + extra_before j (zip idxs sizes).
Proof.
  intros p sizes idxs j H1 H2 H3 H4 H5. split.
  - exact (find_new_idxs_length p sizes idxs H1 H2 H3).
  - exact (find_new_idxs_nth p sizes idxs j H1 H2 H3 H4 H5).
Qed.

(* A categorical column c with k categories occupies exactly k new columns: the next column
   starts k positions later (so blocks never overlap the following column). *)
Theorem C18_block_width : forall p sizes idxs c k,
  length idxs = length sizes -> sorted_lt 0 idxs -> (forall c, In c idxs -> c < p) ->
  Forall (fun k => 1 <= k) sizes -> In (c, k) (zip idxs sizes) -> S c < p ->
  nth (S c) (find_new_idxs p sizes idxs) 0 = nth c (find_new_idxs p sizes idxs) 0 + k.
Proof. exact new_idx_block_width. Qed.

(* Category mapper: indices are assigned in order of first appearance, without duplicates,
   and category->index / index->category are mutually inverse. *)
Theorem C18_mapper_inverse_laws : forall series,
  let cats := fit_to_iter series in
  NoDup cats /\
  (forall c, In c cats <-> In c series) /\
  (forall c i, get_num cats c = Some i -> get_cat cats i = Some c) /\
  (forall c i, get_cat cats i = Some c -> get_num cats c = Some i) /\
  (forall c, get_num cats c = None <-> ~ In c series).
Proof. exact mapper_laws. Qed.

(* hypotheses are satisfiable: categorical columns {1,4} of 6 with 3 and 2 categories *)
Example C18_formula_instance :
  find_new_idxs 6 [3; 2] [1; 4] = [0; 1; 4; 5; 6; 8] /\ sorted_lt 0 [1; 4].
Proof. split; [reflexivity | cbn; repeat split; auto with arith]. Qed.
