(* C18 — one-hot encoding.  Property theorems only: each is closed by `exact <lemma>` and its
   assumptions are printed by the check. Statements are about the executable model SC.C18.Model,
   which the correspondence check ties to src/preprocessing/{categorical,series_encoder}.rs. *)
From Coq Require Import List Arith Bool.
From SC Require Import C18.Model C18.Proofs C18.Layout.
Import ListNotations.

(* Index map of `find_new_idxs` for every p, every strictly increasing categorical index list
   (what `fit` stores: the sorted, duplicate-free user list) and every category count >= 1:
   p entries, column j moves right by the extra width of the categorical columns before it. *)
Theorem C18_new_idx_formula : forall p sizes idxs j,
  length idxs = length sizes -> sorted_lt 0 idxs -> (forall c, In c idxs -> c < p) ->
  Forall (fun k => 1 <= k) sizes -> j < p ->
  length (find_new_idxs p sizes idxs) = p /\
  nth j (find_new_idxs p sizes idxs) 0 = j + extra_before j (zip idxs sizes).
Proof.
  intros p sizes idxs j H1 H2 H3 H4 H5. split.
  - exact (find_new_idxs_length p sizes idxs H1 H2 H3).
  - exact (find_new_idxs_nth p sizes idxs j H1 H2 H3 H4 H5).
Qed.

(* A categorical column c with k categories occupies exactly k new columns: the next column
   starts k positions later (so blocks never overlap the following column). *)
Theorem C18_block_width : forall p sizes idxs c k,
  length idxs = length sizes -> sorted_lt 0 idxs -> (forall c, In c idxs -> c < p) ->
  Forall (fun k => 1 <= k) sizes -> In (c, k) (zip idxs sizes) -> S c < p ->
  nth (S c) (find_new_idxs p sizes idxs) 0 = nth c (find_new_idxs p sizes idxs) 0 + k.
Proof. exact new_idx_block_width. Qed.

(* Category mapper: indices are assigned in order of first appearance, without duplicates,
   and category->index / index->category are mutually inverse. *)
Theorem C18_mapper_inverse_laws : forall series,
  let cats := fit_to_iter series in
  NoDup cats /\
  (forall c, In c cats <-> In c series) /\
  (forall c i, get_num cats c = Some i -> get_cat cats i = Some c) /\
  (forall c i, get_cat cats i = Some c -> get_num cats c = Some i) /\
  (forall c, get_num cats c = None <-> ~ In c series).
Proof. exact mapper_laws. Qed.

(* The layout clause for whole matrices: for EVERY non-empty matrix x (rows of any values), every
   duplicate-free list of categorical column indices < p given in ANY order, and whatever the value
   type and the cast to a category are: if `fit` succeeds then the stored indices are the sorted list,
   the mappers are the first-appearance category lists of the columns, `transform` of the same matrix
   succeeds, and every output row r_i of input row x_i satisfies `row_layout`:
     - it has p + sum_c (k_c - 1) entries,
     - plain column j sits unchanged at position ni j = j + sum_{categorical c<j}(k_c - 1)
       (so plain columns keep their relative order, by C18_new_idx_formula / monotonicity of ni),
     - categorical column c occupies positions ni c .. ni c + k_c - 1 and holds `vone` exactly at
       offset get_num(mapper_c)(category of x_i[c]) — the rank of first appearance — and `vzero`
       elsewhere in the block. *)
Theorem C18_onehot_layout : forall (V : Type) (vzero vone : V) (to_cat : V -> nat) (valid : V -> bool)
    (x : list (list V)) (idxs : list nat) (p : nat) enc,
  x <> [] -> NoDup idxs -> (forall c, In c idxs -> c < p) ->
  fit vzero to_cat valid x idxs = Some enc ->
  cat_cols enc = sort_nat idxs /\
  mappers enc = map (fun c => fit_to_iter (map to_cat (column vzero x c))) (sort_nat idxs) /\
  exists r, transform vzero vone to_cat enc p x = Some r /\
            Forall2 (row_layout vzero vone to_cat enc p) x r.
Proof. exact @onehot_layout. Qed.

(* fit rejects a categorical column holding a value that is not (within the margin) an integer code,
   and transform rejects a value whose category was not seen in fitting *)
Theorem C18_non_integer_error : forall (V : Type) (vzero : V) (to_cat : V -> nat) (valid : V -> bool)
    (x : list (list V)) (idxs : list nat) c xr,
  In c idxs -> In xr x -> valid (nth c xr vzero) = false -> fit vzero to_cat valid x idxs = None.
Proof. exact @fit_rejects_invalid. Qed.

Theorem C18_unseen_value_error : forall (V : Type) (vzero vone : V) (to_cat : V -> nat)
    (enc : encoder) (p : nat) (x : list (list V)) xr pidx c,
  In xr x -> nth_error (cat_cols enc) pidx = Some c -> length (mappers enc) = length (cat_cols enc) ->
  ~ In (to_cat (nth c xr vzero)) (nth pidx (mappers enc) []) ->
  transform vzero vone to_cat enc p x = None.
Proof. exact @transform_rejects_unseen. Qed.

(* hypotheses are satisfiable: categorical columns {1,4} of 6 with 3 and 2 categories *)
Example C18_formula_instance :
  find_new_idxs 6 [3; 2] [1; 4] = [0; 1; 4; 5; 6; 8] /\ sorted_lt 0 [1; 4].
Proof. split; [reflexivity | cbn; repeat split; auto with arith]. Qed.

(* ... and for the layout theorem: V = nat, columns {2,0} of 3 given in descending order *)
Example C18_layout_instance :
  exists enc, fit 0 (fun v => v) (fun _ => true) [[1;5;7];[2;5;8]] [2;0] = Some enc /\
              transform 0 1 (fun v => v) enc 3 [[1;5;7];[2;5;8]] = Some [[1;0;5;1;0];[0;1;5;0;1]].
Proof. eexists. split; reflexivity. Qed.
