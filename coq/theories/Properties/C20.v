(* C20 — backend independence.  What a theorem can settle here is compositionality: the crate's
   generic algorithms touch matrices only through the trait primitives, so if every primitive of
   two backends agrees (same panics, equal scalars, matrices with the same logical view) then every
   program over the primitives does.  Per-primitive agreement of DenseMatrix / ndarray / nalgebra
   with C03's model is NOT a theorem (ndarray and nalgebra are third-party code): it is established
   per run by the correspondence check.  See meta/C20.json. *)
From Coq Require Import List Arith Bool Lia ZArith.
From SC Require Import Base.Num C03.Model C03.ProofsBase C20.Model C20.Proofs C20.ProofsLayout C20.ProofsDerived.
Import ListNotations.

Theorem C20_backend_simulation :
  forall (S opM opS : Type) (I1 I2 : impl S opM opS) (M : Type)
         (a1 : carrier S opM opS I1 -> M) (a2 : carrier S opM opS I2 -> M),
    prims_agree S opM opS I1 I2 M a1 a2 ->
    forall (p : prog S opM opS) st1 st2,
      Rst S opM opS I1 I2 M a1 a2 st1 st2 ->
      rel_opt (Rst S opM opS I1 I2 M a1 a2) (run S opM opS I1 p st1) (run S opM opS I2 p st2).
Proof. exact simulation. Qed.

(* Non-vacuity: two "backends" storing a vector forwards resp. backwards, primitives
   `double every entry` (matrix-valued) and `sum` (scalar-valued) agree through the abstraction
   (identity resp. reversal), and a looping program is run on both. *)
Definition ex_I1 : impl nat unit unit :=
  mkImpl nat unit unit (list nat)
         (fun _ ms _ => match ms with [m] => Some (map (fun x => 2 * x) m) | _ => None end)
         (fun _ ms _ => match ms with [m] => Some (fold_left Nat.add m 0) | _ => None end).
Definition ex_I2 : impl nat unit unit :=
  mkImpl nat unit unit (list nat)
         (fun _ ms _ => match ms with [m] => Some (map (fun x => 2 * x) m) | _ => None end)
         (fun _ ms _ => match ms with [m] => Some (fold_right Nat.add 0 m) | _ => None end).

Lemma ex_fold_left_add : forall l a, fold_left Nat.add l a = a + fold_right Nat.add 0 l.
Proof. induction l as [|x l IH]; intro a; cbn; [lia|]. rewrite IH. lia. Qed.
Lemma ex_fold_right_app : forall l1 l2, fold_right Nat.add 0 (l1 ++ l2) = fold_right Nat.add 0 l1 + fold_right Nat.add 0 l2.
Proof. induction l1 as [|x l1 IH]; intro l2; cbn; [reflexivity|]. rewrite IH. lia. Qed.
Lemma ex_sum_rev : forall l, fold_left Nat.add l 0 = fold_right Nat.add 0 (rev l).
Proof.
  intro l. rewrite ex_fold_left_add. cbn. induction l as [|x l IH]; cbn; [reflexivity|].
  rewrite ex_fold_right_app, <- IH. cbn. lia.
Qed.

Example C20_simulation_instance :
  prims_agree nat unit unit ex_I1 ex_I2 (list nat) (fun l => l) (@rev nat) /\
  run nat unit unit ex_I1 (PSeq nat unit unit (PRepeat nat unit unit 3 (PM nat unit unit tt [0] []))
                                             (PS nat unit unit tt [3] []))
      ([[1; 2; 3]], []) = Some ([[1;2;3]; [2;4;6]; [2;4;6]; [2;4;6]], [12]).
Proof.
  split; [|reflexivity]. split.
  - intros [] ms1 ms2 ss H. destruct H as [|m1 m2 l1 l2 Hm H]; [exact I|]. destruct H; [|exact I].
    cbn. unfold Rm in *. cbn in *. subst m1. rewrite map_rev. reflexivity.
  - intros [] ms1 ms2 ss H. destruct H as [|m1 m2 l1 l2 Hm H]; [exact I|]. destruct H; [|exact I].
    cbn. unfold Rm in *. cbn in *. subst m1. rewrite ex_sum_rev, rev_involutive. reflexivity.
Qed.

(* ---------- independence through ONE model ----------
   The correspondence check compares every backend with C03's model, never two backends with each
   other.  This is the step from there to "the backends agree with each other": if I1 and I2 each
   agree with a model implementation Im primitive by primitive (abstractions a1, a2), every program run
   on both from states with the same abstraction ends in the same way: both panic, or both return with
   the same scalars and matrices of the same abstraction. *)
Theorem C20_backend_independence_via_model :
  forall (S opM opS : Type) (I1 I2 Im : impl S opM opS)
         (a1 : carrier S opM opS I1 -> carrier S opM opS Im) (a2 : carrier S opM opS I2 -> carrier S opM opS Im),
    agrees_with_model S opM opS Im I1 a1 -> agrees_with_model S opM opS Im I2 a2 ->
    forall (p : prog S opM opS) st1 st2,
      same_obs S opM opS I1 I2 Im a1 a2 st1 st2 ->
      rel_opt (same_obs S opM opS I1 I2 Im a1 a2) (run S opM opS I1 p st1) (run S opM opS I2 p st2).
Proof. exact independence. Qed.

(* hypotheses satisfiable: the two list "backends" above against the model "list as is" *)
Example C20_independence_instance :
  agrees_with_model nat unit unit ex_I1 ex_I1 (fun l => l) /\
  agrees_with_model nat unit unit ex_I1 ex_I2 (@rev nat).
Proof.
  split; split; intros [] ms1 ms2 ss H; (destruct H as [|m1 m2 l1 l2 Hm H]; [exact I|]); (destruct H; [|exact I]);
    cbn; unfold Rm in *; cbn in *; subst m2.
  - reflexivity.
  - reflexivity.
  - rewrite map_rev. reflexivity.
  - rewrite ex_sum_rev, rev_involutive. reflexivity.
Qed.

(* ---------- layout freeness (for all shapes, strides, offsets, buffers) ---------- *)
(* flatten defined through get is the model's to_row_vector of the abstracted matrix, and two
   representations with the same logical view flatten alike *)
Theorem C20_row_major_flatten_layout_free : forall (T : Type) (K : Ops T) (a b : smat),
  sflatten K a = to_row_vector K (sabs K a) /\
  (same_view K a b -> sflatten K a = sflatten K b) /\
  (same_view K a b <-> sabs K a = sabs K b).
Proof.
  intros T K a b. split; [apply sflatten_model|]. split; [apply flatten_layout_free|].
  split; [apply same_view_sabs | apply sabs_same_view].
Qed.

(* after a transpose that only swaps strides (no element moves): the view is the transposed view, the
   flatten is the row-major order of the TRANSPOSED matrix (column by column of the original), and
   transposing twice gives the original view back *)
Theorem C20_flatten_after_transpose : forall (T : Type) (K : Ops T) (m : smat),
  (forall r c, sget K (stranspose m) r c = sget K m c r) /\
  sabs K (stranspose m) = transpose K (sabs K m) /\
  sflatten K (stranspose m) = to_row_vector K (transpose K (sabs K m)) /\
  sflatten K (stranspose m) = flat_map (fun c => map (fun r => sget K m r c) (seq 0 (sn m))) (seq 0 (sp m)) /\
  same_view K (stranspose (stranspose m)) m.
Proof.
  intros T K m. split; [apply sget_transpose|]. split; [apply sabs_transpose|].
  destruct (flatten_after_transpose K m) as [H1 H2]. split; [exact H1|]. split; [exact H2|].
  apply transpose_twice_view.
Qed.

(* reshape through get: accepted exactly when the sizes match, preserves the logical row-major order,
   is the model's reshape of the abstraction, and is layout free (same panic behaviour, same view) *)
Theorem C20_reshape_layout_free : forall (T : Type) (K : Ops T) (m : smat) (n p : nat),
  (sn m * sp m = n * p ->
     exists m', sreshape K m n p = Some m' /\ sn m' = n /\ sp m' = p /\
                sflatten K m' = sflatten K m /\ reshape K (sabs K m) n p = Some (sabs K m')) /\
  (sn m * sp m <> n * p -> sreshape K m n p = None /\ reshape K (sabs K m) n p = None) /\
  (forall b, same_view K m b ->
     match sreshape K m n p, sreshape K b n p with
     | Some x, Some y => same_view K x y
     | None, None => True
     | _, _ => False
     end).
Proof.
  intros T K m n p. split; [apply reshape_layout_free|]. split; [apply reshape_none_on_mismatch|].
  intros b. apply reshape_same_view.
Qed.

(* memory-order flattening (the defect D12) is right only on the standard layout *)
Theorem C20_memory_order_only_on_standard_layout : forall (T : Type) (K : Ops T) n p off (buf : list T),
  off + n * p <= length buf ->
  sflatten_memory (mkS n p off p 1 buf) = sflatten K (mkS n p off p 1 buf).
Proof. intros T K. exact (memory_order_on_standard_layout K). Qed.

(* ... and wrong after a transpose: a 2x2 witness over nat-valued entries *)
Definition natK : Ops nat :=
  mkOps nat 0 1 Nat.add Nat.sub Nat.mul Nat.div (fun x => x) (fun x => x) (fun x => x)
        (fun x => x) (fun x => x) Nat.ltb Nat.leb Nat.eqb Z.to_nat.
Example C20_memory_order_wrong_after_transpose :
  let m := mkS 2 2 0 2 1 [1; 2; 3; 4] in
  sflatten natK (stranspose m) = [1; 3; 2; 4] /\ sflatten_memory (stranspose m) = [1; 2; 3; 4] /\
  same_view natK (mkS 2 2 0 1 2 [1; 3; 2; 4]) m /\ sflatten_memory (mkS 2 2 0 1 2 [1; 3; 2; 4]) <> sflatten natK m.
Proof.
  split; [reflexivity|]. split; [reflexivity|]. split; [|cbn; discriminate]. repeat split.
  intros r c Hr Hc. cbn in Hr, Hc. destruct r as [|[|r]]; destruct c as [|[|c]]; try reflexivity; lia.
Qed.

(* ---------- derived (default) methods are determined by the primitives ---------- *)
(* statistics written against shape / get return the model's value on the logical view, on EVERY backend *)
Theorem C20_default_stats_determined_by_view : forall (T : Type) (K : Ops T) (B : backend) (m : car B) axis0,
  d_mean K B m axis0 = mean K (bview B m) axis0 /\
  d_var K B m axis0 = var K (bview B m) axis0 /\
  d_std K B m axis0 = std K (bview B m) axis0.
Proof. intros. split; [apply d_mean_model|]. split; [apply d_var_model | apply d_std_model]. Qed.

(* the in-place default loops (binarize_mut, scale_mut) on a backend whose get / set / shape satisfy
   the three `set` laws return the model's matrix on the logical view *)
Theorem C20_default_loops_determined_by_view : forall (T : Type) (K : Ops T) (B : backend), lawful B ->
  forall (m : car B) t mean_ std_ axis0,
    bview B (d_binarize K B m t) = binarize K (bview B m) t /\
    (d_nlines B m axis0 <= length mean_ -> d_nlines B m axis0 <= length std_ ->
     scale K (bview B m) mean_ std_ axis0 = Some (bview B (d_scale K B m mean_ std_ axis0))).
Proof. intros T K B L m t mean_ std_ axis0. split; [apply d_binarize_model; exact L | apply d_scale_model; exact L]. Qed.

(* hence two backends holding matrices with the same logical view give the same derived results *)
Theorem C20_derived_methods_backend_free : forall (T : Type) (K : Ops T) (B1 B2 : backend),
  lawful B1 -> lawful B2 ->
  forall (m1 : car B1) (m2 : car B2) t mean_ std_ axis0, bview B1 m1 = bview B2 m2 ->
    d_mean K B1 m1 axis0 = d_mean K B2 m2 axis0 /\ d_var K B1 m1 axis0 = d_var K B2 m2 axis0 /\
    d_std K B1 m1 axis0 = d_std K B2 m2 axis0 /\
    bview B1 (d_binarize K B1 m1 t) = bview B2 (d_binarize K B2 m2 t) /\
    (d_nlines B1 m1 axis0 <= length mean_ -> d_nlines B1 m1 axis0 <= length std_ ->
     bview B1 (d_scale K B1 m1 mean_ std_ axis0) = bview B2 (d_scale K B2 m2 mean_ std_ axis0)).
Proof.
  intros T K B1 B2 L1 L2 m1 m2 t mean_ std_ axis0 H.
  destruct (stats_backend_free K B1 B2 m1 m2 axis0 H) as (A & B & C).
  destruct (loops_backend_free K B1 B2 L1 L2 m1 m2 t mean_ std_ axis0 H) as (D & E).
  repeat split; assumption.
Qed.

(* the visiting order of a cell loop is irrelevant as long as every cell is written exactly once
   (stats.rs walks column by column for axis 0, row by row otherwise) *)
Theorem C20_cell_loop_order_irrelevant : forall (T : Type) (K : Ops T) (B : @backend T), lawful B ->
  forall h cs1 cs2 (m : car B),
    full_order (brows B m) (bcols B m) cs1 -> full_order (brows B m) (bcols B m) cs2 ->
    bview B (cell_loop B h cs1 m) = bview B (cell_loop B h cs2 m).
Proof. intros T K B L h cs1 cs2 m H1 H2. rewrite !(cell_loop_view B L) by assumption. reflexivity. Qed.

(* hypotheses satisfiable: a lawful backend exists, and both loop orders are full orders *)
Example C20_lawful_instance : forall (T : Type) (K : Ops T),
  lawful (fun_backend (T := T)) /\ full_order 2 3 (cells 2 3) /\
  full_order 2 3 (map (fun cr => (snd cr, fst cr)) (cells 3 2)).
Proof. intros. split; [apply fun_backend_lawful|]. split; [apply cells_full | apply cells_swapped_full]. Qed.
