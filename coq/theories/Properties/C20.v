(* C20 — backend independence.  What a theorem can settle here is compositionality: the crate's
   generic algorithms touch matrices only through the trait primitives, so if every primitive of
   two backends agrees (same panics, equal scalars, matrices with the same logical view) then every
   program over the primitives does.  Per-primitive agreement of DenseMatrix / ndarray / nalgebra
   with C03's model is NOT a theorem (ndarray and nalgebra are third-party code): it is established
   per run by the correspondence check.  See meta/C20.json. *)
From Coq Require Import List Arith Bool Lia.
From SC Require Import C20.Model C20.Proofs.
Import ListNotations.

Theorem C20_backend_simulation :
  forall (S opM opS : Type) (I1 I2 : impl S opM opS) (M : Type)
         (a1 : carrier S opM opS I1 -> M) (a2 : carrier S opM opS I2 -> M),
    prims_agree S opM opS I1 I2 M a1 a2 ->
    forall (p : prog S opM opS) st1 st2,
      Rst S opM opS I1 I2 M a1 a2 st1 st2 ->
      rel_opt (Rst S opM opS I1 I2 M a1 a2) (run S opM opS I1 p st1) (run S opM opS I2 p st2).
Proof. exact simulation. Qed.

(* Non-vacuity: two "backends" storing a vector forwards resp. backwards, primitives
   `double every entry` (matrix-valued) and `sum` (scalar-valued) agree through the abstraction
   (identity resp. reversal), and a looping program is run on both. *)
Definition ex_I1 : impl nat unit unit :=
  mkImpl nat unit unit (list nat)
         (fun _ ms _ => match ms with [m] => Some (map (fun x => 2 * x) m) | _ => None end)
         (fun _ ms _ => match ms with [m] => Some (fold_left Nat.add m 0) | _ => None end).
Definition ex_I2 : impl nat unit unit :=
  mkImpl nat unit unit (list nat)
         (fun _ ms _ => match ms with [m] => Some (map (fun x => 2 * x) m) | _ => None end)
         (fun _ ms _ => match ms with [m] => Some (fold_right Nat.add 0 m) | _ => None end).

Lemma ex_fold_left_add : forall l a, fold_left Nat.add l a = a + fold_right Nat.add 0 l.
Proof. induction l as [|x l IH]; intro a; cbn; [lia|]. rewrite IH. lia. Qed.
Lemma ex_fold_right_app : forall l1 l2, fold_right Nat.add 0 (l1 ++ l2) = fold_right Nat.add 0 l1 + fold_right Nat.add 0 l2.
Proof. induction l1 as [|x l1 IH]; intro l2; cbn; [reflexivity|]. rewrite IH. lia. Qed.
Lemma ex_sum_rev : forall l, fold_left Nat.add l 0 = fold_right Nat.add 0 (rev l).
Proof.
  intro l. rewrite ex_fold_left_add. cbn. induction l as [|x l IH]; cbn; [reflexivity|].
  rewrite ex_fold_right_app, <- IH. cbn. lia.
Qed.

Example C20_simulation_instance :
  prims_agree nat unit unit ex_I1 ex_I2 (list nat) (fun l => l) (@rev nat) /\
  run nat unit unit ex_I1 (PSeq nat unit unit (PRepeat nat unit unit 3 (PM nat unit unit tt [0] []))
                                             (PS nat unit unit tt [3] []))
      ([[1; 2; 3]], []) = Some ([[1;2;3]; [2;4;6]; [2;4;6]; [2;4;6]], [12]).
Proof.
  split; [|reflexivity]. split.
  - intros [] ms1 ms2 ss H. destruct H as [|m1 m2 l1 l2 Hm H]; [exact I|]. destruct H; [|exact I].
    cbn. unfold Rm in *. cbn in *. subst m1. rewrite map_rev. reflexivity.
  - intros [] ms1 ms2 ss H. destruct H as [|m1 m2 l1 l2 Hm H]; [exact I|]. destruct H; [|exact I].
    cbn. unfold Rm in *. cbn in *. subst m1. rewrite ex_sum_rev, rev_involutive. reflexivity.
Qed.
