(* C01 — LU / QR / Cholesky / SVD factors and solves.  Property theorems only: each is closed by
   `exact <lemma>` (or a few lines assembling lemmas) and its assumptions are printed by the check.
   Statements are about the executable models of SC.C01.Model instantiated at the real numbers
   (`ROps`): they say what the code computes in exact arithmetic, for matrices of EVERY size.  The
   same generic definitions instantiated at binary64 / binary32 are what the correspondence check
   runs against src/linalg/{lu,qr,cholesky,svd}.rs.  Rounding-error bounds are not theorems. *)
From Coq Require Import List Arith Bool ZArith Reals Lra Lia Permutation.
From SC Require Import Base.Num C01.Model C01.Proofs C01.Proofs_chol.
Import ListNotations.
Open Scope R_scope.

(* ======================================= Cholesky ======================================= *)
(* `cholesky n A = Some R0` (the routine returned Ok) with no zero on the diagonal before the last
   row: the lower triangle of A is reproduced by L*L^T (L = chol_L R0, the lower triangle of R0),
   the diagonal is >= 0 and the strict upper triangle of the work matrix is untouched. *)
Theorem C01_chol_exact : forall n (A R0 : @Mx R), cholesky ROps n A = Some R0 ->
  (forall k, (S k < n)%nat -> R0 k k <> 0) ->
  (forall j k, (j < n)%nat -> (k <= j)%nat -> mmul n (chol_L ROps R0) (mtrans (chol_L ROps R0)) j k = A j k) /\
  (forall k, (k < n)%nat -> 0 <= R0 k k) /\
  (forall j k, (j < k)%nat -> R0 j k = A j k).
Proof.
  intros n A R0 H Hd. destruct (chol_exact n A R0 H Hd) as (_ & H2 & H3).
  split; [|split]; [|exact H2|exact H3].
  intros j k Hj Hk. exact (chol_exact_L n A R0 H Hd j k Hj Hk).
Qed.

(* A symmetric positive-definite matrix is always accepted, with a strictly positive diagonal
   (so the hypothesis of C01_chol_exact and C01_chol_solve_exact holds for it). *)
Theorem C01_chol_spd_accepted : forall n (A : @Mx R),
  (forall i j, (i < n)%nat -> (j < n)%nat -> A i j = A j i) ->
  (forall x : nat -> R, (exists i, (i < n)%nat /\ x i <> 0) ->
       0 < rsum n (fun i => rsum n (fun j => x i * A i j * x j))) ->
  exists R0, cholesky ROps n A = Some R0 /\ forall k, (k < n)%nat -> 0 < R0 k k.
Proof. exact chol_spd_some. Qed.

(* "A symmetric matrix with a clearly negative eigenvalue is rejected", in exact arithmetic and in
   both directions: whatever is accepted (with non-zero pivots) is positive semi-definite ... *)
Theorem C01_chol_accepts_only_psd : forall n (A R0 : @Mx R),
  (forall i j, (i < n)%nat -> (j < n)%nat -> A i j = A j i) ->
  cholesky ROps n A = Some R0 -> (forall k, (S k < n)%nat -> R0 k k <> 0) ->
  forall x : nat -> R, 0 <= rsum n (fun i => rsum n (fun j => x i * A i j * x j)).
Proof. exact chol_some_psd. Qed.

(* ... and an Err is returned only at a negative Schur pivot, which a positive-definite matrix does not have. *)
Theorem C01_chol_rejects_only_non_pd : forall n (A : @Mx R), cholesky ROps n A = None ->
  (exists j B, (j < n)%nat /\ chol_cols ROps j A = Some B /\
      (let '(B1, d0) := chol_row ROps j B in B1 j j - d0 < 0)) /\
  ((forall i j, (i < n)%nat -> (j < n)%nat -> A i j = A j i) ->
   ~ (forall x : nat -> R, (exists i, (i < n)%nat /\ x i <> 0) ->
        0 < rsum n (fun i => rsum n (fun j => x i * A i j * x j)))).
Proof.
  intros n A H. split; [exact (chol_none_pivot n A H)|].
  intros Hs. exact (chol_none_not_pd n A Hs H).
Qed.

(* Cholesky::solve: forward and backward substitution with the factor solve A X = b exactly. *)
Theorem C01_chol_solve_exact : forall n bn (A R0 b : @Mx R),
  (forall i j, (i < n)%nat -> (j < n)%nat -> A i j = A j i) ->
  cholesky ROps n A = Some R0 -> (forall k, (k < n)%nat -> R0 k k <> 0) ->
  let X := chol_solve ROps n bn R0 b in
  forall i j, (i < n)%nat -> (j < bn)%nat -> rsum n (fun k => A i k * X k j) = b i j.
Proof. exact chol_solve_exact. Qed.

(* hypotheses are satisfiable: [[4,2],[2,5]] = [[2,0],[1,2]] * [[2,1],[0,2]] *)
Example C01_chol_instance : exists R0,
  cholesky ROps 2 (fun i j => match i, j with 0%nat, 0%nat => 4 | 1%nat, 1%nat => 5 | _, _ => 2 end) = Some R0 /\
  R0 0%nat 0%nat = 2 /\ R0 1%nat 0%nat = 1 /\ R0 1%nat 1%nat = 2.
Proof. exact chol_example. Qed.

(* ========================================= LU ========================================= *)
From SC Require Import C01.Proofs_lu.

(* lu_mut on EVERY square real matrix (no non-singularity hypothesis is needed: a zero pivot after
   pivoting by largest absolute value means the rest of the column is zero, the division is
   skipped and the factorisation still holds): P*A = L*U entrywise, L unit lower triangular with
   |L_ij| <= 1 (partial pivoting), U upper triangular, the pivot vector a permutation of 0..n-1. *)
Theorem C01_lu_exact : forall (n : nat) (A : @Mx R),
  let st := lu_mut ROps n n A in
  let L := lu_L ROps (lu_A st) in let U := lu_U ROps (lu_A st) in
  (forall i j, (i < n)%nat -> (j < n)%nat -> mmul n L U i j = A (lu_piv st i) j) /\
  (forall i j, (i < n)%nat -> (j < n)%nat -> Rabs (L i j) <= 1) /\
  (forall i, L i i = 1) /\ (forall i j, (i < j)%nat -> L i j = 0) /\
  (forall i j, (j < i)%nat -> U i j = 0) /\
  Permutation (map (lu_piv st) (seq 0 n)) (seq 0 n).
Proof. exact lu_exact. Qed.

(* LU::pivot() is the permutation matrix of the pivot vector: row i has its 1 in column piv i,
   hence (P*A) i j = A (piv i) j, the right-hand side of C01_lu_exact. *)
Theorem C01_lu_pivot_matrix : forall n piv i j, (i < n)%nat ->
  lu_P ROps n piv i j = (if Nat.eqb j (piv i) then 1 else 0).
Proof. exact lu_P_spec. Qed.

(* forward elimination with a unit lower factor and back substitution with an upper factor whose
   diagonal is non-zero solve their triangular systems exactly (shared by the LU and QR solvers) *)
Theorem C01_forward_substitution : forall n bn LU X0, let X1 := lu_forward ROps n bn LU X0 in
  (forall i j, (i < n)%nat -> (j < bn)%nat -> X1 i j + rsum i (fun t => LU i t * X1 t j) = X0 i j) /\
  (forall i j, (n <= i)%nat \/ (bn <= j)%nat -> X1 i j = X0 i j).
Proof. exact lu_forward_spec. Qed.
Theorem C01_back_substitution : forall n bn Uo dg X1, (forall k, (k < n)%nat -> dg k <> 0) ->
  let X2 := back_subst ROps n bn Uo dg X1 in
  (forall i j, (i < n)%nat -> (j < bn)%nat ->
     dg i * X2 i j + rsum (n - S i) (fun t => Uo i (S i + t)%nat * X2 (S i + t)%nat j) = X1 i j) /\
  (forall i j, (n <= i)%nat \/ (bn <= j)%nat -> X2 i j = X1 i j).
Proof. exact back_subst_spec. Qed.

(* lu_solve_mut: whenever it returns (i.e. no exactly zero pivot) the result solves A X = b exactly;
   inverse() returns a right inverse. *)
Theorem C01_lu_solve_exact : forall n bn (A b X : @Mx R), lu_solve_mut ROps n bn A b = Some X ->
  forall i j, (i < n)%nat -> (j < bn)%nat -> rsum n (fun k => A i k * X k j) = b i j.
Proof. exact lu_solve_exact. Qed.
Theorem C01_lu_inverse_exact : forall n (A X : @Mx R),
  (let st := lu_mut ROps n n A in lu_inverse ROps n (lu_A st) (lu_piv st)) = Some X ->
  forall i j, (i < n)%nat -> (j < n)%nat -> mmul n A X i j = (if Nat.eqb i j then 1 else 0).
Proof. exact lu_inverse_exact. Qed.

(* satisfiable and non-trivial: [[1,2],[3,4]] x = [5,6] is solved, and a row swap really happens *)
Example C01_lu_instance : exists X,
  lu_solve_mut ROps 2 1
    (fun i j => match i, j with 0%nat, 0%nat => 1 | 0%nat, _ => 2 | _, 0%nat => 3 | _, _ => 4 end)
    (fun i _ => match i with 0%nat => 5 | _ => 6 end) = Some X.
Proof. exact lu_example. Qed.

(* ========================================= SVD ========================================= *)
From SC Require Import C01.Proofs_svd.

(* SVD::solve for ANY factors with orthonormal columns (this is what the search validates per run for
   the factors svd_mut returns; convergence of the sweeps is not a theorem) such that every singular
   value is either above the routine's threshold or exactly zero: the result satisfies the normal
   equations A^T (A X - b) = 0 for A = U diag(s) V^T  (for square non-singular A this is A X = b;
   for tall A it is the least-squares solution; for rank-deficient A see the next theorem). *)
Theorem C01_svd_solve_lsq : forall eps m n p U s V b,
  orthocols m n U -> orthocols n n V -> orthorows n V ->
  (forall j, (j < n)%nat -> svd_tol ROps eps m n s < s j \/ s j = 0) ->
  let A := svd_A n U s V in let X := svd_solve ROps eps m n p U s V b in
  forall c k, (c < n)%nat -> (k < p)%nat ->
    rsum m (fun i => A i c * (rsum n (fun t => A i t * X t k) - b i k)) = 0.
Proof. exact svd_solve_lsq. Qed.

(* ... and among all solutions of the normal equations it is one of minimum Euclidean norm. *)
Theorem C01_svd_solve_min_norm : forall eps m n p U s V b,
  orthocols m n U -> orthocols n n V -> orthorows n V ->
  (forall j, (j < n)%nat -> svd_tol ROps eps m n s < s j \/ s j = 0) ->
  let A := svd_A n U s V in let X := svd_solve ROps eps m n p U s V b in
  forall k (y : nat -> R), (k < p)%nat ->
    (forall c, (c < n)%nat -> rsum m (fun i => A i c * (rsum n (fun t => A i t * y t) - b i k)) = 0) ->
    rsum n (fun t => X t k * X t k) <= rsum n (fun t => y t * y t).
Proof. exact svd_solve_min_norm. Qed.

(* The tail of svd_mut (shell sort with joint column moves, then sign normalisation) applied to ANY
   state: columns of U, V and the entries of w are jointly permuted and columns jointly negated, so
   U diag(w) V^T is unchanged, orthonormality of the columns and non-negativity of w are preserved,
   and w ends non-increasing. *)
Theorem C01_svd_post_invariant : forall m n st, let st' := svd_post ROps m n st in
  (exists sigma e, col_rel m n st st' sigma e) /\
  (forall i k, (i < m)%nat -> (k < n)%nat ->
     rsum n (fun j => sU st' i j * sw st' j * sV st' k j) = rsum n (fun j => sU st i j * sw st j * sV st k j)) /\
  (forall a b, (a <= b)%nat -> (b < n)%nat -> sw st' b <= sw st' a) /\
  ((forall j, (j < n)%nat -> 0 <= sw st j) -> forall j, (j < n)%nat -> 0 <= sw st' j) /\
  (orthocols m n (sU st) -> orthocols m n (sU st')) /\ (orthocols n n (sV st) -> orthocols n n (sV st')).
Proof. exact svd_post_invariant. Qed.

(* hypotheses of the solve theorems are satisfiable, in the full-rank and in the rank-deficient case *)
Example C01_svd_instance_rank_deficient : forall eps, 0 <= eps <= / 4 ->
  let U := identity ROps in let V := identity ROps in
  let s := fun j : nat => if Nat.eqb j 0 then 2 else 0 in
  orthocols 2 2 U /\ orthocols 2 2 V /\ orthorows 2 V /\
  (forall j, (j < 2)%nat -> svd_tol ROps eps 2 2 s < s j \/ s j = 0).
Proof. exact svd_lsq_hyps_rank_deficient. Qed.
(* the tail really moves columns: w = (1,2), U = V = I ends as w = (2,1) with the columns exchanged *)
Example C01_svd_post_instance :
  let st' := svd_post ROps 2 2 ex_st in
  sw st' 0%nat = 2 /\ sw st' 1%nat = 1 /\
  (forall i j, (i < 2)%nat -> (j < 2)%nat -> sU st' i j = identity ROps i (1 - j)%nat) /\
  (forall i j, (i < 2)%nat -> (j < 2)%nat -> sV st' i j = identity ROps i (1 - j)%nat).
Proof. exact svd_post_example. Qed.

(* ========================================= QR ========================================= *)
From SC Require Import C01.Proofs_qr.

(* QR::R() is upper triangular. *)
Theorem C01_qr_R_upper : forall (QR : @Mx R) tau i j, (j < i)%nat -> qr_R ROps QR tau i j = 0.
Proof. exact qr_R_upper. Qed.

(* qr_mut on EVERY m x n real matrix with n <= m (no rank hypothesis): Q() * R() = A entrywise ... *)
Theorem C01_qr_reconstruct : forall m n (A : @Mx R), (n <= m)%nat ->
  let '(QR, tau) := qr_mut ROps m n A in
  forall i j, (i < m)%nat -> (j < n)%nat -> mmul n (qr_Q ROps m n QR) (qr_R ROps QR tau) i j = A i j.
Proof. exact qr_QR_product. Qed.

(* ... the columns of Q() are orthonormal ... *)
Theorem C01_qr_Q_orthonormal : forall m n (A : @Mx R), (n <= m)%nat ->
  let '(QR, tau) := qr_mut ROps m n A in
  forall a b, (a < n)%nat -> (b < n)%nat ->
    rsum m (fun i => qr_Q ROps m n QR i a * qr_Q ROps m n QR i b) = (if Nat.eqb a b then 1 else 0).
Proof. exact qr_Q_orthonormal. Qed.

(* ... each stored reflection is either skipped (zero column, tau = 0) or satisfies v.v = 2 v_k with
   v_k >= 1 (the sign choice), which makes H_k an orthogonal involution; applying the reflections to
   the input triangularises it: H_{n-1} ... H_0 A = [R; 0]. *)
Theorem C01_qr_householder : forall m n (A : @Mx R), (n <= m)%nat ->
  let '(QR, tau) := qr_mut ROps m n A in
  (forall k, (k < n)%nat ->
     ((forall i, (k <= i < m)%nat -> QR i k = 0) /\ tau k = 0) \/
     (1 <= QR k k /\ rsum (m - k) (fun t => QR (k + t)%nat k ^ 2) = 2 * QR k k /\ tau k <> 0)) /\
  (forall i j, (i < m)%nat -> (j < n)%nat ->
     Qtapp m QR n (fun r => A r j) i = (if (i <=? j)%nat then qr_R ROps QR tau i j else 0)).
Proof.
  intros m n A Hnm. pose proof (qr_reflector_norm m n A Hnm) as H1.
  pose proof (qr_triangularize m n A Hnm) as H2.
  destruct (qr_mut ROps m n A) as [QR tau]. split; assumption.
Qed.
Theorem C01_householder_orthogonal : forall m k (V : @Mx R), refl_ok m k V ->
  (forall x i, Hk m k V (Hk m k V x) i = x i) /\
  (forall x y, dot m (Hk m k V x) (Hk m k V y) = dot m x y).
Proof. intros m k V H. split; [exact (Hk_involutive m k V H)|exact (Hk_dot m k V H)]. Qed.

(* qr_solve_mut: whenever it returns (no exactly zero diagonal entry of R, i.e. full column rank in
   exact arithmetic) the top n rows X of the result satisfy the normal equations A^T (A X - b) = 0:
   the solution for square A, the least-squares solution for tall A. *)
Theorem C01_qr_solve_lsq : forall m n bn (A b X : @Mx R), (n <= m)%nat ->
  qr_solve_mut ROps m n bn A b = Some X ->
  forall k j, (k < n)%nat -> (j < bn)%nat ->
    rsum m (fun i => A i k * (rsum n (fun t => A i t * X t j) - b i j)) = 0.
Proof. exact (qr_solve_lsq_from_back_subst back_subst_spec). Qed.

(* a step that is not skipped: the column (3,4)^T has norm 5 and R(0,0) = tau 0 = -5 *)
Example C01_qr_instance : snd (qr_mut ROps 2 1 ex_A) 0%nat = -5.
Proof. exact qr_example. Qed.

(* ============================ the body of svd_mut ============================ *)
From SC Require Import C01.Proofs_svd_refl C01.Proofs_svd_bidiag C01.Proofs_svd_accum C01.Proofs_svd_sweep C01.Proofs_svd_iter.

(* svd_mut = bidiagonalisation + accumulation (svd_stage1), then the iteration for k = n-1 .. 0
   (svd_outer: split search, cancellation, implicit-shift sweep), then the tail svd_post. *)
Theorem C01_svd_mut_stages : forall cs minpos m n (A : @Mx R),
  svd_mut ROps 0 cs minpos m n A =
  match svd_outer cs m n (snd (svd_stage1 cs minpos m n A)) (fst (svd_stage1 cs minpos m n A)) with
  | None => None
  | Some (st, _) => Some (svd_post ROps m n st)
  end.
Proof. exact svd_mut_eq. Qed.

(* bidiag_step of the model is, term for term, its left half bd_left followed by its right half bd_right
   (bd_left / bd_right / svd_stage1 / svd_outer are names for sub-terms of Model.v, introduced in the
   proof files only so that theorems can be stated about them) *)
Theorem C01_svd_step_halves : forall cs m n i (st : @bidiag_st R), (i < m)%nat ->
  bidiag_step ROps cs m n i st =
  let rv1 := updv (brv1 st) i (bscale st * bg st) in
  let '(U1, g1, scale1) := bd_left cs m n i (bU st) in
  let w := updv (bw st) i (scale1 * g1) in
  let '(U2, rv2, g2, scale2) := bd_right cs m n i U1 rv1 in
  mkBD (freeze ROps m n U2) (freezev ROps n w) (freezev ROps n rv2) g2 scale2
       (omaxT ROps (banorm st) (Rabs (w i) + Rabs (rv2 i))).
Proof. exact bidiag_step_eq. Qed.

(* One step of the Householder bidiagonalisation, left half (column i), for EVERY work matrix W.
   u = the stored column i from the diagonal down (zero padded), H = I + hinv u u^T with
   hinv = 1 / (W1(i,i) * w_i) recovered exactly as the accumulation loop does.  The `scale == 0`
   branch (column already zero from the diagonal down) is the case w_i = 0: then hinv = 0, H = I,
   nothing is stored and the column stays zero; otherwise the pivot W1(i,i) is non-zero, H is an
   orthogonal involution (hrefl_ok), it maps column i to w_i e_i and has been applied to the
   columns to the right. *)
Theorem C01_svd_left_reflection : forall cs m n i (W W1 : @Mx R) g1 sc1, cs_spec cs -> (i < m)%nat -> (i < n)%nat ->
  bd_left cs m n i W = (W1, g1, sc1) ->
  let u := colpad m i W1 in let wi := sc1 * g1 in let hinv := hinv_of (W1 i i) wi in
  (forall r k, ~ ((i <= r < m)%nat /\ (i <= k < n)%nat) -> W1 r k = W r k) /\
  (forall r k, (i < k < n)%nat -> W1 r k = hrefl m u hinv (fun r' => W r' k) r) /\
  (forall r, hrefl m u hinv (fun r' => W r' i) r =
             if Nat.eqb r i then wi else if ((i <? r) && (r <? m))%bool then 0 else W r i) /\
  hrefl_ok m u hinv /\
  (wi = 0 -> forall r, (i <= r < m)%nat -> W1 r i = 0) /\
  (wi <> 0 -> W1 i i <> 0).
Proof. exact bd_left_spec. Qed.
(* ... and the right half (row i, columns i+1..n-1); `i + 1 = n` and `scale == 0` are the case e = 0. *)
Theorem C01_svd_right_reflection : forall cs m n i (U1 W2 : @Mx R) rv1 rv2 g2 sc2, cs_spec cs -> (i < m)%nat -> (i < n)%nat ->
  bd_right cs m n i U1 rv1 = (W2, rv2, g2, sc2) ->
  let v := rowpad n i W2 in let e := sc2 * g2 in let hinv := hinv_of (W2 i (i + 1)%nat) e in
  (forall r k, ~ ((i <= r < m)%nat /\ (i + 1 <= k < n)%nat) -> W2 r k = U1 r k) /\
  (forall r k, (i < r < m)%nat -> W2 r k = hrefl n v hinv (fun k' => U1 r k') k) /\
  (forall k, (k < n)%nat -> hrefl n v hinv (fun k' => U1 i k') k =
             if Nat.eqb k (i + 1) then e else if ((i + 1 <? k) && (k <? n))%bool then 0 else U1 i k) /\
  hrefl_ok n v hinv /\
  (e = 0 -> forall k, (i + 1 <= k < n)%nat -> W2 i k = 0) /\
  (forall t, (t <= i)%nat -> rv2 t = rv1 t).
Proof. exact bd_right_spec. Qed.

(* (a) The first stage of svd_mut, for every m >= n and every real matrix: after the n Householder
   steps and the two accumulation loops, U (m x n) and V (n x n) have orthonormal columns (V also
   orthonormal rows) and A = U B V^T with B the upper bidiagonal matrix (diagonal w, super-diagonal
   rv1[1..]); rv1[0] = 0.  Hypothesis bd_regular: no bidiagonal entry is non-zero but smaller than
   T::min_positive_value() in magnitude — the accumulation loops treat such an entry as zero (the
   `g.abs() >= T::min_positive_value()` guards of commit 6e06fa0), which drops a reflector that the
   bidiagonalisation did apply: see C01_svd_factorisation_full_statement_refuted. *)
Theorem C01_svd_bidiagonalisation : forall cs minpos m n (A : @Mx R), cs_spec cs -> (n <= m)%nat -> 0 < minpos ->
  bd_regular minpos n (svd_bd cs m n A) ->
  let st := fst (svd_stage1 cs minpos m n A) in
  orthocols m n (sU st) /\ orthocols n n (sV st) /\
  (forall i k, (i < m)%nat -> (k < n)%nat -> UBVt n (sU st) (Bd (sw st) (srv1 st)) (sV st) i k = A i k) /\
  srv1 st 0%nat = 0 /\ orthorows n (sV st).
Proof. exact svd_stage1_correct. Qed.

(* ... and for EVERY shape (the wide case m < n as the code handles it: the steps i >= m reflect nothing,
   w[i] = 0; U is m x n with orthonormal ROWS, its columns m.. are zero) *)
Theorem C01_svd_bidiagonalisation_any_shape : forall cs minpos m n (A : @Mx R), cs_spec cs -> 0 < minpos ->
  bd_regular minpos n (svd_bd cs m n A) ->
  let st := fst (svd_stage1 cs minpos m n A) in
  Uorth m n (sU st) /\ orthocols n n (sV st) /\
  (forall i k, (i < m)%nat -> (k < n)%nat -> UBVt n (sU st) (Bd (sw st) (srv1 st)) (sV st) i k = A i k) /\
  srv1 st 0%nat = 0 /\ orthorows n (sV st).
Proof. exact svd_stage1_correct_gen. Qed.

(* (b) One plane rotation: rotating columns p, q of U (resp. V) and rows (resp. columns) p, q of the
   middle matrix by the same (c, s) with c^2 + s^2 = 1 leaves U B V^T unchanged and keeps the
   columns orthonormal.  rot_cols is the loop of svd.rs. *)
Theorem C01_svd_rotation_invariant : forall n p q c s (U B V : @Mx R), c * c + s * s = 1 -> p <> q -> (p < n)%nat -> (q < n)%nat ->
  (forall i k, UBVt n (rotc p q c s U) (rotr p q c s B) V i k = UBVt n U B V i k) /\
  (forall i k, UBVt n U (rotcB p q c s B) (rotc p q c s V) i k = UBVt n U B V i k) /\
  (forall rows, orthocols rows n U -> orthocols rows n (rotc p q c s U)) /\
  (forall rows (X : @Mx R) i j, rot_cols ROps rows p q c s X i j = if (i <? rows)%nat then rotc p q c s X i j else X i j).
Proof.
  intros n p q c s U B V Hcs Hpq Hp Hq. split; [|split; [|split]].
  - intros i k. apply UBVt_rot_left; assumption.
  - intros i k. apply UBVt_rot_right; assumption.
  - intros rows HU. apply rotc_orthocols; assumption.
  - intros rows X i j. apply rot_cols_spec. exact Hpq.
Qed.

(* One whole implicit-shift sweep on an unreduced block l..k (no zero inside, rv1[l] = 0,
   rv1[k+1] = 0): orthonormality, U B(w, rv1) V^T = A and rv1[0] = 0 are preserved, nothing outside
   the block changes.  The value of the shift plays no role for this. *)
Theorem C01_svd_sweep_invariant : forall cs m n A l k (U V : @Mx R) w rv1, (l < k)%nat -> (k < n)%nat ->
  SInv m n A U V w rv1 -> block_ok n l k w rv1 ->
  let st := sweep ROps cs m n l k U V w rv1 in
  SInv m n A (sU st) (sV st) (sw st) (srv1 st) /\
  (forall t, (t < n)%nat -> (t < l \/ k < t)%nat -> sw st t = w t /\ srv1 st t = rv1 t) /\
  (orthorows n V -> orthorows n (sV st)).
Proof. exact sweep_spec. Qed.

(* The cancellation loop (w[l-1] = 0 exactly, rv1[l] <> 0): same invariant, rv1[l] becomes 0 and the
   block stays unreduced. *)
Theorem C01_svd_cancel_invariant : forall m n A l k nm anorm (U V : @Mx R) w rv1,
  (nm + 1 = l)%nat -> (l <= k)%nat -> (k < n)%nat -> w nm = 0 -> rv1 l <> 0 ->
  SInv m n A U V w rv1 ->
  (forall t, (l < t <= k)%nat -> rv1 t <> 0) -> (forall t, (l <= t < k)%nat -> w t <> 0) ->
  ((k + 1 < n)%nat -> rv1 (k + 1)%nat = 0) ->
  let cst := cancel ROps 0 m l k nm anorm U w rv1 in
  SInv m n A (cU cst) V (cw cst) (crv1 cst) /\
  (forall t, (t < l \/ k < t)%nat -> cw cst t = w t /\ crv1 cst t = rv1 t) /\
  crv1 cst l = 0 /\
  (forall t, (l < t <= k)%nat -> crv1 cst t <> 0) /\ (forall t, (l <= t < k)%nat -> cw cst t <> 0).
Proof. exact cancel_spec_nz. Qed.

(* PARTIAL CORRECTNESS of svd_mut in exact arithmetic, every m >= n: with the negligibility threshold
   instantiated at eps = 0 (an entry is dropped only when it is exactly zero — with eps > 0 the code
   drops entries of size <= eps*anorm and the factorisation holds only up to that perturbation,
   which is a rounding-level statement and not a theorem here) and regular bidiagonal entries,
   IF svd_mut returns THEN A = U diag(s) V^T with orthonormal U, V, s >= 0 non-increasing.
   Termination (`Some`) within the 30 sweeps per singular value, or at all, is NOT proved: over the
   reals the sweeps converge only in the limit, so for a generic matrix with n >= 2 the exact model
   with eps = 0 returns None; the theorem covers every run that does return. *)
Theorem C01_svd_factorisation_exact : forall (minpos : R) (cs : R -> R -> R) m n (A : @Mx R) st,
  (n <= m)%nat -> 0 < minpos -> cs_spec cs ->
  bd_regular minpos n (svd_bd cs m n A) ->
  svd_mut ROps 0 cs minpos m n A = Some st ->
  orthocols m n (sU st) /\ orthocols n n (sV st) /\
  (forall i k, (i < m)%nat -> (k < n)%nat -> svd_A n (sU st) (sw st) (sV st) i k = A i k) /\
  (forall j, (j < n)%nat -> 0 <= sw st j) /\
  (forall a b, (a <= b)%nat -> (b < n)%nat -> sw st b <= sw st a) /\
  orthorows n (sV st).
Proof. exact svd_mut_correct. Qed.

(* The wide case m <= n as the code handles it: U is m x n with U U^T = I_m (n > m columns cannot be
   orthonormal), V is orthogonal, A = U diag(s) V^T, s >= 0 non-increasing. *)
Theorem C01_svd_factorisation_exact_wide : forall (minpos : R) (cs : R -> R -> R) m n (A : @Mx R) st,
  (m <= n)%nat -> 0 < minpos -> cs_spec cs ->
  bd_regular minpos n (svd_bd cs m n A) ->
  svd_mut ROps 0 cs minpos m n A = Some st ->
  (forall a b, (a < m)%nat -> (b < m)%nat -> rsum n (fun j => sU st a j * sU st b j) = if Nat.eqb a b then 1 else 0) /\
  orthocols n n (sV st) /\ orthorows n (sV st) /\
  (forall i k, (i < m)%nat -> (k < n)%nat -> svd_A n (sU st) (sw st) (sV st) i k = A i k) /\
  (forall j, (j < n)%nat -> 0 <= sw st j) /\
  (forall a b, (a <= b)%nat -> (b < n)%nat -> sw st b <= sw st a).
Proof. exact svd_mut_correct_wide. Qed.

(* The one convergence fact that is proved: a state whose B is already diagonal (rv1 = 0) is accepted at
   once by every iteration of the outer loop, so svd_mut returns.  Nothing is proved about convergence
   when a sweep is actually needed. *)
Theorem C01_svd_diagonal_accepted : forall cs m n anorm (st0 : @svd_st R),
  (forall t, (t < n)%nat -> srv1 st0 t = 0) -> exists st nm, svd_outer cs m n anorm st0 = Some (st, nm).
Proof. exact svd_outer_diag. Qed.

(* SVD::solve end to end, for the factors svd_mut itself computes (no hypothesis on U, s, V other than
   "svd_mut returned them"; the hypothesis on s is the rank decision of solve: every singular value is
   above its threshold or exactly zero): the normal equations hold for A itself ... *)
Theorem C01_svd_solve_lsq_end_to_end : forall eps minpos cs m n p (A b : @Mx R) st,
  (n <= m)%nat -> 0 < minpos -> cs_spec cs -> bd_regular minpos n (svd_bd cs m n A) ->
  svd_mut ROps 0 cs minpos m n A = Some st ->
  (forall j, (j < n)%nat -> svd_tol ROps eps m n (sw st) < sw st j \/ sw st j = 0) ->
  let X := svd_solve ROps eps m n p (sU st) (sw st) (sV st) b in
  forall c k, (c < n)%nat -> (k < p)%nat ->
    rsum m (fun i => A i c * (rsum n (fun t => A i t * X t k) - b i k)) = 0.
Proof. exact svd_solve_lsq_end_to_end. Qed.
(* ... and the solution has minimum norm among all least-squares solutions. *)
Theorem C01_svd_solve_min_norm_end_to_end : forall eps minpos cs m n p (A b : @Mx R) st,
  (n <= m)%nat -> 0 < minpos -> cs_spec cs -> bd_regular minpos n (svd_bd cs m n A) ->
  svd_mut ROps 0 cs minpos m n A = Some st ->
  (forall j, (j < n)%nat -> svd_tol ROps eps m n (sw st) < sw st j \/ sw st j = 0) ->
  let X := svd_solve ROps eps m n p (sU st) (sw st) (sV st) b in
  forall k (y : nat -> R), (k < p)%nat ->
    (forall c, (c < n)%nat -> rsum m (fun i => A i c * (rsum n (fun t => A i t * y t) - b i k)) = 0) ->
    rsum n (fun t => X t k * X t k) <= rsum n (fun t => y t * y t).
Proof. exact svd_solve_min_norm_end_to_end. Qed.

(* the hypotheses are satisfiable: for EVERY column vector (m x 1 matrix) svd_mut returns (there is no
   super-diagonal to iterate on) and a minpos making the bidiagonal entries regular exists ... *)
Example C01_svd_column_instance : forall cs m (A : @Mx R), cs_spec cs -> (1 <= m)%nat ->
  exists minpos st, 0 < minpos /\ bd_regular minpos 1 (svd_bd cs m 1 A) /\
                    svd_mut ROps 0 cs minpos m 1 A = Some st.
Proof. exact svd_column_instance. Qed.
(* ... for EVERY shape (tall, square, wide) the zero matrix is an instance (all skip branches) ... *)
Example C01_svd_zero_instance : forall cs minpos m n,
  bd_regular minpos n (svd_bd cs m n A0) /\ exists st, svd_mut ROps 0 cs minpos m n A0 = Some st.
Proof. exact svd_zero_instance. Qed.
(* ... and an unreduced 2 x 2 block on which a sweep is taken: B = [[1,1],[0,1]], U = V = I *)
Example C01_svd_sweep_instance :
  let w := fun _ : nat => 1 in let rv1 := fun t : nat => if Nat.eqb t 1 then 1 else 0 in
  SInv 2 2 (Bd w rv1) (identity ROps) (identity ROps) w rv1 /\ block_ok 2 0 1 w rv1.
Proof. exact svd_sweep_hyps. Qed.

(* ============================ what is NOT proved (kept visible) ============================ *)
(* The statement first intended for svd_mut quantifies over every eps > 0 and every minpos > 0.  In that
   literal form it is NOT a theorem of the exact-arithmetic model, for two reasons that are visible in
   C01_svd_factorisation_exact above: (1) with eps > 0 the split search and the cancellation loop drop
   super-diagonal entries of size <= eps*anorm that are not zero, so A = U diag(s) V^T holds only up to
   a perturbation of that size; (2) with minpos > 0 a bidiagonal entry 0 < |g| < minpos is treated as
   zero by the accumulation loops (A = [[minpos/2]] gives U = [1], s = [minpos/2], V = [-1], i.e.
   U s V^T = -A).  What is proved instead is the eps = 0 / regular-entries instance
   (C01_svd_factorisation_exact).  What is still missing for a statement about the floating-point
   routine: convergence within 30 sweeps, and a perturbation bound for eps > 0 and for rounding; these are
   validated on every run by the search oracle (svd_reconstruct, svd_U_orthonormal, svd_V_orthonormal,
   svd_s_ordered) and are not theorems. *)
Definition C01_svd_factorisation_full_statement : Prop :=
  forall (eps minpos : R) (cs : R -> R -> R) m n (A : @Mx R) st, (n <= m)%nat -> 0 < eps -> 0 < minpos ->
    (forall a f, cs a f = if Rlt_dec f 0 then - Rabs a else Rabs a) ->
    svd_mut ROps eps cs minpos m n A = Some st ->
    orthocols m n (sU st) /\ orthocols n n (sV st) /\
    (forall i k, (i < m)%nat -> (k < n)%nat -> svd_A n (sU st) (sw st) (sV st) i k = A i k) /\
    (forall j, (j < n)%nat -> 0 <= sw st j) /\
    (forall a b, (a <= b)%nat -> (b < n)%nat -> sw st b <= sw st a).
(* ... and the literal statement is in fact refuted by the model: A = [[1]], minpos = 2, eps = 1 returns
   U = [1], s = [1], V = [-1] (reason (2) above) *)
From SC Require Import C01.Proofs_svd_refute.
Theorem C01_svd_factorisation_full_statement_refuted : ~ C01_svd_factorisation_full_statement.
Proof. exact svd_full_statement_refuted. Qed.

(* the part of the literal statement that was proved first: IF the state handed to the tail has the properties, the result has them *)
Theorem C01_svd_factorisation_partial : forall m n (A : @Mx R) st,
  orthocols m n (sU st) -> orthocols n n (sV st) ->
  (forall i k, (i < m)%nat -> (k < n)%nat -> svd_A n (sU st) (sw st) (sV st) i k = A i k) ->
  (forall j, (j < n)%nat -> 0 <= sw st j) ->
  let st' := svd_post ROps m n st in
  orthocols m n (sU st') /\ orthocols n n (sV st') /\
  (forall i k, (i < m)%nat -> (k < n)%nat -> svd_A n (sU st') (sw st') (sV st') i k = A i k) /\
  (forall j, (j < n)%nat -> 0 <= sw st' j) /\
  (forall a b, (a <= b)%nat -> (b < n)%nat -> sw st' b <= sw st' a).
Proof.
  intros m n A st HU HV HA Hs st'.
  destruct (svd_post_invariant m n st) as (_ & Hprod & Hsort & Hnn & HoU & HoV).
  repeat split; [exact (HoU HU) | exact (HoV HV) | | exact (Hnn Hs) | exact Hsort].
  intros i k Hi Hk. unfold svd_A. rewrite <- (HA i k Hi Hk). unfold svd_A. exact (Hprod i k Hi Hk).
Qed.
