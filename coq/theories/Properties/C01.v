(* C01 — LU / QR / Cholesky / SVD factors and solves. Property theorems only. *)
From Coq Require Import List Arith Bool.
From SC Require Import C01.Model C01.Proofs.
Import ListNotations.

Theorem C01_placeholder : forall (S : Type) (P : nat -> S -> Prop) cnt start f (s : S),
  P 0 s -> (forall c s', c < cnt -> P c s' -> P (Datatypes.S c) (f (start + c) s')) -> P cnt (for_up cnt start f s).
Proof. exact @for_up_inv. Qed.
