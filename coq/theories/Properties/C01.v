(* C01 — LU / QR / Cholesky / SVD factors and solves.  Property theorems only: each is closed by
   `exact <lemma>` (or a few lines assembling lemmas) and its assumptions are printed by the check.
   Statements are about the executable models of SC.C01.Model instantiated at the real numbers
   (`ROps`): they say what the code computes in exact arithmetic, for matrices of EVERY size.  The
   same generic definitions instantiated at binary64 / binary32 are what the correspondence check
   runs against src/linalg/{lu,qr,cholesky,svd}.rs.  Rounding-error bounds are not theorems. *)
From Coq Require Import List Arith Bool ZArith Reals Lra Lia Permutation.
From SC Require Import Base.Num C01.Model C01.Proofs C01.Proofs_chol.
Import ListNotations.
Open Scope R_scope.

(* ======================================= Cholesky ======================================= *)
(* `cholesky n A = Some R0` (the routine returned Ok) with no zero on the diagonal before the last
   row: the lower triangle of A is reproduced by L*L^T (L = chol_L R0, the lower triangle of R0),
   the diagonal is >= 0 and the strict upper triangle of the work matrix is untouched. *)
Theorem C01_chol_exact : forall n (A R0 : @Mx R), cholesky ROps n A = Some R0 ->
  (forall k, (S k < n)%nat -> R0 k k <> 0) ->
  (forall j k, (j < n)%nat -> (k <= j)%nat -> mmul n (chol_L ROps R0) (mtrans (chol_L ROps R0)) j k = A j k) /\
  (forall k, (k < n)%nat -> 0 <= R0 k k) /\
  (forall j k, (j < k)%nat -> R0 j k = A j k).
Proof.
  intros n A R0 H Hd. destruct (chol_exact n A R0 H Hd) as (_ & H2 & H3).
  split; [|split]; [|exact H2|exact H3].
  intros j k Hj Hk. exact (chol_exact_L n A R0 H Hd j k Hj Hk).
Qed.

(* A symmetric positive-definite matrix is always accepted, with a strictly positive diagonal
   (so the hypothesis of C01_chol_exact and C01_chol_solve_exact holds for it). *)
Theorem C01_chol_spd_accepted : forall n (A : @Mx R),
  (forall i j, (i < n)%nat -> (j < n)%nat -> A i j = A j i) ->
  (forall x : nat -> R, (exists i, (i < n)%nat /\ x i <> 0) ->
       0 < rsum n (fun i => rsum n (fun j => x i * A i j * x j))) ->
  exists R0, cholesky ROps n A = Some R0 /\ forall k, (k < n)%nat -> 0 < R0 k k.
Proof. exact chol_spd_some. Qed.

(* "A symmetric matrix with a clearly negative eigenvalue is rejected", in exact arithmetic and in
   both directions: whatever is accepted (with non-zero pivots) is positive semi-definite ... *)
Theorem C01_chol_accepts_only_psd : forall n (A R0 : @Mx R),
  (forall i j, (i < n)%nat -> (j < n)%nat -> A i j = A j i) ->
  cholesky ROps n A = Some R0 -> (forall k, (S k < n)%nat -> R0 k k <> 0) ->
  forall x : nat -> R, 0 <= rsum n (fun i => rsum n (fun j => x i * A i j * x j)).
Proof. exact chol_some_psd. Qed.

(* ... and an Err is returned only at a negative Schur pivot, which a positive-definite matrix does not have. *)
Theorem C01_chol_rejects_only_non_pd : forall n (A : @Mx R), cholesky ROps n A = None ->
  (exists j B, (j < n)%nat /\ chol_cols ROps j A = Some B /\
      (let '(B1, d0) := chol_row ROps j B in B1 j j - d0 < 0)) /\
  ((forall i j, (i < n)%nat -> (j < n)%nat -> A i j = A j i) ->
   ~ (forall x : nat -> R, (exists i, (i < n)%nat /\ x i <> 0) ->
        0 < rsum n (fun i => rsum n (fun j => x i * A i j * x j)))).
Proof.
  intros n A H. split; [exact (chol_none_pivot n A H)|].
  intros Hs. exact (chol_none_not_pd n A Hs H).
Qed.

(* Cholesky::solve: forward and backward substitution with the factor solve A X = b exactly. *)
Theorem C01_chol_solve_exact : forall n bn (A R0 b : @Mx R),
  (forall i j, (i < n)%nat -> (j < n)%nat -> A i j = A j i) ->
  cholesky ROps n A = Some R0 -> (forall k, (k < n)%nat -> R0 k k <> 0) ->
  let X := chol_solve ROps n bn R0 b in
  forall i j, (i < n)%nat -> (j < bn)%nat -> rsum n (fun k => A i k * X k j) = b i j.
Proof. exact chol_solve_exact. Qed.

(* hypotheses are satisfiable: [[4,2],[2,5]] = [[2,0],[1,2]] * [[2,1],[0,2]] *)
Example C01_chol_instance : exists R0,
  cholesky ROps 2 (fun i j => match i, j with 0%nat, 0%nat => 4 | 1%nat, 1%nat => 5 | _, _ => 2 end) = Some R0 /\
  R0 0%nat 0%nat = 2 /\ R0 1%nat 0%nat = 1 /\ R0 1%nat 1%nat = 2.
Proof. exact chol_example. Qed.
