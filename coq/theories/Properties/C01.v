(* C01 — LU / QR / Cholesky / SVD factors and solves.  Property theorems only: each is closed by
   `exact <lemma>` (or a few lines assembling lemmas) and its assumptions are printed by the check.
   Statements are about the executable models of SC.C01.Model instantiated at the real numbers
   (`ROps`): they say what the code computes in exact arithmetic, for matrices of EVERY size.  The
   same generic definitions instantiated at binary64 / binary32 are what the correspondence check
   runs against src/linalg/{lu,qr,cholesky,svd}.rs.  Rounding-error bounds are not theorems. *)
From Coq Require Import List Arith Bool ZArith Reals Lra Lia Permutation.
From SC Require Import Base.Num C01.Model C01.Proofs C01.Proofs_chol.
Import ListNotations.
Open Scope R_scope.

(* ======================================= Cholesky ======================================= *)
(* `cholesky n A = Some R0` (the routine returned Ok) with no zero on the diagonal before the last
   row: the lower triangle of A is reproduced by L*L^T (L = chol_L R0, the lower triangle of R0),
   the diagonal is >= 0 and the strict upper triangle of the work matrix is untouched. *)
Theorem C01_chol_exact : forall n (A R0 : @Mx R), cholesky ROps n A = Some R0 ->
  (forall k, (S k < n)%nat -> R0 k k <> 0) ->
  (forall j k, (j < n)%nat -> (k <= j)%nat -> mmul n (chol_L ROps R0) (mtrans (chol_L ROps R0)) j k = A j k) /\
  (forall k, (k < n)%nat -> 0 <= R0 k k) /\
  (forall j k, (j < k)%nat -> R0 j k = A j k).
Proof.
  intros n A R0 H Hd. destruct (chol_exact n A R0 H Hd) as (_ & H2 & H3).
  split; [|split]; [|exact H2|exact H3].
  intros j k Hj Hk. exact (chol_exact_L n A R0 H Hd j k Hj Hk).
Qed.

(* A symmetric positive-definite matrix is always accepted, with a strictly positive diagonal
   (so the hypothesis of C01_chol_exact and C01_chol_solve_exact holds for it). *)
Theorem C01_chol_spd_accepted : forall n (A : @Mx R),
  (forall i j, (i < n)%nat -> (j < n)%nat -> A i j = A j i) ->
  (forall x : nat -> R, (exists i, (i < n)%nat /\ x i <> 0) ->
       0 < rsum n (fun i => rsum n (fun j => x i * A i j * x j))) ->
  exists R0, cholesky ROps n A = Some R0 /\ forall k, (k < n)%nat -> 0 < R0 k k.
Proof. exact chol_spd_some. Qed.

(* "A symmetric matrix with a clearly negative eigenvalue is rejected", in exact arithmetic and in
   both directions: whatever is accepted (with non-zero pivots) is positive semi-definite ... *)
Theorem C01_chol_accepts_only_psd : forall n (A R0 : @Mx R),
  (forall i j, (i < n)%nat -> (j < n)%nat -> A i j = A j i) ->
  cholesky ROps n A = Some R0 -> (forall k, (S k < n)%nat -> R0 k k <> 0) ->
  forall x : nat -> R, 0 <= rsum n (fun i => rsum n (fun j => x i * A i j * x j)).
Proof. exact chol_some_psd. Qed.

(* ... and an Err is returned only at a negative Schur pivot, which a positive-definite matrix does not have. *)
Theorem C01_chol_rejects_only_non_pd : forall n (A : @Mx R), cholesky ROps n A = None ->
  (exists j B, (j < n)%nat /\ chol_cols ROps j A = Some B /\
      (let '(B1, d0) := chol_row ROps j B in B1 j j - d0 < 0)) /\
  ((forall i j, (i < n)%nat -> (j < n)%nat -> A i j = A j i) ->
   ~ (forall x : nat -> R, (exists i, (i < n)%nat /\ x i <> 0) ->
        0 < rsum n (fun i => rsum n (fun j => x i * A i j * x j)))).
Proof.
  intros n A H. split; [exact (chol_none_pivot n A H)|].
  intros Hs. exact (chol_none_not_pd n A Hs H).
Qed.

(* Cholesky::solve: forward and backward substitution with the factor solve A X = b exactly. *)
Theorem C01_chol_solve_exact : forall n bn (A R0 b : @Mx R),
  (forall i j, (i < n)%nat -> (j < n)%nat -> A i j = A j i) ->
  cholesky ROps n A = Some R0 -> (forall k, (k < n)%nat -> R0 k k <> 0) ->
  let X := chol_solve ROps n bn R0 b in
  forall i j, (i < n)%nat -> (j < bn)%nat -> rsum n (fun k => A i k * X k j) = b i j.
Proof. exact chol_solve_exact. Qed.

(* hypotheses are satisfiable: [[4,2],[2,5]] = [[2,0],[1,2]] * [[2,1],[0,2]] *)
Example C01_chol_instance : exists R0,
  cholesky ROps 2 (fun i j => match i, j with 0%nat, 0%nat => 4 | 1%nat, 1%nat => 5 | _, _ => 2 end) = Some R0 /\
  R0 0%nat 0%nat = 2 /\ R0 1%nat 0%nat = 1 /\ R0 1%nat 1%nat = 2.
Proof. exact chol_example. Qed.

(* ========================================= LU ========================================= *)
From SC Require Import C01.Proofs_lu.

(* lu_mut on EVERY square real matrix (no non-singularity hypothesis is needed: a zero pivot after
   pivoting by largest absolute value means the rest of the column is zero, the division is
   skipped and the factorisation still holds): P*A = L*U entrywise, L unit lower triangular with
   |L_ij| <= 1 (partial pivoting), U upper triangular, the pivot vector a permutation of 0..n-1. *)
Theorem C01_lu_exact : forall (n : nat) (A : @Mx R),
  let st := lu_mut ROps n n A in
  let L := lu_L ROps (lu_A st) in let U := lu_U ROps (lu_A st) in
  (forall i j, (i < n)%nat -> (j < n)%nat -> mmul n L U i j = A (lu_piv st i) j) /\
  (forall i j, (i < n)%nat -> (j < n)%nat -> Rabs (L i j) <= 1) /\
  (forall i, L i i = 1) /\ (forall i j, (i < j)%nat -> L i j = 0) /\
  (forall i j, (j < i)%nat -> U i j = 0) /\
  Permutation (map (lu_piv st) (seq 0 n)) (seq 0 n).
Proof. exact lu_exact. Qed.

(* LU::pivot() is the permutation matrix of the pivot vector: row i has its 1 in column piv i,
   hence (P*A) i j = A (piv i) j, the right-hand side of C01_lu_exact. *)
Theorem C01_lu_pivot_matrix : forall n piv i j, (i < n)%nat ->
  lu_P ROps n piv i j = (if Nat.eqb j (piv i) then 1 else 0).
Proof. exact lu_P_spec. Qed.

(* forward elimination with a unit lower factor and back substitution with an upper factor whose
   diagonal is non-zero solve their triangular systems exactly (shared by the LU and QR solvers) *)
Theorem C01_forward_substitution : forall n bn LU X0, let X1 := lu_forward ROps n bn LU X0 in
  (forall i j, (i < n)%nat -> (j < bn)%nat -> X1 i j + rsum i (fun t => LU i t * X1 t j) = X0 i j) /\
  (forall i j, (n <= i)%nat \/ (bn <= j)%nat -> X1 i j = X0 i j).
Proof. exact lu_forward_spec. Qed.
Theorem C01_back_substitution : forall n bn Uo dg X1, (forall k, (k < n)%nat -> dg k <> 0) ->
  let X2 := back_subst ROps n bn Uo dg X1 in
  (forall i j, (i < n)%nat -> (j < bn)%nat ->
     dg i * X2 i j + rsum (n - S i) (fun t => Uo i (S i + t)%nat * X2 (S i + t)%nat j) = X1 i j) /\
  (forall i j, (n <= i)%nat \/ (bn <= j)%nat -> X2 i j = X1 i j).
Proof. exact back_subst_spec. Qed.

(* lu_solve_mut: whenever it returns (i.e. no exactly zero pivot) the result solves A X = b exactly;
   inverse() returns a right inverse. *)
Theorem C01_lu_solve_exact : forall n bn (A b X : @Mx R), lu_solve_mut ROps n bn A b = Some X ->
  forall i j, (i < n)%nat -> (j < bn)%nat -> rsum n (fun k => A i k * X k j) = b i j.
Proof. exact lu_solve_exact. Qed.
Theorem C01_lu_inverse_exact : forall n (A X : @Mx R),
  (let st := lu_mut ROps n n A in lu_inverse ROps n (lu_A st) (lu_piv st)) = Some X ->
  forall i j, (i < n)%nat -> (j < n)%nat -> mmul n A X i j = (if Nat.eqb i j then 1 else 0).
Proof. exact lu_inverse_exact. Qed.

(* satisfiable and non-trivial: [[1,2],[3,4]] x = [5,6] is solved, and a row swap really happens *)
Example C01_lu_instance : exists X,
  lu_solve_mut ROps 2 1
    (fun i j => match i, j with 0%nat, 0%nat => 1 | 0%nat, _ => 2 | _, 0%nat => 3 | _, _ => 4 end)
    (fun i _ => match i with 0%nat => 5 | _ => 6 end) = Some X.
Proof. exact lu_example. Qed.

(* ========================================= SVD ========================================= *)
From SC Require Import C01.Proofs_svd.

(* SVD::solve for ANY factors with orthonormal columns (this is what the search validates per run for
   the factors svd_mut returns; convergence of the sweeps is not a theorem) such that every singular
   value is either above the routine's threshold or exactly zero: the result satisfies the normal
   equations A^T (A X - b) = 0 for A = U diag(s) V^T  (for square non-singular A this is A X = b;
   for tall A it is the least-squares solution; for rank-deficient A see the next theorem). *)
Theorem C01_svd_solve_lsq : forall eps m n p U s V b,
  orthocols m n U -> orthocols n n V -> orthorows n V ->
  (forall j, (j < n)%nat -> svd_tol ROps eps m n s < s j \/ s j = 0) ->
  let A := svd_A n U s V in let X := svd_solve ROps eps m n p U s V b in
  forall c k, (c < n)%nat -> (k < p)%nat ->
    rsum m (fun i => A i c * (rsum n (fun t => A i t * X t k) - b i k)) = 0.
Proof. exact svd_solve_lsq. Qed.

(* ... and among all solutions of the normal equations it is one of minimum Euclidean norm. *)
Theorem C01_svd_solve_min_norm : forall eps m n p U s V b,
  orthocols m n U -> orthocols n n V -> orthorows n V ->
  (forall j, (j < n)%nat -> svd_tol ROps eps m n s < s j \/ s j = 0) ->
  let A := svd_A n U s V in let X := svd_solve ROps eps m n p U s V b in
  forall k (y : nat -> R), (k < p)%nat ->
    (forall c, (c < n)%nat -> rsum m (fun i => A i c * (rsum n (fun t => A i t * y t) - b i k)) = 0) ->
    rsum n (fun t => X t k * X t k) <= rsum n (fun t => y t * y t).
Proof. exact svd_solve_min_norm. Qed.

(* The tail of svd_mut (shell sort with joint column moves, then sign normalisation) applied to ANY
   state: columns of U, V and the entries of w are jointly permuted and columns jointly negated, so
   U diag(w) V^T is unchanged, orthonormality of the columns and non-negativity of w are preserved,
   and w ends non-increasing. *)
Theorem C01_svd_post_invariant : forall m n st, let st' := svd_post ROps m n st in
  (exists sigma e, col_rel m n st st' sigma e) /\
  (forall i k, (i < m)%nat -> (k < n)%nat ->
     rsum n (fun j => sU st' i j * sw st' j * sV st' k j) = rsum n (fun j => sU st i j * sw st j * sV st k j)) /\
  (forall a b, (a <= b)%nat -> (b < n)%nat -> sw st' b <= sw st' a) /\
  ((forall j, (j < n)%nat -> 0 <= sw st j) -> forall j, (j < n)%nat -> 0 <= sw st' j) /\
  (orthocols m n (sU st) -> orthocols m n (sU st')) /\ (orthocols n n (sV st) -> orthocols n n (sV st')).
Proof. exact svd_post_invariant. Qed.

(* hypotheses of the solve theorems are satisfiable, in the full-rank and in the rank-deficient case *)
Example C01_svd_instance_rank_deficient : forall eps, 0 <= eps <= / 4 ->
  let U := identity ROps in let V := identity ROps in
  let s := fun j : nat => if Nat.eqb j 0 then 2 else 0 in
  orthocols 2 2 U /\ orthocols 2 2 V /\ orthorows 2 V /\
  (forall j, (j < 2)%nat -> svd_tol ROps eps 2 2 s < s j \/ s j = 0).
Proof. exact svd_lsq_hyps_rank_deficient. Qed.
(* the tail really moves columns: w = (1,2), U = V = I ends as w = (2,1) with the columns exchanged *)
Example C01_svd_post_instance :
  let st' := svd_post ROps 2 2 ex_st in
  sw st' 0%nat = 2 /\ sw st' 1%nat = 1 /\
  (forall i j, (i < 2)%nat -> (j < 2)%nat -> sU st' i j = identity ROps i (1 - j)%nat) /\
  (forall i j, (i < 2)%nat -> (j < 2)%nat -> sV st' i j = identity ROps i (1 - j)%nat).
Proof. exact svd_post_example. Qed.

(* ========================================= QR ========================================= *)
From SC Require Import C01.Proofs_qr.

(* QR::R() is upper triangular. *)
Theorem C01_qr_R_upper : forall (QR : @Mx R) tau i j, (j < i)%nat -> qr_R ROps QR tau i j = 0.
Proof. exact qr_R_upper. Qed.

(* qr_mut on EVERY m x n real matrix with n <= m (no rank hypothesis): Q() * R() = A entrywise ... *)
Theorem C01_qr_reconstruct : forall m n (A : @Mx R), (n <= m)%nat ->
  let '(QR, tau) := qr_mut ROps m n A in
  forall i j, (i < m)%nat -> (j < n)%nat -> mmul n (qr_Q ROps m n QR) (qr_R ROps QR tau) i j = A i j.
Proof. exact qr_QR_product. Qed.

(* ... the columns of Q() are orthonormal ... *)
Theorem C01_qr_Q_orthonormal : forall m n (A : @Mx R), (n <= m)%nat ->
  let '(QR, tau) := qr_mut ROps m n A in
  forall a b, (a < n)%nat -> (b < n)%nat ->
    rsum m (fun i => qr_Q ROps m n QR i a * qr_Q ROps m n QR i b) = (if Nat.eqb a b then 1 else 0).
Proof. exact qr_Q_orthonormal. Qed.

(* ... each stored reflection is either skipped (zero column, tau = 0) or satisfies v.v = 2 v_k with
   v_k >= 1 (the sign choice), which makes H_k an orthogonal involution; applying the reflections to
   the input triangularises it: H_{n-1} ... H_0 A = [R; 0]. *)
Theorem C01_qr_householder : forall m n (A : @Mx R), (n <= m)%nat ->
  let '(QR, tau) := qr_mut ROps m n A in
  (forall k, (k < n)%nat ->
     ((forall i, (k <= i < m)%nat -> QR i k = 0) /\ tau k = 0) \/
     (1 <= QR k k /\ rsum (m - k) (fun t => QR (k + t)%nat k ^ 2) = 2 * QR k k /\ tau k <> 0)) /\
  (forall i j, (i < m)%nat -> (j < n)%nat ->
     Qtapp m QR n (fun r => A r j) i = (if (i <=? j)%nat then qr_R ROps QR tau i j else 0)).
Proof.
  intros m n A Hnm. pose proof (qr_reflector_norm m n A Hnm) as H1.
  pose proof (qr_triangularize m n A Hnm) as H2.
  destruct (qr_mut ROps m n A) as [QR tau]. split; assumption.
Qed.
Theorem C01_householder_orthogonal : forall m k (V : @Mx R), refl_ok m k V ->
  (forall x i, Hk m k V (Hk m k V x) i = x i) /\
  (forall x y, dot m (Hk m k V x) (Hk m k V y) = dot m x y).
Proof. intros m k V H. split; [exact (Hk_involutive m k V H)|exact (Hk_dot m k V H)]. Qed.

(* qr_solve_mut: whenever it returns (no exactly zero diagonal entry of R, i.e. full column rank in
   exact arithmetic) the top n rows X of the result satisfy the normal equations A^T (A X - b) = 0:
   the solution for square A, the least-squares solution for tall A. *)
Theorem C01_qr_solve_lsq : forall m n bn (A b X : @Mx R), (n <= m)%nat ->
  qr_solve_mut ROps m n bn A b = Some X ->
  forall k j, (k < n)%nat -> (j < bn)%nat ->
    rsum m (fun i => A i k * (rsum n (fun t => A i t * X t j) - b i j)) = 0.
Proof. exact (qr_solve_lsq_from_back_subst back_subst_spec). Qed.

(* a step that is not skipped: the column (3,4)^T has norm 5 and R(0,0) = tau 0 = -5 *)
Example C01_qr_instance : snd (qr_mut ROps 2 1 ex_A) 0%nat = -5.
Proof. exact qr_example. Qed.

(* ============================ what is NOT proved (kept visible) ============================ *)
(* The body of svd_mut (Householder bidiagonalisation, accumulation, implicit-shift QR sweeps with a
   30-iteration cap) is transliterated in Model.v for the correspondence check only.  The intended
   statement about it — partial correctness in exact arithmetic — is the following proposition; it is
   NOT proved (neither convergence within 30 sweeps nor orthonormality of the accumulated U, V).  What
   is proved about the SVD is C01_svd_post_invariant (the tail preserves exactly these properties of
   whatever the sweeps produced) and C01_svd_solve_lsq / C01_svd_solve_min_norm (the solve is right for
   any factors with these properties); the properties themselves are validated on every run by the
   search oracle (svd_reconstruct, svd_U_orthonormal, svd_V_orthonormal, svd_s_ordered). *)
Definition C01_svd_factorisation_full_statement : Prop :=
  forall (eps minpos : R) (cs : R -> R -> R) m n (A : @Mx R) st, (n <= m)%nat -> 0 < eps -> 0 < minpos ->
    (forall a f, cs a f = if Rlt_dec f 0 then - Rabs a else Rabs a) ->
    svd_mut ROps eps cs minpos m n A = Some st ->
    orthocols m n (sU st) /\ orthocols n n (sV st) /\
    (forall i k, (i < m)%nat -> (k < n)%nat -> svd_A n (sU st) (sw st) (sV st) i k = A i k) /\
    (forall j, (j < n)%nat -> 0 <= sw st j) /\
    (forall a b, (a <= b)%nat -> (b < n)%nat -> sw st b <= sw st a).
(* the part of it that is proved: IF the state handed to the tail has the properties, the result has them *)
Theorem C01_svd_factorisation_partial : forall m n (A : @Mx R) st,
  orthocols m n (sU st) -> orthocols n n (sV st) ->
  (forall i k, (i < m)%nat -> (k < n)%nat -> svd_A n (sU st) (sw st) (sV st) i k = A i k) ->
  (forall j, (j < n)%nat -> 0 <= sw st j) ->
  let st' := svd_post ROps m n st in
  orthocols m n (sU st') /\ orthocols n n (sV st') /\
  (forall i k, (i < m)%nat -> (k < n)%nat -> svd_A n (sU st') (sw st') (sV st') i k = A i k) /\
  (forall j, (j < n)%nat -> 0 <= sw st' j) /\
  (forall a b, (a <= b)%nat -> (b < n)%nat -> sw st' b <= sw st' a).
Proof.
  intros m n A st HU HV HA Hs st'.
  destruct (svd_post_invariant m n st) as (_ & Hprod & Hsort & Hnn & HoU & HoV).
  repeat split; [exact (HoU HU) | exact (HoV HV) | | exact (Hnn Hs) | exact Hsort].
  intros i k Hi Hk. unfold svd_A. rewrite <- (HA i k Hi Hk). unfold svd_A. exact (Hprod i k Hi Hk).
Qed.
