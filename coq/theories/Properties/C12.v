(* C12 — k-means: centroids are cluster means; rows are assigned to the nearest centroid.
   Property theorems only.  All statements are about the executable model SC.C12.Model instantiated
   at the real numbers (`ROps`, exact arithmetic); the correspondence check runs the same generic
   definitions at binary64 (`FOps`) against src/cluster/kmeans.rs and
   src/algorithm/neighbour/bbd_tree.rs, on the implementation's own tree dumps and recorded seedings,
   and evaluates `wf_bbd` (the hypothesis below) and `post_ok` (the hypothesis of
   C12_tree_of_nodes_postorder) on every dumped tree / node vector.
   Notation: `asg memb r` is the label of row r, `lsum f l` the sum of f over the index list l,
   `lcount p l` the number of indices in l satisfying p. *)
From Coq Require Import List Arith Bool Reals Lra Lia.
From SC Require Import Base.Num C12.Model C12.ProofsBase C12.ProofsTree C12.ProofsFilter C12.ProofsKMeans C12.ProofsBuild C12.ProofsKpp C12.ProofsLloyd C12.ProofsFit C12.ProofsPredict C12.ProofsNodes.
Import ListNotations.
Open Scope R_scope.

(* The geometric lemma behind BBDTree::prune: if the test succeeds, every point of the box
   [center - radius, center + radius] is at least as close to `best` as to `test`. *)
Theorem C12_prune_sound : forall center radius centroids best test x,
  length center = length x -> length radius = length x ->
  length (nth best centroids []) = length x -> length (nth test centroids []) = length x ->
  in_box ROps 0 center radius x = true ->
  prune ROps center radius centroids best test = true ->
  sqdist ROps x (nth best centroids []) <= sqdist ROps x (nth test centroids []).
Proof. exact prune_sound. Qed.

(* node_cost identity: on a well-formed (sub)tree the cached (sum, cost) give the exact cost of
   attaching all rows of the node to an arbitrary point c. *)
Theorem C12_node_cost_identity : forall data perm d t c,
  wf_tree ROps 0 data perm d t = true ->
  (forall r, In r (rows_of perm (info_of t)) -> length (nth r data []) = d) -> length c = d ->
  node_cost ROps (info_of t) c = lsum (fun r => sqdist ROps (nth r data []) c) (rows_of perm (info_of t)).
Proof. exact wf_node_cost. Qed.

(* The tree-accelerated assignment step.  On EVERY well-formed tree over the data and for EVERY
   centroid set (coincident centroids, centroids far outside the data, any k >= 1) on which the
   step does not fail for shape reasons, and whatever the incoming buffers contained:
   every row is attached to one of its nearest centroids; sums and counts are exactly the
   per-cluster sums and counts of that assignment; the returned value is its distortion. *)
Theorem C12_filter_exact : forall data perm t centroids sums counts memb dist sums' counts' memb',
  wf_bbd ROps 0 data perm t = true ->
  clustering ROps perm centroids t (sums, counts, memb) = Some (dist, (sums', counts', memb')) ->
  let n := length data in
  let k := length centroids in
  let d := length (hd [] data) in
  length memb' = length memb /\
  (forall r, (r < n)%nat ->
     (asg memb' r < k)%nat /\
     forall j, (j < k)%nat ->
       sqdist ROps (nth r data []) (nth (asg memb' r) centroids []) <= sqdist ROps (nth r data []) (nth j centroids [])) /\
  (forall c q, (c < k)%nat -> (q < d)%nat ->
     nth q (nth c sums' []) 0 =
     lsum (fun r => if (asg memb' r =? c)%nat then nth q (nth r data []) 0 else 0) (seq 0 n)) /\
  (forall c, (c < k)%nat -> nth c counts' 0%nat = lcount (fun r => (asg memb' r =? c)%nat) (seq 0 n)) /\
  length sums' = k /\ length counts' = k /\
  dist = lsum (fun r => sqdist ROps (nth r data []) (nth (asg memb' r) centroids [])) (seq 0 n).
Proof. exact clustering_exact. Qed.

(* ... and that distortion is the one of exhaustive search: no assignment of the rows to these
   centroids has a smaller one (exhaustive search attains the minimum row by row). *)
Theorem C12_filter_distortion_minimal : forall data perm t centroids sums counts memb dist sums' counts' memb' (a : nat -> nat),
  wf_bbd ROps 0 data perm t = true ->
  clustering ROps perm centroids t (sums, counts, memb) = Some (dist, (sums', counts', memb')) ->
  (forall r, (r < length data)%nat -> (a r < length centroids)%nat) ->
  dist <= lsum (fun r => sqdist ROps (nth r data []) (nth (a r) centroids [])) (seq 0 (length data)).
Proof.
  intros data perm t centroids sums counts memb dist sums' counts' memb' a Hwf Hcl Ha.
  destruct (clustering_exact _ _ _ _ _ _ _ _ _ _ _ Hwf Hcl) as [_ H].
  exact (assignment_optimal _ _ _ _ _ _ a H Ha).
Qed.

(* Lloyd bookkeeping of `fit` after the seeding: for every initial assignment, every iteration limit
   >= 1, every value of the "infinite" initial distortion and every well-formed tree, the returned
   model has k centroids; its labels are cluster indices; the sizes are the label counts and sum to
   n; every centroid with members is the mean of the rows last assigned to it. *)
Theorem C12_lloyd_bookkeeping : forall maxv data perm root k max_iter y0 m,
  wf_bbd ROps 0 data perm root = true -> (1 <= max_iter)%nat ->
  lloyd ROps maxv data perm root k max_iter y0 = Some m ->
  let n := length data in
  let d := length (hd [] data) in
  let y := km_y m in
  km_k m = k /\ length (km_centroids m) = k /\ length (km_size m) = k /\
  (forall r, (r < n)%nat -> (asg y r < k)%nat) /\
  (forall c, (c < k)%nat -> nth c (km_size m) 0%nat = lcount (fun r => (asg y r =? c)%nat) (seq 0 n)) /\
  list_sum (km_size m) = n /\
  (forall c q, (c < k)%nat -> (q < d)%nat -> (0 < nth c (km_size m) 0)%nat ->
     nth q (nth c (km_centroids m) []) 0 =
     lsum (fun r => if (asg y r =? c)%nat then nth q (nth r data []) 0 else 0) (seq 0 n)
     / INR (nth c (km_size m) 0%nat)).
Proof. exact lloyd_bookkeeping. Qed.

(* predict: the returned index is a centroid at minimal squared Euclidean distance, provided some
   centroid is closer than the initial `max_value` (over floats: some distance is finite). *)
Theorem C12_predict_nearest : forall maxv cents row,
  (exists j, (j < length cents)%nat /\ sqdist ROps row (nth j cents []) < maxv) ->
  (predict_row ROps maxv cents row < length cents)%nat /\
  forall j, (j < length cents)%nat ->
    sqdist ROps row (nth (predict_row ROps maxv cents row) cents []) <= sqdist ROps row (nth j cents []).
Proof. exact predict_nearest. Qed.

(* KMeans::predict on a whole query matrix, with the tie-breaking of the code: the label of EVERY row
   of x is an index < k (k = number of centroids predict looks at: the first km_k of km_centroids)
   whose squared Euclidean distance to the row is <= that of every other centroid, and it is the
   SMALLEST index among the minimisers (the loop runs j = 0..k-1 with the strict `dist < min_dist`,
   so a later centroid at the same distance never replaces an earlier one).  The three clauses
   determine the label (ProofsPredict.predict_row_unique).  Hypothesis as in C12_predict_nearest:
   for every row some centroid is closer than the initial `T::max_value()` (in particular k >= 1;
   over floats: some squared distance is finite and below f64::MAX). *)
Theorem C12_predict_argmin : forall maxv (m : kmeans (T := R)) (x : list (list R)),
  let cents := firstn (km_k m) (km_centroids m) in
  (forall i, (i < length x)%nat ->
     exists j, (j < length cents)%nat /\ sqdist ROps (nth i x []) (nth j cents []) < maxv) ->
  length (predict ROps maxv m x) = length x /\
  forall i, (i < length x)%nat ->
    let b := nth i (predict ROps maxv m x) 0%nat in
    let row := nth i x [] in
    (b < length cents)%nat /\
    (forall j, (j < length cents)%nat -> sqdist ROps row (nth b cents []) <= sqdist ROps row (nth j cents [])) /\
    (forall j, (j < b)%nat -> sqdist ROps row (nth b cents []) < sqdist ROps row (nth j cents [])).
Proof. exact predict_argmin. Qed.

(* the one-row form of the same statement (for every centroid list and every row) *)
Theorem C12_predict_row_argmin : forall maxv cents row,
  (exists j, (j < length cents)%nat /\ sqdist ROps row (nth j cents []) < maxv) ->
  let b := predict_row ROps maxv cents row in
  (b < length cents)%nat /\
  (forall j, (j < length cents)%nat -> sqdist ROps row (nth b cents []) <= sqdist ROps row (nth j cents [])) /\
  (forall j, (j < b)%nat -> sqdist ROps row (nth b cents []) < sqdist ROps row (nth j cents [])).
Proof. exact predict_row_argmin. Qed.

(* Comparing squared distances is legitimate OVER R: the labels do not change when every distance
   (and the initial max_value) is passed through a function that is strictly increasing on [0, oo)
   before it is compared (`predict_by f`: the same loop with keys f(squared distance)) ... *)
Theorem C12_predict_monotone_invariant : forall (f : R -> R) maxv (m : kmeans (T := R)) x,
  (forall a b, 0 <= a -> 0 <= b -> a < b -> f a < f b) -> 0 <= maxv ->
  predict_by f maxv m x = predict ROps maxv m x.
Proof. exact predict_by_eq. Qed.

(* ... in particular through sqrt, i.e. when the Euclidean distance `Distance::distance` =
   squared_distance(..).sqrt() is compared instead of `Euclidian::squared_distance`; hence (with
   C12_predict_argmin) the label is the first centroid at minimal EUCLIDEAN distance, which is what
   the property's text says.
   NOT true over floats: sqrt is monotone but not injective on binary64/f32 (adjacent floats in
   [2^52,2^53)*4^e often share their correctly rounded square root), so after sqrt a strictly closer
   centroid with a larger index can lose against the strict `<`: the variant is not bit-equivalent
   to the code (seeded/C12f_1/notes.md; caught by the search family predict-exact-near-tie, not by
   this theorem). *)
Theorem C12_predict_sqrt_invariant : forall maxv (m : kmeans (T := R)) x,
  0 <= maxv -> predict_by sqrt maxv m x = predict ROps maxv m x.
Proof. exact predict_sqrt_eq. Qed.

(* ---- the flat node vector exported by the hook vs. the inductive tree of the theorems ----
   Generic in the element type.  `nodes_ok`: every entry is a leaf or has two children with smaller
   indices (children are stored before their parent).  On every such vector tree_of_nodes succeeds
   from every index with any fuel > index (the correspondence uses S (length nodes)), the result is
   the tree obtained by following the child indices as BBDTree::filter does (`decodes`), and it does
   not depend on the fuel. *)
Theorem C12_tree_of_nodes_total : forall (T : Type) (nodes : list (raw_node (T := T))),
  nodes_ok nodes = true ->
  forall id, (id < length nodes)%nat ->
  exists t, decodes nodes id t /\
            (forall t', decodes nodes id t' -> t' = t) /\
            forall fuel, (id < fuel)%nat -> tree_of_nodes fuel nodes id = Some t.
Proof.
  intros T nodes Hok id Hid. destruct (decode_total nodes Hok id Hid) as (t & Hd & Hf).
  exists t. split; [exact Hd|]. split; [|exact Hf]. intros t' Hd'. exact (decodes_unique nodes id t' Hd' t Hd).
Qed.

(* whatever tree_of_nodes returns (any vector, any fuel) is the tree read off the child indices *)
Theorem C12_tree_of_nodes_follows_indices : forall (T : Type) (nodes : list (raw_node (T := T))) fuel id t,
  tree_of_nodes fuel nodes id = Some t -> decodes nodes id t.
Proof. intros T nodes. exact (tree_of_nodes_decodes nodes). Qed.

(* BBDTree::build_node pushes lower subtree, upper subtree, node: the vector is the post-order listing
   `nodes_of 0 t`.  For EVERY tree t that listing satisfies the index invariant and the post-order
   check, has tree_size t entries, and tree_of_nodes gives back exactly t from its last index. *)
Theorem C12_nodes_roundtrip : forall (T : Type) (t : bbd (T := T)),
  let nodes := nodes_of 0 t in
  nodes_ok nodes = true /\ post_ok nodes = true /\ length nodes = tree_size t /\
  tree_of_nodes (S (length nodes)) nodes (length nodes - 1) = Some t.
Proof.
  intros T t. destruct (nodes_of_roundtrip t) as (A & B & _ & D).
  split; [exact A|]. split; [apply post_ok_complete|]. split; [exact B | exact D].
Qed.

(* conversely, on EVERY vector passing the post-order check `post_ok` (stack machine over the child
   indices: a leaf pushes its index; an inner node must find its upper, then its lower child on top
   of the stack and replaces them by its own index; exactly the last index remains) tree_of_nodes
   succeeds with the correspondence's fuel from the last index, the tree has as many nodes as the
   vector, and the vector is the post-order listing of that tree (so no entry is unreachable or
   shared) *)
Theorem C12_tree_of_nodes_postorder : forall (T : Type) (nodes : list (raw_node (T := T))),
  post_ok nodes = true ->
  exists t, tree_of_nodes (S (length nodes)) nodes (length nodes - 1) = Some t /\
            tree_size t = length nodes /\ nodes = nodes_of 0 t /\ nodes_ok nodes = true.
Proof. intros T nodes. exact (post_ok_decode nodes). Qed.

(* hence OVER R the filtering-search theorems apply to the vector the construction stores: the tree
   decoded from the post-order listing of a built tree is well-formed over the data
   (C12_filter_exact / C12_lloyd_bookkeeping then apply to it) *)
Theorem C12_stored_tree_wf : forall data t perm,
  (forall r, In r data -> length r = length (hd [] data)) ->
  (forall r1 r2, (r1 < length data)%nat -> (r2 < length data)%nat -> nth r1 data [] <> nth r2 data [] ->
     exists q, Rabs (nth q (nth r1 data []) 0 - nth q (nth r2 data []) 0) >= 2 / 10000000000) ->
  build ROps data = Some (t, perm) ->
  let nodes := nodes_of 0 t in
  post_ok nodes = true /\ tree_size t = length nodes /\
  exists t', tree_of_nodes (S (length nodes)) nodes (length nodes - 1) = Some t' /\
             wf_bbd ROps 0 data perm t' = true.
Proof.
  intros data t perm Hrect Hsep Hb. destruct (nodes_of_roundtrip t) as (_ & B & _ & D).
  split; [apply post_ok_complete|]. split; [symmetry; exact B|].
  exists t. split; [exact D | exact (build_wf _ _ _ Hrect Hsep Hb)].
Qed.

(* ---- tree construction: BBDTree::new / build_node, OVER THE REALS (model at ROps) ----
   Every tree the construction returns is well-formed, so C12_filter_exact / C12_lloyd_bookkeeping
   apply to every BUILT tree, not only to trees whose dump passed the per-run wf check.
   Hypotheses: the data form a matrix (all rows have the same length — always true of a Rust
   `Matrix`; the earlier draft of this statement lacked it and is false for ragged lists, e.g.
   [[0]; [0; 5]] builds a one-coordinate leaf) and distinct rows differ by at least 2e-10 in some
   coordinate (the leaf rule `radius < 1e-10` is absolute and merges closer rows: known finding
   bbd-leaf-threshold-absolute).
   This is a theorem about exact arithmetic.  Over R the cutoff (l+u)/2 of the widest coordinate
   satisfies l < cutoff < u, so both sides of every split are non-empty, the partition loop never
   underflows and the recursion terminates (C12_build_total).  Over binary64 that is FALSE: the
   midpoint of two adjacent floats rounds to the lower one, one side is empty and the code recurses
   without bound or underflows an index (known finding bbd-adjacent-float-split).  For the
   implementation the link remains the per-run correspondence (build / build_node groups: the model
   at FOps reproduces the dumped node vector and index permutation bit for bit) and wf_on_dump. *)
Theorem C12_build_wf : forall data t perm,
    (forall r, In r data -> length r = length (hd [] data)) ->
    (forall r1 r2, (r1 < length data)%nat -> (r2 < length data)%nat -> nth r1 data [] <> nth r2 data [] ->
       exists q, Rabs (nth q (nth r1 data []) 0 - nth q (nth r2 data []) 0) >= 2 / 10000000000) ->
    build ROps data = Some (t, perm) -> wf_bbd ROps 0 data perm t = true.
Proof. exact build_wf. Qed.

(* over R the construction never fails on a non-empty matrix: no index underflow in the partition
   loop, no empty side, and the fuel 2n+2 of the model is never exhausted *)
Theorem C12_build_total : forall data,
    (1 <= length data)%nat -> (forall r, In r data -> length r = length (hd [] data)) ->
    exists t perm, build ROps data = Some (t, perm).
Proof. exact build_total. Qed.

(* hence the assignment step is exact on every built tree (C12_filter_exact without the wf hypothesis) *)
Theorem C12_built_filter_exact : forall data perm t centroids sums counts memb dist sums' counts' memb',
  (forall r, In r data -> length r = length (hd [] data)) ->
  (forall r1 r2, (r1 < length data)%nat -> (r2 < length data)%nat -> nth r1 data [] <> nth r2 data [] ->
     exists q, Rabs (nth q (nth r1 data []) 0 - nth q (nth r2 data []) 0) >= 2 / 10000000000) ->
  build ROps data = Some (t, perm) ->
  clustering ROps perm centroids t (sums, counts, memb) = Some (dist, (sums', counts', memb')) ->
  let n := length data in
  let k := length centroids in
  let d := length (hd [] data) in
  length memb' = length memb /\
  (forall r, (r < n)%nat ->
     (asg memb' r < k)%nat /\
     forall j, (j < k)%nat ->
       sqdist ROps (nth r data []) (nth (asg memb' r) centroids []) <= sqdist ROps (nth r data []) (nth j centroids [])) /\
  (forall c q, (c < k)%nat -> (q < d)%nat ->
     nth q (nth c sums' []) 0 =
     lsum (fun r => if (asg memb' r =? c)%nat then nth q (nth r data []) 0 else 0) (seq 0 n)) /\
  (forall c, (c < k)%nat -> nth c counts' 0%nat = lcount (fun r => (asg memb' r =? c)%nat) (seq 0 n)) /\
  length sums' = k /\ length counts' = k /\
  dist = lsum (fun r => sqdist ROps (nth r data []) (nth (asg memb' r) centroids [])) (seq 0 n).
Proof.
  intros data perm t centroids sums counts memb dist sums' counts' memb' Hrect Hsep Hb Hcl.
  exact (clustering_exact _ _ _ _ _ _ _ _ _ _ _ (build_wf _ _ _ Hrect Hsep Hb) Hcl).
Qed.

(* ---- k-means++ seeding given its draws, OVER THE REALS ----
   If the data (a matrix) contain k distinct rows and every draw r = rng.gen::<f64>() lies in (0, 1],
   every seed is a row at positive distance from all earlier seeds and the returned assignment gives
   each label 0..k-1 to at least one row: no cluster is empty after seeding (so the first division
   sums/size in `fit` is by a positive count).  Differences from the earlier draft statement: the
   matrix hypothesis is added (for ragged lists squared_distance truncates and distinct rows can be at
   distance 0), and the draft's `forall c, sqdist row c < maxv` (unsatisfiable over R) is replaced by
   the weaker `0 < maxv`, which is all the proof needs.
   r > 0 is necessary: with r = 0 the cutoff is 0 and `cost >= cutoff` already holds at index 0, so row
   0 is picked even if it is a seed (gen::<f64>() is uniform on [0,1): probability 2^-53 per draw).
   Exact arithmetic is used in `cost_before < cutoff <= cost_before + d[index]  ==>  d[index] > 0`;
   over binary64 a tiny addend can be absorbed, so this is a theorem about the model at ROps; the
   implementation is tied to it per run by `kmeans_plus_plus_replayed` and the search. *)
Theorem C12_kmeanspp_nonempty : forall maxv data k first rs y chosen,
    (forall r, In r data -> length r = length (hd [] data)) ->
    (2 <= k)%nat -> length rs = (k - 1)%nat -> Forall (fun r => 0 < r <= 1) rs ->
    0 < maxv ->
    (exists rows, NoDup (map (fun r => nth r data []) rows) /\ length rows = k /\
                  forall r, In r rows -> (r < length data)%nat) ->
    kmeans_plus_plus ROps maxv data k first (map Frac rs) = Some (y, chosen) ->
    forall c, (c < k)%nat -> exists r, (r < length data)%nat /\ nth r y 0%nat = c.
Proof. exact kmeanspp_nonempty. Qed.

(* ... and under the same hypotheses the seeding does not fail (the picked index is always < n) *)
Theorem C12_kmeanspp_total : forall maxv data k first rs,
    (forall r, In r data -> length r = length (hd [] data)) ->
    (2 <= k)%nat -> length rs = (k - 1)%nat -> Forall (fun r => 0 < r <= 1) rs ->
    0 < maxv ->
    (exists rows, NoDup (map (fun r => nth r data []) rows) /\ length rows = k /\
                  forall r, In r rows -> (r < length data)%nat) ->
    (first < length data)%nat ->
    exists y chosen, kmeans_plus_plus ROps maxv data k first (map Frac rs) = Some (y, chosen).
Proof. exact kmeanspp_total. Qed.

(* ---- one Lloyd iteration does not increase the distortion, OVER THE REALS ----
   Two consecutive iterations of the loop in `fit` (lloyd_loop): the assignment step for the centroids
   `cent` returns dist1 and (sums1, counts1, ...); the centroids are updated from these
   (update_centroids: mean of every non-empty cluster, unchanged otherwise); the next assignment step
   returns dist2.  Then dist2 <= dist1: the assignment step is optimal (C12_filter_exact) and the
   mean minimises the sum of squared distances within each cluster.  Whatever buffers are passed to
   the second call (the loop passes sums1, counts1, memb1).  Hence over R the test
   `distortion <= dist` of the loop can only fire with equality from the second iteration on.
   Over binary64 the two sides are rounded sums and the inequality can fail by rounding; that is
   outside this theorem. *)
Theorem C12_lloyd_step_monotone :
  forall data perm t cent sums counts memb dist1 sums1 counts1 memb1 sums' counts' memb' dist2 sums2 counts2 memb2,
  wf_bbd ROps 0 data perm t = true ->
  clustering ROps perm cent t (sums, counts, memb) = Some (dist1, (sums1, counts1, memb1)) ->
  clustering ROps perm (update_centroids ROps cent sums1 counts1) t (sums', counts', memb')
    = Some (dist2, (sums2, counts2, memb2)) ->
  dist2 <= dist1.
Proof. exact lloyd_step_monotone. Qed.

(* ---- KMeans::fit after the seeding, end to end OVER THE REALS: tree construction + Lloyd loop ----
   C12_lloyd_bookkeeping without the well-formedness hypothesis: the tree is the one the model of
   BBDTree::new builds over the data (C12_build_wf).  Ok(m) is only returned for k >= 2 and
   max_iter >= 1.  Same caveat as C12_build_wf: exact arithmetic; rows at least 2e-10 apart. *)
Theorem C12_fit_bookkeeping : forall maxv data k max_iter y0 m,
  (forall r, In r data -> length r = length (hd [] data)) ->
  (forall r1 r2, (r1 < length data)%nat -> (r2 < length data)%nat -> nth r1 data [] <> nth r2 data [] ->
     exists q, Rabs (nth q (nth r1 data []) 0 - nth q (nth r2 data []) 0) >= 2 / 10000000000) ->
  fit ROps maxv data k max_iter y0 = Some (Some m) ->
  let n := length data in
  let d := length (hd [] data) in
  let y := km_y m in
  (2 <= k)%nat /\ (1 <= max_iter)%nat /\
  km_k m = k /\ length (km_centroids m) = k /\ length (km_size m) = k /\
  (forall r, (r < n)%nat -> (asg y r < k)%nat) /\
  (forall c, (c < k)%nat -> nth c (km_size m) 0%nat = lcount (fun r => (asg y r =? c)%nat) (seq 0 n)) /\
  list_sum (km_size m) = n /\
  (forall c q, (c < k)%nat -> (q < d)%nat -> (0 < nth c (km_size m) 0)%nat ->
     nth q (nth c (km_centroids m) []) 0 =
     lsum (fun r => if (asg y r =? c)%nat then nth q (nth r data []) 0 else 0) (seq 0 n)
     / INR (nth c (km_size m) 0%nat)).
Proof. exact fit_bookkeeping. Qed.

(* ---- the hypotheses are satisfiable: two rows 0 and 2 on a line, the tree build_node makes ---- *)
Definition ex_data : list (list R) := [[0]; [2]].
Definition ex_tree : bbd (T := R) :=
  Split (mkInfo 2 0 [1] [1] [2] 2) (Leaf (mkInfo 1 0 [0] [0] [0] 0)) (Leaf (mkInfo 1 1 [2] [0] [2] 0)).

Ltac rbool :=
  repeat (apply andb_true_intro; split);
  try reflexivity;
  try (apply Rleb_true; cbn; lra);
  try (apply Reqb_true; cbn; lra).

Example C12_ex_wf : wf_bbd ROps 0 ex_data [0; 1]%nat ex_tree = true.
Proof.
  unfold wf_bbd, ex_data, ex_tree.
  cbn [wf_tree info_of n_count n_index n_center n_radius n_sum n_cost length hd forallb is_perm seq existsb
       rows_of map nth all2 in_box vadd node_cost scatter_loop oofnat info_shape
       oadd osub omul odiv oleb oeqb oofZ o0 ROps Z.of_nat Pos.of_succ_nat Pos.succ Nat.ltb Nat.leb Nat.eqb Nat.add].
  rbool.
Qed.

(* the assignment step succeeds on it for the centroid set {0, 3} (any incoming buffers) *)
Example C12_ex_clustering : exists res,
  clustering ROps [0; 1]%nat [[0]; [3]] ex_tree ([[5]; [5]], [7; 7]%nat, [9; 9]%nat) = Some res.
Proof. eexists. unfold clustering. change (shape_ok _ _ _ _) with true. cbv iota. reflexivity. Qed.

(* one Lloyd iteration from the initial assignment [0; 1] returns a model *)
Example C12_ex_lloyd : exists m, lloyd ROps 1000 ex_data [0; 1]%nat ex_tree 2 1 [0; 1]%nat = Some m.
Proof.
  unfold lloyd.
  cbn [length ex_data Nat.eqb negb hd init_acc repeat Nat.ltb Nat.leb upd nth vadd map2 combine map fst snd].
  cbn [lloyd_loop]. unfold clustering. change (shape_ok _ _ _ _) with true. cbv iota.
  match goal with |- context [filter ROps ?p ?c ?t ?cs ?s] => destruct (filter ROps p c t cs s) as [dist [[sums' size'] y']] end.
  destruct (oleb ROps 1000 dist); eexists; reflexivity.
Qed.

(* prune succeeds for best = 0, test = 3 on the box [0, 1] (centre 1/2, radius 1/2) *)
Example C12_ex_prune :
  in_box ROps 0 [1/2] [1/2] [1] = true /\ prune ROps [1/2] [1/2] [[0]; [3]] 0 1 = true.
Proof.
  split.
  - cbn [in_box oleb osub oadd ROps]. rbool.
  - unfold prune. cbn [Nat.eqb nth prune_loop oltb osub oadd omul o0 ROps].
    replace (Rltb 0 (3 - 0)) with true by (symmetry; apply Rltb_true; lra).
    cbn [oleb omul ROps]. rewrite two_R. apply Rleb_true. lra.
Qed.

Example C12_ex_predict : exists j, (j < length [[0]; [3]])%nat /\ sqdist ROps [1] (nth j [[0]; [3]] []) < 1000.
Proof. exists 0%nat. split; [simpl; lia|]. cbn. lra. Qed.

(* the hypotheses of C12_build_wf / C12_built_filter_exact are satisfiable: ex_data is a matrix, its
   rows are 2 apart, and the construction returns a tree over it *)
Example C12_ex_build :
  (forall r, In r ex_data -> length r = length (hd [] ex_data)) /\
  (forall r1 r2, (r1 < length ex_data)%nat -> (r2 < length ex_data)%nat -> nth r1 ex_data [] <> nth r2 ex_data [] ->
     exists q, Rabs (nth q (nth r1 ex_data []) 0 - nth q (nth r2 ex_data []) 0) >= 2 / 10000000000) /\
  exists t perm, build ROps ex_data = Some (t, perm).
Proof.
  assert (Hrect : forall r, In r ex_data -> length r = length (hd [] ex_data)).
  { intros r [<-|[<-|[]]]; reflexivity. }
  split; [exact Hrect|]. split.
  - intros r1 r2 H1 H2 Hne.
    destruct r1 as [|[|r1]]; destruct r2 as [|[|r2]]; cbn [ex_data length] in H1, H2; try lia;
      try (exfalso; apply Hne; reflexivity); exists 0%nat; cbn [ex_data nth];
      unfold Rabs; destruct (Rcase_abs _); lra.
  - apply C12_build_total; [cbn; lia | exact Hrect].
Qed.

(* the hypotheses of C12_kmeanspp_nonempty are satisfiable: ex_data has 2 distinct rows; k = 2, first
   row 1, draw 1/2 *)
Example C12_ex_kmeanspp :
  (forall r, In r ex_data -> length r = length (hd [] ex_data)) /\
  Forall (fun r => 0 < r <= 1) [1/2] /\
  (exists rows, NoDup (map (fun r => nth r ex_data []) rows) /\ length rows = 2%nat /\
                forall r, In r rows -> (r < length ex_data)%nat) /\
  exists y chosen, kmeans_plus_plus ROps 1000 ex_data 2 1 (map Frac [1/2]) = Some (y, chosen).
Proof.
  assert (Hrect : forall r, In r ex_data -> length r = length (hd [] ex_data)).
  { intros r [<-|[<-|[]]]; reflexivity. }
  assert (Hrs : Forall (fun r => 0 < r <= 1) [1/2]) by (constructor; [lra | constructor]).
  assert (Hrows : exists rows, NoDup (map (fun r => nth r ex_data []) rows) /\ length rows = 2%nat /\
                               forall r, In r rows -> (r < length ex_data)%nat).
  { exists [0; 1]%nat. split; [|split; [reflexivity|]].
    - cbn [map nth ex_data]. constructor; [|constructor; [intros []|constructor]].
      intros [E|[]]. inversion E. lra.
    - intros r [<-|[<-|[]]]; cbn; lia. }
  split; [exact Hrect|]. split; [exact Hrs|]. split; [exact Hrows|].
  apply C12_kmeanspp_total; auto; try lra; cbn; lia.
Qed.

(* the hypotheses of C12_lloyd_step_monotone are satisfiable (with C12_ex_wf): two consecutive
   assignment steps on ex_tree starting from the single centroid 1 *)
Example C12_ex_lloyd_step : exists dist1 s1 c1 m1 res2,
  clustering ROps [0; 1]%nat [[1]] ex_tree ([[5]], [7]%nat, [9; 9]%nat) = Some (dist1, (s1, c1, m1)) /\
  clustering ROps [0; 1]%nat (update_centroids ROps [[1]] s1 c1) ex_tree (s1, c1, m1) = Some res2.
Proof.
  unfold clustering at 1. change (shape_ok _ _ _ _) with true. cbv iota.
  cbn [filter ex_tree length seq find_closest closest_loop snd List.filter prune Nat.eqb negb Nat.ltb Nat.leb
       assign_node map n_sum n_count n_index nth upd vadd set_range Nat.add].
  do 5 eexists. split; [reflexivity|].
  unfold clustering. cbn [update_centroids Nat.ltb Nat.leb map].
  change (shape_ok _ _ _ _) with true. cbv iota. reflexivity.
Qed.

(* the hypotheses of C12_fit_bookkeeping are satisfiable: on two identical rows (a matrix, trivially
   separated) fit returns a model for k = 2, one iteration, initial assignment [0; 1] *)
Example C12_ex_fit :
  (forall r, In r ex_dup -> length r = length (hd [] ex_dup)) /\
  (forall r1 r2, (r1 < length ex_dup)%nat -> (r2 < length ex_dup)%nat -> nth r1 ex_dup [] <> nth r2 ex_dup [] ->
     exists q, Rabs (nth q (nth r1 ex_dup []) 0 - nth q (nth r2 ex_dup []) 0) >= 2 / 10000000000) /\
  exists m, fit ROps 1000 ex_dup 2 1 [0; 1]%nat = Some (Some m).
Proof.
  split; [intros r [<-|[<-|[]]]; reflexivity|]. split; [|exact ex_dup_fit].
  intros r1 r2 H1 H2 Hne. exfalso. apply Hne.
  destruct r1 as [|[|r1]]; destruct r2 as [|[|r2]]; cbn [ex_dup length] in H1, H2; try lia; reflexivity.
Qed.

(* the hypothesis of C12_predict_argmin is satisfiable: three centroids 3, 0, 3 (two coincident), query
   rows 1 and 3; the second row is at distance 0 from centroids 0 and 2 and gets label 0 *)
Example C12_ex_predict_matrix :
  let m := mkKMeans 3 [] [] 0 [[3]; [0]; [3]] in
  let x := [[1]; [3]] in
  forall i, (i < length x)%nat ->
    exists j, (j < length (firstn (km_k m) (km_centroids m)))%nat /\
              sqdist ROps (nth i x []) (nth j (firstn (km_k m) (km_centroids m)) []) < 1000.
Proof. exact ex_predict_hyp. Qed.

(* sqrt satisfies the hypothesis of C12_predict_monotone_invariant *)
Example C12_ex_sqrt_increasing : forall a b, 0 <= a -> 0 <= b -> a < b -> sqrt a < sqrt b.
Proof. exact sqrt_increasing_on_nonneg. Qed.

(* a three-node vector satisfying nodes_ok and post_ok *)
Example C12_ex_nodes : nodes_ok ex_nodes = true /\ post_ok ex_nodes = true /\ (2 < length ex_nodes)%nat.
Proof. split; [reflexivity|]. split; [reflexivity|]. cbn. lia. Qed.
