(* placeholder while the pipeline is brought up *)
From Coq Require Import List.
From SC Require Import C12.Model.
Theorem C12_placeholder : forall (l : list nat) i, length (upd l i 0) = length l.
Proof. induction l; destruct i; simpl; auto. Qed.
