(* C12 — k-means: centroids are cluster means; rows are assigned to the nearest centroid.
   Property theorems only.  All statements are about the executable model SC.C12.Model instantiated
   at the real numbers (`ROps`, exact arithmetic); the correspondence check runs the same generic
   definitions at binary64 (`FOps`) against src/cluster/kmeans.rs and
   src/algorithm/neighbour/bbd_tree.rs, on the implementation's own tree dumps and recorded seedings,
   and evaluates `wf_bbd` (the hypothesis below) and `post_ok` (the hypothesis of
   C12_tree_of_nodes_postorder) on every dumped tree / node vector.
   Notation: `asg memb r` is the label of row r, `lsum f l` the sum of f over the index list l,
   `lcount p l` the number of indices in l satisfying p. *)
From Coq Require Import List Arith Bool Reals Lra Lia.
From SC Require Import Base.Num C12.Model C12.ProofsBase C12.ProofsTree C12.ProofsFilter C12.ProofsKMeans C12.ProofsBuild C12.ProofsKpp C12.ProofsLloyd C12.ProofsFit C12.ProofsPredict C12.ProofsNodes.
Import ListNotations.
Open Scope R_scope.

(* The geometric lemma behind BBDTree::prune: if the test succeeds, every point of the box
   [center - radius, center + radius] is at least as close to `best` as to `test`. *)
Theorem C12_prune_sound : forall center radius centroids best test x,
  length center = length x -> length radius = length x ->
  length (nth best centroids []) = length x -> length (nth test centroids []) = length x ->
  in_box ROps 0 center radius x = true ->
  prune ROps center radius centroids best test = true ->
  sqdist ROps x (nth best centroids []) <= sqdist ROps x (nth test centroids []).
Proof. exact prune_sound. Qed.

(* node_cost identity: on a well-formed (sub)tree the cached (sum, cost) give the exact cost of
   attaching all rows of the node to an arbitrary point c. *)
Theorem C12_node_cost_identity : forall data perm d t c,
  wf_tree ROps 0 data perm d t = true ->
  (forall r, In r (rows_of perm (info_of t)) -> length (nth r data []) = d) -> length c = d ->
  node_cost ROps (info_of t) c = lsum (fun r => sqdist ROps (nth r data []) c) (rows_of perm (info_of t)).
Proof. exact wf_node_cost. Qed.

(* The tree-accelerated assignment step.  On EVERY well-formed tree over the data and for EVERY
   centroid set (coincident centroids, centroids far outside the data, any k >= 1) on which the
   step does not fail for shape reasons, and whatever the incoming buffers contained:
   every row is attached to one of its nearest centroids; sums and counts are exactly the
   per-cluster sums and counts of that assignment; the returned value is its distortion. *)
Theorem C12_filter_exact : forall data perm t centroids sums counts memb dist sums' counts' memb',
  wf_bbd ROps 0 data perm t = true ->
  clustering ROps perm centroids t (sums, counts, memb) = Some (dist, (sums', counts', memb')) ->
  let n := length data in
  let k := length centroids in
  let d := length (hd [] data) in
  length memb' = length memb /\
  (forall r, (r < n)%nat ->
     (asg memb' r < k)%nat /\
     forall j, (j < k)%nat ->
       sqdist ROps (nth r data []) (nth (asg memb' r) centroids []) <= sqdist ROps (nth r data []) (nth j centroids [])) /\
  (forall c q, (c < k)%nat -> (q < d)%nat ->
     nth q (nth c sums' []) 0 =
     lsum (fun r => if (asg memb' r =? c)%nat then nth q (nth r data []) 0 else 0) (seq 0 n)) /\
  (forall c, (c < k)%nat -> nth c counts' 0%nat = lcount (fun r => (asg memb' r =? c)%nat) (seq 0 n)) /\
  length sums' = k /\ length counts' = k /\
  dist = lsum (fun r => sqdist ROps (nth r data []) (nth (asg memb' r) centroids [])) (seq 0 n).
Proof. exact clustering_exact. Qed.

(* ... and that distortion is the one of exhaustive search: no assignment of the rows to these
   centroids has a smaller one (exhaustive search attains the minimum row by row). *)
Theorem C12_filter_distortion_minimal : forall data perm t centroids sums counts memb dist sums' counts' memb' (a : nat -> nat),
  wf_bbd ROps 0 data perm t = true ->
  clustering ROps perm centroids t (sums, counts, memb) = Some (dist, (sums', counts', memb')) ->
  (forall r, (r < length data)%nat -> (a r < length centroids)%nat) ->
  dist <= lsum (fun r => sqdist ROps (nth r data []) (nth (a r) centroids [])) (seq 0 (length data)).
Proof.
  intros data perm t centroids sums counts memb dist sums' counts' memb' a Hwf Hcl Ha.
  destruct (clustering_exact _ _ _ _ _ _ _ _ _ _ _ Hwf Hcl) as [_ H].
  exact (assignment_optimal _ _ _ _ _ _ a H Ha).
Qed.

(* Lloyd bookkeeping of `fit` after the seeding: for every initial assignment, every iteration limit
   >= 1, every value of the "infinite" initial distortion and every well-formed tree, the returned
   model has k centroids; its labels are cluster indices; the sizes are the label counts and sum to
   n; every centroid with members is the mean of the rows last assigned to it. *)
Theorem C12_lloyd_bookkeeping : forall maxv data perm root k max_iter y0 m,
  wf_bbd ROps 0 data perm root = true -> (1 <= max_iter)%nat ->
  lloyd ROps maxv data perm root k max_iter y0 = Some m ->
  let n := length data in
  let d := length (hd [] data) in
  let y := km_y m in
  km_k m = k /\ length (km_centroids m) = k /\ length (km_size m) = k /\
  (forall r, (r < n)%nat -> (asg y r < k)%nat) /\
  (forall c, (c < k)%nat -> nth c (km_size m) 0%nat = lcount (fun r => (asg y r =? c)%nat) (seq 0 n)) /\
  list_sum (km_size m) = n /\
  (forall c q, (c < k)%nat -> (q < d)%nat -> (0 < nth c (km_size m) 0)%nat ->
     nth q (nth c (km_centroids m) []) 0 =
     lsum (fun r => if (asg y r =? c)%nat then nth q (nth r data []) 0 else 0) (seq 0 n)
     / INR (nth c (km_size m) 0%nat)).
Proof. exact lloyd_bookkeeping. Qed.

(* predict: the returned index is a centroid at minimal squared Euclidean distance, provided some
   centroid is closer than the initial `max_value` (over floats: some distance is finite). *)
Theorem C12_predict_nearest : forall maxv cents row,
  (exists j, (j < length cents)%nat /\ sqdist ROps row (nth j cents []) < maxv) ->
  (predict_row ROps maxv cents row < length cents)%nat /\
  forall j, (j < length cents)%nat ->
    sqdist ROps row (nth (predict_row ROps maxv cents row) cents []) <= sqdist ROps row (nth j cents []).
Proof. exact predict_nearest. Qed.

(* KMeans::predict on a whole query matrix, with the tie-breaking of the code: the label of EVERY row
   of x is an index < k (k = number of centroids predict looks at: the first km_k of km_centroids)
   whose squared Euclidean distance to the row is <= that of every other centroid, and it is the
   SMALLEST index among the minimisers (the loop runs j = 0..k-1 with the strict `dist < min_dist`,
   so a later centroid at the same distance never replaces an earlier one).  The three clauses
   determine the label (ProofsPredict.predict_row_unique).  Hypothesis as in C12_predict_nearest:
   for every row some centroid is closer than the initial `T::max_value()` (in particular k >= 1;
   over floats: some squared distance is finite and below f64::MAX). *)
Theorem C12_predict_argmin : forall maxv (m : kmeans (T := R)) (x : list (list R)),
  let cents := firstn (km_k m) (km_centroids m) in
  (forall i, (i < length x)%nat ->
     exists j, (j < length cents)%nat /\ sqdist ROps (nth i x []) (nth j cents []) < maxv) ->
  length (predict ROps maxv m x) = length x /\
  forall i, (i < length x)%nat ->
    let b := nth i (predict ROps maxv m x) 0%nat in
    let row := nth i x [] in
    (b < length cents)%nat /\
    (forall j, (j < length cents)%nat -> sqdist ROps row (nth b cents []) <= sqdist ROps row (nth j cents [])) /\
    (forall j, (j < b)%nat -> sqdist ROps row (nth b cents []) < sqdist ROps row (nth j cents [])).
Proof. exact predict_argmin. Qed.

(* the one-row form of the same statement (for every centroid list and every row) *)
Theorem C12_predict_row_argmin : forall maxv cents row,
  (exists j, (j < length cents)%nat /\ sqdist ROps row (nth j cents []) < maxv) ->
  let b := predict_row ROps maxv cents row in
  (b < length cents)%nat /\
  (forall j, (j < length cents)%nat -> sqdist ROps row (nth b cents []) <= sqdist ROps row (nth j cents [])) /\
  (forall j, (j < b)%nat -> sqdist ROps row (nth b cents []) < sqdist ROps row (nth j cents [])).
Proof. exact predict_row_argmin. Qed.

(* Comparing squared distances is legitimate OVER R: the labels do not change when every distance
   (and the initial max_value) is passed through a function that is strictly increasing on [0, oo)
   before it is compared (`predict_by f`: the same loop with keys f(squared distance)) ... *)
Theorem C12_predict_monotone_invariant : forall (f : R -> R) maxv (m : kmeans (T := R)) x,
  (forall a b, 0 <= a -> 0 <= b -> a < b -> f a < f b) -> 0 <= maxv ->
  predict_by f maxv m x = predict ROps maxv m x.
Proof. exact predict_by_eq. Qed.

(* ... in particular through sqrt, i.e. when the Euclidean distance `Distance::distance` =
   squared_distance(..).sqrt() is compared instead of `Euclidian::squared_distance`; hence (with
   C12_predict_argmin) the label is the first centroid at minimal EUCLIDEAN distance, which is what
   the property's text says.
   NOT true over floats: sqrt is monotone but not injective on binary64/f32 (adjacent floats in
   [2^52,2^53)*4^e often share their correctly rounded square root), so after sqrt a strictly closer
   centroid with a larger index can lose against the strict `<`: the variant is not bit-equivalent
   to the code (seeded/C12f_1/notes.md; caught by the search family predict-exact-near-tie, not by
   this theorem). *)
Theorem C12_predict_sqrt_invariant : forall maxv (m : kmeans (T := R)) x,
  0 <= maxv -> predict_by sqrt maxv m x = predict ROps maxv m x.
Proof. exact predict_sqrt_eq. Qed.

(* ---- the flat node vector exported by the hook vs. the inductive tree of the theorems ----
   Generic in the element type.  `nodes_ok`: every entry is a leaf or has two children with smaller
   indices (children are stored before their parent).  On every such vector tree_of_nodes succeeds
   from every index with any fuel > index (the correspondence uses S (length nodes)), the result is
   the tree obtained by following the child indices as BBDTree::filter does (`decodes`), and it does
   not depend on the fuel. *)
Theorem C12_tree_of_nodes_total : forall (T : Type) (nodes : list (raw_node (T := T))),
  nodes_ok nodes = true ->
  forall id, (id < length nodes)%nat ->
  exists t, decodes nodes id t /\
            (forall t', decodes nodes id t' -> t' = t) /\
            forall fuel, (id < fuel)%nat -> tree_of_nodes fuel nodes id = Some t.
Proof.
  intros T nodes Hok id Hid. destruct (decode_total nodes Hok id Hid) as (t & Hd & Hf).
  exists t. split; [exact Hd|]. split; [|exact Hf]. intros t' Hd'. exact (decodes_unique nodes id t' Hd' t Hd).
Qed.

(* whatever tree_of_nodes returns (any vector, any fuel) is the tree read off the child indices *)
Theorem C12_tree_of_nodes_follows_indices : forall (T : Type) (nodes : list (raw_node (T := T))) fuel id t,
  tree_of_nodes fuel nodes id = Some t -> decodes nodes id t.
Proof. intros T nodes. exact (tree_of_nodes_decodes nodes). Qed.

(* BBDTree::build_node pushes lower subtree, upper subtree, node: the vector is the post-order listing
   `nodes_of 0 t`.  For EVERY tree t that listing satisfies the index invariant and the post-order
   check, has tree_size t entries, and tree_of_nodes gives back exactly t from its last index. *)
Theorem C12_nodes_roundtrip : forall (T : Type) (t : bbd (T := T)),
  let nodes := nodes_of 0 t in
  nodes_ok nodes = true /\ post_ok nodes = true /\ length nodes = tree_size t /\
  tree_of_nodes (S (length nodes)) nodes (length nodes - 1) = Some t.
Proof.
  intros T t. destruct (nodes_of_roundtrip t) as (A & B & _ & D).
  split; [exact A|]. split; [apply post_ok_complete|]. split; [exact B | exact D].
Qed.

(* conversely, on EVERY vector passing the post-order check `post_ok` (stack machine over the child
   indices: a leaf pushes its index; an inner node must find its upper, then its lower child on top
   of the stack and replaces them by its own index; exactly the last index remains) tree_of_nodes
   succeeds with the correspondence's fuel from the last index, the tree has as many nodes as the
   vector, and the vector is the post-order listing of that tree (so no entry is unreachable or
   shared) *)
Theorem C12_tree_of_nodes_postorder : forall (T : Type) (nodes : list (raw_node (T := T))),
  post_ok nodes = true ->
  exists t, tree_of_nodes (S (length nodes)) nodes (length nodes - 1) = Some t /\
            tree_size t = length nodes /\ nodes = nodes_of 0 t /\ nodes_ok nodes = true.
Proof. intros T nodes. exact (post_ok_decode nodes). Qed.

(* hence OVER R the filtering-search theorems apply to the vector the construction stores: the tree
   decoded from the post-order listing of a built tree is well-formed over the data
   (C12_filter_exact / C12_lloyd_bookkeeping then apply to it) *)
Theorem C12_stored_tree_wf : forall data t perm,
  (forall r, In r data -> length r = length (hd [] data)) ->
  (forall r1 r2, (r1 < length data)%nat -> (r2 < length data)%nat -> nth r1 data [] <> nth r2 data [] ->
     exists q, Rabs (nth q (nth r1 data []) 0 - nth q (nth r2 data []) 0) >= 2 / 10000000000) ->
  build ROps data = Some (t, perm) ->
  let nodes := nodes_of 0 t in
  post_ok nodes = true /\ tree_size t = length nodes /\
  exists t', tree_of_nodes (S (length nodes)) nodes (length nodes - 1) = Some t' /\
             wf_bbd ROps 0 data perm t' = true.
Proof.
  intros data t perm Hrect Hsep Hb. destruct (nodes_of_roundtrip t) as (_ & B & _ & D).
  split; [apply post_ok_complete|]. split; [symmetry; exact B|].
  exists t. split; [exact D | exact (build_wf _ _ _ Hrect Hsep Hb)].
Qed.

(* ---- tree construction: BBDTree::new / build_node, OVER THE REALS (model at ROps) ----
   Every tree the construction returns is well-formed, so C12_filter_exact / C12_lloyd_bookkeeping
   apply to every BUILT tree, not only to trees whose dump passed the per-run wf check.
   Hypotheses: the data form a matrix (all rows have the same length — always true of a Rust
   `Matrix`; the earlier draft of this statement lacked it and is false for ragged lists, e.g.
   [[0]; [0; 5]] builds a one-coordinate leaf) and distinct rows differ by at least 2e-10 in some
   coordinate (the leaf rule `radius < 1e-10` is absolute and merges closer rows: known finding
   bbd-leaf-threshold-absolute).
   This is a theorem about exact arithmetic.  Over R the cutoff (l+u)/2 of the widest coordinate
   satisfies l < cutoff < u, so both sides of every split are non-empty, the partition loop never
   underflows and the recursion terminates (C12_build_total).  Over binary64 that is FALSE: the
   midpoint of two adjacent floats rounds to the lower one, one side is empty and the code recurses
   without bound or underflows an index (known finding bbd-adjacent-float-split).  For the
   implementation the link remains the per-run correspondence (build / build_node groups: the model
   at FOps reproduces the dumped node vector and index permutation bit for bit) and wf_on_dump. *)
Theorem C12_build_wf : forall data t perm,
    (forall r, In r data -> length r = length (hd [] data)) ->
    (forall r1 r2, (r1 < length data)%nat -> (r2 < length data)%nat -> nth r1 data [] <> nth r2 data [] ->
       exists q, Rabs (nth q (nth r1 data []) 0 - nth q (nth r2 data []) 0) >= 2 / 10000000000) ->
    build ROps data = Some (t, perm) -> wf_bbd ROps 0 data perm t = true.
Proof. exact build_wf. Qed.

(* over R the construction never fails on a non-empty matrix: no index underflow in the partition
   loop, no empty side, and the fuel 2n+2 of the model is never exhausted *)
Theorem C12_build_total : forall data,
    (1 <= length data)%nat -> (forall r, In r data -> length r = length (hd [] data)) ->
    exists t perm, build ROps data = Some (t, perm).
Proof. exact build_total. Qed.

(* hence the assignment step is exact on every built tree (C12_filter_exact without the wf hypothesis) *)
Theorem C12_built_filter_exact : forall data perm t centroids sums counts memb dist sums' counts' memb',
  (forall r, In r data -> length r = length (hd [] data)) ->
  (forall r1 r2, (r1 < length data)%nat -> (r2 < length data)%nat -> nth r1 data [] <> nth r2 data [] ->
     exists q, Rabs (nth q (nth r1 data []) 0 - nth q (nth r2 data []) 0) >= 2 / 10000000000) ->
  build ROps data = Some (t, perm) ->
  clustering ROps perm centroids t (sums, counts, memb) = Some (dist, (sums', counts', memb')) ->
  let n := length data in
  let k := length centroids in
  let d := length (hd [] data) in
  length memb' = length memb /\
  (forall r, (r < n)%nat ->
     (asg memb' r < k)%nat /\
     forall j, (j < k)%nat ->
       sqdist ROps (nth r data []) (nth (asg memb' r) centroids []) <= sqdist ROps (nth r data []) (nth j centroids [])) /\
  (forall c q, (c < k)%nat -> (q < d)%nat ->
     nth q (nth c sums' []) 0 =
     lsum (fun r => if (asg memb' r =? c)%nat then nth q (nth r data []) 0 else 0) (seq 0 n)) /\
  (forall c, (c < k)%nat -> nth c counts' 0%nat = lcount (fun r => (asg memb' r =? c)%nat) (seq 0 n)) /\
  length sums' = k /\ length counts' = k /\
  dist = lsum (fun r => sqdist ROps (nth r data []) (nth (asg memb' r) centroids [])) (seq 0 n).
Proof.
  intros data perm t centroids sums counts memb dist sums' counts' memb' Hrect Hsep Hb Hcl.
  exact (clustering_exact _ _ _ _ _ _ _ _ _ _ _ (build_wf _ _ _ Hrect Hsep Hb) Hcl).
Qed.

(* ---- k-means++ seeding given its draws, OVER THE REALS ----
   If the data (a matrix) contain k distinct rows and every draw r = rng.gen::<f64>() lies in (0, 1],
   every seed is a row at positive distance from all earlier seeds and the returned assignment gives
   each label 0..k-1 to at least one row: no cluster is empty after seeding (so the first division
   sums/size in `fit` is by a positive count).  Differences from the earlier draft statement: the
   matrix hypothesis is added (for ragged lists squared_distance truncates and distinct rows can be at
   distance 0), and the draft's `forall c, sqdist row c < maxv` (unsatisfiable over R) is replaced by
   the weaker `0 < maxv`, which is all the proof needs.
   r > 0 is necessary: with r = 0 the cutoff is 0 and `cost >= cutoff` already holds at index 0, so row
   0 is picked even if it is a seed (gen::<f64>() is uniform on [0,1): probability 2^-53 per draw).
   Exact arithmetic is used in `cost_before < cutoff <= cost_before + d[index]  ==>  d[index] > 0`;
   over binary64 a tiny addend can be absorbed, so this is a theorem about the model at ROps; the
   implementation is tied to it per run by `kmeans_plus_plus_replayed` and the search. *)
Theorem C12_kmeanspp_nonempty : forall maxv data k first rs y chosen,
    (forall r, In r data -> length r = length (hd [] data)) ->
    (2 <= k)%nat -> length rs = (k - 1)%nat -> Forall (fun r => 0 < r <= 1) rs ->
    0 < maxv ->
    (exists rows, NoDup (map (fun r => nth r data []) rows) /\ length rows = k /\
                  forall r, In r rows -> (r < length data)%nat) ->
    kmeans_plus_plus ROps maxv data k first (map Frac rs) = Some (y, chosen) ->
    forall c, (c < k)%nat -> exists r, (r < length data)%nat /\ nth r y 0%nat = c.
Proof. exact kmeanspp_nonempty. Qed.

(* ... and under the same hypotheses the seeding does not fail (the picked index is always < n) *)
Theorem C12_kmeanspp_total : forall maxv data k first rs,
    (forall r, In r data -> length r = length (hd [] data)) ->
    (2 <= k)%nat -> length rs = (k - 1)%nat -> Forall (fun r => 0 < r <= 1) rs ->
    0 < maxv ->
    (exists rows, NoDup (map (fun r => nth r data []) rows) /\ length rows = k /\
                  forall r, In r rows -> (r < length data)%nat) ->
    (first < length data)%nat ->
    exists y chosen, kmeans_plus_plus ROps maxv data k first (map Frac rs) = Some (y, chosen).
Proof. exact kmeanspp_total. Qed.

(* ---- one Lloyd iteration does not increase the distortion, OVER THE REALS ----
   Two consecutive iterations of the loop in `fit` (lloyd_loop): the assignment step for the centroids
   `cent` returns dist1 and (sums1, counts1, ...); the centroids are updated from these
   (update_centroids: mean of every non-empty cluster, unchanged otherwise); the next assignment step
   returns dist2.  Then dist2 <= dist1: the assignment step is optimal (C12_filter_exact) and the
   mean minimises the sum of squared distances within each cluster.  Whatever buffers are passed to
   the second call (the loop passes sums1, counts1, memb1).  Hence over R the test
   `distortion <= dist` of the loop can only fire with equality from the second iteration on.
   Over binary64 the two sides are rounded sums and the inequality can fail by rounding; that is
   outside this theorem. *)
Theorem C12_lloyd_step_monotone :
  forall data perm t cent sums counts memb dist1 sums1 counts1 memb1 sums' counts' memb' dist2 sums2 counts2 memb2,
  wf_bbd ROps 0 data perm t = true ->
  clustering ROps perm cent t (sums, counts, memb) = Some (dist1, (sums1, counts1, memb1)) ->
  clustering ROps perm (update_centroids ROps cent sums1 counts1) t (sums', counts', memb')
    = Some (dist2, (sums2, counts2, memb2)) ->
  dist2 <= dist1.
Proof. exact lloyd_step_monotone. Qed.

(* ---- KMeans::fit after the seeding, end to end OVER THE REALS: tree construction + Lloyd loop ----
   C12_lloyd_bookkeeping without the well-formedness hypothesis: the tree is the one the model of
   BBDTree::new builds over the data (C12_build_wf).  Ok(m) is only returned for k >= 2 and
   max_iter >= 1.  Same caveat as C12_build_wf: exact arithmetic; rows at least 2e-10 apart. *)
Theorem C12_fit_bookkeeping : forall maxv data k max_iter y0 m,
  (forall r, In r data -> length r = length (hd [] data)) ->
  (forall r1 r2, (r1 < length data)%nat -> (r2 < length data)%nat -> nth r1 data [] <> nth r2 data [] ->
     exists q, Rabs (nth q (nth r1 data []) 0 - nth q (nth r2 data []) 0) >= 2 / 10000000000) ->
  fit ROps maxv data k max_iter y0 = Some (Some m) ->
  let n := length data in
  let d := length (hd [] data) in
  let y := km_y m in
  (2 <= k)%nat /\ (1 <= max_iter)%nat /\
  km_k m = k /\ length (km_centroids m) = k /\ length (km_size m) = k /\
  (forall r, (r < n)%nat -> (asg y r < k)%nat) /\
  (forall c, (c < k)%nat -> nth c (km_size m) 0%nat = lcount (fun r => (asg y r =? c)%nat) (seq 0 n)) /\
  list_sum (km_size m) = n /\
  (forall c q, (c < k)%nat -> (q < d)%nat -> (0 < nth c (km_size m) 0)%nat ->
     nth q (nth c (km_centroids m) []) 0 =
     lsum (fun r => if (asg y r =? c)%nat then nth q (nth r data []) 0 else 0) (seq 0 n)
     / INR (nth c (km_size m) 0%nat)).
Proof. exact fit_bookkeeping. Qed.

(* ---- the hypotheses are satisfiable: two rows 0 and 2 on a line, the tree build_node makes ---- *)
Definition ex_data : list (list R) := [[0]; [2]].
Definition ex_tree : bbd (T := R) :=
  Split (mkInfo 2 0 [1] [1] [2] 2) (Leaf (mkInfo 1 0 [0] [0] [0] 0)) (Leaf (mkInfo 1 1 [2] [0] [2] 0)).

Ltac rbool :=
  repeat (apply andb_true_intro; split);
  try reflexivity;
  try (apply Rleb_true; cbn; lra);
  try (apply Reqb_true; cbn; lra).

Example C12_ex_wf : wf_bbd ROps 0 ex_data [0; 1]%nat ex_tree = true.
Proof.
  unfold wf_bbd, ex_data, ex_tree.
  cbn [wf_tree info_of n_count n_index n_center n_radius n_sum n_cost length hd forallb is_perm seq existsb
       rows_of map nth all2 in_box vadd node_cost scatter_loop oofnat info_shape
       oadd osub omul odiv oleb oeqb oofZ o0 ROps Z.of_nat Pos.of_succ_nat Pos.succ Nat.ltb Nat.leb Nat.eqb Nat.add].
  rbool.
Qed.

(* the assignment step succeeds on it for the centroid set {0, 3} (any incoming buffers) *)
Example C12_ex_clustering : exists res,
  clustering ROps [0; 1]%nat [[0]; [3]] ex_tree ([[5]; [5]], [7; 7]%nat, [9; 9]%nat) = Some res.
Proof. eexists. unfold clustering. change (shape_ok _ _ _ _) with true. cbv iota. reflexivity. Qed.

(* one Lloyd iteration from the initial assignment [0; 1] returns a model *)
Example C12_ex_lloyd : exists m, lloyd ROps 1000 ex_data [0; 1]%nat ex_tree 2 1 [0; 1]%nat = Some m.
Proof.
  unfold lloyd.
  cbn [length ex_data Nat.eqb negb hd init_acc repeat Nat.ltb Nat.leb upd nth vadd map2 combine map fst snd].
  cbn [lloyd_loop]. unfold clustering. change (shape_ok _ _ _ _) with true. cbv iota.
  match goal with |- context [filter ROps ?p ?c ?t ?cs ?s] => destruct (filter ROps p c t cs s) as [dist [[sums' size'] y']] end.
  destruct (oleb ROps 1000 dist); eexists; reflexivity.
Qed.

(* prune succeeds for best = 0, test = 3 on the box [0, 1] (centre 1/2, radius 1/2) *)
Example C12_ex_prune :
  in_box ROps 0 [1/2] [1/2] [1] = true /\ prune ROps [1/2] [1/2] [[0]; [3]] 0 1 = true.
Proof.
  split.
  - cbn [in_box oleb osub oadd ROps]. rbool.
  - unfold prune. cbn [Nat.eqb nth prune_loop oltb osub oadd omul o0 ROps].
    replace (Rltb 0 (3 - 0)) with true by (symmetry; apply Rltb_true; lra).
    cbn [oleb omul ROps]. rewrite two_R. apply Rleb_true. lra.
Qed.

Example C12_ex_predict : exists j, (j < length [[0]; [3]])%nat /\ sqdist ROps [1] (nth j [[0]; [3]] []) < 1000.
Proof. exists 0%nat. split; [simpl; lia|]. cbn. lra. Qed.

(* the hypotheses of C12_build_wf / C12_built_filter_exact are satisfiable: ex_data is a matrix, its
   rows are 2 apart, and the construction returns a tree over it *)
Example C12_ex_build :
  (forall r, In r ex_data -> length r = length (hd [] ex_data)) /\
  (forall r1 r2, (r1 < length ex_data)%nat -> (r2 < length ex_data)%nat -> nth r1 ex_data [] <> nth r2 ex_data [] ->
     exists q, Rabs (nth q (nth r1 ex_data []) 0 - nth q (nth r2 ex_data []) 0) >= 2 / 10000000000) /\
  exists t perm, build ROps ex_data = Some (t, perm).
Proof.
  assert (Hrect : forall r, In r ex_data -> length r = length (hd [] ex_data)).
  { intros r [<-|[<-|[]]]; reflexivity. }
  split; [exact Hrect|]. split.
  - intros r1 r2 H1 H2 Hne.
    destruct r1 as [|[|r1]]; destruct r2 as [|[|r2]]; cbn [ex_data length] in H1, H2; try lia;
      try (exfalso; apply Hne; reflexivity); exists 0%nat; cbn [ex_data nth];
      unfold Rabs; destruct (Rcase_abs _); lra.
  - apply C12_build_total; [cbn; lia | exact Hrect].
Qed.

(* the hypotheses of C12_kmeanspp_nonempty are satisfiable: ex_data has 2 distinct rows; k = 2, first
   row 1, draw 1/2 *)
Example C12_ex_kmeanspp :
  (forall r, In r ex_data -> length r = length (hd [] ex_data)) /\
  Forall (fun r => 0 < r <= 1) [1/2] /\
  (exists rows, NoDup (map (fun r => nth r ex_data []) rows) /\ length rows = 2%nat /\
                forall r, In r rows -> (r < length ex_data)%nat) /\
  exists y chosen, kmeans_plus_plus ROps 1000 ex_data 2 1 (map Frac [1/2]) = Some (y, chosen).
Proof.
  assert (Hrect : forall r, In r ex_data -> length r = length (hd [] ex_data)).
  { intros r [<-|[<-|[]]]; reflexivity. }
  assert (Hrs : Forall (fun r => 0 < r <= 1) [1/2]) by (constructor; [lra | constructor]).
  assert (Hrows : exists rows, NoDup (map (fun r => nth r ex_data []) rows) /\ length rows = 2%nat /\
                               forall r, In r rows -> (r < length ex_data)%nat).
  { exists [0; 1]%nat. split; [|split; [reflexivity|]].
    - cbn [map nth ex_data]. constructor; [|constructor; [intros []|constructor]].
      intros [E|[]]. inversion E. lra.
    - intros r [<-|[<-|[]]]; cbn; lia. }
  split; [exact Hrect|]. split; [exact Hrs|]. split; [exact Hrows|].
  apply C12_kmeanspp_total; auto; try lra; cbn; lia.
Qed.

(* the hypotheses of C12_lloyd_step_monotone are satisfiable (with C12_ex_wf): two consecutive
   assignment steps on ex_tree starting from the single centroid 1 *)
Example C12_ex_lloyd_step : exists dist1 s1 c1 m1 res2,
  clustering ROps [0; 1]%nat [[1]] ex_tree ([[5]], [7]%nat, [9; 9]%nat) = Some (dist1, (s1, c1, m1)) /\
  clustering ROps [0; 1]%nat (update_centroids ROps [[1]] s1 c1) ex_tree (s1, c1, m1) = Some res2.
Proof.
  unfold clustering at 1. change (shape_ok _ _ _ _) with true. cbv iota.
  cbn [filter ex_tree length seq find_closest closest_loop snd List.filter prune Nat.eqb negb Nat.ltb Nat.leb
       assign_node map n_sum n_count n_index nth upd vadd set_range Nat.add].
  do 5 eexists. split; [reflexivity|].
  unfold clustering. cbn [update_centroids Nat.ltb Nat.leb map].
  change (shape_ok _ _ _ _) with true. cbv iota. reflexivity.
Qed.

(* the hypotheses of C12_fit_bookkeeping are satisfiable: on two identical rows (a matrix, trivially
   separated) fit returns a model for k = 2, one iteration, initial assignment [0; 1] *)
Example C12_ex_fit :
  (forall r, In r ex_dup -> length r = length (hd [] ex_dup)) /\
  (forall r1 r2, (r1 < length ex_dup)%nat -> (r2 < length ex_dup)%nat -> nth r1 ex_dup [] <> nth r2 ex_dup [] ->
     exists q, Rabs (nth q (nth r1 ex_dup []) 0 - nth q (nth r2 ex_dup []) 0) >= 2 / 10000000000) /\
  exists m, fit ROps 1000 ex_dup 2 1 [0; 1]%nat = Some (Some m).
Proof.
  split; [intros r [<-|[<-|[]]]; reflexivity|]. split; [|exact ex_dup_fit].
  intros r1 r2 H1 H2 Hne. exfalso. apply Hne.
  destruct r1 as [|[|r1]]; destruct r2 as [|[|r2]]; cbn [ex_dup length] in H1, H2; try lia; reflexivity.
Qed.

(* the hypothesis of C12_predict_argmin is satisfiable: three centroids 3, 0, 3 (two coincident), query
   rows 1 and 3; the second row is at distance 0 from centroids 0 and 2 and gets label 0 *)
Example C12_ex_predict_matrix :
  let m := mkKMeans 3 [] [] 0 [[3]; [0]; [3]] in
  let x := [[1]; [3]] in
  forall i, (i < length x)%nat ->
    exists j, (j < length (firstn (km_k m) (km_centroids m)))%nat /\
              sqdist ROps (nth i x []) (nth j (firstn (km_k m) (km_centroids m)) []) < 1000.
Proof. exact ex_predict_hyp. Qed.

(* sqrt satisfies the hypothesis of C12_predict_monotone_invariant *)
Example C12_ex_sqrt_increasing : forall a b, 0 <= a -> 0 <= b -> a < b -> sqrt a < sqrt b.
Proof. exact sqrt_increasing_on_nonneg. Qed.

(* a three-node vector satisfying nodes_ok and post_ok *)
Example C12_ex_nodes : nodes_ok ex_nodes = true /\ post_ok ex_nodes = true /\ (2 < length ex_nodes)%nat.
Proof. split; [reflexivity|]. split; [reflexivity|]. cbn. lia. Qed.

(* ---------------- rounding: binary64 makes the same decision as exact arithmetic ----------------
   Everything above is about exact real arithmetic (ROps).  The theorems below are about the binary64
   instance (FOps, Coq primitive floats) of the SAME model definitions — the instance the per-run
   correspondence executes against src/cluster/kmeans.rs bit for bit — proved through Flocq's
   primitive-float bridge (SC.Base.FloatError, SC.C17.ProofsFloat, SC.C12.ProofsFloat); extra
   assumptions: the FloatAxioms / Uint63 specification axioms of Coq's standard library that give
   primitive floats their meaning.
   Vocabulary: `FR d` = the real value of the float d (0 for infinities and NaN); `map FR x` the real
   vector of a float vector; u64 = 2^-53, eta64 = 2^-1075.  For p coordinates and exact squared distance
   D the error bound of the computed squared distance is
       err(D) = ((1 + u64)^(p+2) - 1) * (D + p * eta64) + p * eta64
   (relative error of p+2 roundings plus p underflow terms).  The only no-overflow hypothesis is that
   every COMPUTED squared distance is finite: non-finite values are absorbing for + - *, so all
   coordinates and all intermediates are then finite and nothing overflowed. *)
From Coq Require Import Floats.
From SC Require Import Base.FloatUtil Base.FloatError C12.ProofsFloat C12.ProofsFloatEx.
From SC Require C17.Model.

(* the model's squared distance is, for every instance of the scalar operations, the same left fold
   as C17's Euclidian::squared_distance model (so C17_squared_euclidean_float_error applies to it) *)
Theorem C12_sqdist_same_fold : forall (T : Type) (O : Ops T) (x y : list T),
  sqdist O x y = C17.Model.sq_dist_loop O x y.
Proof. exact @sqdist_is_C17. Qed.

(* the computed squared distance of two float vectors of equal length, if finite, is within err(D) of
   the exact squared distance D of their real values; without the underflow terms when every
   coordinate difference is zero or at least 2^-510 in magnitude *)
Theorem C12_sqdist_float_error : forall x y : list PrimFloat.float,
  length x = length y -> PrimFloat.is_finite (sqdist FOps x y) = true ->
  let p := length x in
  let D := sqdist ROps (map FR x) (map FR y) in
  0 <= D /\ 0 <= FR (sqdist FOps x y) /\
  Rabs (FR (sqdist FOps x y) - D) <= ((1 + u64) ^ (p + 2) - 1) * (D + INR p * eta64) + INR p * eta64 /\
  ((forall a b, In (a, b) (combine x y) -> FR a = FR b \/ / 2 ^ 510 <= Rabs (FR a - FR b)) ->
   Rabs (FR (sqdist FOps x y) - D) <= ((1 + u64) ^ (p + 2) - 1) * D).
Proof. exact sqdist_float_error. Qed.

(* KMeans::predict, one row, binary64: for float centroids of the row's dimension and a float row such
   that every computed squared distance is finite, if centroid js is closer IN EXACT ARITHMETIC than
   every other centroid by more than the two error bounds, and its exact distance plus its error bound
   is below the real value of the loop's initial `max_value` (this also forces maxv to be finite), then
   the binary64 instance returns js — and so does the exact-arithmetic instance on the real values *)
Theorem C12_predict_row_float_robust :
  forall (maxv : PrimFloat.float) (cents : list (list PrimFloat.float)) (row : list PrimFloat.float) (js : nat),
  (forall c, In c cents -> length c = length row /\ PrimFloat.is_finite (sqdist FOps row c) = true) ->
  let p := length row in
  let err := fun D => ((1 + u64) ^ (p + 2) - 1) * (D + INR p * eta64) + INR p * eta64 in
  let D := fun j => sqdist ROps (map FR row) (map FR (nth j cents [])) in
  (js < length cents)%nat ->
  D js + err (D js) < FR maxv ->
  (forall j, (j < length cents)%nat -> j <> js -> err (D j) + err (D js) < D j - D js) ->
  predict_row FOps maxv cents row = js /\
  predict_row ROps (FR maxv) (map (map FR) cents) (map FR row) = js.
Proof. exact predict_row_float_robust. Qed.

(* the same with js := THE LABEL THE EXACT-ARITHMETIC INSTANCE RETURNS (by C12_predict_row_argmin the
   first centroid at minimal exact squared distance): under the margin the binary64 computation makes
   the same decision *)
Theorem C12_predict_float_robust :
  forall (maxv : PrimFloat.float) (cents : list (list PrimFloat.float)) (row : list PrimFloat.float),
  (forall c, In c cents -> length c = length row /\ PrimFloat.is_finite (sqdist FOps row c) = true) ->
  let p := length row in
  let err := fun D => ((1 + u64) ^ (p + 2) - 1) * (D + INR p * eta64) + INR p * eta64 in
  let D := fun j => sqdist ROps (map FR row) (map FR (nth j cents [])) in
  let js := predict_row ROps (FR maxv) (map (map FR) cents) (map FR row) in
  D js + err (D js) < FR maxv ->
  (forall j, (j < length cents)%nat -> j <> js -> err (D j) + err (D js) < D j - D js) ->
  predict_row FOps maxv cents row = js.
Proof. exact predict_row_float_agrees. Qed.

(* the matrix form: KMeans::predict on a float model and a float query matrix returns exactly the
   labels that the exact-arithmetic instance returns on the real values of the same model and matrix
   (kmeans_R m: the same k, centroids mapped through FR), when every row is separated as above *)
Theorem C12_predict_matrix_float_robust :
  forall (maxv : PrimFloat.float) (m : kmeans (T := PrimFloat.float)) (x : list (list PrimFloat.float)),
  let cents := firstn (km_k m) (km_centroids m) in
  (forall row, In row x ->
     (forall c, In c cents -> length c = length row /\ PrimFloat.is_finite (sqdist FOps row c) = true) /\
     let p := length row in
     let err := fun D => ((1 + u64) ^ (p + 2) - 1) * (D + INR p * eta64) + INR p * eta64 in
     let D := fun j => sqdist ROps (map FR row) (map FR (nth j cents [])) in
     let js := predict_row ROps (FR maxv) (map (map FR) cents) (map FR row) in
     D js + err (D js) < FR maxv /\
     (forall j, (j < length cents)%nat -> j <> js -> err (D j) + err (D js) < D j - D js)) ->
  predict FOps maxv m x =
  predict ROps (FR maxv)
          (mkKMeans (km_k m) (km_y m) (km_size m) (FR (km_distortion m)) (map (map FR) (km_centroids m)))
          (map (map FR) x).
Proof. exact predict_float_agrees. Qed.

(* the hypotheses are satisfiable: centroids (0.1, 0.2), (5.3, 4.1), (-3.7, 6.9), query rows (5.1, 4.4)
   and (5.5, 3.9) (nearest binary64 numbers: every operation rounds), max_value = f64::MAX; all
   hypotheses of C12_predict_matrix_float_robust hold and the labels are 1, 1 *)
Example C12_predict_float_robust_instance :
  let maxv := 0x1.fffffffffffffp+1023%float in
  let m := mkKMeans 3 [] [] 0%float
             [[0x1.999999999999ap-4; 0x1.999999999999ap-3]; [0x1.5333333333333p+2; 0x1.0666666666666p+2];
              [-0x1.d99999999999ap+1; 0x1.b99999999999ap+2]]%float in
  let x := [[0x1.4666666666666p+2; 0x1.199999999999ap+2]; [0x1.6p+2; 0x1.f333333333333p+1]]%float in
  let cents := firstn (km_k m) (km_centroids m) in
  (forall row, In row x ->
     (forall c, In c cents -> length c = length row /\ PrimFloat.is_finite (sqdist FOps row c) = true) /\
     let p := length row in
     let err := fun D => ((1 + u64) ^ (p + 2) - 1) * (D + INR p * eta64) + INR p * eta64 in
     let D := fun j => sqdist ROps (map FR row) (map FR (nth j cents [])) in
     let js := predict_row ROps (FR maxv) (map (map FR) cents) (map FR row) in
     D js + err (D js) < FR maxv /\
     (forall j, (j < length cents)%nat -> j <> js -> err (D j) + err (D js) < D j - D js)) /\
  predict FOps maxv m x = [1; 1]%nat.
Proof. exact ex_float_robust. Qed.

(* THE MARGIN IS NEEDED.  Two inputs made of exactly representable integers (row = origin,
   max_value = f64::MAX, every computed distance finite, exact distance far below max_value) on which
   the binary64 instance and the exact-arithmetic instance return different labels:
   (a) exact squared distances 2^54 + 1 and 2^54 (adjacent integers; one ulp is 4 there) are both
       computed as 2^54: the strict `<` keeps centroid 0 although centroid 1 is strictly closer;
   (b) exact 2^54 + 3 < 2^54 + 4, computed 2^54 + 4 > 2^54 (in the first centroid the small squares
       are accumulated before the large one and survive, in the second each + 1 is absorbed): binary64
       attaches the row to the strictly FARTHER centroid 1. *)
Theorem C12_predict_float_margin_needed_refuted :
  let maxv := 0x1.fffffffffffffp+1023%float in
  let err := fun (p : nat) D => ((1 + u64) ^ (p + 2) - 1) * (D + INR p * eta64) + INR p * eta64 in
  (let cents := [[134217728; 1]; [134217728; 0]]%float in
   let row := [0; 0]%float in
   (forall c, In c cents -> length c = length row /\ PrimFloat.is_finite (sqdist FOps row c) = true) /\
   sqdist ROps (map FR row) (map FR (nth 0 cents [])) = 2 ^ 54 + 1 /\
   sqdist ROps (map FR row) (map FR (nth 1 cents [])) = 2 ^ 54 /\
   sqdist FOps row (nth 0 cents []) = sqdist FOps row (nth 1 cents []) /\
   2 ^ 54 + err 2%nat (2 ^ 54) < FR maxv /\
   predict_row ROps (FR maxv) (map (map FR) cents) (map FR row) = 1%nat /\
   predict_row FOps maxv cents row = 0%nat) /\
  (let cents := [[1; 1; 1; 134217728; 0]; [134217728; 1; 1; 1; 1]]%float in
   let row := [0; 0; 0; 0; 0]%float in
   (forall c, In c cents -> length c = length row /\ PrimFloat.is_finite (sqdist FOps row c) = true) /\
   sqdist ROps (map FR row) (map FR (nth 0 cents [])) = 2 ^ 54 + 3 /\
   sqdist ROps (map FR row) (map FR (nth 1 cents [])) = 2 ^ 54 + 4 /\
   (2 ^ 54 + 3) + err 5%nat (2 ^ 54 + 3) < FR maxv /\
   predict_row ROps (FR maxv) (map (map FR) cents) (map FR row) = 0%nat /\
   predict_row FOps maxv cents row = 1%nat).
Proof. split; [exact ex_margin_needed_tie | exact ex_margin_needed_flip]. Qed.

(* ---------------- the same robustness for the exhaustive 1-nearest-neighbour search (C04's model) ----
   Hosted here because it reuses the machinery above; nothing in C04's files is touched.
   SC.C04.Model.linear_find is the model of LinearKNNSearch::find (src/algorithm/neighbour/
   linear_search.rs), generic in the distance type, its two comparisons and the sentinel; C04's
   correspondence runs it at binary64 with the sentinel +infinity.  `dq i` is the computed distance
   from the query to data point i. *)
From SC Require C04.Model.
From SC Require C17.ProofsFloat.
From SC Require Import C12.ProofsFloatKnn.

(* any metric: computed distances dq i, all finite, within e i of the exact distances R_ i; if point js
   is closer in exact arithmetic than every other point by more than the two error bounds, the binary64
   search with k = 1 returns exactly (js, dq js); js is the exact strict nearest neighbour, and the
   exact-arithmetic instance (any sentinel above all distances) returns js as well *)
Theorem C12_knn1_float_robust : forall (dq : nat -> PrimFloat.float) (R_ e : nat -> R) (n js : nat),
  (js < n)%nat ->
  (forall i, (i < n)%nat -> PrimFloat.is_finite (dq i) = true /\ Rabs (FR (dq i) - R_ i) <= e i) ->
  (forall j, (j < n)%nat -> j <> js -> e j + e js < R_ j - R_ js) ->
  C04.Model.linear_find PrimFloat.ltb PrimFloat.leb infinity dq n 1 = Some [(js, dq js)] /\
  (forall j, (j < n)%nat -> j <> js -> R_ js < R_ j) /\
  (forall dinfR, (forall i, (i < n)%nat -> R_ i < dinfR) ->
     C04.Model.linear_find Rltb Rleb dinfR R_ n 1 = Some [(js, R_ js)]).
Proof. exact knn1_float_robust. Qed.

(* the Euclidean metric of the k-NN estimators, sqrt of the squared-distance fold (euclidF x y =
   PrimFloat.sqrt (C17.Model.sq_dist_loop FOps x y), the term C04's Corr.v calls `euclid`), on float data
   points and a float query of dimension p, every computed distance finite and no underflow in the
   squares (decidable check diff_normal_b): margin ((1+u64)^(p+3) - 1) * (R_j + R_js) < R_j - R_js *)
Theorem C12_knn1_euclid_float_robust :
  forall (data : list (list PrimFloat.float)) (q : list PrimFloat.float) (js : nat),
  let n := length data in
  let p := length q in
  let dq := fun i => PrimFloat.sqrt (C17.Model.sq_dist_loop FOps q (nth i data [])) in
  let R_ := fun i => R_sqrt.sqrt (sqdist ROps (map FR q) (map FR (nth i data []))) in
  (js < n)%nat ->
  (forall i, (i < n)%nat -> length (nth i data []) = p /\ PrimFloat.is_finite (dq i) = true /\
                            C17.ProofsFloat.diff_normal_b q (nth i data []) = true) ->
  (forall j, (j < n)%nat -> j <> js -> ((1 + u64) ^ (p + 3) - 1) * (R_ j + R_ js) < R_ j - R_ js) ->
  C04.Model.linear_find PrimFloat.ltb PrimFloat.leb infinity dq n 1 = Some [(js, dq js)] /\
  (forall j, (j < n)%nat -> j <> js -> R_ js < R_ j) /\
  (forall dinfR, (forall i, (i < n)%nat -> R_ i < dinfR) ->
     C04.Model.linear_find Rltb Rleb dinfR R_ n 1 = Some [(js, R_ js)]).
Proof. exact knn1_euclid_float_robust. Qed.

(* satisfiable: data (0.1, 0.2), (5.3, 4.1), (-3.7, 6.9), query (5.1, 4.4), js = 1 *)
Example C12_knn1_float_robust_instance :
  let data := [[0x1.999999999999ap-4; 0x1.999999999999ap-3]; [0x1.5333333333333p+2; 0x1.0666666666666p+2];
               [-0x1.d99999999999ap+1; 0x1.b99999999999ap+2]]%float in
  let q := [0x1.4666666666666p+2; 0x1.199999999999ap+2]%float in
  let n := length data in
  let p := length q in
  let dq := fun i => PrimFloat.sqrt (C17.Model.sq_dist_loop FOps q (nth i data [])) in
  let R_ := fun i => R_sqrt.sqrt (sqdist ROps (map FR q) (map FR (nth i data []))) in
  (1 < n)%nat /\
  (forall i, (i < n)%nat -> length (nth i data []) = p /\ PrimFloat.is_finite (dq i) = true /\
                            C17.ProofsFloat.diff_normal_b q (nth i data []) = true) /\
  (forall j, (j < n)%nat -> j <> 1%nat -> ((1 + u64) ^ (p + 3) - 1) * (R_ j + R_ 1%nat) < R_ j - R_ 1%nat) /\
  C04.Model.linear_find PrimFloat.ltb PrimFloat.leb infinity dq n 1 = Some [(1%nat, dq 1%nat)].
Proof. exact ex_knn1_robust. Qed.

(* the margin is needed, and with sqrt even exactly computed squared distances do not help: points
   (a, 1) and (a, 0), a = 2^26 + 1, query the origin; squared distances a^2 + 1 and a^2 are computed
   exactly, sqrt(a^2 + 1) rounds to a: equal binary64 distances, the strict `<` keeps point 0, the exact
   nearest neighbour is point 1 *)
Theorem C12_knn1_float_margin_needed_refuted :
  let data := [[67108865; 1]; [67108865; 0]]%float in
  let q := [0; 0]%float in
  let n := length data in
  let dq := fun i => PrimFloat.sqrt (C17.Model.sq_dist_loop FOps q (nth i data [])) in
  let R_ := fun i => R_sqrt.sqrt (sqdist ROps (map FR q) (map FR (nth i data []))) in
  (forall i, (i < n)%nat -> length (nth i data []) = length q /\ PrimFloat.is_finite (dq i) = true /\
                            C17.ProofsFloat.diff_normal_b q (nth i data []) = true) /\
  R_ 1%nat < R_ 0%nat /\
  C17.Model.sq_dist_loop FOps q (nth 0 data []) = 4503599761588226%float /\
  C17.Model.sq_dist_loop FOps q (nth 1 data []) = 4503599761588225%float /\
  dq 0%nat = dq 1%nat /\
  C04.Model.linear_find PrimFloat.ltb PrimFloat.leb infinity dq n 1 = Some [(0%nat, dq 0%nat)].
Proof. exact ex_knn1_margin_needed. Qed.
