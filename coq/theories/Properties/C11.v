(* C11 — naive Bayes stores the data's sufficient statistics and predicts the MAP class.
   Property theorems only: each is closed by `exact <lemma>`; its assumptions are printed by the check.
   Statements are about the executable model SC.C11.Model (a transliteration of
   src/naive_bayes/*.rs, src/math/vector.rs unique_with_indices and src/linalg/stats.rs mean/var),
   instantiated at the real numbers (`ROps`); the correspondence check ties the same model, instantiated
   at binary64, to the implementation.  Labels are arbitrary integers; all sizes are unbounded. *)
From Coq Require Import List ZArith Bool Arith Reals Lra Permutation.
From SC Require Import Base.Num C11.Model C11.ProofsLabels C11.ProofsCounts C11.ProofsStats
     C11.ProofsStats2 C11.ProofsArgmax C11.ProofsPredict C11.ProofsBuilder.
Import ListNotations.

(* (1) label -> class-index mapping: the class list is strictly increasing (hence duplicate-free), contains
   exactly the labels that occur, and classes[indices[i]] = y[i] — for arbitrary integer labels. *)
Theorem C11_label_index_mapping : forall (y : list Z),
  let classes := fst (unique_with_indices y) in
  let indices := snd (unique_with_indices y) in
  (forall i j, (i < j < length classes)%nat -> (nth i classes 0 < nth j classes 0)%Z) /\
  (forall c, In c classes <-> In c y) /\
  length indices = length y /\
  (forall i, (i < length y)%nat ->
             (nth i indices 0%nat < length classes)%nat /\
             nth (nth i indices 0%nat) classes 0%Z = nth i y 0%Z).
Proof. exact unique_with_indices_spec. Qed.

(* (2) class counts: class_count[k] is the number of rows labelled classes[k]; the counts sum to n. *)
Theorem C11_class_counts : forall (y : list Z),
  let classes := fst (unique_with_indices y) in
  let counts := count_classes (length classes) (snd (unique_with_indices y)) in
  length counts = length classes /\
  (forall k, (k < length classes)%nat -> nth k counts 0%nat = count_label y (nth k classes 0%Z)) /\
  list_sum counts = length y.
Proof.
  intros y. cbn zeta. split; [apply count_classes_length|]. split.
  - intros k Hk. apply class_count_labels. exact Hk.
  - apply class_count_total.
Qed.

(* (3) priors: without user priors they are the class frequencies and sum to one;
   user priors (of the right length) are returned verbatim. *)
Theorem C11_priors_sum_to_one : forall (y : list Z),
  (0 < length y)%nat ->
  let counts := count_classes (length (fst (unique_with_indices y))) (snd (unique_with_indices y)) in
  class_priors ROps None counts (length y) = Some (map (fun c => (INR c / INR (length y))%R) counts) /\
  Rsum (map (fun c => (INR c / INR (length y))%R) counts) = 1%R.
Proof.
  intros y Hn. cbn zeta. split; [apply class_priors_default|].
  apply priors_sum_one; [apply class_count_total | exact Hn].
Qed.

Theorem C11_user_priors_verbatim : forall (user : list R) (counts : list nat) (n : nat) (pri : list R),
  class_priors ROps (Some user) counts n = Some pri -> pri = user /\ length user = length counts.
Proof. exact class_priors_user. Qed.

(* (4) Gaussian: theta and var of class k, feature j are the mean and the population variance
   (mean squared deviation) of feature j over the rows labelled classes[k]; that set of rows is not empty. *)
Theorem C11_gaussian_moments : forall (x : list (list R)) (y : list Z) (user : option (list R)) (m : gnb),
  gaussian_fit ROps x y user = Some m ->
  forall k j, (k < length m.(g_classes))%nat -> (j < ncols x)%nat ->
  let rows := class_rows x y (nth k m.(g_classes) 0%Z) in
  rows <> [] /\
  nth j (nth k m.(g_theta) []) 0%R = mean (col 0%R j rows) /\
  nth j (nth k m.(g_var) []) 0%R = variance (col 0%R j rows).
Proof. exact gaussian_moments_spec. Qed.

(* the fitted Gaussian model reports the classes / counts / priors of (1)-(3) *)
Theorem C11_gaussian_bookkeeping : forall (x : list (list R)) (y : list Z) (user : option (list R)) (m : gnb),
  gaussian_fit ROps x y user = Some m ->
  let classes := fst (unique_with_indices y) in
  let counts := count_classes (length classes) (snd (unique_with_indices y)) in
  length x = length y /\ (0 < length x)%nat /\
  m.(g_classes) = classes /\ m.(g_count) = counts /\
  class_priors ROps user counts (length x) = Some m.(g_priors).
Proof.
  intros x y user m H. destruct (gaussian_fit_inv x y user m H) as (Hs & Hc & Hn & Hp & _).
  destruct (shape_ok_inv x y Hs). cbn zeta. auto.
Qed.

(* (5) multinomial: feature_count[k][j] is the total count of feature j over the rows of class k, the
   log-probabilities are the logs of the smoothed relative frequencies, which sum to one over the features. *)
Theorem C11_multinomial_probs : forall (to_usize : R -> option nat) (x : list (list R)) (y : list Z)
    (alpha : R) (user : option (list R)) (m : cnb),
  multinomial_fit ROps to_usize x y alpha user = Some m -> (0 < alpha)%R -> (0 < ncols x)%nat ->
  exists xc, convert to_usize x = Some xc /\
  forall k, (k < length m.(c_classes))%nat ->
    let cnts := nth k m.(c_fcount) [] in
    let N_k := list_sum cnts in
    length cnts = ncols x /\
    (forall j, (j < ncols x)%nat ->
       nth j cnts 0%nat = list_sum (col 0%nat j (class_rows xc y (nth k m.(c_classes) 0%Z))) /\
       exp (nth j (nth k m.(c_flp) []) 0%R)
       = ((INR (nth j cnts 0%nat) + alpha) / (INR N_k + alpha * INR (ncols x)))%R) /\
    Rsum (map exp (nth k m.(c_flp) [])) = 1%R.
Proof. exact multinomial_probs_spec. Qed.

(* (6) Bernoulli (after the optional binarisation): feature_count[k][j] is the sum of column j over class k,
   exp(feature_log_prob) = (N_kj + alpha) / (n_k + 2 alpha); on binary data N_kj <= n_k and the
   complementary probability used for a 0 entry is the smoothed frequency of zeros. *)
Theorem C11_bernoulli_probs : forall (to_usize : R -> option nat) (x0 : list (list R)) (y : list Z)
    (alpha : R) (user : option (list R)) (th : option R) (m : cnb),
  bernoulli_fit ROps to_usize x0 y alpha user th = Some m -> (0 < alpha)%R ->
  let x := binarize ROps th x0 in
  exists xc, convert to_usize x = Some xc /\
  forall k j, (k < length m.(c_classes))%nat -> (j < ncols x)%nat ->
    let c_k := nth k m.(c_classes) 0%Z in
    let n_k := nth k m.(c_count) 0%nat in
    let N := nth j (nth k m.(c_fcount) []) 0%nat in
    n_k = count_label y c_k /\
    N = list_sum (col 0%nat j (class_rows xc y c_k)) /\
    exp (nth j (nth k m.(c_flp) []) 0%R) = ((INR N + alpha) / (INR n_k + alpha * 2))%R /\
    (binary xc ->
     (N <= n_k)%nat /\
     (1 - exp (nth j (nth k m.(c_flp) []) 0))%R = ((INR (n_k - N) + alpha) / (INR n_k + alpha * 2))%R).
Proof. exact bernoulli_probs_spec. Qed.

(* (7) categorical: classes are 0..max label; for every feature j and class l the category counts have
   n_categories[j] = max code + 1 entries, count the rows of the class per category, total the class count,
   and the log-probabilities are the logs of the smoothed frequencies, summing to one over the categories
   (also for a label value that never occurs). *)
Theorem C11_categorical_probs : forall (to_cat : R -> option nat) (x : list (list R)) (y : list Z)
    (alpha : R) (m : catnb),
  categorical_fit ROps to_cat x y alpha = Some m -> (0 < alpha)%R ->
  exists yl xc,
    labels_to_usize y = Some yl /\ convert to_cat x = Some xc /\
    m.(k_classes) = map Z.of_nat (seq 0 (max_nat yl + 1)) /\
    forall j l, (j < ncols x)%nat -> (l < max_nat yl + 1)%nat ->
      let cnts := nth l (nth j m.(k_catcount) []) [] in
      let ncat := nth j m.(k_ncat) 0%nat in
      let n_l := nth l m.(k_count) 0%nat in
      ncat = (max_nat (column 0%nat xc j) + 1)%nat /\
      n_l = length (filter (fun v => Nat.eqb v l) yl) /\
      length cnts = ncat /\
      list_sum cnts = n_l /\
      (forall c, (c < ncat)%nat ->
         nth c cnts 0%nat = length (filter (fun v => Nat.eqb v c) (cat_column yl xc j l)) /\
         exp (nth c (nth l (nth j m.(k_coef) []) []) 0%R)
         = ((INR (nth c cnts 0%nat) + alpha) / (INR n_l + INR ncat * alpha))%R) /\
      Rsum (map exp (nth l (nth j m.(k_coef) []) [])) = 1%R.
Proof. exact categorical_probs_spec. Qed.

(* (8) MAP decision (BaseNaiveBayes::predict, shared by the four variants): for any non-empty class list,
   priors and log-likelihood function the prediction is classes[k] for an index k whose score
   log-likelihood + ln prior is maximal; among maximal indices it is the last (Rust's max_by).
   No panic over the reals (scores are totally ordered). *)
Theorem C11_predict_is_map : forall (classes : list Z) (priors : list R) (ll : nat -> R),
  classes <> [] ->
  exists k, predict_row ROps classes priors ll = Some (nth k classes 0%Z) /\
            (k < length classes)%nat /\
            (forall j, (j < length classes)%nat ->
                       (class_score ROps ll priors j <= class_score ROps ll priors k)%R) /\
            (forall j, (k < j < length classes)%nat ->
                       (class_score ROps ll priors j < class_score ROps ll priors k)%R).
Proof. exact predict_row_map. Qed.

(* (9) predict of each fitted variant is total over the reals and every returned label is a MAP class
   (is_map: label = classes[k] for an index k maximising log-likelihood + ln prior under the fitted
   statistics).  Query rows are arbitrary (inside or outside the training set); for the categorical variant
   their entries must be convertible to a category code (otherwise the code panics). *)
Theorem C11_gaussian_predict_is_map : forall (pi_ : R) (x : list (list R)) (y : list Z)
    (user : option (list R)) (m : gnb) (q : list (list R)),
  gaussian_fit ROps x y user = Some m ->
  exists labels, gaussian_predict ROps pi_ m q = Some labels /\
    Forall2 (fun row label => is_map m.(g_classes) m.(g_priors) (gaussian_ll ROps pi_ m row) label) q labels.
Proof. exact gaussian_predict_map. Qed.

Theorem C11_multinomial_predict_is_map : forall (to_usize : R -> option nat) (x : list (list R)) (y : list Z)
    (alpha : R) (user : option (list R)) (m : cnb) (q : list (list R)),
  multinomial_fit ROps to_usize x y alpha user = Some m ->
  exists labels, multinomial_predict ROps m q = Some labels /\
    Forall2 (fun row label => is_map m.(c_classes) m.(c_priors) (multinomial_ll ROps m row) label) q labels.
Proof. exact multinomial_predict_map. Qed.

Theorem C11_bernoulli_predict_is_map : forall (to_usize : R -> option nat) (x0 : list (list R)) (y : list Z)
    (alpha : R) (user : option (list R)) (th : option R) (m : cnb) (q : list (list R)),
  bernoulli_fit ROps to_usize x0 y alpha user th = Some m ->
  exists labels, bernoulli_predict ROps m th q = Some labels /\
    Forall2 (fun row label => is_map m.(c_classes) m.(c_priors) (bernoulli_ll ROps m row) label)
            (binarize ROps th q) labels.
Proof. exact bernoulli_predict_map. Qed.

Theorem C11_categorical_predict_is_map : forall (to_cat : R -> option nat) (x : list (list R)) (y : list Z)
    (alpha : R) (m : catnb) (q : list (list R)),
  categorical_fit ROps to_cat x y alpha = Some m ->
  (forall row, In row q -> forall v, In v row -> to_cat v <> None) ->
  exists labels, categorical_predict ROps to_cat m q = Some labels /\
    Forall2 (fun row label =>
               exists lls, Forall2 (fun k v => categorical_ll ROps to_cat m row k = Some v)
                                   (seq 0 (length m.(k_classes))) lls /\
                           is_map m.(k_classes) m.(k_priors) (fun k => nth k lls 0%R) label)
            q labels.
Proof. exact categorical_predict_map. Qed.

(* (10) the count-based fitted models report the classes / counts / priors of (1)-(3) *)
Theorem C11_multinomial_bookkeeping : forall (to_usize : R -> option nat) (x : list (list R)) (y : list Z)
    (alpha : R) (user : option (list R)) (m : cnb),
  multinomial_fit ROps to_usize x y alpha user = Some m ->
  let classes := fst (unique_with_indices y) in
  let counts := count_classes (length classes) (snd (unique_with_indices y)) in
  length x = length y /\ (0 < length x)%nat /\
  m.(c_classes) = classes /\ m.(c_count) = counts /\
  class_priors ROps user counts (length x) = Some m.(c_priors).
Proof. exact counts_bookkeeping_multinomial. Qed.

Theorem C11_bernoulli_bookkeeping : forall (to_usize : R -> option nat) (x : list (list R)) (y : list Z)
    (alpha : R) (user : option (list R)) (th : option R) (m : cnb),
  bernoulli_fit ROps to_usize x y alpha user th = Some m ->
  let classes := fst (unique_with_indices y) in
  let counts := count_classes (length classes) (snd (unique_with_indices y)) in
  length x = length y /\ (0 < length x)%nat /\
  m.(c_classes) = classes /\ m.(c_count) = counts /\
  class_priors ROps user counts (length x) = Some m.(c_priors).
Proof. exact counts_bookkeeping_bernoulli. Qed.

(* categorical: classes 0..max label, counts per label value (0 for a value that never occurs) totalling n,
   priors = count / n, summing to one *)
Theorem C11_categorical_bookkeeping : forall (to_cat : R -> option nat) (x : list (list R)) (y : list Z)
    (alpha : R) (m : catnb),
  categorical_fit ROps to_cat x y alpha = Some m ->
  exists yl, labels_to_usize y = Some yl /\ length yl = length x /\ (0 < length x)%nat /\
    m.(k_classes) = map Z.of_nat (seq 0 (max_nat yl + 1)) /\
    (forall l, (l < max_nat yl + 1)%nat ->
               nth l m.(k_count) 0%nat = length (filter (fun v => Nat.eqb v l) yl)) /\
    list_sum m.(k_count) = length x /\
    m.(k_priors) = map (fun c => (INR c / INR (length x))%R) m.(k_count) /\
    Rsum m.(k_priors) = 1%R.
Proof. exact categorical_bookkeeping. Qed.

(* (9) parameter builders (`XxxNBParameters::default().with_alpha(..).with_priors(..).with_binarize(..)`):
   after any sequence of calls every field holds the value of the last call that set it, the
   initial (default) value if no call set it — for any scalar type, any number of calls. *)
Theorem C11_builder_last_call_wins : forall (T : Type) (d : @nbparams T) (steps : list (@bstep T)),
  build_params d steps =
  mkParams (match last_alpha None steps with Some a => a | None => np_alpha d end)
           (match last_priors None steps with Some p => Some p | None => np_priors d end)
           (match last_binarize None steps with Some b => Some b | None => np_binarize d end).
Proof. intros T d steps. rewrite build_last_call_wins. reflexivity. Qed.

(* hence the order of calls that set distinct fields is irrelevant: the parameters, and the model
   fitted with them, are the same for every permutation of the calls ... *)
Theorem C11_builder_order_irrelevant : forall (T : Type) (O : Ops T) (to_n : T -> option nat)
    (d : @nbparams T) (steps steps' : list (@bstep T)) (x : list (list T)) (y : list Z),
  NoDup (map kind steps) -> Permutation steps steps' ->
  build_params d steps = build_params d steps' /\
  gaussian_fit_with O (build_params d steps) x y = gaussian_fit_with O (build_params d steps') x y /\
  multinomial_fit_with O to_n (build_params d steps) x y = multinomial_fit_with O to_n (build_params d steps') x y /\
  bernoulli_fit_with O to_n (build_params d steps) x y = bernoulli_fit_with O to_n (build_params d steps') x y /\
  categorical_fit_with O to_n (build_params d steps) x y = categorical_fit_with O to_n (build_params d steps') x y.
Proof.
  intros T O to_n d steps steps' x y Hnd Hperm.
  rewrite (build_order_irrelevant d steps steps' Hnd Hperm). repeat split; reflexivity.
Qed.

(* ... and a call that is followed (anywhere later) by another call setting the same field has no effect. *)
Theorem C11_builder_override : forall (T : Type) (d : @nbparams T) (l1 l2 l3 : list (@bstep T)) (s s' : @bstep T),
  kind s = kind s' ->
  build_params d (l1 ++ s :: l2 ++ s' :: l3) = build_params d (l1 ++ l2 ++ s' :: l3).
Proof. exact (@build_override). Qed.

(* ---------- the hypotheses are satisfiable (non-contiguous, unordered, negative labels) ---------- *)
Example C11_labels_instance :
  unique_with_indices [7; -3; 7; 250; -3; 7]%Z = ([-3; 7; 250]%Z, [1; 0; 1; 2; 0; 1]) /\
  count_classes 3 [1; 0; 1; 2; 0; 1] = [2; 3; 1].
Proof. split; reflexivity. Qed.

Example C11_gaussian_instance :
  exists m, gaussian_fit ROps [[1; 2]; [3; 5]; [2; 2]; [4; 1]]%R [7; -1; 7; -1]%Z None = Some m /\
            m.(g_classes) = [-1; 7]%Z /\ m.(g_count) = [2; 2] /\ ncols [[1; 2]; [3; 5]; [2; 2]; [4; 1]]%R = 2.
Proof. eexists. repeat split; reflexivity. Qed.

Example C11_multinomial_instance :
  exists m, multinomial_fit ROps (fun _ => Some 2) [[2; 2]; [2; 2]; [2; 2]]%R [5; -2; 5]%Z 1%R None = Some m /\
            m.(c_classes) = [-2; 5]%Z /\ m.(c_fcount) = [[2; 2]; [4; 4]] /\ (0 < 1)%R.
Proof.
  unfold multinomial_fit. rewrite (alpha_ok_true 1%R) by lra.
  eexists. repeat split; try reflexivity. lra.
Qed.

Example C11_bernoulli_instance :
  exists m, bernoulli_fit ROps (fun _ => Some 1) [[1; 1]; [1; 1]; [1; 1]]%R [5; -2; 5]%Z 1%R None None = Some m /\
            m.(c_count) = [1; 2] /\ m.(c_fcount) = [[1; 1]; [2; 2]] /\ binary [[1; 1]; [1; 1]; [1; 1]].
Proof.
  unfold bernoulli_fit. rewrite (alpha_ok_true 1%R) by lra.
  eexists. repeat split; try reflexivity.
  intros row Hrow v Hv. cbn in Hrow. destruct Hrow as [<-|[<-|[<-|[]]]]; cbn in Hv;
    destruct Hv as [<-|[<-|[]]]; auto.
Qed.

(* labels {0, 2}: class 1 is enumerated although it never occurs *)
Example C11_categorical_instance :
  exists m, categorical_fit ROps (fun _ => Some 1) [[1; 1]; [1; 1]; [1; 1]]%R [0; 2; 2]%Z 1%R = Some m /\
            m.(k_classes) = [0; 1; 2]%Z /\ m.(k_count) = [1; 0; 2] /\ m.(k_ncat) = [2; 2] /\
            m.(k_catcount) = [[[0; 1]; [0; 0]; [0; 2]]; [[0; 1]; [0; 0]; [0; 2]]].
Proof.
  unfold categorical_fit. rewrite (alpha_ok_true 1%R) by lra.
  eexists. repeat split; reflexivity.
Qed.

Example C11_predict_instance :
  predict_row ROps [-3; 7; 250]%Z [1; 1; 1]%R (fun k => match k with 1%nat => 2 | _ => 0 end)%R <> None.
Proof.
  destruct (predict_row_map [-3; 7; 250]%Z [1; 1; 1]%R (fun k => match k with 1%nat => 2 | _ => 0 end)%R)
    as (k & Hk & _); [discriminate | rewrite Hk; discriminate].
Qed.

(* the extra hypothesis of C11_categorical_predict_is_map (query entries convertible) is satisfiable *)
Example C11_categorical_query_instance :
  forall row, In row [[1; 1]; [1; 1]]%R -> forall v, In v row -> (fun _ : R => Some 1) v <> None.
Proof. intros row _ v _. discriminate. Qed.

(* builder hypotheses: three calls setting three distinct fields, in two different orders *)
Example C11_builder_instance :
  NoDup (map kind [WithAlpha 3; WithPriors [1; 2]; WithBinarize 5]%R) /\
  Permutation [WithAlpha 3; WithPriors [1; 2]; WithBinarize 5]%R [WithBinarize 5; WithAlpha 3; WithPriors [1; 2]]%R /\
  build_params (bernoulli_default ROps) [WithBinarize 5; WithAlpha 3; WithPriors [1; 2]]%R
  = mkParams 3%R (Some [1; 2]%R) (Some 5%R) /\
  kind (WithAlpha 7%R) = kind (WithAlpha 3%R).
Proof.
  split; [|split; [|split; reflexivity]].
  - cbn. repeat constructor; cbn; intuition discriminate.
  - apply Permutation_sym. apply (Permutation_cons_app [WithAlpha 3%R; WithPriors [1%R; 2%R]] []). reflexivity.
Qed.
