(* C11 — naive Bayes.  Property theorems only (work in progress). *)
From Coq Require Import List ZArith Bool Arith Reals.
From SC Require Import Base.Num C11.Model C11.ProofsArgmax.
Import ListNotations.

Theorem C11_predict_is_map : forall (classes : list Z) (priors : list R) (ll : nat -> R),
  classes <> [] ->
  exists k, predict_row ROps classes priors ll = Some (nth k classes 0%Z) /\
            (k < length classes)%nat /\
            (forall j, (j < length classes)%nat ->
                       (class_score ROps ll priors j <= class_score ROps ll priors k)%R) /\
            (forall j, (k < j < length classes)%nat ->
                       (class_score ROps ll priors j < class_score ROps ll priors k)%R).
Proof. exact predict_row_map. Qed.
