(* C11 — naive Bayes stores the data's sufficient statistics and predicts the MAP class.
   Property theorems only: each is closed by `exact <lemma>`; its assumptions are printed by the check.
   Statements are about the executable model SC.C11.Model (a transliteration of
   src/naive_bayes/*.rs, src/math/vector.rs unique_with_indices and src/linalg/stats.rs mean/var),
   instantiated at the real numbers (`ROps`); the correspondence check ties the same model, instantiated
   at binary64, to the implementation.  Labels are arbitrary integers; all sizes are unbounded. *)
From Coq Require Import List ZArith Bool Arith Reals Lra Permutation.
From SC Require Import Base.Num C11.Model C11.ProofsLabels C11.ProofsCounts C11.ProofsStats
     C11.ProofsStats2 C11.ProofsArgmax C11.ProofsPredict C11.ProofsBuilder.
Import ListNotations.

(* (1) label -> class-index mapping: the class list is strictly increasing (hence duplicate-free), contains
   exactly the labels that occur, and classes[indices[i]] = y[i] — for arbitrary integer labels. *)
Theorem C11_label_index_mapping : forall (y : list Z),
  let classes := fst (unique_with_indices y) in
  let indices := snd (unique_with_indices y) in
  (forall i j, (i < j < length classes)%nat -> (nth i classes 0 < nth j classes 0)%Z) /\
  (forall c, In c classes <-> In c y) /\
  length indices = length y /\
  (forall i, (i < length y)%nat ->
             (nth i indices 0%nat < length classes)%nat /\
             nth (nth i indices 0%nat) classes 0%Z = nth i y 0%Z).
Proof. exact unique_with_indices_spec. Qed.

(* (2) class counts: class_count[k] is the number of rows labelled classes[k]; the counts sum to n. *)
Theorem C11_class_counts : forall (y : list Z),
  let classes := fst (unique_with_indices y) in
  let counts := count_classes (length classes) (snd (unique_with_indices y)) in
  length counts = length classes /\
  (forall k, (k < length classes)%nat -> nth k counts 0%nat = count_label y (nth k classes 0%Z)) /\
  list_sum counts = length y.
Proof.
  intros y. cbn zeta. split; [apply count_classes_length|]. split.
  - intros k Hk. apply class_count_labels. exact Hk.
  - apply class_count_total.
Qed.

(* (3) priors: without user priors they are the class frequencies and sum to one;
   user priors (of the right length) are returned verbatim. *)
Theorem C11_priors_sum_to_one : forall (y : list Z),
  (0 < length y)%nat ->
  let counts := count_classes (length (fst (unique_with_indices y))) (snd (unique_with_indices y)) in
  class_priors ROps None counts (length y) = Some (map (fun c => (INR c / INR (length y))%R) counts) /\
  Rsum (map (fun c => (INR c / INR (length y))%R) counts) = 1%R.
Proof.
  intros y Hn. cbn zeta. split; [apply class_priors_default|].
  apply priors_sum_one; [apply class_count_total | exact Hn].
Qed.

Theorem C11_user_priors_verbatim : forall (user : list R) (counts : list nat) (n : nat) (pri : list R),
  class_priors ROps (Some user) counts n = Some pri -> pri = user /\ length user = length counts.
Proof. exact class_priors_user. Qed.

(* (4) Gaussian: theta and var of class k, feature j are the mean and the population variance
   (mean squared deviation) of feature j over the rows labelled classes[k]; that set of rows is not empty. *)
Theorem C11_gaussian_moments : forall (x : list (list R)) (y : list Z) (user : option (list R)) (m : gnb),
  gaussian_fit ROps x y user = Some m ->
  forall k j, (k < length m.(g_classes))%nat -> (j < ncols x)%nat ->
  let rows := class_rows x y (nth k m.(g_classes) 0%Z) in
  rows <> [] /\
  nth j (nth k m.(g_theta) []) 0%R = mean (col 0%R j rows) /\
  nth j (nth k m.(g_var) []) 0%R = variance (col 0%R j rows).
Proof. exact gaussian_moments_spec. Qed.

(* the fitted Gaussian model reports the classes / counts / priors of (1)-(3) *)
Theorem C11_gaussian_bookkeeping : forall (x : list (list R)) (y : list Z) (user : option (list R)) (m : gnb),
  gaussian_fit ROps x y user = Some m ->
  let classes := fst (unique_with_indices y) in
  let counts := count_classes (length classes) (snd (unique_with_indices y)) in
  length x = length y /\ (0 < length x)%nat /\
  m.(g_classes) = classes /\ m.(g_count) = counts /\
  class_priors ROps user counts (length x) = Some m.(g_priors).
Proof.
  intros x y user m H. destruct (gaussian_fit_inv x y user m H) as (Hs & Hc & Hn & Hp & _).
  destruct (shape_ok_inv x y Hs). cbn zeta. auto.
Qed.

(* (5) multinomial: feature_count[k][j] is the total count of feature j over the rows of class k, the
   log-probabilities are the logs of the smoothed relative frequencies, which sum to one over the features. *)
Theorem C11_multinomial_probs : forall (to_usize : R -> option nat) (x : list (list R)) (y : list Z)
    (alpha : R) (user : option (list R)) (m : cnb),
  multinomial_fit ROps to_usize x y alpha user = Some m -> (0 < alpha)%R -> (0 < ncols x)%nat ->
  exists xc, convert to_usize x = Some xc /\
  forall k, (k < length m.(c_classes))%nat ->
    let cnts := nth k m.(c_fcount) [] in
    let N_k := list_sum cnts in
    length cnts = ncols x /\
    (forall j, (j < ncols x)%nat ->
       nth j cnts 0%nat = list_sum (col 0%nat j (class_rows xc y (nth k m.(c_classes) 0%Z))) /\
       exp (nth j (nth k m.(c_flp) []) 0%R)
       = ((INR (nth j cnts 0%nat) + alpha) / (INR N_k + alpha * INR (ncols x)))%R) /\
    Rsum (map exp (nth k m.(c_flp) [])) = 1%R.
Proof. exact multinomial_probs_spec. Qed.

(* (6) Bernoulli (after the optional binarisation): feature_count[k][j] is the sum of column j over class k,
   exp(feature_log_prob) = (N_kj + alpha) / (n_k + 2 alpha); on binary data N_kj <= n_k and the
   complementary probability used for a 0 entry is the smoothed frequency of zeros. *)
Theorem C11_bernoulli_probs : forall (to_usize : R -> option nat) (x0 : list (list R)) (y : list Z)
    (alpha : R) (user : option (list R)) (th : option R) (m : cnb),
  bernoulli_fit ROps to_usize x0 y alpha user th = Some m -> (0 < alpha)%R ->
  let x := binarize ROps th x0 in
  exists xc, convert to_usize x = Some xc /\
  forall k j, (k < length m.(c_classes))%nat -> (j < ncols x)%nat ->
    let c_k := nth k m.(c_classes) 0%Z in
    let n_k := nth k m.(c_count) 0%nat in
    let N := nth j (nth k m.(c_fcount) []) 0%nat in
    n_k = count_label y c_k /\
    N = list_sum (col 0%nat j (class_rows xc y c_k)) /\
    exp (nth j (nth k m.(c_flp) []) 0%R) = ((INR N + alpha) / (INR n_k + alpha * 2))%R /\
    (binary xc ->
     (N <= n_k)%nat /\
     (1 - exp (nth j (nth k m.(c_flp) []) 0))%R = ((INR (n_k - N) + alpha) / (INR n_k + alpha * 2))%R).
Proof. exact bernoulli_probs_spec. Qed.

(* (7) categorical: classes are 0..max label; for every feature j and class l the category counts have
   n_categories[j] = max code + 1 entries, count the rows of the class per category, total the class count,
   and the log-probabilities are the logs of the smoothed frequencies, summing to one over the categories
   (also for a label value that never occurs). *)
Theorem C11_categorical_probs : forall (to_cat : R -> option nat) (x : list (list R)) (y : list Z)
    (alpha : R) (m : catnb),
  categorical_fit ROps to_cat x y alpha = Some m -> (0 < alpha)%R ->
  exists yl xc,
    labels_to_usize y = Some yl /\ convert to_cat x = Some xc /\
    m.(k_classes) = map Z.of_nat (seq 0 (max_nat yl + 1)) /\
    forall j l, (j < ncols x)%nat -> (l < max_nat yl + 1)%nat ->
      let cnts := nth l (nth j m.(k_catcount) []) [] in
      let ncat := nth j m.(k_ncat) 0%nat in
      let n_l := nth l m.(k_count) 0%nat in
      ncat = (max_nat (column 0%nat xc j) + 1)%nat /\
      n_l = length (filter (fun v => Nat.eqb v l) yl) /\
      length cnts = ncat /\
      list_sum cnts = n_l /\
      (forall c, (c < ncat)%nat ->
         nth c cnts 0%nat = length (filter (fun v => Nat.eqb v c) (cat_column yl xc j l)) /\
         exp (nth c (nth l (nth j m.(k_coef) []) []) 0%R)
         = ((INR (nth c cnts 0%nat) + alpha) / (INR n_l + INR ncat * alpha))%R) /\
      Rsum (map exp (nth l (nth j m.(k_coef) []) [])) = 1%R.
Proof. exact categorical_probs_spec. Qed.

(* (8) MAP decision (BaseNaiveBayes::predict, shared by the four variants): for any non-empty class list,
   priors and log-likelihood function the prediction is classes[k] for an index k whose score
   log-likelihood + ln prior is maximal; among maximal indices it is the last (Rust's max_by).
   No panic over the reals (scores are totally ordered). *)
Theorem C11_predict_is_map : forall (classes : list Z) (priors : list R) (ll : nat -> R),
  classes <> [] ->
  exists k, predict_row ROps classes priors ll = Some (nth k classes 0%Z) /\
            (k < length classes)%nat /\
            (forall j, (j < length classes)%nat ->
                       (class_score ROps ll priors j <= class_score ROps ll priors k)%R) /\
            (forall j, (k < j < length classes)%nat ->
                       (class_score ROps ll priors j < class_score ROps ll priors k)%R).
Proof. exact predict_row_map. Qed.

(* (9) predict of each fitted variant is total over the reals and every returned label is a MAP class
   (is_map: label = classes[k] for an index k maximising log-likelihood + ln prior under the fitted
   statistics).  Query rows are arbitrary (inside or outside the training set); for the categorical variant
   their entries must be convertible to a category code (otherwise the code panics). *)
Theorem C11_gaussian_predict_is_map : forall (pi_ : R) (x : list (list R)) (y : list Z)
    (user : option (list R)) (m : gnb) (q : list (list R)),
  gaussian_fit ROps x y user = Some m ->
  exists labels, gaussian_predict ROps pi_ m q = Some labels /\
    Forall2 (fun row label => is_map m.(g_classes) m.(g_priors) (gaussian_ll ROps pi_ m row) label) q labels.
Proof. exact gaussian_predict_map. Qed.

Theorem C11_multinomial_predict_is_map : forall (to_usize : R -> option nat) (x : list (list R)) (y : list Z)
    (alpha : R) (user : option (list R)) (m : cnb) (q : list (list R)),
  multinomial_fit ROps to_usize x y alpha user = Some m ->
  exists labels, multinomial_predict ROps m q = Some labels /\
    Forall2 (fun row label => is_map m.(c_classes) m.(c_priors) (multinomial_ll ROps m row) label) q labels.
Proof. exact multinomial_predict_map. Qed.

Theorem C11_bernoulli_predict_is_map : forall (to_usize : R -> option nat) (x0 : list (list R)) (y : list Z)
    (alpha : R) (user : option (list R)) (th : option R) (m : cnb) (q : list (list R)),
  bernoulli_fit ROps to_usize x0 y alpha user th = Some m ->
  exists labels, bernoulli_predict ROps m th q = Some labels /\
    Forall2 (fun row label => is_map m.(c_classes) m.(c_priors) (bernoulli_ll ROps m row) label)
            (binarize ROps th q) labels.
Proof. exact bernoulli_predict_map. Qed.

Theorem C11_categorical_predict_is_map : forall (to_cat : R -> option nat) (x : list (list R)) (y : list Z)
    (alpha : R) (m : catnb) (q : list (list R)),
  categorical_fit ROps to_cat x y alpha = Some m ->
  (forall row, In row q -> forall v, In v row -> to_cat v <> None) ->
  exists labels, categorical_predict ROps to_cat m q = Some labels /\
    Forall2 (fun row label =>
               exists lls, Forall2 (fun k v => categorical_ll ROps to_cat m row k = Some v)
                                   (seq 0 (length m.(k_classes))) lls /\
                           is_map m.(k_classes) m.(k_priors) (fun k => nth k lls 0%R) label)
            q labels.
Proof. exact categorical_predict_map. Qed.

(* (10) the count-based fitted models report the classes / counts / priors of (1)-(3) *)
Theorem C11_multinomial_bookkeeping : forall (to_usize : R -> option nat) (x : list (list R)) (y : list Z)
    (alpha : R) (user : option (list R)) (m : cnb),
  multinomial_fit ROps to_usize x y alpha user = Some m ->
  let classes := fst (unique_with_indices y) in
  let counts := count_classes (length classes) (snd (unique_with_indices y)) in
  length x = length y /\ (0 < length x)%nat /\
  m.(c_classes) = classes /\ m.(c_count) = counts /\
  class_priors ROps user counts (length x) = Some m.(c_priors).
Proof. exact counts_bookkeeping_multinomial. Qed.

Theorem C11_bernoulli_bookkeeping : forall (to_usize : R -> option nat) (x : list (list R)) (y : list Z)
    (alpha : R) (user : option (list R)) (th : option R) (m : cnb),
  bernoulli_fit ROps to_usize x y alpha user th = Some m ->
  let classes := fst (unique_with_indices y) in
  let counts := count_classes (length classes) (snd (unique_with_indices y)) in
  length x = length y /\ (0 < length x)%nat /\
  m.(c_classes) = classes /\ m.(c_count) = counts /\
  class_priors ROps user counts (length x) = Some m.(c_priors).
Proof. exact counts_bookkeeping_bernoulli. Qed.

(* categorical: classes 0..max label, counts per label value (0 for a value that never occurs) totalling n,
   priors = count / n, summing to one *)
Theorem C11_categorical_bookkeeping : forall (to_cat : R -> option nat) (x : list (list R)) (y : list Z)
    (alpha : R) (m : catnb),
  categorical_fit ROps to_cat x y alpha = Some m ->
  exists yl, labels_to_usize y = Some yl /\ length yl = length x /\ (0 < length x)%nat /\
    m.(k_classes) = map Z.of_nat (seq 0 (max_nat yl + 1)) /\
    (forall l, (l < max_nat yl + 1)%nat ->
               nth l m.(k_count) 0%nat = length (filter (fun v => Nat.eqb v l) yl)) /\
    list_sum m.(k_count) = length x /\
    m.(k_priors) = map (fun c => (INR c / INR (length x))%R) m.(k_count) /\
    Rsum m.(k_priors) = 1%R.
Proof. exact categorical_bookkeeping. Qed.

(* (9) parameter builders (`XxxNBParameters::default().with_alpha(..).with_priors(..).with_binarize(..)`):
   after any sequence of calls every field holds the value of the last call that set it, the
   initial (default) value if no call set it — for any scalar type, any number of calls. *)
Theorem C11_builder_last_call_wins : forall (T : Type) (d : @nbparams T) (steps : list (@bstep T)),
  build_params d steps =
  mkParams (match last_alpha None steps with Some a => a | None => np_alpha d end)
           (match last_priors None steps with Some p => Some p | None => np_priors d end)
           (match last_binarize None steps with Some b => Some b | None => np_binarize d end).
Proof. intros T d steps. rewrite build_last_call_wins. reflexivity. Qed.

(* hence the order of calls that set distinct fields is irrelevant: the parameters, and the model
   fitted with them, are the same for every permutation of the calls ... *)
Theorem C11_builder_order_irrelevant : forall (T : Type) (O : Ops T) (to_n : T -> option nat)
    (d : @nbparams T) (steps steps' : list (@bstep T)) (x : list (list T)) (y : list Z),
  NoDup (map kind steps) -> Permutation steps steps' ->
  build_params d steps = build_params d steps' /\
  gaussian_fit_with O (build_params d steps) x y = gaussian_fit_with O (build_params d steps') x y /\
  multinomial_fit_with O to_n (build_params d steps) x y = multinomial_fit_with O to_n (build_params d steps') x y /\
  bernoulli_fit_with O to_n (build_params d steps) x y = bernoulli_fit_with O to_n (build_params d steps') x y /\
  categorical_fit_with O to_n (build_params d steps) x y = categorical_fit_with O to_n (build_params d steps') x y.
Proof.
  intros T O to_n d steps steps' x y Hnd Hperm.
  rewrite (build_order_irrelevant d steps steps' Hnd Hperm). repeat split; reflexivity.
Qed.

(* ... and a call that is followed (anywhere later) by another call setting the same field has no effect. *)
Theorem C11_builder_override : forall (T : Type) (d : @nbparams T) (l1 l2 l3 : list (@bstep T)) (s s' : @bstep T),
  kind s = kind s' ->
  build_params d (l1 ++ s :: l2 ++ s' :: l3) = build_params d (l1 ++ l2 ++ s' :: l3).
Proof. exact (@build_override). Qed.

(* ---------- the hypotheses are satisfiable (non-contiguous, unordered, negative labels) ---------- *)
Example C11_labels_instance :
  unique_with_indices [7; -3; 7; 250; -3; 7]%Z = ([-3; 7; 250]%Z, [1; 0; 1; 2; 0; 1]) /\
  count_classes 3 [1; 0; 1; 2; 0; 1] = [2; 3; 1].
Proof. split; reflexivity. Qed.

Example C11_gaussian_instance :
  exists m, gaussian_fit ROps [[1; 2]; [3; 5]; [2; 2]; [4; 1]]%R [7; -1; 7; -1]%Z None = Some m /\
            m.(g_classes) = [-1; 7]%Z /\ m.(g_count) = [2; 2] /\ ncols [[1; 2]; [3; 5]; [2; 2]; [4; 1]]%R = 2.
Proof. eexists. repeat split; reflexivity. Qed.

Example C11_multinomial_instance :
  exists m, multinomial_fit ROps (fun _ => Some 2) [[2; 2]; [2; 2]; [2; 2]]%R [5; -2; 5]%Z 1%R None = Some m /\
            m.(c_classes) = [-2; 5]%Z /\ m.(c_fcount) = [[2; 2]; [4; 4]] /\ (0 < 1)%R.
Proof.
  unfold multinomial_fit. rewrite (alpha_ok_true 1%R) by lra.
  eexists. repeat split; try reflexivity. lra.
Qed.

Example C11_bernoulli_instance :
  exists m, bernoulli_fit ROps (fun _ => Some 1) [[1; 1]; [1; 1]; [1; 1]]%R [5; -2; 5]%Z 1%R None None = Some m /\
            m.(c_count) = [1; 2] /\ m.(c_fcount) = [[1; 1]; [2; 2]] /\ binary [[1; 1]; [1; 1]; [1; 1]].
Proof.
  unfold bernoulli_fit. rewrite (alpha_ok_true 1%R) by lra.
  eexists. repeat split; try reflexivity.
  intros row Hrow v Hv. cbn in Hrow. destruct Hrow as [<-|[<-|[<-|[]]]]; cbn in Hv;
    destruct Hv as [<-|[<-|[]]]; auto.
Qed.

(* labels {0, 2}: class 1 is enumerated although it never occurs *)
Example C11_categorical_instance :
  exists m, categorical_fit ROps (fun _ => Some 1) [[1; 1]; [1; 1]; [1; 1]]%R [0; 2; 2]%Z 1%R = Some m /\
            m.(k_classes) = [0; 1; 2]%Z /\ m.(k_count) = [1; 0; 2] /\ m.(k_ncat) = [2; 2] /\
            m.(k_catcount) = [[[0; 1]; [0; 0]; [0; 2]]; [[0; 1]; [0; 0]; [0; 2]]].
Proof.
  unfold categorical_fit. rewrite (alpha_ok_true 1%R) by lra.
  eexists. repeat split; reflexivity.
Qed.

Example C11_predict_instance :
  predict_row ROps [-3; 7; 250]%Z [1; 1; 1]%R (fun k => match k with 1%nat => 2 | _ => 0 end)%R <> None.
Proof.
  destruct (predict_row_map [-3; 7; 250]%Z [1; 1; 1]%R (fun k => match k with 1%nat => 2 | _ => 0 end)%R)
    as (k & Hk & _); [discriminate | rewrite Hk; discriminate].
Qed.

(* the extra hypothesis of C11_categorical_predict_is_map (query entries convertible) is satisfiable *)
Example C11_categorical_query_instance :
  forall row, In row [[1; 1]; [1; 1]]%R -> forall v, In v row -> (fun _ : R => Some 1) v <> None.
Proof. intros row _ v _. discriminate. Qed.

(* builder hypotheses: three calls setting three distinct fields, in two different orders *)
Example C11_builder_instance :
  NoDup (map kind [WithAlpha 3; WithPriors [1; 2]; WithBinarize 5]%R) /\
  Permutation [WithAlpha 3; WithPriors [1; 2]; WithBinarize 5]%R [WithBinarize 5; WithAlpha 3; WithPriors [1; 2]]%R /\
  build_params (bernoulli_default ROps) [WithBinarize 5; WithAlpha 3; WithPriors [1; 2]]%R
  = mkParams 3%R (Some [1; 2]%R) (Some 5%R) /\
  kind (WithAlpha 7%R) = kind (WithAlpha 3%R).
Proof.
  split; [|split; [|split; reflexivity]].
  - cbn. repeat constructor; cbn; intuition discriminate.
  - apply Permutation_sym. apply (Permutation_cons_app [WithAlpha 3%R; WithPriors [1%R; 2%R]] []). reflexivity.
Qed.

(* ------------------------------------------------------------------------------------------
   Rounding of the binary64 instance (`FOps`: the very definitions the correspondence executes
   against the Rust code), proved through Flocq's PrimFloat bridge (Base/FloatError.v: FR x = real
   value of a float, ffin = finite, u64 = 2^-53, eta64 = 2^-1075, rnd64 = rounding to the nearest
   binary64 number; C11/ProofsFloat.v).  The sufficient statistics are COUNTS held in `usize`
   (`nat` in the model): they do not depend on the scalar type, so at binary64 they are the exact
   integer counts of theorems (2), (5), (6).  Floating point enters through `to_usize` of the
   entries (exact on integer-valued floats), `T::from(count)` (exact below 2^53), the prior
   count / n (one correctly rounded division), the argument of the logarithm
   (count + alpha) / (total + alpha * m) (four roundings) and the Gaussian mean.  The logarithm
   itself (a software ln in the float instance) and everything after it (log-likelihoods, the
   arg-max over rounded scores) are NOT covered: validated per run only.
   ------------------------------------------------------------------------------------------ *)
From Coq Require Import Floats Lia.
From SC Require Base.FloatError.
From SC Require C11.Corr.
From SC Require C11.ProofsFloat.

(* (F1) a binary64 counter that starts at 0 and is incremented by non-negative integer-valued floats
   (by 1.0 in particular) is exact while the total is at most 2^53 *)
Theorem C11_float_counter_exact : forall (l : list PrimFloat.float) (cs : list nat),
  Forall2 (fun v c => FloatError.ffin v /\ FloatError.FR v = INR c) l cs ->
  (Z.of_nat (list_sum cs) <= 2 ^ 53)%Z ->
  FloatError.ffin (fold_left PrimFloat.add l 0%float) /\
  FloatError.FR (fold_left PrimFloat.add l 0%float) = INR (list_sum cs).
Proof. exact C11.ProofsFloat.fsum_counter_exact. Qed.

Theorem C11_float_count_by_one_exact : forall (n : nat), (Z.of_nat n <= 2 ^ 53)%Z ->
  FloatError.ffin (fold_left PrimFloat.add (repeat 1%float n) 0%float) /\
  FloatError.FR (fold_left PrimFloat.add (repeat 1%float n) 0%float) = INR n.
Proof. exact C11.ProofsFloat.count_by_one_exact. Qed.

(* num-traits `to_usize` (as modelled for the correspondence: Corr.f_to_usize) of a finite float whose
   value is the natural number c < 2^64 returns c *)
Theorem C11_to_usize_integer_exact : forall (v : PrimFloat.float) (c : nat),
  FloatError.ffin v -> FloatError.FR v = INR c -> (Z.of_nat c < 2 ^ 64)%Z ->
  C11.Corr.f_to_usize v = Some c.
Proof. intros v c F E B. apply C11.ProofsFloat.f_to_usize_nat; [split; assumption | exact B]. Qed.

(* (F2) the three variants fitted at binary64 store the class list and the exact integer class counts of
   (1)-(2), and compute their priors from them; T::from(count) is exact for fewer than 2^53 rows *)
Theorem C11_class_count_float_exact : forall (y : list Z),
  let classes := fst (unique_with_indices y) in
  let counts := count_classes (length classes) (snd (unique_with_indices y)) in
  (forall x user m, gaussian_fit FOps x y user = Some m ->
     length x = length y /\ m.(g_classes) = classes /\ m.(g_count) = counts /\
     class_priors FOps user counts (length y) = Some m.(g_priors)) /\
  (forall tu x alpha user m, multinomial_fit FOps tu x y alpha user = Some m ->
     length x = length y /\ m.(c_classes) = classes /\ m.(c_count) = counts /\
     class_priors FOps user counts (length y) = Some m.(c_priors)) /\
  (forall tu x0 alpha user th m, bernoulli_fit FOps tu x0 y alpha user th = Some m ->
     length x0 = length y /\ m.(c_classes) = classes /\ m.(c_count) = counts /\
     class_priors FOps user counts (length y) = Some m.(c_priors)) /\
  (forall k, k < length classes ->
     nth k counts 0 = count_label y (nth k classes 0%Z) /\ nth k counts 0 <= length y) /\
  ((Z.of_nat (length y) < 2 ^ 53)%Z -> forall k, k < length classes ->
     FloatError.ffin (oofnat FOps (nth k counts 0)) /\
     FloatError.FR (oofnat FOps (nth k counts 0)) = INR (count_label y (nth k classes 0%Z))).
Proof. exact C11.ProofsFloat.class_count_float_exact. Qed.

(* default priors at binary64: prior k is finite and is the correctly rounded quotient n_k / n — relative
   error at most 2^-53, no underflow term; user priors are passed through unchanged (bit for bit) *)
Theorem C11_priors_float : forall (y : list Z),
  0 < length y -> (Z.of_nat (length y) < 2 ^ 53)%Z ->
  let classes := fst (unique_with_indices y) in
  let counts := count_classes (length classes) (snd (unique_with_indices y)) in
  exists pri, class_priors FOps None counts (length y) = Some pri /\ length pri = length classes /\
    forall k, k < length classes ->
      let q := (INR (count_label y (nth k classes 0%Z)) / INR (length y))%R in
      FloatError.ffin (nth k pri 0%float) /\
      FloatError.FR (nth k pri 0%float) = FloatError.rnd64 q /\
      (Rabs (FloatError.FR (nth k pri 0%float) - q) <= FloatError.u64 * q)%R.
Proof. exact C11.ProofsFloat.priors_float. Qed.

Theorem C11_user_priors_float_verbatim : forall (user : list PrimFloat.float) (counts : list nat) (n : nat)
    (pri : list PrimFloat.float),
  class_priors FOps (Some user) counts n = Some pri -> pri = user /\ length user = length counts.
Proof. exact (C11.ProofsFloat.class_priors_user_gen FOps). Qed.

(* (F3) multinomial at binary64 on a training matrix of integer-valued floats (xc: the same matrix as
   naturals): the conversion succeeds and feature_count[k][j] is the exact integer total of feature j over
   the rows of class k *)
Theorem C11_multinomial_feature_count_float_exact : forall (x : list (list PrimFloat.float)) (y : list Z)
    (alpha : PrimFloat.float) (user : option (list PrimFloat.float)) (m : cnb) (xc : list (list nat)),
  multinomial_fit FOps C11.Corr.f_to_usize x y alpha user = Some m ->
  Forall2 (Forall2 (fun v c => FloatError.ffin v /\ FloatError.FR v = INR c /\ (Z.of_nat c < 2 ^ 64)%Z)) x xc ->
  forall k, k < length m.(c_classes) ->
    let cnts := nth k m.(c_fcount) [] in
    length cnts = ncols x /\
    forall j, j < ncols x ->
      nth j cnts 0 = list_sum (col 0 j (class_rows xc y (nth k m.(c_classes) 0%Z))).
Proof. exact C11.ProofsFloat.multinomial_feature_count_float_exact. Qed.

(* feature_log_prob[k][j] = ln q (software ln, not covered) where q is the binary64 value of
   (N_kj + alpha) / (N_k + alpha * p) in the code's order of operations: for totals and p below 2^53 and
   2^-1022 <= alpha <= 2^53, q is finite and within relative error 5 * 2^-53 (four roundings; first-order
   term 4u) plus one underflow term 2^-1075 of the exact smoothed frequency *)
Theorem C11_multinomial_ratio_float_error : forall (tu : PrimFloat.float -> option nat)
    (x : list (list PrimFloat.float)) (y : list Z) (alpha : PrimFloat.float)
    (user : option (list PrimFloat.float)) (m : cnb),
  multinomial_fit FOps tu x y alpha user = Some m ->
  forall k j, k < length m.(c_classes) -> j < ncols x ->
    let cnts := nth k m.(c_fcount) [] in
    let N := list_sum cnts in let c := nth j cnts 0 in let p := ncols x in
    let q := PrimFloat.div (PrimFloat.add (oofnat FOps c) alpha)
                           (PrimFloat.add (oofnat FOps N) (PrimFloat.mul alpha (oofnat FOps p))) in
    let r := ((INR c + FloatError.FR alpha) / (INR N + FloatError.FR alpha * INR p))%R in
    nth j (nth k m.(c_flp) []) 0%float = oln FOps q /\
    ((Z.of_nat N < 2 ^ 53)%Z -> (Z.of_nat p < 2 ^ 53)%Z ->
     (/ 2 ^ 1022 <= FloatError.FR alpha <= 2 ^ 53)%R ->
     FloatError.ffin q /\ (0 < r)%R /\
     (Rabs (FloatError.FR q - r) <= 5 * FloatError.u64 * r + FloatError.eta64)%R).
Proof. exact C11.ProofsFloat.multinomial_ratio_float_error. Qed.

(* (F3') Bernoulli at binary64: binarisation with a threshold yields a 0/1 matrix whose entries convert
   exactly, whatever the inputs (NaN and infinities included: `th < v` is just false or true) *)
Theorem C11_bernoulli_binarize_counts : forall (th : PrimFloat.float) (x0 : list (list PrimFloat.float)),
  let xc := map (map (fun v => if PrimFloat.ltb th v then 1 else 0)) x0 in
  Forall2 (Forall2 (fun v c => FloatError.ffin v /\ FloatError.FR v = INR c /\ (Z.of_nat c < 2 ^ 64)%Z))
          (binarize FOps (Some th) x0) xc /\
  binary xc.
Proof. exact C11.ProofsFloat.binarize_counts. Qed.

Theorem C11_bernoulli_feature_count_float_exact : forall (x0 : list (list PrimFloat.float)) (y : list Z)
    (alpha : PrimFloat.float) (user : option (list PrimFloat.float)) (th : option PrimFloat.float)
    (m : cnb) (xc : list (list nat)),
  bernoulli_fit FOps C11.Corr.f_to_usize x0 y alpha user th = Some m ->
  let x := binarize FOps th x0 in
  Forall2 (Forall2 (fun v c => FloatError.ffin v /\ FloatError.FR v = INR c /\ (Z.of_nat c < 2 ^ 64)%Z)) x xc ->
  forall k j, k < length m.(c_classes) -> j < ncols x ->
    nth k m.(c_count) 0 = count_label y (nth k m.(c_classes) 0%Z) /\
    nth j (nth k m.(c_fcount) []) 0 = list_sum (col 0 j (class_rows xc y (nth k m.(c_classes) 0%Z))) /\
    (binary xc -> nth j (nth k m.(c_fcount) []) 0 <= nth k m.(c_count) 0).
Proof. exact C11.ProofsFloat.bernoulli_feature_count_float_exact. Qed.

(* feature_log_prob[k][j] = ln q with q the binary64 value of (N_kj + alpha) / (n_k + alpha * 2): finite
   when N_kj <= n_k (binary data), and whenever finite within 5 * 2^-53 relative + 2^-1075 of the exact ratio *)
Theorem C11_bernoulli_ratio_float_error : forall (tu : PrimFloat.float -> option nat)
    (x0 : list (list PrimFloat.float)) (y : list Z) (alpha : PrimFloat.float)
    (user : option (list PrimFloat.float)) (th : option PrimFloat.float) (m : cnb),
  bernoulli_fit FOps tu x0 y alpha user th = Some m ->
  forall k j, k < length m.(c_classes) -> j < ncols (binarize FOps th x0) ->
    let N := nth j (nth k m.(c_fcount) []) 0 in let n_k := nth k m.(c_count) 0 in
    let q := PrimFloat.div (PrimFloat.add (oofnat FOps N) alpha)
                           (PrimFloat.add (oofnat FOps n_k) (PrimFloat.mul alpha (PrimFloat.add 1 1))) in
    let r := ((INR N + FloatError.FR alpha) / (INR n_k + FloatError.FR alpha * 2))%R in
    nth j (nth k m.(c_flp) []) 0%float = oln FOps q /\
    ((Z.of_nat N < 2 ^ 53)%Z -> (Z.of_nat n_k < 2 ^ 53)%Z ->
     (/ 2 ^ 1022 <= FloatError.FR alpha <= 2 ^ 53)%R ->
     (N <= n_k -> FloatError.ffin q) /\
     (FloatError.ffin q -> (0 < r)%R /\
        (Rabs (FloatError.FR q - r) <= 5 * FloatError.u64 * r + FloatError.eta64)%R)).
Proof. exact C11.ProofsFloat.bernoulli_ratio_float_error. Qed.

(* (F4) Gaussian at binary64: theta[k][j] is the recursive binary64 sum of feature j over the n_k rows of
   class k (in row order) divided by T::from(n_k); when finite, every summand was finite and the error
   against the exact mean of the stored (float) data is bounded as C03_vmean_float_error: relative to
   the mean of magnitudes (there is cancellation), (1+u)^n_k - 1, plus one underflow term *)
Theorem C11_gaussian_mean_float_error : forall (x : list (list PrimFloat.float)) (y : list Z)
    (user : option (list PrimFloat.float)) (m : gnb),
  gaussian_fit FOps x y user = Some m ->
  forall k j, k < length m.(g_classes) -> j < ncols x ->
    let rows := class_rows x y (nth k m.(g_classes) 0%Z) in
    let colf := col 0%float j rows in
    let n := length rows in
    let theta := nth j (nth k m.(g_theta) []) 0%float in
    n = nth k m.(g_count) 0 /\ n = count_label y (nth k m.(g_classes) 0%Z) /\
    theta = PrimFloat.div (fold_left PrimFloat.add colf 0%float) (oofnat FOps n) /\
    ((Z.of_nat n < 2 ^ 53)%Z -> FloatError.ffin theta ->
     let v := map FloatError.FR colf in
     0 < n /\ Forall FloatError.ffin colf /\
     (Rabs (FloatError.FR theta - mean v) <=
        ((1 + FloatError.u64) ^ n - 1) * (FloatError.Rsumabs v / INR n) + FloatError.eta64)%R).
Proof. exact C11.ProofsFloat.gaussian_mean_float_error. Qed.

(* on integer-valued data (counts) the binary64 column accumulator is exact while the class total is at
   most 2^53 (it then equals the integer total the count-based variants keep in usize) ... *)
Theorem C11_class_column_float_sum_exact : forall (x : list (list PrimFloat.float)) (xc : list (list nat))
    (y : list Z) (c : Z) (j : nat),
  Forall2 (Forall2 (fun v c => FloatError.ffin v /\ FloatError.FR v = INR c /\ (Z.of_nat c < 2 ^ 64)%Z)) x xc ->
  let total := list_sum (col 0 j (class_rows xc y c)) in
  (Z.of_nat total <= 2 ^ 53)%Z ->
  FloatError.ffin (fold_left PrimFloat.add (col 0%float j (class_rows x y c)) 0%float) /\
  FloatError.FR (fold_left PrimFloat.add (col 0%float j (class_rows x y c)) 0%float) = INR total.
Proof. exact C11.ProofsFloat.class_column_float_sum_exact. Qed.

(* ... and the Gaussian class mean is then finite and the correctly rounded quotient total / n_k *)
Theorem C11_gaussian_mean_integer_data : forall (x : list (list PrimFloat.float)) (xc : list (list nat))
    (y : list Z) (user : option (list PrimFloat.float)) (m : gnb),
  gaussian_fit FOps x y user = Some m ->
  Forall2 (Forall2 (fun v c => FloatError.ffin v /\ FloatError.FR v = INR c /\ (Z.of_nat c < 2 ^ 64)%Z)) x xc ->
  forall k j, k < length m.(g_classes) -> j < ncols x ->
    let total := list_sum (col 0 j (class_rows xc y (nth k m.(g_classes) 0%Z))) in
    let n := nth k m.(g_count) 0 in
    let theta := nth j (nth k m.(g_theta) []) 0%float in
    (Z.of_nat total <= 2 ^ 53)%Z -> (Z.of_nat n < 2 ^ 53)%Z ->
    FloatError.ffin theta /\ FloatError.FR theta = FloatError.rnd64 (INR total / INR n) /\
    (Rabs (FloatError.FR theta - INR total / INR n) <= FloatError.u64 * (INR total / INR n))%R.
Proof. exact C11.ProofsFloat.gaussian_mean_integer_data. Qed.

(* ---------------- the hypotheses are satisfiable; what the bounds exclude ---------------- *)
(* a counter fed 3, 0, 5 (as T::from of the naturals) holds 8; beyond 2^53 increments by 1.0 are lost *)
Example C11_float_counter_instance :
  Forall2 (fun v c => FloatError.ffin v /\ FloatError.FR v = INR c) (map (oofnat FOps) [3; 0; 5]) [3; 0; 5] /\
  (Z.of_nat (list_sum [3; 0; 5]%nat) <= 2 ^ 53)%Z /\
  fold_left PrimFloat.add (map (oofnat FOps) [3; 0; 5]) 0%float = 8%float /\
  fold_left PrimFloat.add [0x1p+53; 1; 1]%float 0%float = 0x1p+53%float.
Proof.
  split; [|split; [cbn; lia | split; vm_compute; reflexivity]].
  repeat constructor; apply C11.ProofsFloat.oofnat_exact; cbn; lia.
Qed.

(* labels 7, -3, 7, 250, -3, 7: counts 2, 3, 1 of 6; the priors 1/3 and 1/6 are not binary64 numbers
   (they are rounded, within 2^-53 relative), 1/2 is exact *)
Example C11_priors_float_instance :
  let y := [7; -3; 7; 250; -3; 7]%Z in
  0 < length y /\ (Z.of_nat (length y) < 2 ^ 53)%Z /\
  class_priors FOps None (count_classes 3 (snd (unique_with_indices y))) (length y)
  = Some [0x1.5555555555555p-2; 0x1p-1; 0x1.5555555555555p-3]%float.
Proof. cbv zeta. split; [cbn; lia|]. split; [cbn; lia|]. vm_compute. reflexivity. Qed.

(* multinomial, alpha = 0.1 (not a binary64 number), counts as floats; class -2 has feature counts 0 3 1 *)
Example C11_multinomial_float_instance :
  let xc := [[2; 0; 1]; [0; 3; 1]; [1; 1; 4]] in
  let x := map (map (oofnat FOps)) xc in
  let alpha := 0x1.999999999999ap-4%float in
  (exists m, multinomial_fit FOps C11.Corr.f_to_usize x [5; -2; 5]%Z alpha None = Some m /\
             m.(c_classes) = [-2; 5]%Z /\ m.(c_fcount) = [[0; 3; 1]; [3; 1; 5]] /\ ncols x = 3) /\
  Forall2 (Forall2 (fun v c => FloatError.ffin v /\ FloatError.FR v = INR c /\ (Z.of_nat c < 2 ^ 64)%Z)) x xc /\
  (/ 2 ^ 1022 <= FloatError.FR alpha <= 2 ^ 53)%R /\
  (Z.of_nat (list_sum [3; 1; 5]%nat) < 2 ^ 53)%Z /\ (Z.of_nat 3%nat < 2 ^ 53)%Z.
Proof.
  cbv zeta. split; [eexists; repeat split; vm_compute; reflexivity|].
  split; [apply C11.ProofsFloat.counts_matrix_is_count; intros row Hr c Hc; cbn in Hr;
          repeat (destruct Hr as [<-|Hr]; [cbn in Hc; repeat (destruct Hc as [<-|Hc]; [cbn; lia|]); destruct Hc|]);
          destruct Hr|].
  split; [apply C11.ProofsFloat.alpha_range_b_sound; vm_compute; reflexivity|].
  split; cbn; lia.
Qed.

(* Bernoulli on real-valued data binarised at 0.5, alpha = 0.1 *)
Example C11_bernoulli_float_instance :
  let x0 := [[0x1.3333333333333p-2; 0x1.6666666666666p-1]; [0x1.ccccccccccccdp-1; 0x1.999999999999ap-4];
             [0x1.3333333333333p-1; 0x1.3333333333333p-1]]%float in
  let alpha := 0x1.999999999999ap-4%float in
  exists m, bernoulli_fit FOps C11.Corr.f_to_usize x0 [5; -2; 5]%Z alpha None (Some 0x1p-1%float) = Some m /\
            m.(c_count) = [1; 2] /\ m.(c_fcount) = [[1; 0]; [1; 2]] /\
            ncols (binarize FOps (Some 0x1p-1%float) x0) = 2 /\
            (/ 2 ^ 1022 <= FloatError.FR alpha <= 2 ^ 53)%R.
Proof.
  cbv zeta. eexists. split; [vm_compute; reflexivity|]. split; [reflexivity|]. split; [reflexivity|].
  split; [reflexivity|]. apply C11.ProofsFloat.alpha_range_b_sound. vm_compute. reflexivity.
Qed.

(* Gaussian on 0.1, 0.2, ... (every operation rounds): the fitted means are finite *)
Example C11_gaussian_float_instance :
  let x := [[0x1.999999999999ap-4; 0x1.999999999999ap-3]; [0x1.3333333333333p-2; 0x1.6666666666666p-1];
            [0x1.999999999999ap-3; 0x1.999999999999ap-3]; [0x1.999999999999ap-2; (-0x1.999999999999ap-4)]]%float in
  exists m, gaussian_fit FOps x [7; -1; 7; -1]%Z None = Some m /\
            m.(g_classes) = [-1; 7]%Z /\ m.(g_count) = [2; 2] /\ ncols x = 2 /\
            Forall (Forall (fun t => PrimFloat.is_finite t = true)) m.(g_theta) /\
            (Z.of_nat 2%nat < 2 ^ 53)%Z.
Proof.
  cbv zeta. eexists. split; [vm_compute; reflexivity|]. split; [reflexivity|]. split; [reflexivity|].
  split; [reflexivity|]. split; [|cbn; lia]. repeat constructor.
Qed.

(* Gaussian on count data: class 7 has rows (1,2), (2,2): column totals 3 and 4, means 1.5 and 2 exactly *)
Example C11_gaussian_integer_instance :
  let xc := [[1; 2]; [3; 5]; [2; 2]; [4; 1]] in
  let x := map (map (oofnat FOps)) xc in
  (exists m, gaussian_fit FOps x [7; -1; 7; -1]%Z None = Some m /\ m.(g_count) = [2; 2] /\
             m.(g_theta) = [[0x1.cp+1; 3]; [0x1.8p+0; 2]]%float) /\
  Forall2 (Forall2 (fun v c => FloatError.ffin v /\ FloatError.FR v = INR c /\ (Z.of_nat c < 2 ^ 64)%Z)) x xc /\
  (Z.of_nat (list_sum (col 0%nat 0%nat (class_rows xc [7; -1; 7; -1]%Z 7%Z))) <= 2 ^ 53)%Z.
Proof.
  cbv zeta. split; [eexists; repeat split; vm_compute; reflexivity|].
  split; [|cbn; lia].
  apply C11.ProofsFloat.counts_matrix_is_count; intros row Hr c Hc; cbn in Hr;
    repeat (destruct Hr as [<-|Hr]; [cbn in Hc; repeat (destruct Hc as [<-|Hc]; [cbn; lia|]); destruct Hc|]);
    destruct Hr.
Qed.
