(* C07 — least squares and ridge regression.  Property theorems only: each is closed by
   `exact <lemma>` (or a few lines assembling lemmas) and its assumptions are printed by the check.
   Statements are about the executable models of SC.C07.Model instantiated at the real numbers
   (`ROps`): they say what the code computes in exact arithmetic, for data of EVERY size.  The same
   generic definitions instantiated at binary64 are what the correspondence check runs against
   src/linear/{linear_regression,ridge_regression}.rs.  Rounding-error bounds are not theorems. *)
From Coq Require Import List Arith Bool Reals Lra Lia.
From SC Require Import Base.Num C01.Model C01.Proofs C03.ProofsBase C07.Model C07.ProofsObj C07.ProofsFit.
Import ListNotations.
Open Scope R_scope.

(* predict(X) = X w + b row by row, for both estimators (they share the code): whenever the
   coefficient matrix is (ncols X) x 1 the call returns one value per row of X, the i-th being
   sum_k X_ik w_k + b; with another number of coefficient rows it panics. *)
Theorem C07_predict_affine : forall (X w : dm R) (b : R), ncols X = nrows w -> ncols w = 1%nat ->
  exists yh, predict ROps X w b = Some yh /\ length yh = nrows X /\
    forall i, (i < nrows X)%nat ->
      nth i yh 0 = rsum (ncols X) (fun k => D.get ROps X i k * D.get ROps w k 0%nat) + b.
Proof. exact predict_spec. Qed.
Theorem C07_predict_shape_mismatch : forall (X w : dm R) (b : R), ncols X <> nrows w ->
  predict ROps X w b = None.
Proof. exact predict_none. Qed.
