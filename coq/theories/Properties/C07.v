(* C07 — least squares and ridge regression.  Property theorems only: each is closed by
   `exact <lemma>` (or a few lines assembling lemmas) and its assumptions are printed by the check.
   Statements are about the executable models of SC.C07.Model instantiated at the real numbers
   (`ROps`): they say what the code computes in exact arithmetic, for data of EVERY size.  The same
   generic definitions instantiated at binary64 are what the correspondence check runs against
   src/linear/{linear_regression,ridge_regression}.rs.  Rounding-error bounds are theorems for
   predict and for the entries of the system the ridge fit builds (last sections, binary64 instance);
   for the solvers, hence for the fitted coefficients, they are not theorems.

   Vocabulary (C07/ProofsFit.v, ProofsSolve.v, ProofsMain.v):
     wfR X                 the DenseMatrix value is well formed (|values| = nrows * ncols)
     residual X y w b i    y_i - (sum_k X_ik w_k0 + b)                      (training residual)
     objective X y a w b   sum_i (y_i - sum_k X_ik w_k - b)^2 + a sum_k w_k^2
     objective_std Z y a mu sd w b   the same objective over the standardised columns Z, at the
                           coefficients sd_k w_k and the intercept b + sum_k mu_k w_k, i.e. as a
                           function of the REPORTED (raw) coefficients and intercept
     lsq_solver s          whatever s returns for a tall system satisfies the normal equations
     exact_spd_solver s    whatever s returns for a symmetric positive-definite system solves it
     svd_postcondition     orthonormal U, V, thresholded singular values, U diag(s) V^T = A
   Extension (C07/ProofsOLSTotal.v, ProofsOLSGram.v, ProofsRidgeTotal.v, ProofsPredict.v):
     ols_full_rank X       the columns of the augmented design [X 1] are linearly independent
     aug_gram_pos_def X    the quadratic form of [X 1]^T [X 1] is positive definite (equivalent)
     indep_cols m n A      the same for a function matrix of C01 (m rows, n columns)
     col_sd X j            sqrt (sum_i (X_ij - mean_j)^2 / n), the population deviation of column j
     predicts X' wm b yh   predict ROps X' wm b = Some yh, |yh| = nrows X', yh_i = sum_k X'_ik w_k + b
   SVD paths end to end (C07/ProofsSVDModel.v):
     svd_model_solver cs minpos   svd_solve_mut ROps 0 cs minpos: C01's svd_mut at eps = 0, then SVD::solve
     svd_regular_on cs minpos a   C01's bd_regular for the system matrix a (no non-zero bidiagonal
                                  entry below minpos); ols_svd_regular / ridge_svd_regular: the same
                                  for the system that fit builds
     cs_spec cs                   cs is copysign (C01) *)
From Coq Require Import List Arith Bool Reals Lra Lia.
From SC Require Import Base.Num C01.Model C01.Proofs C01.Proofs_svd C01.Proofs_svd_bidiag C03.ProofsBase
     C07.Model C07.ProofsObj C07.ProofsFit C07.ProofsRidge C07.ProofsSolve C07.ProofsOLS C07.ProofsMain C07.ProofsOLSTotal C07.ProofsOLSGram C07.ProofsRidgeTotal C07.ProofsPredict C07.ProofsSVDModel.
Import ListNotations.
Open Scope R_scope.

Local Notation get := (D.get ROps).

(* ============================== ordinary least squares ============================== *)
(* LinearRegression::fit with ANY least-squares solver, n > p: the residual y - y_hat is orthogonal
   to every column of X and sums to zero, and (w, b) minimises |y - X w - b|^2 over all (w', b'). *)
Theorem C07_ols_normal_equations : forall solver (X : dm R) (y : list R) wm b,
  wfR X -> (ncols X < nrows X)%nat -> lsq_solver solver ->
  ols_fit ROps solver X y = Some (wm, b) ->
  length y = nrows X /\ nrows wm = ncols X /\ ncols wm = 1%nat /\
  (forall j, (j < ncols X)%nat -> rsum (nrows X) (fun i => get X i j * residual X y wm b i) = 0) /\
  rsum (nrows X) (fun i => residual X y wm b i) = 0 /\
  (forall w' b', objective X y 0 (colf wm) b <= objective X y 0 w' b').
Proof. exact ols_normal_equations. Qed.

(* the QR path end to end (qr_mut + QR::solve of C01 behind the entry point's shape tests):
   no hypothesis on the solver is left *)
Theorem C07_ols_qr_exact : forall (X : dm R) (y : list R) wm b,
  wfR X -> (ncols X < nrows X)%nat ->
  ols_fit ROps (qr_solve_mut ROps) X y = Some (wm, b) ->
  (forall j, (j < ncols X)%nat -> rsum (nrows X) (fun i => get X i j * residual X y wm b i) = 0) /\
  rsum (nrows X) (fun i => residual X y wm b i) = 0.
Proof.
  intros X y wm b Hwf Hnp Hfit.
  destruct (ols_normal_equations _ X y wm b Hwf Hnp qr_lsq_solver Hfit) as (_ & _ & _ & H1 & H2 & _).
  split; assumption.
Qed.
(* the SVD path: for EVERY factorisation routine with the SVD's post-condition (C01 proves the
   post-condition for the tail of svd_mut only, not for the sweeps: this is the inherited gap) *)
Theorem C07_ols_svd_exact : forall eps fact (X : dm R) (y : list R) wm b,
  svd_postcondition eps fact -> wfR X -> (ncols X < nrows X)%nat ->
  ols_fit ROps (svd_solve_with ROps fact eps) X y = Some (wm, b) ->
  (forall j, (j < ncols X)%nat -> rsum (nrows X) (fun i => get X i j * residual X y wm b i) = 0) /\
  rsum (nrows X) (fun i => residual X y wm b i) = 0.
Proof.
  intros eps fact X y wm b Hp Hwf Hnp Hfit.
  destruct (ols_normal_equations _ X y wm b Hwf Hnp (svd_lsq_solver eps fact Hp) Hfit) as (_ & _ & _ & H1 & H2 & _).
  split; assumption.
Qed.

(* ===================== OLS: totality, uniqueness, solver agreement ===================== *)
(* Full column rank of the augmented design [X 1] (C07/ProofsOLSTotal.v):
     ols_full_rank X      the columns of [X 1] are linearly independent: sum_k X_ik c_k + c0 = 0 for
                          every row i only for c = 0, c0 = 0;
     aug_gram_pos_def X   [X 1]^T [X 1] is positive definite, written as a quadratic form:
                          (c, c0) <> 0  ->  0 < sum_i (sum_k X_ik c_k + c0)^2.
   The two are equivalent; the first composes with C01's QR invariants (Q^T A = R, Q orthogonal),
   the second is the hypothesis of C01's chol_spd_some. *)
Theorem C07_ols_full_rank_iff_gram_pos_def : forall X : dm R, ols_full_rank X <-> aug_gram_pos_def X.
Proof. exact ols_full_rank_iff_pos_def. Qed.
(* the same hypothesis with the library's own operations: a = X.h_stack(ones), G = a^T a; then
   "G is positive definite" (pos_def, the hypothesis of C01's chol_spd_some) <-> ols_full_rank X *)
Theorem C07_ols_full_rank_iff_aug_gram_spd : forall (X a G : dm R), wfR X ->
  D.h_stack ROps X (D.ones ROps (nrows X) 1) = Some a ->
  D.matmul ROps (D.transpose ROps a) a = Some G ->
  (pos_def G <-> ols_full_rank X).
Proof. exact aug_gram_pos_def_iff. Qed.

(* totality of the QR path: on a full-column-rank design with n > p rows the diagonal of R produced
   by C01's qr_mut has no zero, QR::solve does not panic, and LinearRegression::fit RETURNS *)
Theorem C07_ols_qr_returns : forall (X : dm R) (y : list R),
  wfR X -> (ncols X < nrows X)%nat -> length y = nrows X -> ols_full_rank X ->
  exists wm b, ols_fit ROps (qr_solve_mut ROps) X y = Some (wm, b).
Proof. exact ols_qr_returns. Qed.
(* ... and ONLY there: over the reals the QR fit returns exactly on full-column-rank designs (on a
   rank-deficient one qr_mut leaves an exactly zero diagonal entry and QR::solve panics) *)
Theorem C07_ols_qr_returns_iff_full_rank : forall (X : dm R) (y : list R),
  wfR X -> (ncols X < nrows X)%nat -> length y = nrows X ->
  ((exists wm b, ols_fit ROps (qr_solve_mut ROps) X y = Some (wm, b)) <-> ols_full_rank X).
Proof. exact ols_qr_returns_iff. Qed.
(* the solver-level fact behind it: qr_mut on independent columns gives a non-zero diagonal of R,
   hence qr_solve_mut (= qr_mut().and_then(solve)) returns *)
Theorem C07_qr_diagonal_nonzero : forall m n (A : @L.Mx R), (n <= m)%nat -> indep_cols m n A ->
  forall k, (k < n)%nat -> snd (L.qr_mut ROps m n A) k <> 0.
Proof. exact qr_tau_nonzero. Qed.
(* the SVD path: SVD::solve has no panic of its own, so fit returns whenever the factorisation
   routine returns on the augmented shape (no rank condition; that the sweeps converge is C01's gap) *)
Theorem C07_ols_svd_returns : forall eps fact (X : dm R) (y : list R),
  wfR X -> (ncols X < nrows X)%nat -> length y = nrows X ->
  (forall A, exists st, fact (nrows X) (ncols X + 1)%nat A = Some st) ->
  exists wm b, ols_fit ROps (svd_solve_with ROps fact eps) X y = Some (wm, b).
Proof. exact ols_svd_returns. Qed.

(* uniqueness: what fit returns (any least-squares solver) is the ONLY minimiser of |y - Xw' - b'|^2 *)
Theorem C07_ols_unique_minimiser : forall solver (X : dm R) (y : list R) wm b,
  wfR X -> (ncols X < nrows X)%nat -> ols_full_rank X -> lsq_solver solver ->
  ols_fit ROps solver X y = Some (wm, b) ->
  forall w' b', objective X y 0 w' b' <= objective X y 0 (colf wm) b ->
    (forall k, (k < ncols X)%nat -> w' k = get wm k 0%nat) /\ b' = b.
Proof. exact ols_unique_minimiser. Qed.

(* "the QR and SVD solvers agree" (exact arithmetic): any two least-squares solvers return the same
   coefficients and intercept on a full-column-rank design *)
Theorem C07_ols_solvers_agree : forall s1 s2 (X : dm R) (y : list R) w1 b1 w2 b2,
  wfR X -> (ncols X < nrows X)%nat -> ols_full_rank X -> lsq_solver s1 -> lsq_solver s2 ->
  ols_fit ROps s1 X y = Some (w1, b1) -> ols_fit ROps s2 X y = Some (w2, b2) ->
  (forall k, (k < ncols X)%nat -> get w1 k 0%nat = get w2 k 0%nat) /\ b1 = b2.
Proof. exact ols_solvers_agree. Qed.
(* ... instantiated: the QR fit exists, and whatever the SVD path returns (for EVERY factorisation
   with the SVD's post-condition) equals it *)
Theorem C07_ols_qr_svd_agree : forall eps fact (X : dm R) (y : list R),
  svd_postcondition eps fact ->
  wfR X -> (ncols X < nrows X)%nat -> length y = nrows X -> ols_full_rank X ->
  exists wq bq, ols_fit ROps (qr_solve_mut ROps) X y = Some (wq, bq) /\
    (forall w' b', objective X y 0 (colf wq) bq <= objective X y 0 w' b') /\
    forall ws bs, ols_fit ROps (svd_solve_with ROps fact eps) X y = Some (ws, bs) ->
      (forall k, (k < ncols X)%nat -> get ws k 0%nat = get wq k 0%nat) /\ bs = bq.
Proof.
  intros eps fact X y Hp Hwf Hnp Hy Hfr.
  destruct (ols_qr_total_unique X y Hwf Hnp Hy Hfr) as [wq [bq [Hfit [Hmin [_ Hag]]]]].
  exists wq, bq. split; [exact Hfit|]. split; [exact Hmin|].
  intros ws bs Hs. exact (Hag _ ws bs (svd_lsq_solver eps fact Hp) Hs).
Qed.

(* ================================= ridge regression ================================= *)
(* normalize = false: raw columns, intercept exactly 0; the gradient of
   |y - X w|^2 + alpha |w|^2 vanishes at the reported w, which is the unique minimiser. *)
Theorem C07_ridge_gradient_zero_raw : forall solver eps (X : dm R) (y : list R) alpha wm b,
  wfR X -> 0 < alpha -> exact_spd_solver solver ->
  ridge_fit ROps solver eps X y alpha false = Some (wm, b) ->
  b = 0 /\ nrows wm = ncols X /\ ncols wm = 1%nat /\
  (forall j, (j < ncols X)%nat ->
     alpha * get wm j 0%nat - rsum (nrows X) (fun i => get X i j * residual X y wm 0 i) = 0) /\
  (forall w', objective X y alpha (colf wm) 0 <= objective X y alpha w' 0) /\
  (forall w', objective X y alpha w' 0 <= objective X y alpha (colf wm) 0 ->
     forall k, (k < ncols X)%nat -> w' k = get wm k 0%nat).
Proof. exact ridge_raw_minimiser. Qed.

(* normalize = true: columns standardised by the column mean and the (population) standard
   deviation, coefficients divided by the deviation, intercept = mean y - sum_k w_k mu_k.  In the
   standardised coordinates the residual of the REPORTED model sums to zero (unpenalised
   intercept), the penalised gradient alpha sd_j w_j - sum_i Z_ij r_i vanishes, and (w, b) is the
   unique minimiser of the standardised objective. *)
Theorem C07_ridge_gradient_zero_normalized : forall solver eps (X : dm R) (y : list R) alpha wm b,
  0 < eps -> wfR X -> 0 < alpha -> exact_spd_solver solver ->
  ridge_fit ROps solver eps X y alpha true = Some (wm, b) ->
  exists Z mu sd, rescale_x ROps eps X = Some (Z, mu, sd) /\
    nrows Z = nrows X /\ ncols Z = ncols X /\ nrows wm = ncols X /\ ncols wm = 1%nat /\
    (forall j, (j < ncols X)%nat ->
       nth j mu 0 = rsum (nrows X) (fun i => get X i j) / INR (nrows X) /\
       nth j sd 0 = sqrt (rsum (nrows X) (fun i => (get X i j - nth j mu 0) ^ 2) / INR (nrows X)) /\
       nth j sd 0 <> 0) /\
    (forall i j, (i < nrows X)%nat -> (j < ncols X)%nat -> get Z i j = (get X i j - nth j mu 0) / nth j sd 0) /\
    (forall i, (i < nrows X)%nat ->
       residual X y wm b i
       = nth i y 0 - rsum (ncols X) (fun k => get Z i k * (get wm k 0%nat * nth k sd 0))
         - (b + rsum (ncols X) (fun k => get wm k 0%nat * nth k mu 0))) /\
    (forall j, (j < ncols X)%nat ->
       alpha * (get wm j 0%nat * nth j sd 0) - rsum (nrows X) (fun i => get Z i j * residual X y wm b i) = 0) /\
    rsum (nrows X) (fun i => residual X y wm b i) = 0 /\
    (forall w' b', objective_std Z y alpha mu sd (colf wm) b <= objective_std Z y alpha mu sd w' b') /\
    (forall w' b', objective_std Z y alpha mu sd w' b' <= objective_std Z y alpha mu sd (colf wm) b ->
       (forall k, (k < ncols X)%nat -> w' k = get wm k 0%nat) /\ b' = b).
Proof. exact ridge_norm_minimiser. Qed.

(* strict convexity on its own: a stationary point of the ridge objective (alpha > 0, at least one
   row) is its unique global minimiser — the index-level statement behind the two theorems above *)
Theorem C07_ridge_unique_minimiser : forall n p (Z : nat -> nat -> R) (y : nat -> R) alpha w c,
  0 < alpha -> (0 < n)%nat ->
  (forall j, (j < p)%nat -> grad_w n p Z y alpha w c j = 0) -> grad_c n p Z y w c = 0 ->
  (forall w' c', obj n p Z y alpha w c <= obj n p Z y alpha w' c') /\
  (forall w' c', obj n p Z y alpha w' c' <= obj n p Z y alpha w c ->
     (forall k, (k < p)%nat -> w' k = w k) /\ c' = c).
Proof.
  intros n p Z y alpha w c Ha Hn Hg Hc. split.
  - exact (stationary_min n p Z y alpha (Rlt_le _ _ Ha) w c Hg Hc).
  - exact (stationary_unique n p Z y alpha (Rlt_le _ _ Ha) w c Ha Hn Hg Hc).
Qed.

(* the Cholesky path end to end (C01's cholesky + Cholesky::solve behind the entry point's shape
   tests): exact on every system `fit` builds with alpha > 0, and it always returns there *)
Theorem C07_cholesky_solver_exact : exact_spd_solver (cholesky_solve_mut ROps) /\ total_spd_solver (cholesky_solve_mut ROps).
Proof. split; [exact cholesky_exact_spd | exact cholesky_total_spd]. Qed.
Theorem C07_ridge_cholesky_returns : forall eps (X : dm R) (y : list R) alpha,
  wfR X -> 0 < alpha -> (ncols X < nrows X)%nat -> length y = nrows X ->
  exists wm b, ridge_fit ROps (cholesky_solve_mut ROps) eps X y alpha false = Some (wm, b).
Proof. intros eps X y alpha H1 H2 H3 H4. exact (ridge_fit_raw_total _ eps X y alpha H1 H2 H3 H4 cholesky_total_spd). Qed.
(* totality with normalize = true: when every column's population standard deviation
   col_sd X j = sqrt (sum_i (X_ij - mean_j)^2 / n) is at least epsilon (the complement of the code's
   own Err test; a non-constant column has col_sd > 0), rescale_x returns, the standardised Gram
   matrix Z^T Z + alpha I handed to the solver is symmetric positive definite, and the Cholesky fit
   returns; a column with col_sd < epsilon (e.g. a constant one) makes fit return Err *)
Theorem C07_ridge_standardised_system_spd : forall eps (X Z : dm R) mu sd (y : list R) alpha,
  0 < eps -> wfR X -> 0 < alpha -> length y = nrows X ->
  rescale_x ROps eps X = Some (Z, mu, sd) ->
  exists a rhs, ridge_system ROps (ncols X) Z (col_vec ROps y) alpha = Some (a, rhs) /\
    square_system a rhs /\ sym a /\ pos_def a /\ nrows a = ncols X /\
    (forall r c, (r < ncols X)%nat -> (c < ncols X)%nat ->
       get a r c = rsum (nrows X) (fun i => get Z i r * get Z i c) + (if Nat.eqb r c then alpha else 0)).
Proof. exact ridge_norm_system_spd. Qed.
Theorem C07_ridge_cholesky_returns_normalized : forall eps (X : dm R) (y : list R) alpha,
  0 < eps -> wfR X -> 0 < alpha -> (ncols X < nrows X)%nat -> length y = nrows X ->
  (forall j, (j < ncols X)%nat -> eps <= col_sd X j) ->
  exists wm b, ridge_fit ROps (cholesky_solve_mut ROps) eps X y alpha true = Some (wm, b).
Proof. exact ridge_cholesky_norm_returns. Qed.
(* the same for every solver that is total and exact on SPD systems, both normalisation settings *)
Theorem C07_ridge_fit_returns : forall solver eps (X : dm R) (y : list R) alpha normalize,
  0 < eps -> wfR X -> 0 < alpha -> (ncols X < nrows X)%nat -> length y = nrows X ->
  (normalize = true -> forall j, (j < ncols X)%nat -> eps <= col_sd X j) ->
  total_spd_solver solver -> exact_spd_solver solver ->
  exists wm b, ridge_fit ROps solver eps X y alpha normalize = Some (wm, b).
Proof. exact ridge_fit_total. Qed.
Theorem C07_ridge_nonconstant_column_sd_pos : forall (X : dm R) j, (0 < nrows X)%nat ->
  (exists i, (i < nrows X)%nat /\ get X i j <> col_mu X j) -> 0 < col_sd X j.
Proof. exact col_sd_pos. Qed.
Theorem C07_ridge_small_deviation_err : forall solver eps (X : dm R) (y : list R) alpha j,
  (j < ncols X)%nat -> col_sd X j < eps -> ridge_fit ROps solver eps X y alpha true = None.
Proof. exact ridge_fit_norm_err. Qed.
(* the SVD path on the ridge system, for every factorisation with the SVD's post-condition *)
Theorem C07_svd_solver_exact : forall eps fact, svd_postcondition eps fact ->
  exact_spd_solver (svd_solve_with ROps fact eps).
Proof. exact svd_exact_spd. Qed.

(* "the Cholesky and SVD solvers agree": any two solvers that are exact on symmetric
   positive-definite systems return the same coefficients and intercept (exact arithmetic) *)
Theorem C07_ridge_solvers_agree : forall s1 s2 eps (X : dm R) (y : list R) alpha normalize w1 b1 w2 b2,
  0 < eps -> wfR X -> 0 < alpha -> exact_spd_solver s1 -> exact_spd_solver s2 ->
  ridge_fit ROps s1 eps X y alpha normalize = Some (w1, b1) ->
  ridge_fit ROps s2 eps X y alpha normalize = Some (w2, b2) ->
  (forall k, (k < ncols X)%nat -> get w1 k 0%nat = get w2 k 0%nat) /\ b1 = b2.
Proof. exact ridge_solvers_agree. Qed.

(* ===================================== predict ===================================== *)
(* predict(X) = X w + b row by row, for both estimators (they share the code): whenever the
   coefficient matrix is (ncols X) x 1 the call returns one value per row of X, the i-th being
   sum_k X_ik w_k + b; with another number of coefficient rows it panics. *)
Theorem C07_predict_affine : forall (X w : dm R) (b : R), ncols X = nrows w -> ncols w = 1%nat ->
  exists yh, predict ROps X w b = Some yh /\ length yh = nrows X /\
    forall i, (i < nrows X)%nat ->
      nth i yh 0 = rsum (ncols X) (fun k => get X i k * get w k 0%nat) + b.
Proof. exact predict_spec. Qed.
Theorem C07_predict_shape_mismatch : forall (X w : dm R) (b : R), ncols X <> nrows w ->
  predict ROps X w b = None.
Proof. exact predict_none. Qed.

(* ===================== the SVD paths end to end (C01's svd_mut, eps = 0) ===================== *)
(* The SVD-path theorems above hold for every factorisation routine with `svd_postcondition`.  Here
   the routine is C01's own transliteration of svd_mut with the negligibility threshold eps = 0
   (svd_model_solver cs minpos = svd_solve_mut ROps 0 cs minpos of C07/Model.v), and the
   post-condition is discharged from C01's svd_mut_correct (the theorem C01_svd_factorisation_exact of
   Properties/C01.v): C07/ProofsSVDModel.v.  Hypotheses that remain, stated plainly:
     - `fit ... = Some (wm, b)`, i.e. the factorisation model RETURNED (C01 proves no convergence: over
       R with eps = 0 the sweeps terminate only on special inputs, e.g. one-column systems);
     - svd_regular_on cs minpos a = C01's bd_regular for the system matrix a that fit hands to the
       solver: no entry of its bidiagonal form is non-zero but smaller than minpos in magnitude
       (otherwise C01 REFUTES the factorisation); ols_svd_regular / ridge_svd_regular say this for the
       augmented design [X 1] resp. for the ridge system Z^T Z + alpha I that fit builds;
     - 0 < minpos, cs_spec cs (the copysign parameter is copysign). *)
(* the guarded factorisation (None on irregular inputs, svd_mut otherwise) meets the post-condition
   for ALL inputs; on regular system matrices the model solver is the guarded one *)
Theorem C07_svd_model_postcondition : forall cs minpos, 0 < minpos -> cs_spec cs ->
  svd_postcondition 0 (svd_fact_reg cs minpos) /\
  (forall a b, svd_regular_on cs minpos a -> svd_model_solver cs minpos a b = svd_reg_solver cs minpos a b).
Proof.
  intros cs minpos H1 H2. split; [exact (svd_fact_reg_postcondition cs minpos H1 H2)|].
  intros a b Hr. exact (svd_reg_solver_eq cs minpos a b Hr).
Qed.
(* SVD::solve of the model on a regular tall system: the normal equations; on a regular SPD system: exact *)
Theorem C07_svd_model_solver_exact : forall cs minpos, 0 < minpos -> cs_spec cs ->
  (forall a b w, svd_regular_on cs minpos a ->
     wfR a -> wfR b -> nrows b = nrows a -> ncols b = 1%nat -> (ncols a <= nrows a)%nat ->
     svd_model_solver cs minpos a b = Some w -> lsq_solution a b w) /\
  (forall a rhs w, svd_regular_on cs minpos a -> square_system a rhs -> sym a -> pos_def a ->
     svd_model_solver cs minpos a rhs = Some w -> lin_solution a rhs w).
Proof.
  intros cs minpos H1 H2. split.
  - intros a b w Hr A1 B1 E1 E2 E3 Hs. exact (svd_model_lsq cs minpos a b w H1 H2 Hr A1 B1 E1 E2 E3 Hs).
  - intros a rhs w Hr Hsq Hsym Hpd Hs. exact (svd_model_exact_spd cs minpos a rhs w H1 H2 Hr Hsq Hsym Hpd Hs).
Qed.
(* OLS through the SVD model: whatever fit returns satisfies the normal equations and minimises *)
Theorem C07_ols_svd_model_exact : forall cs minpos (X : dm R) (y : list R) wm b,
  0 < minpos -> cs_spec cs -> wfR X -> (ncols X < nrows X)%nat -> ols_svd_regular cs minpos X ->
  ols_fit ROps (svd_model_solver cs minpos) X y = Some (wm, b) ->
  length y = nrows X /\ nrows wm = ncols X /\ ncols wm = 1%nat /\
  (forall j, (j < ncols X)%nat -> rsum (nrows X) (fun i => get X i j * residual X y wm b i) = 0) /\
  rsum (nrows X) (fun i => residual X y wm b i) = 0 /\
  (forall w' b', objective X y 0 (colf wm) b <= objective X y 0 w' b').
Proof. exact ols_svd_model_exact. Qed.
(* ... and on a full-column-rank design it equals the QR fit (which exists) *)
Theorem C07_ols_qr_svd_model_agree : forall cs minpos (X : dm R) (y : list R),
  0 < minpos -> cs_spec cs -> wfR X -> (ncols X < nrows X)%nat -> length y = nrows X ->
  ols_full_rank X -> ols_svd_regular cs minpos X ->
  exists wq bq, ols_fit ROps (qr_solve_mut ROps) X y = Some (wq, bq) /\
    forall ws bs, ols_fit ROps (svd_model_solver cs minpos) X y = Some (ws, bs) ->
      (forall k, (k < ncols X)%nat -> get ws k 0%nat = get wq k 0%nat) /\ bs = bq.
Proof. exact ols_qr_svd_model_agree. Qed.
(* ridge through the SVD model, normalize = false / true: gradient zero, unique minimiser *)
Theorem C07_ridge_svd_model_raw : forall cs minpos eps (X : dm R) (y : list R) alpha wm b,
  0 < minpos -> cs_spec cs -> wfR X -> 0 < alpha -> ridge_svd_regular cs minpos eps X y alpha false ->
  ridge_fit ROps (svd_model_solver cs minpos) eps X y alpha false = Some (wm, b) ->
  b = 0 /\ nrows wm = ncols X /\ ncols wm = 1%nat /\
  (forall j, (j < ncols X)%nat ->
     alpha * get wm j 0%nat - rsum (nrows X) (fun i => get X i j * residual X y wm 0 i) = 0) /\
  (forall w', objective X y alpha (colf wm) 0 <= objective X y alpha w' 0) /\
  (forall w', objective X y alpha w' 0 <= objective X y alpha (colf wm) 0 ->
     forall k, (k < ncols X)%nat -> w' k = get wm k 0%nat).
Proof. exact ridge_svd_model_raw. Qed.
Theorem C07_ridge_svd_model_normalized : forall cs minpos eps (X : dm R) (y : list R) alpha wm b,
  0 < minpos -> cs_spec cs -> 0 < eps -> wfR X -> 0 < alpha -> ridge_svd_regular cs minpos eps X y alpha true ->
  ridge_fit ROps (svd_model_solver cs minpos) eps X y alpha true = Some (wm, b) ->
  exists Z mu sd, rescale_x ROps eps X = Some (Z, mu, sd) /\
    nrows wm = ncols X /\ ncols wm = 1%nat /\
    (forall j, (j < ncols X)%nat ->
       alpha * (get wm j 0%nat * nth j sd 0) - rsum (nrows X) (fun i => get Z i j * residual X y wm b i) = 0) /\
    rsum (nrows X) (fun i => residual X y wm b i) = 0 /\
    (forall w' b', objective_std Z y alpha mu sd (colf wm) b <= objective_std Z y alpha mu sd w' b') /\
    (forall w' b', objective_std Z y alpha mu sd w' b' <= objective_std Z y alpha mu sd (colf wm) b ->
       (forall k, (k < ncols X)%nat -> w' k = get wm k 0%nat) /\ b' = b).
Proof. exact ridge_svd_model_norm. Qed.
(* "the Cholesky and SVD solvers agree", both concrete models, both normalisation settings *)
Theorem C07_ridge_cholesky_svd_model_agree : forall cs minpos eps (X : dm R) (y : list R) alpha normalize wc bc ws bs,
  0 < minpos -> cs_spec cs -> 0 < eps -> wfR X -> 0 < alpha ->
  ridge_svd_regular cs minpos eps X y alpha normalize ->
  ridge_fit ROps (cholesky_solve_mut ROps) eps X y alpha normalize = Some (wc, bc) ->
  ridge_fit ROps (svd_model_solver cs minpos) eps X y alpha normalize = Some (ws, bs) ->
  (forall k, (k < ncols X)%nat -> get wc k 0%nat = get ws k 0%nat) /\ bc = bs.
Proof. exact ridge_cholesky_svd_model_agree. Qed.

(* ============================ fit and predict composed ============================ *)
(* predicts X' wm b yh (C07/ProofsPredict.v):  predict ROps X' wm b = Some yh, one value per row of
   X', the i-th being sum_k X'_ik w_k + b.  For the values fit RETURNS, predict returns on every
   matrix with the training number of columns, and the clauses of the property hold verbatim for
   y - predict(X) on the training matrix. *)
Theorem C07_ols_fit_predict : forall solver (X : dm R) (y : list R) wm b,
  wfR X -> (ncols X < nrows X)%nat -> lsq_solver solver ->
  ols_fit ROps solver X y = Some (wm, b) ->
  (forall X', ncols X' = ncols X -> exists yh, predicts X' wm b yh) /\
  exists yh, predicts X wm b yh /\ length yh = length y /\
    (forall j, (j < ncols X)%nat -> rsum (nrows X) (fun i => get X i j * (nth i y 0 - nth i yh 0)) = 0) /\
    rsum (nrows X) (fun i => nth i y 0 - nth i yh 0) = 0.
Proof. exact ols_fit_predict. Qed.
Theorem C07_ridge_fit_predict_raw : forall solver eps (X : dm R) (y : list R) alpha wm b,
  wfR X -> 0 < alpha -> exact_spd_solver solver ->
  ridge_fit ROps solver eps X y alpha false = Some (wm, b) ->
  (forall X', ncols X' = ncols X -> exists yh, predicts X' wm b yh) /\
  exists yh, predicts X wm b yh /\ b = 0 /\
    forall j, (j < ncols X)%nat ->
      alpha * get wm j 0%nat - rsum (nrows X) (fun i => get X i j * (nth i y 0 - nth i yh 0)) = 0.
Proof. exact ridge_fit_predict_raw. Qed.
Theorem C07_ridge_fit_predict_normalized : forall solver eps (X : dm R) (y : list R) alpha wm b,
  0 < eps -> wfR X -> 0 < alpha -> exact_spd_solver solver ->
  ridge_fit ROps solver eps X y alpha true = Some (wm, b) ->
  (forall X', ncols X' = ncols X -> exists yh, predicts X' wm b yh) /\
  exists yh Z mu sd, predicts X wm b yh /\ rescale_x ROps eps X = Some (Z, mu, sd) /\
    (forall j, (j < ncols X)%nat ->
       alpha * (get wm j 0%nat * nth j sd 0) - rsum (nrows X) (fun i => get Z i j * (nth i y 0 - nth i yh 0)) = 0) /\
    rsum (nrows X) (fun i => nth i y 0 - nth i yh 0) = 0.
Proof. exact ridge_fit_predict_norm. Qed.
(* end to end, nothing left to assume about a solver or about fit returning: QR least squares on a
   full-column-rank design, Cholesky ridge for both normalisation settings *)
Theorem C07_ols_qr_fit_predict_total : forall (X : dm R) (y : list R),
  wfR X -> (ncols X < nrows X)%nat -> length y = nrows X -> ols_full_rank X ->
  exists wm b yh, ols_fit ROps (qr_solve_mut ROps) X y = Some (wm, b) /\ predicts X wm b yh /\
    (forall j, (j < ncols X)%nat -> rsum (nrows X) (fun i => get X i j * (nth i y 0 - nth i yh 0)) = 0) /\
    rsum (nrows X) (fun i => nth i y 0 - nth i yh 0) = 0.
Proof. exact ols_qr_fit_predict_total. Qed.
Theorem C07_ridge_cholesky_fit_predict_total : forall eps (X : dm R) (y : list R) alpha normalize,
  0 < eps -> wfR X -> 0 < alpha -> (ncols X < nrows X)%nat -> length y = nrows X ->
  (normalize = true -> forall j, (j < ncols X)%nat -> eps <= col_sd X j) ->
  exists wm b yh, ridge_fit ROps (cholesky_solve_mut ROps) eps X y alpha normalize = Some (wm, b) /\
    predicts X wm b yh.
Proof. exact ridge_cholesky_fit_predict_total. Qed.

(* ============================ the stationarity validator ============================ *)
(* check_stationary (run inside Coq on the implementation's coefficients by the correspondence
   check, at binary64) is sound over the reals: acceptance bounds every gradient component by
   tol times its rounding scale. *)
Theorem C07_check_stationary_sound : forall (Z : dm R) y alpha w c free tol,
  check_stationary ROps Z y alpha w c free tol = true ->
  (forall j, (j < ncols Z)%nat ->
     Rabs (grad_w (nrows Z) (ncols Z) (get Z) (vecf y) alpha (vecf w) c j)
     <= tol * scale_w ROps (nrows Z) (ncols Z) Z y alpha w c j) /\
  (if free then Rabs (grad_c (nrows Z) (ncols Z) (get Z) (vecf y) (vecf w) c)
                <= tol * scale_c ROps (nrows Z) (ncols Z) Z y w c
   else c = 0).
Proof. exact check_stationary_sound. Qed.

(* ================================ satisfiability ================================ *)
(* a concrete design: X = (1, 2, 4)^T, y = (1, 0, 2), alpha = 1 *)
Definition ex_X : dm R := D.mkdm 3 1 [1; 2; 4].
Example C07_ridge_instance : forall eps,
  wfR ex_X /\ (ncols ex_X < nrows ex_X)%nat /\ exact_spd_solver (cholesky_solve_mut ROps) /\
  exists wm b, ridge_fit ROps (cholesky_solve_mut ROps) eps ex_X [1; 0; 2] 1 false = Some (wm, b).
Proof.
  intros eps. assert (Hwf : wfR ex_X) by reflexivity.
  split; [exact Hwf|]. split; [cbn; lia|]. split; [exact cholesky_exact_spd|].
  apply (ridge_fit_raw_total _ eps ex_X [1; 0; 2] 1 Hwf); [lra | cbn; lia | reflexivity | exact cholesky_total_spd].
Qed.
(* the solver contracts are met by the modelled solvers, and a stationary point exists:
   Z = (1, -1)^T, y = (1, -1), alpha = 1, w = 1/3... checked directly: n = 2, p = 1, w = 2/3, c = 0 *)
Example C07_stationary_instance :
  let Z := fun (i k : nat) => if Nat.eqb i 0 then 1 else -1 in
  let y := fun i : nat => if Nat.eqb i 0 then 1 else -1 in
  (forall j, (j < 1)%nat -> grad_w 2 1 Z y 1 (fun _ => 2 / 3) 0 j = 0) /\ grad_c 2 1 Z y (fun _ => 2 / 3) 0 = 0.
Proof.
  cbv zeta. split.
  - intros j Hj. unfold grad_w, res, rsum. cbn. field.
  - unfold grad_c, res, rsum. cbn. field.
Qed.
Example C07_lsq_solver_instances : lsq_solver (qr_solve_mut ROps) /\
  (forall eps fact, svd_postcondition eps fact -> lsq_solver (svd_solve_with ROps fact eps)).
Proof. split; [exact qr_lsq_solver | exact svd_lsq_solver]. Qed.

(* a full-column-rank design: X = (1, 2, 4)^T, so [X 1] has independent columns; by
   C07_ols_qr_returns (not by evaluating the Householder steps over R) the QR fit returns *)
Example C07_ols_full_rank_instance : ols_full_rank ex_X.
Proof.
  intros c c0 H.
  pose proof (H 0%nat ltac:(cbn; lia)) as H0. pose proof (H 1%nat ltac:(cbn; lia)) as H1.
  unfold rsum in H0, H1. cbn in H0, H1.
  assert (E : c 0%nat = 0) by lra.
  split; [|lra]. intros k Hk. cbn in Hk. replace k with 0%nat by lia. exact E.
Qed.
Example C07_ols_instance :
  wfR ex_X /\ (ncols ex_X < nrows ex_X)%nat /\ ols_full_rank ex_X /\
  exists wm b, ols_fit ROps (qr_solve_mut ROps) ex_X [1; 0; 2] = Some (wm, b).
Proof.
  assert (Hwf : wfR ex_X) by reflexivity.
  split; [exact Hwf|]. split; [cbn; lia|]. split; [exact C07_ols_full_rank_instance|].
  apply C07_ols_qr_returns; [exact Hwf | cbn; lia | reflexivity | exact C07_ols_full_rank_instance].
Qed.
(* normalize = true on the same design: col_sd = sqrt (14/9) >= 1 = eps *)
Example C07_ridge_normalized_instance :
  (forall j, (j < ncols ex_X)%nat -> 1 <= col_sd ex_X j) /\
  exists wm b, ridge_fit ROps (cholesky_solve_mut ROps) 1 ex_X [1; 0; 2] 1 true = Some (wm, b).
Proof.
  assert (Hsd : forall j, (j < ncols ex_X)%nat -> 1 <= col_sd ex_X j).
  { intros j Hj. cbn in Hj. replace j with 0%nat by lia.
    rewrite <- sqrt_1 at 1. unfold col_sd. apply sqrt_le_1_alt.
    unfold col_mu, rsum. cbn. lra. }
  split; [exact Hsd|].
  apply C07_ridge_cholesky_returns_normalized; [lra | reflexivity | lra | cbn; lia | reflexivity | exact Hsd].
Qed.
(* fit and predict composed on the same design *)
Example C07_fit_predict_instance :
  (exists wm b yh, ols_fit ROps (qr_solve_mut ROps) ex_X [1; 0; 2] = Some (wm, b) /\ predicts ex_X wm b yh) /\
  (forall normalize, exists wm b yh,
     ridge_fit ROps (cholesky_solve_mut ROps) 1 ex_X [1; 0; 2] 1 normalize = Some (wm, b) /\ predicts ex_X wm b yh).
Proof.
  assert (Hwf : wfR ex_X) by reflexivity. split.
  - destruct (C07_ols_qr_fit_predict_total ex_X [1; 0; 2] Hwf ltac:(cbn; lia) eq_refl C07_ols_full_rank_instance)
      as [wm [b [yh [H1 [H2 _]]]]]. exists wm, b, yh. split; assumption.
  - intros normalize. apply C07_ridge_cholesky_fit_predict_total; [lra | exact Hwf | lra | cbn; lia | reflexivity |].
    intros _. exact (proj1 C07_ridge_normalized_instance).
Qed.
Example C07_aug_gram_instance : exists a G,
  D.h_stack ROps ex_X (D.ones ROps (nrows ex_X) 1) = Some a /\
  D.matmul ROps (D.transpose ROps a) a = Some G /\ pos_def G.
Proof.
  assert (Hwf : wfR ex_X) by reflexivity.
  destruct (aug_gram_exists ex_X Hwf) as [a [G [Ha [HG _]]]]. exists a, G.
  split; [exact Ha|]. split; [exact HG|].
  apply (proj2 (C07_ols_full_rank_iff_aug_gram_spd ex_X a G Hwf Ha HG)). exact C07_ols_full_rank_instance.
Qed.
(* the hypotheses of the SVD-model theorems are satisfiable: one-column systems, where C01 proves
   that svd_mut returns (C01_svd_column_instance): ridge on the single-feature design above (1 x 1
   system), least squares with no feature (intercept only: the augmented design is the column of ones) *)
Example C07_ridge_svd_model_instance : forall eps, cs_spec cs_R /\
  exists minpos, 0 < minpos /\ ridge_svd_regular cs_R minpos eps ex_X [1; 0; 2] 1 false /\
    exists wm b, ridge_fit ROps (svd_model_solver cs_R minpos) eps ex_X [1; 0; 2] 1 false = Some (wm, b).
Proof.
  intros eps. split; [exact cs_R_spec|].
  apply ridge_svd_model_instance; [reflexivity | reflexivity | cbn; lia | reflexivity].
Qed.
Example C07_ols_svd_model_instance :
  let X0 : dm R := D.mkdm 3 0 [] in
  wfR X0 /\ (ncols X0 < nrows X0)%nat /\
  exists minpos, 0 < minpos /\ ols_svd_regular cs_R minpos X0 /\
    exists wm b, ols_fit ROps (svd_model_solver cs_R minpos) X0 [1; 0; 2] = Some (wm, b).
Proof.
  cbv zeta. split; [reflexivity|]. split; [cbn; lia|].
  apply ols_svd_model_instance; [reflexivity | reflexivity | cbn; lia | reflexivity].
Qed.

(* ========================= rounding: predict at binary64 =========================
   The theorems above are exact-arithmetic statements.  These are about the SAME generic definition
   `predict` instantiated at FOps (Coq primitive floats = IEEE binary64, round to nearest even), the
   instance the correspondence check runs against the implementation bit for bit, proved through
   Flocq's PrimFloat bridge (Base/FloatError.v: FR x = real value of a float, ffin x = finite,
   u64 = 2^-53, eta64 = 2^-1075; C03.ProofsFloat.RM m = the matrix of real values).  C07/ProofsFloat.v.
   predict is y_i = fl( fl(sum_k x_ik w_k) + b ): p products, a left fold from 0 (the first addition is
   exact), one more rounding for the intercept.  The only no-overflow hypothesis is that the prediction
   in question is finite (non-finite values are absorbing; the theorem then DERIVES that the row of X,
   the coefficients and the intercept are finite).  Nothing here is about the solvers (QR / SVD / Cholesky). *)
From Coq Require Import ZArith Floats.
From SC Require Base.FloatError C03.ProofsFloat C03.ProofsFloat2 C07.ProofsFloat C07.ProofsFloatEx.

(* every finite prediction: with S_i = sum_k x_ik w_k and A_i = sum_k |x_ik w_k| over the real values,
   |FR y_i - (S_i + b)| <= ((1+u)^(p+1) - 1) (A_i + |b| + p eta) + p eta,
   and S_i + b is what the exact-arithmetic instance returns on the real values (C07_predict_affine) *)
Theorem C07_predict_float_error : forall (X w : dm PrimFloat.float) (b : PrimFloat.float)
    (yh : list PrimFloat.float) (i : nat),
  predict FOps X w b = Some yh -> (i < nrows X)%nat -> FloatError.ffin (nth i yh 0%float) ->
  let p := ncols X in
  let t := fun k => FloatError.FR (D.get FOps X i k) * FloatError.FR (D.get FOps w k 0%nat) in
  (forall k, (k < p)%nat -> FloatError.ffin (D.get FOps X i k) /\ FloatError.ffin (D.get FOps w k 0%nat)) /\
  FloatError.ffin b /\
  (exists yR, predict ROps (C03.ProofsFloat.RM X) (C03.ProofsFloat.RM w) (FloatError.FR b) = Some yR /\
              nth i yR 0 = FloatError.Rsuml (map t (seq 0 p)) + FloatError.FR b) /\
  Rabs (FloatError.FR (nth i yh 0%float) - (FloatError.Rsuml (map t (seq 0 p)) + FloatError.FR b)) <=
    ((1 + FloatError.u64) ^ (p + 1) - 1) *
      (FloatError.Rsumabs (map t (seq 0 p)) + Rabs (FloatError.FR b) + INR p * FloatError.eta64)
    + INR p * FloatError.eta64.
Proof. exact C07.ProofsFloat.predict_float_error. Qed.

(* what predict computes, for EVERY instance of the scalar operations (binary64 included): a returned
   prediction vector has one entry per row, the shapes were ncols X = nrows w and ncols w = 1, and
   entry i is (sum_k x_ik w_k) + b with the instance's own operations in the model's fold order *)
Theorem C07_predict_entries : forall (T : Type) (O : Ops T) (X w : dm T) (b : T) (yh : list T),
  predict O X w b = Some yh ->
  ncols X = nrows w /\ ncols w = 1%nat /\ length yh = nrows X /\
  forall i, (i < nrows X)%nat ->
    nth i yh (o0 O) = oadd O (osumn O (ncols X) (fun k => omul O (D.get O X i k) (D.get O w k 0%nat))) b.
Proof. exact (@C07.ProofsFloat.predict_entries). Qed.

(* decisions taken on a prediction (a classifier thresholding the regression output; th = 0: the sign):
   if the exact value S_i + b is farther from a finite threshold th than the bound above, the binary64
   comparisons th < y_i and y_i < th give the exact answers *)
Theorem C07_predict_float_robust_threshold : forall (X w : dm PrimFloat.float) (b : PrimFloat.float)
    (yh : list PrimFloat.float) (i : nat) (th : PrimFloat.float),
  predict FOps X w b = Some yh -> (i < nrows X)%nat -> FloatError.ffin (nth i yh 0%float) ->
  FloatError.ffin th ->
  let p := ncols X in
  let t := fun k => FloatError.FR (D.get FOps X i k) * FloatError.FR (D.get FOps w k 0%nat) in
  let v := FloatError.Rsuml (map t (seq 0 p)) + FloatError.FR b in
  ((1 + FloatError.u64) ^ (p + 1) - 1) *
      (FloatError.Rsumabs (map t (seq 0 p)) + Rabs (FloatError.FR b) + INR p * FloatError.eta64)
    + INR p * FloatError.eta64 < Rabs (v - FloatError.FR th) ->
  (PrimFloat.ltb th (nth i yh 0%float) = true <-> FloatError.FR th < v) /\
  (PrimFloat.ltb (nth i yh 0%float) th = true <-> v < FloatError.FR th).
Proof. exact C07.ProofsFloat.predict_float_robust_threshold. Qed.

(* ... and not inside the margin: x = w = 1 + 2^-52, b = -(1 + 2^-51), threshold 0.  The exact value is
   2^-104 > 0, the binary64 prediction is 0: the comparison 0 < y says false *)
Theorem C07_predict_threshold_margin_needed :
  let X := D.mkdm 1 1 [0x1.0000000000001p+0]%float in
  let w := D.mkdm 1 1 [0x1.0000000000001p+0]%float in
  let b := (-0x1.0000000000002p+0)%float in
  exists yh, predict FOps X w b = Some yh /\ (0 < nrows X)%nat /\
    FloatError.ffin (nth 0 yh 0%float) /\ FloatError.ffin 0%float /\
    FloatError.FR (D.get FOps X 0 0) * FloatError.FR (D.get FOps w 0 0) + FloatError.FR b = / 2 ^ 104 /\
    FloatError.FR 0%float < FloatError.FR (D.get FOps X 0 0) * FloatError.FR (D.get FOps w 0 0) + FloatError.FR b /\
    PrimFloat.ltb 0%float (nth 0 yh 0%float) = false.
Proof. exact C07.ProofsFloatEx.ex_threshold_margin_needed. Qed.

(* Exact invariance under a change of units by a power of two.  C07.ProofsFloat.sgn x is the sign bit
   of x (of a zero too).  If every entry of row i of X' is the entry of X times 2^e and every
   coefficient of w' the coefficient of w times 2^-e — as real numbers: the scaling rounded nothing —
   with unchanged sign bits, then prediction i is THE SAME FLOAT (Leibniz equality of primitive floats:
   bit identity, there is a single NaN), whatever the cancellation, subnormal products included *)
Theorem C07_predict_scale_pow2_exact : forall (e : Z) (X X' w w' : dm PrimFloat.float) (b : PrimFloat.float)
    (yh yh' : list PrimFloat.float) (i : nat),
  predict FOps X w b = Some yh -> predict FOps X' w' b = Some yh' ->
  nrows X' = nrows X -> ncols X' = ncols X -> (i < nrows X)%nat ->
  FloatError.ffin (nth i yh 0%float) -> FloatError.ffin (nth i yh' 0%float) ->
  (forall k, (k < ncols X)%nat ->
     (FloatError.FR (D.get FOps X' i k) = FloatError.FR (D.get FOps X i k) * powerRZ 2 e /\
      C07.ProofsFloat.sgn (D.get FOps X' i k) = C07.ProofsFloat.sgn (D.get FOps X i k)) /\
     (FloatError.FR (D.get FOps w' k 0%nat) = FloatError.FR (D.get FOps w k 0%nat) * powerRZ 2 (- e) /\
      C07.ProofsFloat.sgn (D.get FOps w' k 0%nat) = C07.ProofsFloat.sgn (D.get FOps w k 0%nat))) ->
  nth i yh' 0%float = nth i yh 0%float.
Proof. exact C07.ProofsFloat.predict_scale_pow2_exact. Qed.

(* ... in terms of the model's own X.mul_scalar(c), w.mul_scalar(d) with c = 2^e, d = 2^-e, when no
   entry is rounded by its scaling (no overflow, no underflow into the subnormal range that loses bits) *)
Theorem C07_predict_mul_scalar_pow2_exact : forall (e : Z) (X w : dm PrimFloat.float) (b c d : PrimFloat.float)
    (yh yh' : list PrimFloat.float) (i : nat),
  FloatError.FR c = powerRZ 2 e -> FloatError.FR d = powerRZ 2 (- e) ->
  (forall x, In x (values X) -> FloatError.FR (PrimFloat.mul x c) = FloatError.FR x * FloatError.FR c) ->
  (forall x, In x (values w) -> FloatError.FR (PrimFloat.mul x d) = FloatError.FR x * FloatError.FR d) ->
  predict FOps X w b = Some yh ->
  predict FOps (D.mul_scalar FOps X c) (D.mul_scalar FOps w d) b = Some yh' ->
  (i < nrows X)%nat -> FloatError.ffin (nth i yh 0%float) -> FloatError.ffin (nth i yh' 0%float) ->
  nth i yh' 0%float = nth i yh 0%float.
Proof. exact C07.ProofsFloat.predict_mul_scalar_pow2_exact. Qed.

(* the target side: coefficients and intercept scaled by 2^e exactly, and no product x_ik w_k underflows
   before or after (each is zero, or it and its scaled value are at least 2^-1022 in magnitude):
   prediction i is scaled by exactly 2^e *)
Theorem C07_predict_coef_scale_pow2_exact : forall (e : Z) (X w w' : dm PrimFloat.float) (b b' : PrimFloat.float)
    (yh yh' : list PrimFloat.float) (i : nat),
  predict FOps X w b = Some yh -> predict FOps X w' b' = Some yh' -> (i < nrows X)%nat ->
  FloatError.ffin (nth i yh 0%float) -> FloatError.ffin (nth i yh' 0%float) ->
  FloatError.FR b' = FloatError.FR b * powerRZ 2 e ->
  (forall k, (k < ncols X)%nat ->
     FloatError.FR (D.get FOps w' k 0%nat) = FloatError.FR (D.get FOps w k 0%nat) * powerRZ 2 e /\
     let t := FloatError.FR (D.get FOps X i k) * FloatError.FR (D.get FOps w k 0%nat) in
     (t = 0 \/ (/ 2 ^ 1022 <= Rabs t /\ / 2 ^ 1022 <= Rabs (t * powerRZ 2 e)))) ->
  FloatError.FR (nth i yh' 0%float) = FloatError.FR (nth i yh 0%float) * powerRZ 2 e.
Proof. exact C07.ProofsFloat.predict_coef_scale_pow2_exact. Qed.

(* ---------------- the hypotheses are satisfiable (inputs 0.1, 0.2, 0.3, 0.7 ...: every operation rounds) ---- *)
(* rows (0.1, 0.3, 1) and (0.2, 0.7, -2) (column-major storage), w = (0.3, -0.1, 0.7), b = 0.2 *)
Definition exf_X : dm PrimFloat.float :=
  D.mkdm 2 3 [0x1.999999999999ap-4; 0x1.999999999999ap-3; 0x1.3333333333333p-2; 0x1.6666666666666p-1; 1; (-2)]%float.
Definition exf_w : dm PrimFloat.float :=
  D.mkdm 3 1 [0x1.3333333333333p-2; (-0x1.999999999999ap-4); 0x1.6666666666666p-1]%float.
Definition exf_b : PrimFloat.float := 0x1.999999999999ap-3%float.

Example C07_predict_float_instance :
  exists yh, predict FOps exf_X exf_w exf_b = Some yh /\ (1 < nrows exf_X)%nat /\
             FloatError.ffin (nth 0 yh 0%float) /\ FloatError.ffin (nth 1 yh 0%float).
Proof. eexists. split; [vm_compute; reflexivity|]. split; [vm_compute; lia|]. split; vm_compute; reflexivity. Qed.


(* X times 4, w times 1/4 through mul_scalar *)
Example C07_predict_mul_scalar_instance :
  let c := 4%float in let d := 0.25%float in
  FloatError.FR c = powerRZ 2 2 /\ FloatError.FR d = powerRZ 2 (- (2)) /\
  (forall x, In x (values exf_X) -> FloatError.FR (PrimFloat.mul x c) = FloatError.FR x * FloatError.FR c) /\
  (forall x, In x (values exf_w) -> FloatError.FR (PrimFloat.mul x d) = FloatError.FR x * FloatError.FR d) /\
  exists yh yh', predict FOps exf_X exf_w exf_b = Some yh /\
    predict FOps (D.mul_scalar FOps exf_X c) (D.mul_scalar FOps exf_w d) exf_b = Some yh' /\
    (1 < nrows exf_X)%nat /\ FloatError.ffin (nth 1 yh 0%float) /\ FloatError.ffin (nth 1 yh' 0%float).
Proof. exact C07.ProofsFloatEx.ex_scale. Qed.

(* the entrywise hypothesis of C07_predict_scale_pow2_exact follows from the mul_scalar form *)
Example C07_predict_rescaled_instance : forall k, (k < ncols exf_X)%nat ->
  FloatError.FR (D.get FOps (D.mul_scalar FOps exf_X 4%float) 1 k) = FloatError.FR (D.get FOps exf_X 1 k) * powerRZ 2 2 /\
  C07.ProofsFloat.sgn (D.get FOps (D.mul_scalar FOps exf_X 4%float) 1 k) = C07.ProofsFloat.sgn (D.get FOps exf_X 1 k).
Proof. exact C07.ProofsFloatEx.ex_rescaled. Qed.


(* ---------------- predict at binary64, continued (C07/ProofsFloatBwd.v) ---------------- *)
From SC Require C07.ProofsFloatBwd.

(* when no product x_ik w_k underflows (each is zero or at least 2^-1022 in magnitude) the bound is
   purely relative to the magnitudes: no eta term *)
Theorem C07_predict_float_error_normal : forall (X w : dm PrimFloat.float) (b : PrimFloat.float)
    (yh : list PrimFloat.float) (i : nat),
  predict FOps X w b = Some yh -> (i < nrows X)%nat -> FloatError.ffin (nth i yh 0%float) ->
  let p := ncols X in
  let t := fun k => FloatError.FR (D.get FOps X i k) * FloatError.FR (D.get FOps w k 0%nat) in
  (forall k, (k < p)%nat -> t k = 0 \/ / 2 ^ 1022 <= Rabs (t k)) ->
  Rabs (FloatError.FR (nth i yh 0%float) - (FloatError.Rsuml (map t (seq 0 p)) + FloatError.FR b)) <=
    ((1 + FloatError.u64) ^ (p + 1) - 1) * (FloatError.Rsumabs (map t (seq 0 p)) + Rabs (FloatError.FR b)).
Proof. exact C07.ProofsFloatBwd.predict_float_error_normal. Qed.

(* backward stability: the computed prediction of row i is the EXACT value sum_k x_ik wh_k + bh (+ r) for
   coefficients wh within the relative distance (1+u)^(p+1) - 1 of w (they depend on the row), an
   intercept bh within u of b, and a residual r caused only by underflowing products:
   |r| <= (1+u)^p p eta, and r = 0 when no product underflows *)
Theorem C07_predict_float_backward : forall (X w : dm PrimFloat.float) (b : PrimFloat.float)
    (yh : list PrimFloat.float) (i : nat),
  predict FOps X w b = Some yh -> (i < nrows X)%nat -> FloatError.ffin (nth i yh 0%float) ->
  let p := ncols X in
  exists (wh : nat -> R) (bh r : R),
    FloatError.FR (nth i yh 0%float) =
      FloatError.Rsuml (map (fun k => FloatError.FR (D.get FOps X i k) * wh k) (seq 0 p)) + bh + r /\
    (forall k, (k < p)%nat ->
       Rabs (wh k - FloatError.FR (D.get FOps w k 0%nat)) <=
       ((1 + FloatError.u64) ^ (p + 1) - 1) * Rabs (FloatError.FR (D.get FOps w k 0%nat))) /\
    Rabs (bh - FloatError.FR b) <= FloatError.u64 * Rabs (FloatError.FR b) /\
    Rabs r <= (1 + FloatError.u64) ^ p * (INR p * FloatError.eta64) /\
    ((forall k, (k < p)%nat ->
        let t := FloatError.FR (D.get FOps X i k) * FloatError.FR (D.get FOps w k 0%nat) in
        t = 0 \/ / 2 ^ 1022 <= Rabs t) -> r = 0).
Proof. exact C07.ProofsFloatBwd.predict_float_backward. Qed.


(* ---------------- around the solver (C07/ProofsFloatSys.v) ---------------- *)
From SC Require C07.ProofsFloatSys.

(* the computed prediction against ANY real affine model (ws, bs) — e.g. the exact minimiser of the
   theorems above: the rounding bound of C07_predict_float_error plus the propagated coefficient error *)
Theorem C07_predict_float_vs_model : forall (X w : dm PrimFloat.float) (b : PrimFloat.float)
    (yh : list PrimFloat.float) (i : nat) (ws : nat -> R) (bs : R),
  predict FOps X w b = Some yh -> (i < nrows X)%nat -> FloatError.ffin (nth i yh 0%float) ->
  let p := ncols X in
  let x := fun k => FloatError.FR (D.get FOps X i k) in
  let wf := fun k => FloatError.FR (D.get FOps w k 0%nat) in
  Rabs (FloatError.FR (nth i yh 0%float) - (FloatError.Rsuml (map (fun k => x k * ws k) (seq 0 p)) + bs)) <=
    ((1 + FloatError.u64) ^ (p + 1) - 1) *
      (FloatError.Rsumabs (map (fun k => x k * wf k) (seq 0 p)) + Rabs (FloatError.FR b) + INR p * FloatError.eta64)
    + INR p * FloatError.eta64
    + FloatError.Rsuml (map (fun k => Rabs (x k) * Rabs (wf k - ws k)) (seq 0 p)) + Rabs (FloatError.FR b - bs).
Proof. exact C07.ProofsFloatSys.predict_float_vs_model. Qed.

(* the linear system RidgeRegression::fit builds, at binary64, entry by entry (n = number of rows):
   right-hand side (Z^T y)_jc and off-diagonal (Z^T Z)_jl are dot products of two columns,
   (1+u)^n - 1 relative to the sum of magnitudes plus n underflow terms; a diagonal entry gets one more
   rounding from `+ alpha`.  Only finiteness of the entry in question is assumed.  What the SOLVER then
   does with this system has no rounding theorem. *)
Theorem C07_ridge_system_float_error : forall (Z ycol a rhs : dm PrimFloat.float) (alpha : PrimFloat.float),
  ridge_system FOps (ncols Z) Z ycol alpha = Some (a, rhs) ->
  let n := nrows Z in
  (forall j c, (j < ncols Z)%nat -> (c < ncols ycol)%nat -> FloatError.ffin (D.get FOps rhs j c) ->
     let t := fun i => FloatError.FR (D.get FOps Z i j) * FloatError.FR (D.get FOps ycol i c) in
     Rabs (FloatError.FR (D.get FOps rhs j c) - FloatError.Rsuml (map t (seq 0 n))) <=
       ((1 + FloatError.u64) ^ n - 1) * (FloatError.Rsumabs (map t (seq 0 n)) + INR n * FloatError.eta64)
       + INR n * FloatError.eta64) /\
  (forall j l, (j < ncols Z)%nat -> (l < ncols Z)%nat -> FloatError.ffin (D.get FOps a j l) ->
     let t := fun i => FloatError.FR (D.get FOps Z i j) * FloatError.FR (D.get FOps Z i l) in
     (j <> l ->
      Rabs (FloatError.FR (D.get FOps a j l) - FloatError.Rsuml (map t (seq 0 n))) <=
        ((1 + FloatError.u64) ^ n - 1) * (FloatError.Rsumabs (map t (seq 0 n)) + INR n * FloatError.eta64)
        + INR n * FloatError.eta64) /\
     (j = l ->
      FloatError.ffin alpha /\
      Rabs (FloatError.FR (D.get FOps a j l) - (FloatError.Rsuml (map t (seq 0 n)) + FloatError.FR alpha)) <=
        ((1 + FloatError.u64) ^ (n + 1) - 1) *
          (FloatError.Rsumabs (map t (seq 0 n)) + Rabs (FloatError.FR alpha) + INR n * FloatError.eta64)
        + INR n * FloatError.eta64)).
Proof. exact C07.ProofsFloatSys.ridge_system_float_error. Qed.

(* ... as a statement about fit itself (normalize = false, ANY solver): the returned coefficients are
   the solver's answer to a system (a, rhs) whose entries are within these bounds of X^T y and
   X^T X + alpha I, and the intercept is exactly 0 *)
Theorem C07_ridge_fit_raw_system_float_error : forall solver eps (X : dm PrimFloat.float)
    (y : list PrimFloat.float) (alpha : PrimFloat.float) w b,
  ridge_fit FOps solver eps X y alpha false = Some (w, b) ->
  let n := nrows X in
  b = 0%float /\ length y = n /\
  exists a rhs, solver a rhs = Some w /\
  (forall j, (j < ncols X)%nat -> FloatError.ffin (D.get FOps rhs j 0) ->
     let t := fun i => FloatError.FR (D.get FOps X i j) * FloatError.FR (nth i y 0%float) in
     Rabs (FloatError.FR (D.get FOps rhs j 0) - FloatError.Rsuml (map t (seq 0 n))) <=
       ((1 + FloatError.u64) ^ n - 1) * (FloatError.Rsumabs (map t (seq 0 n)) + INR n * FloatError.eta64)
       + INR n * FloatError.eta64) /\
  (forall j l, (j < ncols X)%nat -> (l < ncols X)%nat -> FloatError.ffin (D.get FOps a j l) ->
     let t := fun i => FloatError.FR (D.get FOps X i j) * FloatError.FR (D.get FOps X i l) in
     (j <> l ->
      Rabs (FloatError.FR (D.get FOps a j l) - FloatError.Rsuml (map t (seq 0 n))) <=
        ((1 + FloatError.u64) ^ n - 1) * (FloatError.Rsumabs (map t (seq 0 n)) + INR n * FloatError.eta64)
        + INR n * FloatError.eta64) /\
     (j = l ->
      FloatError.ffin alpha /\
      Rabs (FloatError.FR (D.get FOps a j l) - (FloatError.Rsuml (map t (seq 0 n)) + FloatError.FR alpha)) <=
        ((1 + FloatError.u64) ^ (n + 1) - 1) *
          (FloatError.Rsumabs (map t (seq 0 n)) + Rabs (FloatError.FR alpha) + INR n * FloatError.eta64)
        + INR n * FloatError.eta64)).
Proof. exact C07.ProofsFloatSys.ridge_fit_raw_system_float_error. Qed.

(* satisfiable: the Cholesky ridge fit at binary64 on rows (0.1, 0.3), (0.2, 0.7), (1, -2),
   y = (0.3, -0.1, 0.7), alpha = 0.1 returns, and every entry of the system it built is finite *)
Definition exf_Z : dm PrimFloat.float :=
  D.mkdm 3 2 [0x1.999999999999ap-4; 0x1.999999999999ap-3; 1; 0x1.3333333333333p-2; 0x1.6666666666666p-1; (-2)]%float.
Example C07_ridge_system_float_instance :
  let y := [0x1.3333333333333p-2; (-0x1.999999999999ap-4); 0x1.6666666666666p-1]%float in
  let alpha := 0x1.999999999999ap-4%float in
  (exists w b, ridge_fit FOps (cholesky_solve_mut FOps) 0x1p-52%float exf_Z y alpha false = Some (w, b)) /\
  exists a rhs, ridge_system FOps (ncols exf_Z) exf_Z (col_vec FOps y) alpha = Some (a, rhs) /\
    (0 < ncols (col_vec FOps y))%nat /\
    (forall j, (j < ncols exf_Z)%nat -> FloatError.ffin (D.get FOps rhs j 0) /\
       forall l, (l < ncols exf_Z)%nat -> FloatError.ffin (D.get FOps a j l)).
Proof.
  cbv zeta. split; [eexists; eexists; vm_compute; reflexivity|].
  eexists. eexists. split; [vm_compute; reflexivity|]. split; [vm_compute; lia|].
  intros j Hj. cbn [exf_Z ncols] in Hj. destruct j as [|[|j]]; [| |lia]; (split; [vm_compute; reflexivity|]);
    intros l Hl; cbn [exf_Z ncols] in Hl; (destruct l as [|[|l]]; [| |lia]); vm_compute; reflexivity.
Qed.
