(* C07 — least squares and ridge regression.  Property theorems only: each is closed by
   `exact <lemma>` (or a few lines assembling lemmas) and its assumptions are printed by the check.
   Statements are about the executable models of SC.C07.Model instantiated at the real numbers
   (`ROps`): they say what the code computes in exact arithmetic, for data of EVERY size.  The same
   generic definitions instantiated at binary64 are what the correspondence check runs against
   src/linear/{linear_regression,ridge_regression}.rs.  Rounding-error bounds are not theorems.

   Vocabulary (C07/ProofsFit.v, ProofsSolve.v, ProofsMain.v):
     wfR X                 the DenseMatrix value is well formed (|values| = nrows * ncols)
     residual X y w b i    y_i - (sum_k X_ik w_k0 + b)                      (training residual)
     objective X y a w b   sum_i (y_i - sum_k X_ik w_k - b)^2 + a sum_k w_k^2
     objective_std Z y a mu sd w b   the same objective over the standardised columns Z, at the
                           coefficients sd_k w_k and the intercept b + sum_k mu_k w_k, i.e. as a
                           function of the REPORTED (raw) coefficients and intercept
     lsq_solver s          whatever s returns for a tall system satisfies the normal equations
     exact_spd_solver s    whatever s returns for a symmetric positive-definite system solves it
     svd_postcondition     orthonormal U, V, thresholded singular values, U diag(s) V^T = A
   Extension (C07/ProofsOLSTotal.v, ProofsOLSGram.v, ProofsRidgeTotal.v, ProofsPredict.v):
     ols_full_rank X       the columns of the augmented design [X 1] are linearly independent
     aug_gram_pos_def X    the quadratic form of [X 1]^T [X 1] is positive definite (equivalent)
     indep_cols m n A      the same for a function matrix of C01 (m rows, n columns)
     col_sd X j            sqrt (sum_i (X_ij - mean_j)^2 / n), the population deviation of column j
     predicts X' wm b yh   predict ROps X' wm b = Some yh, |yh| = nrows X', yh_i = sum_k X'_ik w_k + b
   SVD paths end to end (C07/ProofsSVDModel.v):
     svd_model_solver cs minpos   svd_solve_mut ROps 0 cs minpos: C01's svd_mut at eps = 0, then SVD::solve
     svd_regular_on cs minpos a   C01's bd_regular for the system matrix a (no non-zero bidiagonal
                                  entry below minpos); ols_svd_regular / ridge_svd_regular: the same
                                  for the system that fit builds
     cs_spec cs                   cs is copysign (C01) *)
From Coq Require Import List Arith Bool Reals Lra Lia.
From SC Require Import Base.Num C01.Model C01.Proofs C01.Proofs_svd C01.Proofs_svd_bidiag C03.ProofsBase
     C07.Model C07.ProofsObj C07.ProofsFit C07.ProofsRidge C07.ProofsSolve C07.ProofsOLS C07.ProofsMain C07.ProofsOLSTotal C07.ProofsOLSGram C07.ProofsRidgeTotal C07.ProofsPredict C07.ProofsSVDModel.
Import ListNotations.
Open Scope R_scope.

Local Notation get := (D.get ROps).

(* ============================== ordinary least squares ============================== *)
(* LinearRegression::fit with ANY least-squares solver, n > p: the residual y - y_hat is orthogonal
   to every column of X and sums to zero, and (w, b) minimises |y - X w - b|^2 over all (w', b'). *)
Theorem C07_ols_normal_equations : forall solver (X : dm R) (y : list R) wm b,
  wfR X -> (ncols X < nrows X)%nat -> lsq_solver solver ->
  ols_fit ROps solver X y = Some (wm, b) ->
  length y = nrows X /\ nrows wm = ncols X /\ ncols wm = 1%nat /\
  (forall j, (j < ncols X)%nat -> rsum (nrows X) (fun i => get X i j * residual X y wm b i) = 0) /\
  rsum (nrows X) (fun i => residual X y wm b i) = 0 /\
  (forall w' b', objective X y 0 (colf wm) b <= objective X y 0 w' b').
Proof. exact ols_normal_equations. Qed.

(* the QR path end to end (qr_mut + QR::solve of C01 behind the entry point's shape tests):
   no hypothesis on the solver is left *)
Theorem C07_ols_qr_exact : forall (X : dm R) (y : list R) wm b,
  wfR X -> (ncols X < nrows X)%nat ->
  ols_fit ROps (qr_solve_mut ROps) X y = Some (wm, b) ->
  (forall j, (j < ncols X)%nat -> rsum (nrows X) (fun i => get X i j * residual X y wm b i) = 0) /\
  rsum (nrows X) (fun i => residual X y wm b i) = 0.
Proof.
  intros X y wm b Hwf Hnp Hfit.
  destruct (ols_normal_equations _ X y wm b Hwf Hnp qr_lsq_solver Hfit) as (_ & _ & _ & H1 & H2 & _).
  split; assumption.
Qed.
(* the SVD path: for EVERY factorisation routine with the SVD's post-condition (C01 proves the
   post-condition for the tail of svd_mut only, not for the sweeps: this is the inherited gap) *)
Theorem C07_ols_svd_exact : forall eps fact (X : dm R) (y : list R) wm b,
  svd_postcondition eps fact -> wfR X -> (ncols X < nrows X)%nat ->
  ols_fit ROps (svd_solve_with ROps fact eps) X y = Some (wm, b) ->
  (forall j, (j < ncols X)%nat -> rsum (nrows X) (fun i => get X i j * residual X y wm b i) = 0) /\
  rsum (nrows X) (fun i => residual X y wm b i) = 0.
Proof.
  intros eps fact X y wm b Hp Hwf Hnp Hfit.
  destruct (ols_normal_equations _ X y wm b Hwf Hnp (svd_lsq_solver eps fact Hp) Hfit) as (_ & _ & _ & H1 & H2 & _).
  split; assumption.
Qed.

(* ===================== OLS: totality, uniqueness, solver agreement ===================== *)
(* Full column rank of the augmented design [X 1] (C07/ProofsOLSTotal.v):
     ols_full_rank X      the columns of [X 1] are linearly independent: sum_k X_ik c_k + c0 = 0 for
                          every row i only for c = 0, c0 = 0;
     aug_gram_pos_def X   [X 1]^T [X 1] is positive definite, written as a quadratic form:
                          (c, c0) <> 0  ->  0 < sum_i (sum_k X_ik c_k + c0)^2.
   The two are equivalent; the first composes with C01's QR invariants (Q^T A = R, Q orthogonal),
   the second is the hypothesis of C01's chol_spd_some. *)
Theorem C07_ols_full_rank_iff_gram_pos_def : forall X : dm R, ols_full_rank X <-> aug_gram_pos_def X.
Proof. exact ols_full_rank_iff_pos_def. Qed.
(* the same hypothesis with the library's own operations: a = X.h_stack(ones), G = a^T a; then
   "G is positive definite" (pos_def, the hypothesis of C01's chol_spd_some) <-> ols_full_rank X *)
Theorem C07_ols_full_rank_iff_aug_gram_spd : forall (X a G : dm R), wfR X ->
  D.h_stack ROps X (D.ones ROps (nrows X) 1) = Some a ->
  D.matmul ROps (D.transpose ROps a) a = Some G ->
  (pos_def G <-> ols_full_rank X).
Proof. exact aug_gram_pos_def_iff. Qed.

(* totality of the QR path: on a full-column-rank design with n > p rows the diagonal of R produced
   by C01's qr_mut has no zero, QR::solve does not panic, and LinearRegression::fit RETURNS *)
Theorem C07_ols_qr_returns : forall (X : dm R) (y : list R),
  wfR X -> (ncols X < nrows X)%nat -> length y = nrows X -> ols_full_rank X ->
  exists wm b, ols_fit ROps (qr_solve_mut ROps) X y = Some (wm, b).
Proof. exact ols_qr_returns. Qed.
(* ... and ONLY there: over the reals the QR fit returns exactly on full-column-rank designs (on a
   rank-deficient one qr_mut leaves an exactly zero diagonal entry and QR::solve panics) *)
Theorem C07_ols_qr_returns_iff_full_rank : forall (X : dm R) (y : list R),
  wfR X -> (ncols X < nrows X)%nat -> length y = nrows X ->
  ((exists wm b, ols_fit ROps (qr_solve_mut ROps) X y = Some (wm, b)) <-> ols_full_rank X).
Proof. exact ols_qr_returns_iff. Qed.
(* the solver-level fact behind it: qr_mut on independent columns gives a non-zero diagonal of R,
   hence qr_solve_mut (= qr_mut().and_then(solve)) returns *)
Theorem C07_qr_diagonal_nonzero : forall m n (A : @L.Mx R), (n <= m)%nat -> indep_cols m n A ->
  forall k, (k < n)%nat -> snd (L.qr_mut ROps m n A) k <> 0.
Proof. exact qr_tau_nonzero. Qed.
(* the SVD path: SVD::solve has no panic of its own, so fit returns whenever the factorisation
   routine returns on the augmented shape (no rank condition; that the sweeps converge is C01's gap) *)
Theorem C07_ols_svd_returns : forall eps fact (X : dm R) (y : list R),
  wfR X -> (ncols X < nrows X)%nat -> length y = nrows X ->
  (forall A, exists st, fact (nrows X) (ncols X + 1)%nat A = Some st) ->
  exists wm b, ols_fit ROps (svd_solve_with ROps fact eps) X y = Some (wm, b).
Proof. exact ols_svd_returns. Qed.

(* uniqueness: what fit returns (any least-squares solver) is the ONLY minimiser of |y - Xw' - b'|^2 *)
Theorem C07_ols_unique_minimiser : forall solver (X : dm R) (y : list R) wm b,
  wfR X -> (ncols X < nrows X)%nat -> ols_full_rank X -> lsq_solver solver ->
  ols_fit ROps solver X y = Some (wm, b) ->
  forall w' b', objective X y 0 w' b' <= objective X y 0 (colf wm) b ->
    (forall k, (k < ncols X)%nat -> w' k = get wm k 0%nat) /\ b' = b.
Proof. exact ols_unique_minimiser. Qed.

(* "the QR and SVD solvers agree" (exact arithmetic): any two least-squares solvers return the same
   coefficients and intercept on a full-column-rank design *)
Theorem C07_ols_solvers_agree : forall s1 s2 (X : dm R) (y : list R) w1 b1 w2 b2,
  wfR X -> (ncols X < nrows X)%nat -> ols_full_rank X -> lsq_solver s1 -> lsq_solver s2 ->
  ols_fit ROps s1 X y = Some (w1, b1) -> ols_fit ROps s2 X y = Some (w2, b2) ->
  (forall k, (k < ncols X)%nat -> get w1 k 0%nat = get w2 k 0%nat) /\ b1 = b2.
Proof. exact ols_solvers_agree. Qed.
(* ... instantiated: the QR fit exists, and whatever the SVD path returns (for EVERY factorisation
   with the SVD's post-condition) equals it *)
Theorem C07_ols_qr_svd_agree : forall eps fact (X : dm R) (y : list R),
  svd_postcondition eps fact ->
  wfR X -> (ncols X < nrows X)%nat -> length y = nrows X -> ols_full_rank X ->
  exists wq bq, ols_fit ROps (qr_solve_mut ROps) X y = Some (wq, bq) /\
    (forall w' b', objective X y 0 (colf wq) bq <= objective X y 0 w' b') /\
    forall ws bs, ols_fit ROps (svd_solve_with ROps fact eps) X y = Some (ws, bs) ->
      (forall k, (k < ncols X)%nat -> get ws k 0%nat = get wq k 0%nat) /\ bs = bq.
Proof.
  intros eps fact X y Hp Hwf Hnp Hy Hfr.
  destruct (ols_qr_total_unique X y Hwf Hnp Hy Hfr) as [wq [bq [Hfit [Hmin [_ Hag]]]]].
  exists wq, bq. split; [exact Hfit|]. split; [exact Hmin|].
  intros ws bs Hs. exact (Hag _ ws bs (svd_lsq_solver eps fact Hp) Hs).
Qed.

(* ================================= ridge regression ================================= *)
(* normalize = false: raw columns, intercept exactly 0; the gradient of
   |y - X w|^2 + alpha |w|^2 vanishes at the reported w, which is the unique minimiser. *)
Theorem C07_ridge_gradient_zero_raw : forall solver eps (X : dm R) (y : list R) alpha wm b,
  wfR X -> 0 < alpha -> exact_spd_solver solver ->
  ridge_fit ROps solver eps X y alpha false = Some (wm, b) ->
  b = 0 /\ nrows wm = ncols X /\ ncols wm = 1%nat /\
  (forall j, (j < ncols X)%nat ->
     alpha * get wm j 0%nat - rsum (nrows X) (fun i => get X i j * residual X y wm 0 i) = 0) /\
  (forall w', objective X y alpha (colf wm) 0 <= objective X y alpha w' 0) /\
  (forall w', objective X y alpha w' 0 <= objective X y alpha (colf wm) 0 ->
     forall k, (k < ncols X)%nat -> w' k = get wm k 0%nat).
Proof. exact ridge_raw_minimiser. Qed.

(* normalize = true: columns standardised by the column mean and the (population) standard
   deviation, coefficients divided by the deviation, intercept = mean y - sum_k w_k mu_k.  In the
   standardised coordinates the residual of the REPORTED model sums to zero (unpenalised
   intercept), the penalised gradient alpha sd_j w_j - sum_i Z_ij r_i vanishes, and (w, b) is the
   unique minimiser of the standardised objective. *)
Theorem C07_ridge_gradient_zero_normalized : forall solver eps (X : dm R) (y : list R) alpha wm b,
  0 < eps -> wfR X -> 0 < alpha -> exact_spd_solver solver ->
  ridge_fit ROps solver eps X y alpha true = Some (wm, b) ->
  exists Z mu sd, rescale_x ROps eps X = Some (Z, mu, sd) /\
    nrows Z = nrows X /\ ncols Z = ncols X /\ nrows wm = ncols X /\ ncols wm = 1%nat /\
    (forall j, (j < ncols X)%nat ->
       nth j mu 0 = rsum (nrows X) (fun i => get X i j) / INR (nrows X) /\
       nth j sd 0 = sqrt (rsum (nrows X) (fun i => (get X i j - nth j mu 0) ^ 2) / INR (nrows X)) /\
       nth j sd 0 <> 0) /\
    (forall i j, (i < nrows X)%nat -> (j < ncols X)%nat -> get Z i j = (get X i j - nth j mu 0) / nth j sd 0) /\
    (forall i, (i < nrows X)%nat ->
       residual X y wm b i
       = nth i y 0 - rsum (ncols X) (fun k => get Z i k * (get wm k 0%nat * nth k sd 0))
         - (b + rsum (ncols X) (fun k => get wm k 0%nat * nth k mu 0))) /\
    (forall j, (j < ncols X)%nat ->
       alpha * (get wm j 0%nat * nth j sd 0) - rsum (nrows X) (fun i => get Z i j * residual X y wm b i) = 0) /\
    rsum (nrows X) (fun i => residual X y wm b i) = 0 /\
    (forall w' b', objective_std Z y alpha mu sd (colf wm) b <= objective_std Z y alpha mu sd w' b') /\
    (forall w' b', objective_std Z y alpha mu sd w' b' <= objective_std Z y alpha mu sd (colf wm) b ->
       (forall k, (k < ncols X)%nat -> w' k = get wm k 0%nat) /\ b' = b).
Proof. exact ridge_norm_minimiser. Qed.

(* strict convexity on its own: a stationary point of the ridge objective (alpha > 0, at least one
   row) is its unique global minimiser — the index-level statement behind the two theorems above *)
Theorem C07_ridge_unique_minimiser : forall n p (Z : nat -> nat -> R) (y : nat -> R) alpha w c,
  0 < alpha -> (0 < n)%nat ->
  (forall j, (j < p)%nat -> grad_w n p Z y alpha w c j = 0) -> grad_c n p Z y w c = 0 ->
  (forall w' c', obj n p Z y alpha w c <= obj n p Z y alpha w' c') /\
  (forall w' c', obj n p Z y alpha w' c' <= obj n p Z y alpha w c ->
     (forall k, (k < p)%nat -> w' k = w k) /\ c' = c).
Proof.
  intros n p Z y alpha w c Ha Hn Hg Hc. split.
  - exact (stationary_min n p Z y alpha (Rlt_le _ _ Ha) w c Hg Hc).
  - exact (stationary_unique n p Z y alpha (Rlt_le _ _ Ha) w c Ha Hn Hg Hc).
Qed.

(* the Cholesky path end to end (C01's cholesky + Cholesky::solve behind the entry point's shape
   tests): exact on every system `fit` builds with alpha > 0, and it always returns there *)
Theorem C07_cholesky_solver_exact : exact_spd_solver (cholesky_solve_mut ROps) /\ total_spd_solver (cholesky_solve_mut ROps).
Proof. split; [exact cholesky_exact_spd | exact cholesky_total_spd]. Qed.
Theorem C07_ridge_cholesky_returns : forall eps (X : dm R) (y : list R) alpha,
  wfR X -> 0 < alpha -> (ncols X < nrows X)%nat -> length y = nrows X ->
  exists wm b, ridge_fit ROps (cholesky_solve_mut ROps) eps X y alpha false = Some (wm, b).
Proof. intros eps X y alpha H1 H2 H3 H4. exact (ridge_fit_raw_total _ eps X y alpha H1 H2 H3 H4 cholesky_total_spd). Qed.
(* totality with normalize = true: when every column's population standard deviation
   col_sd X j = sqrt (sum_i (X_ij - mean_j)^2 / n) is at least epsilon (the complement of the code's
   own Err test; a non-constant column has col_sd > 0), rescale_x returns, the standardised Gram
   matrix Z^T Z + alpha I handed to the solver is symmetric positive definite, and the Cholesky fit
   returns; a column with col_sd < epsilon (e.g. a constant one) makes fit return Err *)
Theorem C07_ridge_standardised_system_spd : forall eps (X Z : dm R) mu sd (y : list R) alpha,
  0 < eps -> wfR X -> 0 < alpha -> length y = nrows X ->
  rescale_x ROps eps X = Some (Z, mu, sd) ->
  exists a rhs, ridge_system ROps (ncols X) Z (col_vec ROps y) alpha = Some (a, rhs) /\
    square_system a rhs /\ sym a /\ pos_def a /\ nrows a = ncols X /\
    (forall r c, (r < ncols X)%nat -> (c < ncols X)%nat ->
       get a r c = rsum (nrows X) (fun i => get Z i r * get Z i c) + (if Nat.eqb r c then alpha else 0)).
Proof. exact ridge_norm_system_spd. Qed.
Theorem C07_ridge_cholesky_returns_normalized : forall eps (X : dm R) (y : list R) alpha,
  0 < eps -> wfR X -> 0 < alpha -> (ncols X < nrows X)%nat -> length y = nrows X ->
  (forall j, (j < ncols X)%nat -> eps <= col_sd X j) ->
  exists wm b, ridge_fit ROps (cholesky_solve_mut ROps) eps X y alpha true = Some (wm, b).
Proof. exact ridge_cholesky_norm_returns. Qed.
(* the same for every solver that is total and exact on SPD systems, both normalisation settings *)
Theorem C07_ridge_fit_returns : forall solver eps (X : dm R) (y : list R) alpha normalize,
  0 < eps -> wfR X -> 0 < alpha -> (ncols X < nrows X)%nat -> length y = nrows X ->
  (normalize = true -> forall j, (j < ncols X)%nat -> eps <= col_sd X j) ->
  total_spd_solver solver -> exact_spd_solver solver ->
  exists wm b, ridge_fit ROps solver eps X y alpha normalize = Some (wm, b).
Proof. exact ridge_fit_total. Qed.
Theorem C07_ridge_nonconstant_column_sd_pos : forall (X : dm R) j, (0 < nrows X)%nat ->
  (exists i, (i < nrows X)%nat /\ get X i j <> col_mu X j) -> 0 < col_sd X j.
Proof. exact col_sd_pos. Qed.
Theorem C07_ridge_small_deviation_err : forall solver eps (X : dm R) (y : list R) alpha j,
  (j < ncols X)%nat -> col_sd X j < eps -> ridge_fit ROps solver eps X y alpha true = None.
Proof. exact ridge_fit_norm_err. Qed.
(* the SVD path on the ridge system, for every factorisation with the SVD's post-condition *)
Theorem C07_svd_solver_exact : forall eps fact, svd_postcondition eps fact ->
  exact_spd_solver (svd_solve_with ROps fact eps).
Proof. exact svd_exact_spd. Qed.

(* "the Cholesky and SVD solvers agree": any two solvers that are exact on symmetric
   positive-definite systems return the same coefficients and intercept (exact arithmetic) *)
Theorem C07_ridge_solvers_agree : forall s1 s2 eps (X : dm R) (y : list R) alpha normalize w1 b1 w2 b2,
  0 < eps -> wfR X -> 0 < alpha -> exact_spd_solver s1 -> exact_spd_solver s2 ->
  ridge_fit ROps s1 eps X y alpha normalize = Some (w1, b1) ->
  ridge_fit ROps s2 eps X y alpha normalize = Some (w2, b2) ->
  (forall k, (k < ncols X)%nat -> get w1 k 0%nat = get w2 k 0%nat) /\ b1 = b2.
Proof. exact ridge_solvers_agree. Qed.

(* ===================================== predict ===================================== *)
(* predict(X) = X w + b row by row, for both estimators (they share the code): whenever the
   coefficient matrix is (ncols X) x 1 the call returns one value per row of X, the i-th being
   sum_k X_ik w_k + b; with another number of coefficient rows it panics. *)
Theorem C07_predict_affine : forall (X w : dm R) (b : R), ncols X = nrows w -> ncols w = 1%nat ->
  exists yh, predict ROps X w b = Some yh /\ length yh = nrows X /\
    forall i, (i < nrows X)%nat ->
      nth i yh 0 = rsum (ncols X) (fun k => get X i k * get w k 0%nat) + b.
Proof. exact predict_spec. Qed.
Theorem C07_predict_shape_mismatch : forall (X w : dm R) (b : R), ncols X <> nrows w ->
  predict ROps X w b = None.
Proof. exact predict_none. Qed.

(* ===================== the SVD paths end to end (C01's svd_mut, eps = 0) ===================== *)
(* The SVD-path theorems above hold for every factorisation routine with `svd_postcondition`.  Here
   the routine is C01's own transliteration of svd_mut with the negligibility threshold eps = 0
   (svd_model_solver cs minpos = svd_solve_mut ROps 0 cs minpos of C07/Model.v), and the
   post-condition is discharged from C01's svd_mut_correct (the theorem C01_svd_factorisation_exact of
   Properties/C01.v): C07/ProofsSVDModel.v.  Hypotheses that remain, stated plainly:
     - `fit ... = Some (wm, b)`, i.e. the factorisation model RETURNED (C01 proves no convergence: over
       R with eps = 0 the sweeps terminate only on special inputs, e.g. one-column systems);
     - svd_regular_on cs minpos a = C01's bd_regular for the system matrix a that fit hands to the
       solver: no entry of its bidiagonal form is non-zero but smaller than minpos in magnitude
       (otherwise C01 REFUTES the factorisation); ols_svd_regular / ridge_svd_regular say this for the
       augmented design [X 1] resp. for the ridge system Z^T Z + alpha I that fit builds;
     - 0 < minpos, cs_spec cs (the copysign parameter is copysign). *)
(* the guarded factorisation (None on irregular inputs, svd_mut otherwise) meets the post-condition
   for ALL inputs; on regular system matrices the model solver is the guarded one *)
Theorem C07_svd_model_postcondition : forall cs minpos, 0 < minpos -> cs_spec cs ->
  svd_postcondition 0 (svd_fact_reg cs minpos) /\
  (forall a b, svd_regular_on cs minpos a -> svd_model_solver cs minpos a b = svd_reg_solver cs minpos a b).
Proof.
  intros cs minpos H1 H2. split; [exact (svd_fact_reg_postcondition cs minpos H1 H2)|].
  intros a b Hr. exact (svd_reg_solver_eq cs minpos a b Hr).
Qed.
(* SVD::solve of the model on a regular tall system: the normal equations; on a regular SPD system: exact *)
Theorem C07_svd_model_solver_exact : forall cs minpos, 0 < minpos -> cs_spec cs ->
  (forall a b w, svd_regular_on cs minpos a ->
     wfR a -> wfR b -> nrows b = nrows a -> ncols b = 1%nat -> (ncols a <= nrows a)%nat ->
     svd_model_solver cs minpos a b = Some w -> lsq_solution a b w) /\
  (forall a rhs w, svd_regular_on cs minpos a -> square_system a rhs -> sym a -> pos_def a ->
     svd_model_solver cs minpos a rhs = Some w -> lin_solution a rhs w).
Proof.
  intros cs minpos H1 H2. split.
  - intros a b w Hr A1 B1 E1 E2 E3 Hs. exact (svd_model_lsq cs minpos a b w H1 H2 Hr A1 B1 E1 E2 E3 Hs).
  - intros a rhs w Hr Hsq Hsym Hpd Hs. exact (svd_model_exact_spd cs minpos a rhs w H1 H2 Hr Hsq Hsym Hpd Hs).
Qed.
(* OLS through the SVD model: whatever fit returns satisfies the normal equations and minimises *)
Theorem C07_ols_svd_model_exact : forall cs minpos (X : dm R) (y : list R) wm b,
  0 < minpos -> cs_spec cs -> wfR X -> (ncols X < nrows X)%nat -> ols_svd_regular cs minpos X ->
  ols_fit ROps (svd_model_solver cs minpos) X y = Some (wm, b) ->
  length y = nrows X /\ nrows wm = ncols X /\ ncols wm = 1%nat /\
  (forall j, (j < ncols X)%nat -> rsum (nrows X) (fun i => get X i j * residual X y wm b i) = 0) /\
  rsum (nrows X) (fun i => residual X y wm b i) = 0 /\
  (forall w' b', objective X y 0 (colf wm) b <= objective X y 0 w' b').
Proof. exact ols_svd_model_exact. Qed.
(* ... and on a full-column-rank design it equals the QR fit (which exists) *)
Theorem C07_ols_qr_svd_model_agree : forall cs minpos (X : dm R) (y : list R),
  0 < minpos -> cs_spec cs -> wfR X -> (ncols X < nrows X)%nat -> length y = nrows X ->
  ols_full_rank X -> ols_svd_regular cs minpos X ->
  exists wq bq, ols_fit ROps (qr_solve_mut ROps) X y = Some (wq, bq) /\
    forall ws bs, ols_fit ROps (svd_model_solver cs minpos) X y = Some (ws, bs) ->
      (forall k, (k < ncols X)%nat -> get ws k 0%nat = get wq k 0%nat) /\ bs = bq.
Proof. exact ols_qr_svd_model_agree. Qed.
(* ridge through the SVD model, normalize = false / true: gradient zero, unique minimiser *)
Theorem C07_ridge_svd_model_raw : forall cs minpos eps (X : dm R) (y : list R) alpha wm b,
  0 < minpos -> cs_spec cs -> wfR X -> 0 < alpha -> ridge_svd_regular cs minpos eps X y alpha false ->
  ridge_fit ROps (svd_model_solver cs minpos) eps X y alpha false = Some (wm, b) ->
  b = 0 /\ nrows wm = ncols X /\ ncols wm = 1%nat /\
  (forall j, (j < ncols X)%nat ->
     alpha * get wm j 0%nat - rsum (nrows X) (fun i => get X i j * residual X y wm 0 i) = 0) /\
  (forall w', objective X y alpha (colf wm) 0 <= objective X y alpha w' 0) /\
  (forall w', objective X y alpha w' 0 <= objective X y alpha (colf wm) 0 ->
     forall k, (k < ncols X)%nat -> w' k = get wm k 0%nat).
Proof. exact ridge_svd_model_raw. Qed.
Theorem C07_ridge_svd_model_normalized : forall cs minpos eps (X : dm R) (y : list R) alpha wm b,
  0 < minpos -> cs_spec cs -> 0 < eps -> wfR X -> 0 < alpha -> ridge_svd_regular cs minpos eps X y alpha true ->
  ridge_fit ROps (svd_model_solver cs minpos) eps X y alpha true = Some (wm, b) ->
  exists Z mu sd, rescale_x ROps eps X = Some (Z, mu, sd) /\
    nrows wm = ncols X /\ ncols wm = 1%nat /\
    (forall j, (j < ncols X)%nat ->
       alpha * (get wm j 0%nat * nth j sd 0) - rsum (nrows X) (fun i => get Z i j * residual X y wm b i) = 0) /\
    rsum (nrows X) (fun i => residual X y wm b i) = 0 /\
    (forall w' b', objective_std Z y alpha mu sd (colf wm) b <= objective_std Z y alpha mu sd w' b') /\
    (forall w' b', objective_std Z y alpha mu sd w' b' <= objective_std Z y alpha mu sd (colf wm) b ->
       (forall k, (k < ncols X)%nat -> w' k = get wm k 0%nat) /\ b' = b).
Proof. exact ridge_svd_model_norm. Qed.
(* "the Cholesky and SVD solvers agree", both concrete models, both normalisation settings *)
Theorem C07_ridge_cholesky_svd_model_agree : forall cs minpos eps (X : dm R) (y : list R) alpha normalize wc bc ws bs,
  0 < minpos -> cs_spec cs -> 0 < eps -> wfR X -> 0 < alpha ->
  ridge_svd_regular cs minpos eps X y alpha normalize ->
  ridge_fit ROps (cholesky_solve_mut ROps) eps X y alpha normalize = Some (wc, bc) ->
  ridge_fit ROps (svd_model_solver cs minpos) eps X y alpha normalize = Some (ws, bs) ->
  (forall k, (k < ncols X)%nat -> get wc k 0%nat = get ws k 0%nat) /\ bc = bs.
Proof. exact ridge_cholesky_svd_model_agree. Qed.

(* ============================ fit and predict composed ============================ *)
(* predicts X' wm b yh (C07/ProofsPredict.v):  predict ROps X' wm b = Some yh, one value per row of
   X', the i-th being sum_k X'_ik w_k + b.  For the values fit RETURNS, predict returns on every
   matrix with the training number of columns, and the clauses of the property hold verbatim for
   y - predict(X) on the training matrix. *)
Theorem C07_ols_fit_predict : forall solver (X : dm R) (y : list R) wm b,
  wfR X -> (ncols X < nrows X)%nat -> lsq_solver solver ->
  ols_fit ROps solver X y = Some (wm, b) ->
  (forall X', ncols X' = ncols X -> exists yh, predicts X' wm b yh) /\
  exists yh, predicts X wm b yh /\ length yh = length y /\
    (forall j, (j < ncols X)%nat -> rsum (nrows X) (fun i => get X i j * (nth i y 0 - nth i yh 0)) = 0) /\
    rsum (nrows X) (fun i => nth i y 0 - nth i yh 0) = 0.
Proof. exact ols_fit_predict. Qed.
Theorem C07_ridge_fit_predict_raw : forall solver eps (X : dm R) (y : list R) alpha wm b,
  wfR X -> 0 < alpha -> exact_spd_solver solver ->
  ridge_fit ROps solver eps X y alpha false = Some (wm, b) ->
  (forall X', ncols X' = ncols X -> exists yh, predicts X' wm b yh) /\
  exists yh, predicts X wm b yh /\ b = 0 /\
    forall j, (j < ncols X)%nat ->
      alpha * get wm j 0%nat - rsum (nrows X) (fun i => get X i j * (nth i y 0 - nth i yh 0)) = 0.
Proof. exact ridge_fit_predict_raw. Qed.
Theorem C07_ridge_fit_predict_normalized : forall solver eps (X : dm R) (y : list R) alpha wm b,
  0 < eps -> wfR X -> 0 < alpha -> exact_spd_solver solver ->
  ridge_fit ROps solver eps X y alpha true = Some (wm, b) ->
  (forall X', ncols X' = ncols X -> exists yh, predicts X' wm b yh) /\
  exists yh Z mu sd, predicts X wm b yh /\ rescale_x ROps eps X = Some (Z, mu, sd) /\
    (forall j, (j < ncols X)%nat ->
       alpha * (get wm j 0%nat * nth j sd 0) - rsum (nrows X) (fun i => get Z i j * (nth i y 0 - nth i yh 0)) = 0) /\
    rsum (nrows X) (fun i => nth i y 0 - nth i yh 0) = 0.
Proof. exact ridge_fit_predict_norm. Qed.
(* end to end, nothing left to assume about a solver or about fit returning: QR least squares on a
   full-column-rank design, Cholesky ridge for both normalisation settings *)
Theorem C07_ols_qr_fit_predict_total : forall (X : dm R) (y : list R),
  wfR X -> (ncols X < nrows X)%nat -> length y = nrows X -> ols_full_rank X ->
  exists wm b yh, ols_fit ROps (qr_solve_mut ROps) X y = Some (wm, b) /\ predicts X wm b yh /\
    (forall j, (j < ncols X)%nat -> rsum (nrows X) (fun i => get X i j * (nth i y 0 - nth i yh 0)) = 0) /\
    rsum (nrows X) (fun i => nth i y 0 - nth i yh 0) = 0.
Proof. exact ols_qr_fit_predict_total. Qed.
Theorem C07_ridge_cholesky_fit_predict_total : forall eps (X : dm R) (y : list R) alpha normalize,
  0 < eps -> wfR X -> 0 < alpha -> (ncols X < nrows X)%nat -> length y = nrows X ->
  (normalize = true -> forall j, (j < ncols X)%nat -> eps <= col_sd X j) ->
  exists wm b yh, ridge_fit ROps (cholesky_solve_mut ROps) eps X y alpha normalize = Some (wm, b) /\
    predicts X wm b yh.
Proof. exact ridge_cholesky_fit_predict_total. Qed.

(* ============================ the stationarity validator ============================ *)
(* check_stationary (run inside Coq on the implementation's coefficients by the correspondence
   check, at binary64) is sound over the reals: acceptance bounds every gradient component by
   tol times its rounding scale. *)
Theorem C07_check_stationary_sound : forall (Z : dm R) y alpha w c free tol,
  check_stationary ROps Z y alpha w c free tol = true ->
  (forall j, (j < ncols Z)%nat ->
     Rabs (grad_w (nrows Z) (ncols Z) (get Z) (vecf y) alpha (vecf w) c j)
     <= tol * scale_w ROps (nrows Z) (ncols Z) Z y alpha w c j) /\
  (if free then Rabs (grad_c (nrows Z) (ncols Z) (get Z) (vecf y) (vecf w) c)
                <= tol * scale_c ROps (nrows Z) (ncols Z) Z y w c
   else c = 0).
Proof. exact check_stationary_sound. Qed.

(* ================================ satisfiability ================================ *)
(* a concrete design: X = (1, 2, 4)^T, y = (1, 0, 2), alpha = 1 *)
Definition ex_X : dm R := D.mkdm 3 1 [1; 2; 4].
Example C07_ridge_instance : forall eps,
  wfR ex_X /\ (ncols ex_X < nrows ex_X)%nat /\ exact_spd_solver (cholesky_solve_mut ROps) /\
  exists wm b, ridge_fit ROps (cholesky_solve_mut ROps) eps ex_X [1; 0; 2] 1 false = Some (wm, b).
Proof.
  intros eps. assert (Hwf : wfR ex_X) by reflexivity.
  split; [exact Hwf|]. split; [cbn; lia|]. split; [exact cholesky_exact_spd|].
  apply (ridge_fit_raw_total _ eps ex_X [1; 0; 2] 1 Hwf); [lra | cbn; lia | reflexivity | exact cholesky_total_spd].
Qed.
(* the solver contracts are met by the modelled solvers, and a stationary point exists:
   Z = (1, -1)^T, y = (1, -1), alpha = 1, w = 1/3... checked directly: n = 2, p = 1, w = 2/3, c = 0 *)
Example C07_stationary_instance :
  let Z := fun (i k : nat) => if Nat.eqb i 0 then 1 else -1 in
  let y := fun i : nat => if Nat.eqb i 0 then 1 else -1 in
  (forall j, (j < 1)%nat -> grad_w 2 1 Z y 1 (fun _ => 2 / 3) 0 j = 0) /\ grad_c 2 1 Z y (fun _ => 2 / 3) 0 = 0.
Proof.
  cbv zeta. split.
  - intros j Hj. unfold grad_w, res, rsum. cbn. field.
  - unfold grad_c, res, rsum. cbn. field.
Qed.
Example C07_lsq_solver_instances : lsq_solver (qr_solve_mut ROps) /\
  (forall eps fact, svd_postcondition eps fact -> lsq_solver (svd_solve_with ROps fact eps)).
Proof. split; [exact qr_lsq_solver | exact svd_lsq_solver]. Qed.

(* a full-column-rank design: X = (1, 2, 4)^T, so [X 1] has independent columns; by
   C07_ols_qr_returns (not by evaluating the Householder steps over R) the QR fit returns *)
Example C07_ols_full_rank_instance : ols_full_rank ex_X.
Proof.
  intros c c0 H.
  pose proof (H 0%nat ltac:(cbn; lia)) as H0. pose proof (H 1%nat ltac:(cbn; lia)) as H1.
  unfold rsum in H0, H1. cbn in H0, H1.
  assert (E : c 0%nat = 0) by lra.
  split; [|lra]. intros k Hk. cbn in Hk. replace k with 0%nat by lia. exact E.
Qed.
Example C07_ols_instance :
  wfR ex_X /\ (ncols ex_X < nrows ex_X)%nat /\ ols_full_rank ex_X /\
  exists wm b, ols_fit ROps (qr_solve_mut ROps) ex_X [1; 0; 2] = Some (wm, b).
Proof.
  assert (Hwf : wfR ex_X) by reflexivity.
  split; [exact Hwf|]. split; [cbn; lia|]. split; [exact C07_ols_full_rank_instance|].
  apply C07_ols_qr_returns; [exact Hwf | cbn; lia | reflexivity | exact C07_ols_full_rank_instance].
Qed.
(* normalize = true on the same design: col_sd = sqrt (14/9) >= 1 = eps *)
Example C07_ridge_normalized_instance :
  (forall j, (j < ncols ex_X)%nat -> 1 <= col_sd ex_X j) /\
  exists wm b, ridge_fit ROps (cholesky_solve_mut ROps) 1 ex_X [1; 0; 2] 1 true = Some (wm, b).
Proof.
  assert (Hsd : forall j, (j < ncols ex_X)%nat -> 1 <= col_sd ex_X j).
  { intros j Hj. cbn in Hj. replace j with 0%nat by lia.
    rewrite <- sqrt_1 at 1. unfold col_sd. apply sqrt_le_1_alt.
    unfold col_mu, rsum. cbn. lra. }
  split; [exact Hsd|].
  apply C07_ridge_cholesky_returns_normalized; [lra | reflexivity | lra | cbn; lia | reflexivity | exact Hsd].
Qed.
(* fit and predict composed on the same design *)
Example C07_fit_predict_instance :
  (exists wm b yh, ols_fit ROps (qr_solve_mut ROps) ex_X [1; 0; 2] = Some (wm, b) /\ predicts ex_X wm b yh) /\
  (forall normalize, exists wm b yh,
     ridge_fit ROps (cholesky_solve_mut ROps) 1 ex_X [1; 0; 2] 1 normalize = Some (wm, b) /\ predicts ex_X wm b yh).
Proof.
  assert (Hwf : wfR ex_X) by reflexivity. split.
  - destruct (C07_ols_qr_fit_predict_total ex_X [1; 0; 2] Hwf ltac:(cbn; lia) eq_refl C07_ols_full_rank_instance)
      as [wm [b [yh [H1 [H2 _]]]]]. exists wm, b, yh. split; assumption.
  - intros normalize. apply C07_ridge_cholesky_fit_predict_total; [lra | exact Hwf | lra | cbn; lia | reflexivity |].
    intros _. exact (proj1 C07_ridge_normalized_instance).
Qed.
Example C07_aug_gram_instance : exists a G,
  D.h_stack ROps ex_X (D.ones ROps (nrows ex_X) 1) = Some a /\
  D.matmul ROps (D.transpose ROps a) a = Some G /\ pos_def G.
Proof.
  assert (Hwf : wfR ex_X) by reflexivity.
  destruct (aug_gram_exists ex_X Hwf) as [a [G [Ha [HG _]]]]. exists a, G.
  split; [exact Ha|]. split; [exact HG|].
  apply (proj2 (C07_ols_full_rank_iff_aug_gram_spd ex_X a G Hwf Ha HG)). exact C07_ols_full_rank_instance.
Qed.
(* the hypotheses of the SVD-model theorems are satisfiable: one-column systems, where C01 proves
   that svd_mut returns (C01_svd_column_instance): ridge on the single-feature design above (1 x 1
   system), least squares with no feature (intercept only: the augmented design is the column of ones) *)
Example C07_ridge_svd_model_instance : forall eps, cs_spec cs_R /\
  exists minpos, 0 < minpos /\ ridge_svd_regular cs_R minpos eps ex_X [1; 0; 2] 1 false /\
    exists wm b, ridge_fit ROps (svd_model_solver cs_R minpos) eps ex_X [1; 0; 2] 1 false = Some (wm, b).
Proof.
  intros eps. split; [exact cs_R_spec|].
  apply ridge_svd_model_instance; [reflexivity | reflexivity | cbn; lia | reflexivity].
Qed.
Example C07_ols_svd_model_instance :
  let X0 : dm R := D.mkdm 3 0 [] in
  wfR X0 /\ (ncols X0 < nrows X0)%nat /\
  exists minpos, 0 < minpos /\ ols_svd_regular cs_R minpos X0 /\
    exists wm b, ols_fit ROps (svd_model_solver cs_R minpos) X0 [1; 0; 2] = Some (wm, b).
Proof.
  cbv zeta. split; [reflexivity|]. split; [cbn; lia|].
  apply ols_svd_model_instance; [reflexivity | reflexivity | cbn; lia | reflexivity].
Qed.
